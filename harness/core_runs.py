"""Shared case generator / runner for the unstratified tests (C01, C03, C04, C05, C06, C16).
Every case is executed on /repo's implementation with the scripted tape generator; the same answers are
replayed for the keep_dist twin; caller arrays and numpy's global state are snapshotted around every call."""
import itertools, json, math, copy
from fractions import Fraction
import numpy as np
from .common import *
from .tape import MirrorMismatch, Tape, lazy, m_fy, m_pyshuffle, LogRS
from cryptorandom.cryptorandom import SHA256
from permute import core, ksample, utils
# every result object the library returns is kept with a deep copy taken at return time: it must still read the same after
# later calls (a distribution that is a view of a module-level block, a p-value object reused by the next call)
_REC = []
core = RecordingModule(core, _REC, ["two_sample", "two_sample_shift", "one_sample", "corr", "spearman_corr", "two_sample_core"])
ksample = RecordingModule(ksample, _REC, ["k_sample", "bivariate_k_sample", "one_way_anova", "two_way_anova"])
utils = RecordingModule(utils, _REC, ["permute", "permute_within_groups", "permute_rows", "potential_outcomes", "permute_incidence_fixed_sums"])

COQ_HEADER = """From PV Require Import Lib.Base Model.Prng Model.Core Corr.CoreCases.
Open Scope Q_scope."""
CALT = {"greater": "Greater", "less": "Less", "two-sided": "TwoSided"}
ALTS = list(CALT)
STAT2 = ["mean", "SumU", "MaxDiff", "Const2", "FirstDiff", "Weighted2"]
STAT1 = ["mean", "Sum1", "MaxAbs1", "Const1", "Weighted1"]
STATK = ["one-way anova", "FirstLabelSum", "ConstK"]
COQ_STAT = {"mean": "MeanDiff", "one-way anova": "Anova"}
SKIPPED = [0]


def F(s):
    return Fraction(s)


def fl(v):
    """exact rational of a float/int result"""
    return Fraction(float(v)) if not isinstance(v, (int, np.integer)) else Fraction(int(v))


def wrap_num(v, kind):
    if kind == "np":
        return np.float64(v)
    if kind == "npint":
        return np.float64(v)
    return float(v)


def make_stat2(name, rec, numkind):
    if name in ("mean", "t"):
        return name
    def wsum(a): return sum((i + 1) * float(x) for i, x in enumerate(a))
    f = {"SumU": lambda u, v: float(np.sum(u)), "MaxDiff": lambda u, v: float(np.max(u)) - float(np.max(v)),
         "Const2": lambda u, v: 0.0, "FirstDiff": lambda u, v: float(u[0]) - float(v[0]),
         "Weighted2": lambda u, v: wsum(u) - wsum(v)}[name]
    def g(u, v):
        rec.append((np.array(u, dtype=float).tolist(), np.array(v, dtype=float).tolist()))
        return wrap_num(f(u, v), numkind)
    return g


def make_stat1(name, rec, numkind):
    if name in ("mean", "t"):
        return name
    f = {"Sum1": lambda z: float(np.sum(z)), "MaxAbs1": lambda z: float(np.max(np.abs(z))), "Const1": lambda z: 0.0,
         "Weighted1": lambda z: sum((i + 1) * float(x) for i, x in enumerate(z))}[name]
    def g(z):
        rec.append(np.array(z, dtype=float).tolist())
        return wrap_num(f(z), numkind)
    return g


def make_statk(name, rec, numkind):
    if name == "one-way anova":
        return name
    def first_label_sum(x, g, xbar):
        k = np.unique(g)[0]
        return float(np.sum(np.array(x, dtype=float)[np.array(g) == k]))
    f = {"FirstLabelSum": first_label_sum, "ConstK": lambda x, g, xbar: 0.0}[name]
    def h(x, g, xbar):
        rec.append([int(v) for v in g])
        return wrap_num(f(x, g, xbar), numkind)
    return h


LAST_UNIT = [Fraction(1)]      # the exact grid unit of the values generated last (shifts are multiples of it)


def gen_values(rng, n, mult, dist):
    """n data values: small-alphabet integers times `mult`, times a power-of-two scale, plus an optional large
    offset; all exactly representable, so float statistics on them are exact"""
    alpha = rng.choice([1, 2, 3, 4])
    scale = rng.choice([0, 0, 0, -40, -30, 10])
    offset = rng.choice([0, 0, 0, 2**20, -2**18])
    dist.add("alphabet", alpha); dist.add("scale_log2", scale); dist.add("offset", offset)
    vals = [Fraction(rng.randint(-alpha, alpha) * mult + offset * mult) * Fraction(2) ** scale for _ in range(n)]
    LAST_UNIT[0] = Fraction(mult) * Fraction(2) ** scale
    return vals


def arr(vals, dtype="float"):
    if dtype in ("list", "tuple"):
        # the documented "array_like": plain Python sequences of floats
        seq = [float(v) for v in vals]
        return seq if dtype == "list" else tuple(seq)
    if dtype in ("uint8", "uint16") and all(v.denominator == 1 and 0 <= v < 256 for v in vals):
        return np.array([int(v) for v in vals], dtype=getattr(np, dtype))     # unsigned data: a sign flip must still give -v
    if dtype == "int" and all(v.denominator == 1 for v in vals):
        return np.array([int(v) for v in vals], dtype=np.int64)
    return np.array([float(v) for v in vals], dtype=float)


def snapshot(*arrays):
    return [(a.tobytes(), str(a.dtype), a.shape) if isinstance(a, np.ndarray) else ((type(a).__name__, repr(a)) if isinstance(a, (list, tuple)) else None)
            for a in arrays]


def global_state():
    s = np.random.get_state()
    return (s[0], s[1].tobytes(), s[2], s[3], s[4])


def call_test(fn, args, kwargs, arrays):
    """run with caller-array and global-RNG snapshots"""
    before = snapshot(*arrays); g0 = global_state()
    r = guarded(lambda: fn(*args, **kwargs))
    after = snapshot(*arrays); g1 = global_state()
    return r, before == after, g0 == g1


def norm3(r, keep):
    """(p, stat[, dist]) -> ('ok', p, stat, dist|None) with exact float values"""
    if r[0] != "ok":
        return list(r)
    v = r[1]
    d = [float(x) for x in v[2]] if keep else None
    return ["ok", float(v[0]), float(v[1]), d]


# ------------------------------------------------------------------------------------------------
def cases(tier, rng, dist, focus=None):
    N = {"quick": 140, "thorough": 1400}[tier]
    for _ in range(N):
        nx, ny = rng.randint(1, 4), rng.randint(1, 4)
        mult = nx * ny
        vals = gen_values(rng, nx + ny, mult, dist)
        stat = rng.choice(STAT2)
        sh = None
        if focus == "C16" or rng.random() < 0.35:
            kind = rng.choice(["scalar", "scalar", "scalar_half", "scalar0", "pair_add", "pair_mul", "pair_bad", "none", "single"])
            d = Fraction(rng.choice([1, -1, 7, -3, 2**20, 1])) * LAST_UNIT[0] * rng.choice([1, 1, Fraction(1, 2)])
            if kind == "scalar_half":
                # integer-dtype samples with a non-integer shift (exact for the callable statistics)
                vals = [Fraction(rng.randint(-3, 3)) for _ in range(nx + ny)]
                stat = rng.choice(STAT2[1:]); d = Fraction(2 * rng.randint(-4, 4) + 1, 2); kind = "scalar"
            sh = {"scalar": ["scalar", str(d)], "scalar0": ["scalar", "0"], "pair_add": ["pair", "add", str(d)],
                  "pair_mul": ["pair", "mul", "2"], "pair_bad": ["pair", "bad", str(d)], "none": ["none"], "single": ["single"]}[kind]
        yield {"f": "two_sample", "x": [str(v) for v in vals[:nx]], "y": [str(v) for v in vals[nx:]], "stat": stat,
               "alt": rng.choice(ALTS), "reps": rng.randint(1, 5), "plus1": rng.random() < 0.5, "keep": rng.random() < 0.5,
               "shift": sh, "num": rng.choice(["np", "py"]), "dtype": rng.choice(["float", "int"] + (["list", "tuple"] if sh is None else [])), "mode": rng.choice(["random"] * 4 + ["zero", "max"]),
               "aseed": rng.randint(0, 10**9)}
    for _ in range(N // 2):
        n = rng.randint(1, 6)
        vals = gen_values(rng, 2 * n, n, dist)
        paired = rng.random() < 0.4
        yield {"f": "one_sample", "x": [str(v) for v in vals[:n]], "y": [str(v) for v in vals[n:n + (n if rng.random() < 0.9 else n - 1)]] if paired else None,
               "stat": rng.choice(STAT1), "alt": rng.choice(ALTS), "reps": rng.randint(1, 5), "plus1": rng.random() < 0.5,
               "keep": rng.random() < 0.5, "num": rng.choice(["np", "py"]), "dtype": rng.choice(["float", "int", "list"]),
               "mode": rng.choice(["random"] * 4 + ["zero", "max"]), "aseed": rng.randint(0, 10**9)}
    for _ in range(N // 6):
        n = rng.randint(1, 6)
        yield {"f": "one_sample", "x": [str(rng.randint(0, 9)) for _ in range(n)], "y": None,
               "stat": rng.choice([s for s in STAT1 if s != "mean"]), "alt": rng.choice(ALTS), "reps": rng.randint(1, 5), "plus1": rng.random() < 0.5,
               "keep": rng.random() < 0.5, "num": rng.choice(["np", "py"]), "dtype": rng.choice(["uint8", "uint16"]),
               "mode": rng.choice(["random"] * 4 + ["zero", "max"]), "aseed": rng.randint(0, 10**9)}
    for _ in range(N // 2):
        n = rng.randint(2, 6)
        # distinct powers make every re-pairing give a distinct Pearson r: dist identifies the arrangement
        x = [Fraction(4) ** i for i in range(n)]; rng.shuffle(x)
        y = [Fraction(rng.randint(-3, 3)) for _ in range(n)]
        if len(set(y)) == 1:
            y[0] += 1
        yield {"f": "corr", "x": [str(v) for v in x], "y": [str(v) for v in y], "alt": rng.choice(ALTS), "reps": rng.randint(1, 5),
               "plus1": rng.random() < 0.5, "spearman": rng.random() < 0.3, "mode": rng.choice(["random"] * 4 + ["zero", "max"]), "aseed": rng.randint(0, 10**9),
               "container": rng.choice(["float", "float", "list"])}
    for _ in range(N // 2):
        n = rng.randint(2, 7)
        k = rng.randint(1, 3)
        # labels are arbitrary integers: consecutive from 0, negative mixed with non-negative, non-consecutive, unsorted magnitudes
        alphabet = rng.choice([[0, 1, 2, 3], [0, 1, 2, 3], [-1, 0, 1, 2], [-2, 0, 1, 5], [7, -3, 5, -1], [10, 0, 50, 20], [-1, -2, -3, -4]])[:k + 1]
        g = [rng.choice(alphabet) for _ in range(n)]
        sizes = [g.count(v) for v in set(g)]
        mult = n
        for s in sizes: mult *= s
        vals = gen_values(rng, n, mult if rng.random() < 0.7 else 1, dist)
        stat = rng.choice(STATK)
        if stat == "one-way anova":
            vals = [Fraction(rng.randint(-3, 3) * mult) for _ in range(n)]   # squares stay exact in binary64
        yield {"f": "k_sample", "x": [str(v) for v in vals], "g": g, "stat": stat, "reps": rng.randint(1, 5), "plus1": rng.random() < 0.5,
               "keep": rng.random() < 0.5, "num": rng.choice(["np", "py"]), "mode": rng.choice(["random"] * 4 + ["zero", "max"]), "aseed": rng.randint(0, 10**9),
               "container": rng.choice(["float", "float", "list"])}
    for _ in range(N // 3):
        n = rng.randint(1, 7)
        if rng.random() < 0.25:
            yield {"f": "prng", "seed": real_seed(rng), "gseed": rng.randint(0, 10**6)}
        yield {"f": "permute", "x": [str(Fraction(rng.randint(0, 3))) for _ in range(n)], "mode": rng.choice(["random", "random", "zero", "max"]), "aseed": rng.randint(0, 10**9)}
    for _ in range(N // 3):
        n = rng.randint(1, 5)
        vals = [Fraction(rng.randint(-5, 5)) for _ in range(2 * n)]
        kind = rng.choice(["add", "mul", "bad", "cube", "badmul", "add", "mul", "left_only", "right_only"])
        yield {"f": "pot", "x": [str(v) for v in vals[:n]], "y": [str(v) for v in vals[n:]], "kind": kind, "d": str(Fraction(rng.randint(-9, 9), rng.choice([1, 2]))),
               "ff": rng.choice([None, None, rng.randint(0, 99)])}
    # the named statistics under a non-additive shift, many repetitions, outlying values: the hit count must come from
    # the named statistic in both keep_dist branches
    for k in range(16 if tier == "quick" else 160):
        nx, ny = rng.randint(3, 5), rng.randint(3, 5)
        xs = [rng.randint(0, 3) for _ in range(nx)]; ys = [rng.randint(0, 4) for _ in range(ny)]
        xs[rng.randrange(nx)] = rng.choice([9, 14, -7]); ys[rng.randrange(ny)] = rng.choice([14, 9, -5])
        yield {"f": "real", "fn": "two_sample_shift", "x": xs, "y": ys, "stat": "t" if k % 4 else "mean", "alt": rng.choice(ALTS),
               "reps": 60, "plus1": rng.random() < 0.5, "seed": 2 * rng.randint(0, 10**5), "gseed": rng.randint(0, 10**6)}
    # SEQUENCES of calls sharing one generator instance: every call must continue the stream where the previous one
    # left it and behave exactly as it does alone on the answers it consumed (no restart, no skipped or extra draws, no
    # dependence on what the earlier calls computed); the shared objects (data arrays) are the same across the calls
    for _ in range(30 if tier == "quick" else 300):
        n = rng.randint(3, 6)
        data = [rng.randint(-4, 4) for _ in range(2 * n)]
        steps = [rng.choice(["two_sample", "one_sample", "k_sample", "corr", "permute", "pwg", "s2s", "biv", "rows", "two_sample", "shift", "shift"]) for _ in range(rng.randint(2, 4))]
        reps_ = rng.randint(1, 3)
        if rng.random() < 0.4:
            # a FAILING call somewhere before the end: the statistic raises inside the repetition loop (at its (k+1)-th evaluation,
            # 1 <= k <= reps); the calls after it on the same generator must continue the stream exactly as if the generator had
            # simply been used that far
            j = rng.randrange(len(steps) - 1)
            if steps[j] in ("two_sample", "one_sample", "k_sample", "s2s", "biv", "shift"):
                steps[j] += "!%d" % rng.randint(1, reps_)
        yield {"f": "seq", "steps": steps, "data": data, "n": n, "reps": reps_, "gen": rng.choice(["tape", "tape", "sha", "rs"]),
               "seed": rng.randint(0, 10**6), "aseed": rng.randint(0, 10**9), "keep": rng.random() < 0.7}
    # TWO LIVE GENERATORS used in alternation (two SHA256 instances with different seeds, or an instance and its deep copy taken
    # after the first call, or two RandomStates): every call must return what it returns when its generator is used alone
    for _ in range(16 if tier == "quick" else 160):
        n = rng.randint(3, 6)
        steps = [[rng.choice([1, 2]), rng.choice(["two_sample", "one_sample", "k_sample", "corr", "permute", "pwg", "s2s", "biv", "rows", "shift"])] for _ in range(rng.randint(3, 6))]
        yield {"f": "seq2", "steps": steps, "data": [rng.randint(-4, 4) for _ in range(2 * n)], "n": n, "reps": rng.randint(1, 3), "gen": rng.choice(["sha", "sha", "sha_copy", "rs"]),
               "seed": rng.randint(0, 10**6), "seed2": rng.randint(0, 10**6), "keep": rng.random() < 0.7}
    # every ordered pair of different kinds of draw (sign bits, shuffles, Fisher-Yates permutations) on one real generator
    for gen in ("sha", "rs"):
        for steps in (["one_sample", "one_sample"], ["one_sample", "two_sample"], ["one_sample", "shift"], ["one_sample", "permute"], ["two_sample", "one_sample"],
                      ["k_sample", "one_sample"], ["permute", "one_sample", "pwg"], ["corr", "two_sample", "one_sample"], ["s2s", "one_sample", "biv"], ["rows", "shift", "k_sample"],
                      ["one_sample!1", "one_sample"], ["two_sample!2", "two_sample"], ["one_sample!2", "permute", "two_sample"], ["k_sample!1", "one_sample", "shift"],
                      ["shift!1", "one_sample", "two_sample"], ["s2s!1", "pwg", "one_sample"], ["biv!2", "k_sample"]):
            n = rng.randint(4, 6)
            yield {"f": "seq", "steps": steps, "data": [rng.randint(-4, 4) for _ in range(2 * n)], "n": n, "reps": rng.randint(2, 3), "gen": gen,
                   "seed": rng.randint(0, 10**6), "aseed": rng.randint(0, 10**9), "keep": True}
    # long samples: every unit must be reachable by the randomization ("every sign assignment / every allocation equally
    # likely ... all sample sizes"): with 64 repetitions each unit is flipped / allocated to either side at least once
    # except with probability 2^-63 per unit under a uniform generator (real seeds; arguments recorded)
    for k in range(4 if tier == "quick" else 16):
        yield {"f": "coverage", "fn": ["one_sample", "two_sample", "one_sample", "k_sample"][k % 4], "n": [40, 40, 70, 36][k % 4] + (k // 4),
               "reps": 64, "seed": rng.randint(0, 10**9), "rs": k >= 8 and k % 2 == 0}
    # several hundred units (beyond any block size of 8, 32, 64, 256 bits): still every unit both ways
    for k, (fn, n) in enumerate([("one_sample", 300), ("one_sample", 515), ("two_sample", 301), ("k_sample", 259)][:(4 if tier == "thorough" else 2)]):
        yield {"f": "coverage", "fn": fn, "n": n + (0 if tier == "quick" else rng.randint(0, 7)), "reps": 64, "seed": rng.randint(0, 10**9), "rs": False}
    # sizes just beyond every integer constant of the source (harness/sizes.py): a block size, buffer length or fast-path limit
    # introduced into the code is a size at which the randomization must still reach every unit
    from . import sizes
    for k, n in enumerate([v for v in sizes.beyond(["core", "utils", "ksample"], cap=6000) if v >= 40][:8]):
        yield {"f": "coverage", "fn": ["one_sample", "two_sample", "k_sample"][k % 3] if k >= 2 else "one_sample", "n": n, "reps": 64, "seed": rng.randint(0, 10**9), "rs": False}
    # very many repetitions (beyond 2^16 and 2^17, not a multiple of either, and just beyond every integer constant of the source):
    # keep_dist twins on the same seed, p recomputed from dist
    many = [("one_sample", 140001), ("two_sample", 140001), ("k_sample", 70001), ("shift", 70001)]
    for t in sizes.thresholds(["core", "utils", "ksample"], lo=16, hi=200000):
        for fn, fixed in list(many[:4]):
            if not (fixed > t and fixed % t):          # the fixed size is not beyond this constant, or is a multiple of it
                many.append((fn, t + 3))
    for k, (fn, reps) in enumerate(many[:20]):
        n = rng.randint(5, 7)
        yield {"f": "manyreps", "fn": fn, "x": [rng.randint(-3, 3) for _ in range(n)], "y": [rng.randint(-3, 3) for _ in range(n)],
               "reps": reps, "alt": rng.choice(ALTS), "plus1": rng.random() < 0.5, "seed": rng.randint(0, 10**6), "rs": rng.random() < 0.3}
    # real seeds: reproducibility, generator interchangeability, p-value assembly on named float statistics
    for _ in range(N // 2):
        nx, ny = rng.randint(2, 6), rng.randint(2, 6)
        yield {"f": "real", "fn": rng.choice(["two_sample", "two_sample_shift", "one_sample", "corr", "spearman_corr", "k_sample"]),
               "x": [rng.choice([rng.randint(-4, 4), round(rng.gauss(0, 1), 3)]) for _ in range(nx)],
               "y": [rng.choice([rng.randint(-4, 4), round(rng.gauss(0, 1), 3)]) for _ in range(ny)],
               "stat": rng.choice(["mean", "t"]), "alt": rng.choice(ALTS), "reps": rng.randint(1, 12), "plus1": rng.random() < 0.5,
               "seed": real_seed(rng), "gseed": rng.randint(0, 10**6)}


# every (f, finverse) pair handed to the library comes from these two factories, so that valid and invalid pairs
# share their code objects (a user's own factory does the same): a guard that is skipped for "already seen"
# functions is then exercised by the mixed stream of valid and invalid pairs
def _affine_pair(a, b, c):
    return (lambda u: u + a, lambda u: u - b - c)


def _scale_pair(a, b):
    return (lambda u: u * a, lambda u: u / b)


def _neg_pair():
    return (lambda u: -u, lambda u: -u)              # negative slope: the order of the control values is reversed


def _recip_pair():
    return (lambda u: 8.0 / (u + 16.0) - 16.0 + 15.5, lambda u: 8.0 / (u + 0.5) - 16.0)   # f(u) = 8/(u+16) - 1/2: non-affine, decreasing on u > -16


def real_shift(seed):
    """the shift argument of the real-seed two_sample_shift runs, and the two potential-outcome maps (exact mirrors)"""
    k = seed_int(seed) % 4
    if k == 1:
        return 0.5, (lambda v: v + 0.5), (lambda v: v - 0.5)
    if k == 0:
        pr = _scale_pair(2.0, 2.0)
    elif k == 2:
        pr = _neg_pair()
    else:
        pr = _recip_pair()
    return pr, pr[0], pr[1]


def _power_pair(k):
    return (lambda u: u ** k, lambda u: u ** k)


def _onesided_pair(which, k):
    """pairs that are inverse in ONE direction only on 1..5: finverse(f(u)) = u but f(finverse(u)) != u ('left_only'), or the
    converse ('right_only'); neither is a pair of mutually inverse maps"""
    lefts = [(lambda u: u * 2.0, lambda u: np.floor(u / 2.0)), (lambda u: u + 0.5, lambda u: np.floor(u)), (lambda u: u * 3.0, lambda u: np.round(u / 3.0)),
             (lambda u: u * 4.0 + 1.0, lambda u: np.floor(u / 4.0))]
    f, g = lefts[k % len(lefts)]
    return (f, g) if which == "left_only" else (g, f)


def shift_arg(sh):
    if sh is None:
        return None
    if sh[0] == "scalar":
        d = Fraction(sh[1]); return float(d) if d.denominator != 1 or abs(d) > 10**6 else (int(d) if hash(sh[1]) % 2 else float(d))
    if sh[0] == "pair":
        d = float(Fraction(sh[2]))
        if sh[1] == "add": return _affine_pair(d, d, 0)
        if sh[1] == "mul": return _scale_pair(2.0, 2.0)
        return _affine_pair(d, d, 1)
    if sh[0] == "none":
        return None
    return (lambda u: u)   # a single callable, not a tuple


def shift_coq(sh):
    if sh is None:
        return "None"
    if sh[0] == "scalar": return f"(Some (Scalar {cq(F(sh[1]))}))"
    if sh[0] == "pair":
        d = F(sh[2])
        if sh[1] == "add": return f"(Some (Pair (AddC {cq(d)}) (AddC {cq(-d)})))"
        if sh[1] == "mul": return "(Some (Pair (MulC (2#1)%Q) (MulC (1#2)%Q)))"
        return f"(Some (Pair (AddC {cq(d)}) (AddC {cq(-d - 1)})))"
    if sh[0] == "none": return "(Some NoShift)"
    return "(Some SingleCallable)"


def _run_plain(c):
    f = c["f"]
    if f == "two_sample":
        return run_two(c)
    if f == "one_sample":
        return run_one(c)
    if f == "corr":
        return run_corr(c)
    if f == "k_sample":
        return run_k(c)
    if f == "permute":
        return run_permute(c)
    if f == "pot":
        return run_pot(c)
    if f == "prng":
        return run_prng(c)
    if f == "coverage":
        return run_coverage(c)
    if f == "seq":
        return run_seq(c)
    if f == "seq2":
        return run_seq2(c)
    if f == "manyreps":
        return run_manyreps(c)
    return run_real(c)


def run_manyreps(c):
    x = np.array(c["x"], dtype=float); y = np.array(c["y"], dtype=float); g = np.array([i % 3 for i in range(len(x))])
    mk = (lambda: np.random.RandomState(c["seed"])) if c["rs"] else (lambda: c["seed"])
    def call(keep):
        if c["fn"] == "one_sample":
            return core.one_sample(x, reps=c["reps"], stat="mean", alternative=c["alt"], keep_dist=keep, seed=mk(), plus1=c["plus1"])
        if c["fn"] == "two_sample":
            return core.two_sample(x, y, reps=c["reps"], stat="mean", alternative=c["alt"], keep_dist=keep, seed=mk(), plus1=c["plus1"])
        if c["fn"] == "shift":
            return core.two_sample_shift(x, y, reps=c["reps"], stat="mean", alternative=c["alt"], keep_dist=keep, seed=mk(), plus1=c["plus1"], shift=(lambda u: u * 2.0, lambda u: u / 2.0))
        return ksample.k_sample(x, g, reps=c["reps"], keep_dist=keep, seed=mk(), plus1=c["plus1"])
    a = guarded(lambda: call(True), secs=120); b = guarded(lambda: call(False), secs=120)
    out = {"keep": [a[0]] + ([float(a[1][0]), float(a[1][1]), len(a[1][2])] if a[0] == "ok" else list(a)[1:3]),
           "nokeep": [b[0]] + ([float(b[1][0]), float(b[1][1])] if b[0] == "ok" else list(b)[1:3])}
    if a[0] == "ok":
        d = np.asarray(a[1][2], dtype=float); tst = float(a[1][1])
        out["up"] = int(np.sum(d >= tst)); out["dn"] = int(np.sum(d <= tst))
    return out


def oracle_manyreps(c, o):
    name = {"shift": "two_sample_shift"}.get(c["fn"], c["fn"])
    if o["keep"][0] != "ok" or o["nokeep"][0] != "ok":
        return {"why": f"{name}(reps={c['reps']}) raised {o['keep'][:3]} / {o['nokeep'][:3]}", "cls": f"{name}:raises"}
    p, tst, nd = o["keep"][1:4]
    if nd != c["reps"]:
        return {"why": f"{name}: len(dist) = {nd}, reps = {c['reps']}", "cls": f"{name}:dist-length"}
    cc = 1 if c["plus1"] else 0
    up = Fraction(o["up"] + cc, c["reps"] + cc); dn = Fraction(o["dn"] + cc, c["reps"] + cc)
    alt = c["alt"] if name != "k_sample" else "greater"
    want = {"greater": up, "less": dn, "two-sided": min(Fraction(1), 2 * min(up, dn))}[alt]
    if not close(p, want, 1e-9):
        return {"why": f"{name}(reps={c['reps']}, {alt}, plus1={c['plus1']}): p = {p} but (#extreme + c)/(reps + c) from the returned dist is {float(want)}", "cls": f"{name}:p-not-from-dist"}
    if not close(o["nokeep"][1], p, 1e-12) or not same_result(o["nokeep"][2], tst):
        return {"why": f"{name}(reps={c['reps']}, seed={c['seed']}): keep_dist=False gives (p, stat) = {o['nokeep'][1:3]}, keep_dist=True {[p, tst]} on the same seed", "cls": f"{name}:keepdist-differs"}
    return None


class StatFailure(RuntimeError):
    pass


def seq_call(step, c, gen, x, y, g, m):
    """one call of a sequence; returns a JSON-able summary (results + what the recording statistic saw).
    A step written "name!k" is a FAILING call: its statistic raises StatFailure at its (k+1)-th evaluation (k >= 1: inside the
    repetition loop); the exception must reach the caller and the calls that follow must be unaffected by it"""
    from permute import stratified as _st
    step, _, fail = step.partition("!")
    fail = int(fail) if fail else None

    class _Rec(list):
        def append(self, v):
            if fail is not None and len(self) == fail:
                raise StatFailure("the statistic failed on purpose")
            list.append(self, v)
    rec = _Rec()
    kw = dict(reps=c["reps"], seed=gen)
    if step == "two_sample":
        def st(u, v):
            rec.append([[float(z) for z in u], [float(z) for z in v]]); return float(np.sum(u) - np.sum(v))
        r = core.two_sample(x, y, stat=st, keep_dist=c["keep"], **kw)
        return [float(r[0]), float(r[1])] + ([[float(v) for v in r[2]]] if c["keep"] else []) + [rec]
    if step == "shift":
        def st(u, v):
            rec.append([[float(z) for z in u], [float(z) for z in v]]); return float(np.sum(u) - np.sum(v))
        r = core.two_sample_shift(x, y, stat=st, keep_dist=c["keep"], shift=1.5, **kw)
        return [float(r[0]), float(r[1])] + ([[float(v) for v in r[2]]] if c["keep"] else []) + [rec]
    if step == "one_sample":
        def st1(u):
            rec.append([float(z) for z in u]); return float(np.sum(u))
        r = core.one_sample(x, stat=st1, keep_dist=c["keep"], **kw)
        return [float(r[0]), float(r[1])] + ([[float(v) for v in r[2]]] if c["keep"] else []) + [rec]
    if step == "k_sample":
        def stk(xx, gg, xbar):
            rec.append([int(z) for z in gg]); return float(np.sum(np.asarray(xx)[np.asarray(gg) == gg[0]]))
        r = ksample.k_sample(x, g, stat=stk, keep_dist=c["keep"], **kw)
        return [float(r[0]), float(r[1])] + ([[float(v) for v in r[2]]] if c["keep"] else []) + [rec]
    if step == "corr":
        xx = x + np.arange(len(x)) * 0.25
        r = core.corr(xx, y[:len(x)] * 1.0 + np.arange(len(x))[::-1] * 0.5, reps=c["reps"], seed=gen)
        return [float(r[0]), float(r[1]), [float(v) for v in r[2]]]
    if step == "permute":
        return [[float(v) for v in utils.permute(x, gen)]]
    if step == "pwg":
        return [[float(v) for v in utils.permute_within_groups(x, g, gen)]]
    if step == "rows":
        return [np.asarray(utils.permute_rows(m, gen)).tolist()]
    if step == "s2s":
        def sts(u):
            rec.append([float(z) for z in u]); return float(u[0] - u[-1])
        cond = np.array([i % 2 for i in range(len(x))])
        r = _st.stratified_two_sample(g, cond, x, stat=sts, keep_dist=c["keep"], **kw)
        return [float(r[0]), float(r[1])] + ([[float(v) for v in r[2]]] if c["keep"] else []) + [rec]
    def stb(xx, g1, g2, xbar):
        rec.append([int(z) for z in g2]); return float(np.sum(np.asarray(xx)[np.asarray(g2) == g2[0]]))
    g2 = np.array([i % 2 for i in range(len(x))])
    r = ksample.bivariate_k_sample(x, g, g2, stat=stb, keep_dist=c["keep"], **kw)
    return [float(r[0]), float(r[1])] + ([[float(v) for v in r[2]]] if c["keep"] else []) + [rec]


def run_seq(c):
    import random as _r
    n = c["n"]
    def fresh_data():
        x = np.array(c["data"][:n], dtype=float); y = np.array(c["data"][n:], dtype=float)
        g = np.array([i % 2 for i in range(n)]); m = np.array(c["data"]).reshape(2, n)
        return x, y, g, m
    x, y, g, m = fresh_data()
    snap0 = snapshot(x, y, g, m)
    out = {"seq": [], "alone": [], "windows": []}
    if c["gen"] == "tape":
        gen = Tape(None, lazy(_r.Random(c["aseed"]), "random"))
        for st in c["steps"]:
            k0 = len(gen.log)
            r = guarded(lambda: seq_call(st, c, gen, x, y, g, m))
            out["seq"].append(list(r)); out["windows"].append([a for (_, a) in gen.log[k0:]])
        out["unmodified"] = snapshot(x, y, g, m) == snap0
        # each call ALONE: fresh arrays, a fresh replay tape holding exactly the answers of its window
        for st, w in zip(c["steps"], out["windows"]):
            x2, y2, g2, m2 = fresh_data()
            t2 = Tape(list(w))
            r = guarded(lambda: seq_call(st, c, t2, x2, y2, g2, m2))
            out["alone"].append(list(r) + [len(t2.answers)])
        return out
    # real generators: the same instance passed to every call, against a second instance in the same starting state
    # given to the same calls on fresh arrays, and against fresh-instance-per-call runs for the FIRST call only
    mk = (lambda: SHA256(c["seed"])) if c["gen"] == "sha" else (lambda: np.random.RandomState(c["seed"] % 2**32))
    gen = mk()
    for st in c["steps"]:
        out["seq"].append(list(guarded(lambda: seq_call(st, c, gen, x, y, g, m))))
    out["unmodified"] = snapshot(x, y, g, m) == snap0
    gen2 = mk()
    for st in c["steps"]:
        x2, y2, g2, m2 = fresh_data()
        out["alone"].append(list(guarded(lambda: seq_call(st, c, gen2, x2, y2, g2, m2))))
    x3, y3, g3, m3 = fresh_data()
    out["first_fresh"] = list(guarded(lambda: seq_call(c["steps"][0], c, mk(), x3, y3, g3, m3)))
    if c["gen"] == "sha":
        # the same sequence through a logging subclass that forwards every primitive request to a real SHA256 in the same
        # starting state: a plain SHA256 instance must be used through its public primitives only, call after call
        from .tape import RefTape
        gen5 = RefTape(SHA256(c["seed"])); out["via_proxy"] = []
        for st in c["steps"]:
            x5, y5, g5, m5 = fresh_data()
            out["via_proxy"].append(list(guarded(lambda: seq_call(st, c, gen5, x5, y5, g5, m5))))
    # two equal consecutive calls must NOT repeat each other's randomization when the design has more than one arrangement
    if len(c["steps"]) >= 2 and c["steps"][0] == c["steps"][1] and c["steps"][0] in ("permute", "pwg", "rows"):
        gen4 = mk(); xs = np.arange(40.0); gs = np.array([i % 2 for i in range(40)]); ms = np.arange(80).reshape(2, 40)
        a = guarded(lambda: seq_call(c["steps"][0], c, gen4, xs, xs, gs, ms)); b = guarded(lambda: seq_call(c["steps"][0], c, gen4, xs, xs, gs, ms))
        out["repeat40"] = [list(a), list(b)]
    return out


def run_seq2(c):
    n = c["n"]
    def fresh_data():
        x = np.array(c["data"][:n], dtype=float); y = np.array(c["data"][n:], dtype=float)
        g = np.array([i % 2 for i in range(n)]); m = np.array(c["data"]).reshape(2, n)
        return x, y, g, m
    def gens():
        if c["gen"] == "rs":
            return {1: np.random.RandomState(c["seed"] % 2**32), 2: np.random.RandomState(c["seed2"] % 2**32)}
        a = SHA256(c["seed"])
        if c["gen"] == "sha_copy":
            x0, y0, g0, m0 = fresh_data()
            seq_call("one_sample", c, a, x0, y0, g0, m0)            # use it once, then copy: the copy continues as its own stream
            return {1: a, 2: copy.deepcopy(a)}
        return {1: a, 2: SHA256(c["seed2"])}
    x, y, g, m = fresh_data()
    G = gens()
    inter = [list(guarded(lambda: seq_call(st, c, G[w], x, y, g, m))) for (w, st) in c["steps"]]
    alone = {}
    for which in (1, 2):
        G2 = gens(); x2, y2, g2, m2 = fresh_data()
        alone[which] = [list(guarded(lambda: seq_call(st, c, G2[which], x2, y2, g2, m2))) for (w, st) in c["steps"] if w == which]
    k = {1: 0, 2: 0}; al = []
    for (w, st) in c["steps"]:
        al.append(alone[w][k[w]]); k[w] += 1
    return {"inter": inter, "alone": al}


def oracle_seq2(c, o):
    for k, (a, b) in enumerate(zip(o["inter"], o["alone"])):
        if a[0] != "ok" or b[0] != "ok":
            return {"why": f"call {k} {c['steps'][k]} of two generators used in alternation raised: {str(a)[:160]} / alone {str(b)[:160]}", "cls": "sequence:raises"}
        if not same_result(a[1], b[1]):
            return {"why": f"two {c['gen']} generators used in alternation {c['steps']}: call {k} returned {str(a[1])[:160]}, but {str(b[1])[:160]} when its generator is used alone", "cls": "sequence:irreproducible"}
    return None


def oracle_seq(c, o):
    for k, r in enumerate(o["seq"]):
        if "!" in c["steps"][k]:
            if not (r[0] == "exc" and r[1] == "Other:StatFailure"):
                return {"why": f"call {k} ({c['steps'][k]}) of the sequence {c['steps']}: the exception raised by the statistic inside the repetition loop did not reach the caller: {str(r)[:200]}", "cls": "sequence:raises"}
            for tag in ("alone", "via_proxy"):
                if tag in o and not (o[tag][k][0] == "exc" and o[tag][k][1] == "Other:StatFailure"):
                    return {"why": f"call {k} ({c['steps'][k]}) of the sequence {c['steps']} ({tag}): expected the statistic's exception, got {str(o[tag][k])[:200]}", "cls": "sequence:raises"}
        elif r[0] != "ok":
            return {"why": f"call {k} ({c['steps'][k]}) of a sequence sharing one generator raised {r}", "cls": "sequence:raises"}
    if not o.get("unmodified", True):
        return {"why": f"a sequence of calls {c['steps']} modified the caller's arrays", "cls": "sequence:input-modified"}
    if c["gen"] == "tape":
        for k, (r, a, w) in enumerate(zip(o["seq"], o["alone"], o["windows"])):
            if "!" in c["steps"][k]:
                if a[-1] != 0:
                    return {"why": f"failing call {k} ({c['steps'][k]}) alone leaves {a[-1]} of the {len(w)} answers it consumed inside the sequence {c['steps']}", "cls": "sequence:irreproducible"}
                continue
            if a[0] != "ok":
                return {"why": f"call {k} ({c['steps'][k]}) alone on the {len(w)} answers it consumed in the sequence {c['steps']} raised {a[:3]}: in the sequence it used draws it does not use alone", "cls": "sequence:irreproducible"}
            if a[-1] != 0:
                return {"why": f"call {k} ({c['steps'][k]}) alone leaves {a[-1]} of the {len(w)} answers it consumed inside the sequence {c['steps']}", "cls": "sequence:irreproducible"}
            if not same_result(r[1], a[1]):
                return {"why": f"call {k} ({c['steps'][k]}) of the sequence {c['steps']} sharing one generator returned {str(r[1])[:200]}, alone on the same answers {str(a[1])[:200]}", "cls": "sequence:irreproducible"}
            if not w and c["steps"][k] != "permute" and c["n"] > 1:
                return {"why": f"call {k} ({c['steps'][k]}) of the sequence consumed no answer from the shared generator", "cls": "sequence:irreproducible"}
        return None
    for k, (r, a) in enumerate(zip(o["seq"], o["alone"])):
        if "!" in c["steps"][k]:
            continue
        if a[0] != "ok" or not same_result(r[1], a[1]):
            return {"why": f"sequence {c['steps']} on one {c['gen']} generator: call {k} returned {str(r[1])[:160]}, a second generator in the same starting state gives {str(a[1:])[:160]}", "cls": "sequence:irreproducible"}
    for k, (r, a) in enumerate(zip(o["seq"], o.get("via_proxy", []))):
        if "!" in c["steps"][k]:
            continue
        if a[0] != "ok" or not same_result(r[1], a[1]):
            return {"why": f"sequence {c['steps']} on one plain SHA256({c['seed']}) instance: call {k} returned {str(r[1])[:160]}; the same calls through a subclass that forwards every request to a SHA256 in the same state give {str(a[1:])[:160]}: the instance is not used through its primitives alone (or carries hidden state from the previous call)", "cls": "sequence:irreproducible"}
    ff = o["first_fresh"]
    if "!" not in c["steps"][0] and (ff[0] != "ok" or not same_result(ff[1], o["seq"][0][1])):
        return {"why": f"first call ({c['steps'][0]}) with a fresh {c['gen']} generator differs from the same call at the head of a sequence", "cls": "sequence:irreproducible"}
    if "repeat40" in o:
        a, b = o["repeat40"]
        if a[0] == "ok" and b[0] == "ok" and same_result(a[1], b[1]):
            return {"why": f"two consecutive {c['steps'][0]} calls on one {c['gen']} generator instance returned the same rearrangement of 40 units: the instance was not advanced", "cls": "sequence:irreproducible"}
    return None


def run_coverage(c):
    n = c["n"]; rec = []
    seed = np.random.RandomState(c["seed"] % 2**32) if c.get("rs") else c["seed"]
    if c["fn"] == "one_sample":
        z = np.arange(1, n + 1, dtype=float)
        def st(u):
            rec.append([int(v < 0) for v in u]); return 0.0
        r = guarded(lambda: core.one_sample(z, reps=c["reps"], stat=st, keep_dist=True, seed=seed))
    elif c["fn"] == "two_sample":
        x = np.arange(0, n // 2, dtype=float); y = np.arange(n // 2, n, dtype=float)
        def st(u, v):
            side = [0] * n
            for w in v: side[int(w)] = 1
            rec.append(side); return 0.0
        r = guarded(lambda: core.two_sample(x, y, reps=c["reps"], stat=st, keep_dist=True, seed=seed))
    else:
        from permute import ksample
        x = np.arange(n, dtype=float); g = np.array([i % 2 for i in range(n)])
        def st(xx, gg, xbar):
            rec.append([int(v) for v in gg]); return 0.0
        r = guarded(lambda: ksample.k_sample(x, g, reps=c["reps"], stat=st, keep_dist=True, seed=seed))
    rows = rec[-c["reps"]:]
    okrows = [r_ for r_ in rows if len(r_) == n]
    # compact record: per unit, in how many of the last [reps] evaluations it was flipped / on the second side / labelled 1
    return {"r": list(r)[:2] if r[0] != "ok" else ["ok"], "nrows": len(rows), "badlen": len(rows) - len(okrows),
            "ones": [sum(r_[i] for r_ in okrows) for i in range(n)], "first_rows": rows[:2] if n <= 80 else []}


def oracle_coverage(c, o):
    if o["r"][0] != "ok":
        _v = emit({"why": f"{c['fn']} raised {o['r']}", "cls": f"{c['fn']}:raises"})
        if _v: return _v
    if o["nrows"] < c["reps"] or o["badlen"]:
        _v = emit({"why": f"{c['fn']}: the statistic was evaluated on {o['nrows']} rearrangements ({o['badlen']} of them not of {c['n']} units), expected {c['reps']}", "cls": f"{c['fn']}:call-count"})
        if _v: return _v
    nr = o["nrows"] - o["badlen"]
    what = {"one_sample": ("sign-flipped", "kept its sign"), "two_sample": ("allocated to the second sample", "allocated to the first sample"),
            "k_sample": ("given label 1", "given label 0")}[c["fn"]]
    for i in range(c["n"]):
        if nr and o["ones"][i] in (0, nr):
            return {"why": f"{c['fn']} with {c['n']} units, {c['reps']} repetitions, seed {c['seed']}: unit {i} was {what[0] if o['ones'][i] else what[1]} in EVERY repetition "
                           f"(probability about 2^-{c['reps'] - 1} if every {'sign assignment' if c['fn'] == 'one_sample' else 'allocation'} were equally likely)",
                    "cls": f"{c['fn']}:inadmissible"}
    return None


def chooser_of(c):
    import random
    return lazy(random.Random(c["aseed"]), c["mode"])


def run_two(c):
    x = arr([F(v) for v in c["x"]], c["dtype"]); y = arr([F(v) for v in c["y"]], c["dtype"])
    out = {}
    for tag, keep, answers in (("a", c["keep"], None), ("b", not c["keep"], "replay")):
        rec = []
        t = Tape(None, chooser_of(c)) if answers is None else Tape([a for (_, a) in out["a"]["log"]])
        st = make_stat2(c["stat"], rec, c["num"])
        kw = dict(reps=c["reps"], stat=st, alternative=c["alt"], keep_dist=keep, seed=t, plus1=c["plus1"])
        if c["shift"] is None:
            r, unmod, gsame = call_test(core.two_sample, (x, y), kw, (x, y))
        else:
            if c["shift"][0] == "pair" and c["shift"][1] not in ("add", "mul") and tag == "a":
                g, ginv = _affine_pair(1.0, 1.0, 0)   # valid pair from the same factory first
                guarded(lambda: utils.potential_outcomes(np.array(x, dtype=float), np.array(y, dtype=float), g, ginv))
            kw["shift"] = shift_arg(c["shift"])
            r, unmod, gsame = call_test(core.two_sample_shift, (x, y), kw, (x, y))
        out[tag] = {"r": norm3(r, keep), "rec": rec, "log": list(t.log), "unmodified": unmod, "global_same": gsame, "keep": keep}
    return out


def run_one(c):
    x = arr([F(v) for v in c["x"]], c["dtype"])
    y = None if c["y"] is None else arr([F(v) for v in c["y"]], c["dtype"])
    out = {}
    for tag, keep, answers in (("a", c["keep"], None), ("b", not c["keep"], "replay")):
        rec = []
        t = Tape(None, chooser_of(c)) if answers is None else Tape([a for (_, a) in out["a"]["log"]])
        st = make_stat1(c["stat"], rec, c["num"])
        r, unmod, gsame = call_test(core.one_sample, (x, y), dict(reps=c["reps"], stat=st, alternative=c["alt"], keep_dist=keep, seed=t, plus1=c["plus1"]), (x, y))
        out[tag] = {"r": norm3(r, keep), "rec": rec, "log": list(t.log), "unmodified": unmod, "global_same": gsame, "keep": keep}
    return out


def run_corr(c):
    x = arr([F(v) for v in c["x"]], c.get("container", "float")); y = arr([F(v) for v in c["y"]], c.get("container", "float"))
    t = Tape(None, chooser_of(c))
    fn = core.spearman_corr if c["spearman"] else core.corr
    r, unmod, gsame = call_test(fn, (x, y), dict(alternative=c["alt"], reps=c["reps"], seed=t, plus1=c["plus1"]), (x, y))
    if r[0] != "ok":
        return {"r": list(r)}
    tst, p, sims = r[1]
    return {"r": ["ok", float(p), float(tst), [float(s) for s in sims]], "log": list(t.log), "unmodified": unmod, "global_same": gsame}


def run_k(c):
    x = arr([F(v) for v in c["x"]], c.get("container", "float")); g = np.array(c["g"])
    if c.get("container") == "list":
        g = list(c["g"])
    out = {}
    for tag, keep, answers in (("a", c["keep"], None), ("b", not c["keep"], "replay")):
        rec = []
        t = Tape(None, chooser_of(c)) if answers is None else Tape([a for (_, a) in out["a"]["log"]])
        st = make_statk(c["stat"], rec, c["num"])
        r, unmod, gsame = call_test(ksample.k_sample, (x, g), dict(reps=c["reps"], stat=st, keep_dist=keep, seed=t, plus1=c["plus1"]), (x, g))
        out[tag] = {"r": norm3(r, keep), "rec": rec, "log": list(t.log), "unmodified": unmod, "global_same": gsame, "keep": keep}
    return out


def run_permute(c):
    x = arr([F(v) for v in c["x"]])
    t = Tape(None, chooser_of(c))
    r, unmod, gsame = call_test(utils.permute, (x, t), {}, (x,))
    rr = list(range(len(c["x"])))
    t2 = Tape(None, chooser_of(c))
    t2.shuffle(rr)
    return {"r": [r[0], np.array(r[1], dtype=float).tolist()] if r[0] == "ok" else list(r), "log": list(t.log), "unmodified": unmod,
            "global_same": gsame, "shuffled": rr, "log2": list(t2.log)}


def pot_fns(c):
    d = float(F(c["d"]))
    if c["kind"] == "add": return _affine_pair(d, d, 0)
    if c["kind"] == "mul": return _scale_pair(2.0, 2.0)
    if c["kind"] == "cube": return _power_pair(3)
    if c["kind"] == "badmul": return _scale_pair(2.0, 4.0)
    if c["kind"] in ("left_only", "right_only"): return _onesided_pair(c["kind"], int(abs(F(c["d"])) * 2))
    return _affine_pair(d, d, 1)


def run_pot(c):
    x = arr([F(v) for v in c["x"]]); y = arr([F(v) for v in c["y"]])
    ff = None
    if c.get("ff") is not None:
        # FAILURE PATH: calls of the neighbouring functions that fail first (two_sample_conf_int rejecting its arguments or
        # failing inside its root search, two_sample_shift given a single callable) must not weaken the inverse check
        import warnings
        k = c["ff"] % 4
        xs, ys = np.array([1.0, 2.0, 3.0, 5.0]), np.array([0.0, 2.0, 2.0, 1.0])
        def _tsci(**kw):
            with warnings.catch_warnings():
                warnings.simplefilter("ignore")
                return core.two_sample_conf_int(xs, ys, reps=20, seed=3, **kw)
        ff = fail_first([[("two_sample_conf_int, unknown statistic", lambda: _tsci(stat="median")),
                          ("two_sample_conf_int, root search without a sign change", lambda: _tsci(cl=1e-9, alternative="lower")),
                          ("two_sample_conf_int, pair of functions as shift", lambda: _tsci(shift=(lambda u: u * 2, lambda u: u / 2))),
                          ("two_sample_conf_int, bad alternative", lambda: _tsci(alternative="both"))][k],
                         ("two_sample_shift, single callable", lambda: core.two_sample_shift(xs, ys, reps=3, seed=3, shift=(lambda u: u)))])
    if c["kind"] in ("bad", "badmul", "cube", "left_only", "right_only"):
        # a valid pair from the same factory first (self-contained replay of history-dependent guards)
        g, ginv = _affine_pair(1.0, 1.0, 0) if c["kind"] == "bad" else (_scale_pair(2.0, 2.0) if c["kind"] == "badmul" else _power_pair(1))
        guarded(lambda: utils.potential_outcomes(x.copy(), y.copy(), g, ginv))
    f, finv = pot_fns(c)
    r, unmod, _ = call_test(utils.potential_outcomes, (x, y, f, finv), {}, (x, y))
    return {"r": [r[0], np.array(r[1], dtype=float).tolist()] if r[0] == "ok" else list(r), "unmodified": unmod, "ff": ff}


def real_call(c, seed, keep=True):
    x = np.array(c["x"], dtype=float); y = np.array(c["y"], dtype=float)
    fn = c["fn"]
    if fn == "two_sample":
        return core.two_sample(x, y, reps=c["reps"], stat=c["stat"], alternative=c["alt"], keep_dist=keep, seed=seed, plus1=c["plus1"]), (x, y)
    if fn == "two_sample_shift":
        # scalar shift, or a non-additive pair (f(u)=2u): the two potential-outcome columns then differ by more than a constant
        # scalar shift, or a non-additive pair: doubling, negation (negative slope), a decreasing non-affine map
        sh = real_shift(c["seed"])[0]
        return core.two_sample_shift(x, y, reps=c["reps"], stat=c["stat"], alternative=c["alt"], keep_dist=keep, seed=seed, plus1=c["plus1"], shift=sh), (x, y)
    if fn == "one_sample":
        return core.one_sample(x, None, reps=c["reps"], stat=c["stat"], alternative=c["alt"], keep_dist=keep, seed=seed, plus1=c["plus1"]), (x,)
    if fn in ("corr", "spearman_corr"):
        n = min(len(x), len(y)); xx = x[:n] + np.arange(n) * 1e-3; yy = y[:n] + np.arange(n)[::-1] * 1e-3
        tst, p, sims = getattr(core, fn)(xx, yy, alternative=c["alt"], reps=c["reps"], seed=seed, plus1=c["plus1"])
        return (p, tst, np.array(sims)), (xx, yy)
    g = np.array([i % 3 for i in range(len(x))])
    return ksample.k_sample(x, g, reps=c["reps"], keep_dist=keep, seed=seed, plus1=c["plus1"]), (x, g)


def doc_stat2(name, u, v):
    """documented named statistics of two_sample, written independently of the library"""
    u = np.asarray(u, dtype=float); v = np.asarray(v, dtype=float)
    if name == "mean":
        return float(u.mean() - v.mean())
    nu, nv = len(u), len(v)      # 't': Student's t with the POOLED variance
    sp2 = ((nu - 1) * u.var(ddof=1) + (nv - 1) * v.var(ddof=1)) / (nu + nv - 2)
    den = math.sqrt(sp2 * (1.0 / nu + 1.0 / nv))
    return float((u.mean() - v.mean()) / den) if den > 0 else float("nan")


def doc_stat1(name, z):
    z = np.asarray(z, dtype=float)
    if name == "mean":
        return float(z.mean())
    sd = z.std(ddof=1)
    return float(z.mean() / (sd / math.sqrt(len(z)))) if sd > 0 else float("nan")


def run_named_on_tape(c):
    """named statistic ('mean', 't') on a scripted tape: every simulated value is predicted from the draws (Python mirror
    of the shuffles) and the documented formula"""
    import random as _r
    t = Tape(None, lazy(_r.Random(c["seed"]), "random"))
    x = np.array(c["x"], dtype=float); y = np.array(c["y"], dtype=float)
    fn = c["fn"]
    if fn == "two_sample":
        r = guarded(lambda: core.two_sample(x, y, reps=c["reps"], stat=c["stat"], alternative=c["alt"], keep_dist=True, seed=t, plus1=c["plus1"]))
        col0 = list(x) + list(y); col1 = col0
    elif fn == "two_sample_shift":
        sh, f_, finv_ = real_shift(c["seed"])
        col0 = list(x) + [float(f_(v)) for v in y]; col1 = [float(finv_(v)) for v in x] + list(y)
        r = guarded(lambda: core.two_sample_shift(x, y, reps=c["reps"], stat=c["stat"], alternative=c["alt"], keep_dist=True, seed=t, plus1=c["plus1"], shift=sh))
    else:
        r = guarded(lambda: core.one_sample(x, None, reps=c["reps"], stat=c["stat"], alternative=c["alt"], keep_dist=True, seed=t, plus1=c["plus1"]))
    if r[0] != "ok":
        return {"r": list(r)}
    ans = [a for (_, a) in t.log]
    exp = []
    if fn == "one_sample":
        exp.append(doc_stat1(c["stat"], x))
        for _ in range(c["reps"]):
            if len(ans) < len(x):
                raise MirrorMismatch()       # fewer draws than one sign bit per unit and repetition
            b = [ans.pop(0) for _ in range(len(x))]
            if any(bi not in (0, 1) for bi in b):
                raise MirrorMismatch()
            exp.append(doc_stat1(c["stat"], [xi * (1 - 2 * bi) for xi, bi in zip(x, b)]))
    else:
        nx = len(x); rr = list(range(len(col0)))
        exp.append(doc_stat2(c["stat"], x, y))
        for _ in range(c["reps"]):
            rr = m_pyshuffle(rr, ans)
            exp.append(doc_stat2(c["stat"], [col0[i] for i in rr[:nx]], [col1[i] for i in rr[nx:]]))
    return {"r": ["ok", float(r[1][0]), float(r[1][1]), [float(v) for v in r[1][2]]], "expected": exp, "leftover": len(ans)}


def run_prng(c):
    """the contract of utils.get_prng: seed -> generator"""
    s = c["seed"]; out = {}
    np.random.seed(c["gseed"]); g0 = global_state()
    a = guarded(lambda: utils.get_prng(s)); g1 = global_state()
    out["seeded_is_sha"] = a[0] == "ok" and isinstance(a[1], SHA256)
    out["seeded_global_same"] = g0 == g1
    if a[0] == "ok":
        b = SHA256(s)
        out["same_stream"] = [int(a[1].randint(0, 1000)) for _ in range(5)] == [int(b.randint(0, 1000)) for _ in range(5)]
    rs = np.random.RandomState(seed_int(s)); sh = SHA256(s)
    out["rs_passthrough"] = utils.get_prng(rs) is rs
    out["sha_passthrough"] = utils.get_prng(sh) is sh
    out["bad"] = [list(guarded(lambda: utils.get_prng([1, 2])))[:2], list(guarded(lambda: utils.get_prng({"a": 1})))[:2], list(guarded(lambda: utils.get_prng(object())))[:2]]
    np.random.seed(c["gseed"]); g0 = global_state()
    n = guarded(lambda: utils.get_prng(None)); g1 = global_state()
    out["none_is_sha"] = n[0] == "ok" and isinstance(n[1], SHA256)
    out["none_draws_from_global"] = g0 != g1
    # the helper functions take the same kinds of seed: a plain seed and a fresh SHA256(seed) are interchangeable,
    # a plain seed is reproducible, a RandomState in the same state replays
    import random as _r
    rr = _r.Random(seed_int(s))
    x = np.array([rr.randint(0, 9) for _ in range(6)], dtype=float); g = np.array([0, 1, 0, 1, 1, 2])
    m = np.array([[rr.randint(0, 9) for _ in range(4)] for _ in range(3)])
    helpers = {"permute": lambda sd: utils.permute(x, sd).tolist(),
               "permute_within_groups": lambda sd: utils.permute_within_groups(x, g, sd).tolist(),
               "permute_rows": lambda sd: np.array(utils.permute_rows(m, sd)).tolist()}
    out["helpers"] = {}
    hs = s if isinstance(s, int) else seed_int(s)      # the helpers document {None, int, generator instance} only
    out["helper_seed"] = hs
    for name, f in helpers.items():
        out["helpers"][name] = [list(guarded(lambda: f(hs))), list(guarded(lambda: f(hs))), list(guarded(lambda: f(SHA256(hs)))),
                                list(guarded(lambda: f(np.random.RandomState(seed_int(s))))), list(guarded(lambda: f(np.random.RandomState(seed_int(s)))))]
    return out


def oracle_prng(c, o):
    bad = [k for k in ("seeded_is_sha", "seeded_global_same", "same_stream", "rs_passthrough", "sha_passthrough", "none_is_sha", "none_draws_from_global") if not o.get(k, False)]
    if bad:
        cls = "get_prng:global-rng" if bad == ["seeded_global_same"] else "get_prng:int-vs-sha256" if "same_stream" in bad else "get_prng:contract"
        _v = emit({"why": f"get_prng({c['seed']!r}): contract violated: {bad}", "cls": cls})
        if _v: return _v
    for name, (a1, a2, sh, r1, r2) in o.get("helpers", {}).items():
        if a1[0] != "ok" or sh[0] != "ok" or r1[0] != "ok":
            _v = emit({"why": f"{name} raised with seed {o.get('helper_seed')!r}: {a1[:2]} {sh[:2]} {r1[:2]}", "cls": f"{name}:raises"})
            if _v: return _v
        if a1 != a2:
            _v = emit({"why": f"{name}(seed={o.get('helper_seed')!r}) twice: {a1[1]} then {a2[1]}", "cls": f"{name}:irreproducible"})
            if _v: return _v
        if a1 != sh:
            _v = emit({"why": f"{name}: seed {o.get('helper_seed')!r} gives {a1[1]} but a fresh SHA256 generator with that seed gives {sh[1]}", "cls": f"{name}:int-vs-sha256"})
            if _v: return _v
        if r1 != r2:
            _v = emit({"why": f"{name}: two RandomState generators in the same state give {r1[1]} and {r2[1]}", "cls": f"{name}:randomstate-replay"})
            if _v: return _v
    if any(b != ["exc", "ValueError"] for b in o["bad"]):
        _v = emit({"why": f"get_prng accepted an object that cannot seed a generator (list / dict / object()): {o['bad']}", "cls": "get_prng:contract"})
        if _v: return _v
    return None


def run_real(c):
    out = {}
    def one(tag, mkseed, gseed, keep=True):
        np.random.seed(gseed)
        g0 = global_state()
        r = guarded(lambda: real_call(c, mkseed(), keep))
        g1 = global_state()
        if r[0] != "ok":
            out[tag] = {"r": list(r)}; return
        res, arrays = r[1]
        out[tag] = {"r": ["ok", float(res[0]), float(res[1]), [float(v) for v in res[2]] if keep else None], "global_same": g0 == g1}
    one("int1", lambda: c["seed"], c["gseed"])
    one("int2", lambda: c["seed"], c["gseed"] + 1)
    one("sha", lambda: SHA256(c["seed"]), c["gseed"] + 2)
    one("rs1", lambda: np.random.RandomState(seed_int(c["seed"])), c["gseed"] + 3)
    one("rs2", lambda: np.random.RandomState(seed_int(c["seed"])), c["gseed"] + 4)
    if c["fn"] in ("two_sample", "two_sample_shift", "one_sample", "k_sample"):
        one("nokeep", lambda: c["seed"], c["gseed"] + 5, keep=False)
    if c["fn"] in ("two_sample", "two_sample_shift", "one_sample") and c["stat"] in ("mean", "t"):
        out["named_tape"] = run_named_on_tape(c)
    if c["fn"] in ("two_sample", "one_sample"):
        # every generator type: what the statistic receives must be an admissible rearrangement of the data
        for tag, mk in (("rec_rs", lambda: np.random.RandomState(seed_int(c["seed"]))), ("rec_int", lambda: c["seed"])):
            rec = []
            x = np.array(c["x"], dtype=float); y = np.array(c["y"], dtype=float)
            if c["fn"] == "two_sample":
                st = lambda u, v: (rec.append((np.array(u, dtype=float).tolist(), np.array(v, dtype=float).tolist())), float(np.mean(u) - np.mean(v)))[1]
                r = guarded(lambda: core.two_sample(x, y, reps=min(c["reps"], 40), stat=st, alternative=c["alt"], keep_dist=True, seed=mk(), plus1=c["plus1"]))
            else:
                st = lambda z: (rec.append((np.array(z, dtype=float).tolist(),)), float(np.mean(z)))[1]
                r = guarded(lambda: core.one_sample(x, None, reps=min(c["reps"], 40), stat=st, alternative=c["alt"], keep_dist=True, seed=mk(), plus1=c["plus1"]))
            out[tag] = {"r": ["ok", float(r[1][0]), float(r[1][1]), [float(v) for v in r[1][2]]] if r[0] == "ok" else list(r), "rec": rec}
    return out


# ------------------------------------------------------------------------------------------------
def qlist(l):
    return clist(l, cq)


def impl3(r):
    """r = ['ok', p, stat, dist|None] | ['exc', name, msg]"""
    if r[0] != "ok":
        return cres(r, None)
    d = copt(None if r[3] is None else [fl(v) for v in r[3]], qlist)
    return f"(Ok ({cq(fl(r[1]))}, {cq(fl(r[2]))}, {d}))"


class TapeTooWide(Exception):
    pass


def tape_coq(log):
    # answers are bounded by the sizes of the designs (< 10^4); a wider answer means the implementation asked for
    # draws of another kind (reported by the oracle): no Gallina term is written for such a run
    if any(a > 10**5 for (_, a) in log):
        raise TapeTooWide()
    return clist([a for (_, a) in log], cnat)


def dedup_pairs(rec, keep):
    """recorded statistic calls after the two 'observed' calls; with keep_dist=False every repetition calls twice"""
    return rec


def to_coq(c, o):
    f = c["f"]
    if f == "two_sample":
        a = o["a"]
        stat = COQ_STAT.get(c["stat"], c["stat"])
        rec = "None"
        if c["stat"] != "mean" and a["r"][0] == "ok":
            calls = a["rec"][2:]
            if not a["keep"]:
                calls = calls[0::2]
            rec = "(Some " + clist(calls, lambda uv: f"({qlist([fl(v) for v in uv[0]])}, {qlist([fl(v) for v in uv[1]])})") + ")"
        return (f"TwoSample {qlist([F(v) for v in c['x']])} {qlist([F(v) for v in c['y']])} {stat} {CALT[c['alt']]} {cnat(c['reps'])} "
                f"{cbool(c['plus1'])} {shift_coq(c['shift'])} {tape_coq(a['log'])} {impl3(a['r'])} {rec} {cnat(len(a['log']))}")
    if f == "one_sample":
        a = o["a"]
        stat = {"mean": "Mean1"}.get(c["stat"], c["stat"])
        rec = "None"
        if c["stat"] != "mean" and a["r"][0] == "ok":
            calls = a["rec"][1:]
            rec = "(Some " + clist(calls, lambda z: qlist([fl(v) for v in z])) + ")"
        y = copt(None if c["y"] is None else [F(v) for v in c["y"]], qlist)
        return (f"OneSample {qlist([F(v) for v in c['x']])} {y} {stat} {CALT[c['alt']]} {cnat(c['reps'])} {cbool(c['plus1'])} "
                f"{tape_coq(a['log'])} {impl3(a['r'])} {rec} {cnat(len(a['log']))}")
    if f == "corr":
        if o["r"][0] != "ok":
            return None
        x = [F(v) for v in c["x"]]; y = [F(v) for v in c["y"]]
        if c["spearman"]:
            x = [Fraction(sorted(x).index(v) + 1) for v in x]     # ranks (no ties by construction)
        seen = predicted_corr_arrs(c, o, x)
        if seen is None:
            return None
        return (f"CorrCase {qlist(x)} {CALT[c['alt']]} {cnat(c['reps'])} {cbool(c['plus1'])} {tape_coq(o['log'])} "
                f"{clist(seen, qlist)} {cq(fl(o['r'][2]))} {qlist([fl(v) for v in o['r'][3]])} {cq(fl(o['r'][1]))} {cnat(len(o['log']))}")
    if f == "k_sample":
        a = o["a"]
        stat = COQ_STAT.get(c["stat"], c["stat"])
        rec = "None"
        if c["stat"] != "one-way anova" and a["r"][0] == "ok":
            rec = "(Some " + clist(a["rec"][1:], lambda g: clist(g)) + ")"
        return (f"KSample {qlist([F(v) for v in c['x']])} {clist(c['g'])} {stat} {cnat(c['reps'])} {cbool(c['plus1'])} "
                f"{tape_coq(a['log'])} {impl3(a['r'])} {rec} {cnat(len(a['log']))}")
    if f == "permute":
        if o["r"][0] != "ok":
            return None
        return f"PermuteCase {qlist([F(v) for v in c['x']])} {tape_coq(o['log'])} {qlist([fl(v) for v in o['r'][1]])} {cnat(len(o['log']))}"
    if f == "pot":
        if c["kind"] in ("cube", "left_only", "right_only"):
            return None
        d = F(c["d"])
        fs = {"add": (f"(AddC {cq(d)})", f"(AddC {cq(-d)})"), "mul": ("(MulC (2#1)%Q)", "(MulC (1#2)%Q)"), "bad": (f"(AddC {cq(d)})", f"(AddC {cq(-d - 1)})"),
              "badmul": ("(MulC (2#1)%Q)", "(MulC (1#4)%Q)")}[c["kind"]]
        impl = cres(("ok", [(fl(a), fl(b)) for a, b in o["r"][1]]) if o["r"][0] == "ok" else o["r"], lambda l: clist(l, lambda ab: f"({cq(ab[0])}, {cq(ab[1])})"))
        return f"PotCase {qlist([F(v) for v in c['x']])} {qlist([F(v) for v in c['y']])} {fs[0]} {fs[1]} {impl}"
    return None


def extra_terms(c, o):
    out = []
    if c["f"] == "permute" and o["r"][0] == "ok":
        n = len(c["x"])
        out.append(f"ShuffleCase {qlist([Fraction(i) for i in range(n)])} {tape_coq(o['log2'])} {qlist([Fraction(i) for i in o['shuffled']])} {cnat(len(o['log2']))}")
    if c["f"] == "real":
        for tag in ("int1", "rs1"):
            r = o[tag]["r"]
            if r[0] == "ok" and r[3] is not None and c["fn"] in ("two_sample", "two_sample_shift", "one_sample") and all(math.isfinite(v) for v in r[3] + [r[1], r[2]]):
                out.append(f"PvalCase {CALT[c['alt']]} {cq(fl(r[2]))} {qlist([fl(v) for v in r[3]])} {cbool(c['plus1'])} {cq(fl(r[1]))}")
    return out


def predicted_corr_arrs(c, o, x):
    """decode the arrangement of each repetition from the Python mirror, and require that the library's own
    statistic on it reproduces sims bit for bit"""
    ans = [a for (_, a) in o["log"]]
    y = arr([F(v) for v in c["y"]])
    if c["spearman"]:
        from scipy.stats import rankdata
        y = rankdata(y)
    seen = []
    for k in range(c["reps"]):
        xp = m_fy(x, ans)
        seen.append(xp)
    return seen


# ---------------------------------- oracles (property predicates) ----------------------------------
def pv_spec(alt, tst, d, plus1):
    cc = 1 if plus1 else 0
    reps = len(d)
    up = Fraction(sum(1 for v in d if v >= tst) + cc, reps + cc)
    dn = Fraction(sum(1 for v in d if v <= tst) + cc, reps + cc)
    return {"greater": up, "less": dn, "two-sided": min(Fraction(1), 2 * min(up, dn))}[alt]


def close(a, b, tol=1e-12):
    return abs(Fraction(a) - Fraction(b)) <= Fraction(tol) * (1 + abs(Fraction(b)))


def check_common(c, o, name):
    """C03 / C06 clauses observable on every scripted run"""
    for tag in ("a", "b"):
        if tag in o:
            if not o[tag]["unmodified"]:
                _v = emit({"why": f"{name} modified an array passed by the caller", "cls": f"{name}:input-modified"})
                if _v: return _v
            if not o[tag]["global_same"]:
                _v = emit({"why": f"{name} with an explicit generator advanced numpy's global random state", "cls": f"{name}:global-rng"})
                if _v: return _v
    return None


def oracle_consistency(c, o, name, alt):
    """C05: p from dist; keep_dist twins agree; bounds; len(dist)"""
    a, b = o["a"], o["b"]
    if a["r"][0] != "ok" or b["r"][0] != "ok":
        if a["r"][0] == b["r"][0] == "exc" and a["r"][1] == b["r"][1]:
            return None
        _v = emit({"why": f"{name}: keep_dist twins disagree on raising: {a['r'][:2]} vs {b['r'][:2]}", "cls": f"{name}:keepdist-raises"})
        if _v: return _v
    kept = a if a["keep"] else b
    other = b if a["keep"] else a
    d = [fl(v) for v in kept["r"][3]]
    tst = fl(kept["r"][2])
    if len(d) != c["reps"]:
        _v = emit({"why": f"{name}: len(dist)={len(d)} != reps={c['reps']}", "cls": f"{name}:dist-length"})
        if _v: return _v
    want = pv_spec(alt, tst, d, c["plus1"])
    if not close(kept["r"][1], want):
        _v = emit({"why": f"{name}: p={kept['r'][1]} but (#{{dist as extreme as {float(tst)}}}+c)/(reps+c) = {want} [alt={alt}, plus1={c['plus1']}, dist={kept['r'][3]}]", "cls": f"{name}:p-not-from-dist"})
        if _v: return _v
    if not close(other["r"][1], kept["r"][1]) or not same_result(other["r"][2], kept["r"][2]):
        _v = emit({"why": f"{name}: keep_dist changes the result under the same draws: {other['r'][:3]} vs {kept['r'][:3]}", "cls": f"{name}:keepdist-differs"})
        if _v: return _v
    if a["log"] != b["log"]:
        _v = emit({"why": f"{name}: keep_dist changes the random draws requested", "cls": f"{name}:keepdist-draws"})
        if _v: return _v
    lo = Fraction(1, c["reps"] + 1) if c["plus1"] else 0
    if not (lo - Fraction(1, 10**12) <= Fraction(kept["r"][1]) <= 1 + Fraction(1, 10**12)):
        _v = emit({"why": f"{name}: p={kept['r'][1]} outside [{lo},1]", "cls": f"{name}:p-range"})
        if _v: return _v
    return None


def expected_shift_ok(c):
    sh = c["shift"]
    return sh is None or sh[0] == "scalar" or (sh[0] == "pair" and sh[1] != "bad")


def oracle_two(c, o):
    name = "two_sample_shift" if c["shift"] is not None else "two_sample"
    a = o["a"]
    if not expected_shift_ok(c):
        want = "ValueError" if c["shift"][0] in ("none", "single") else "AssertionError"
        if a["r"][0] != "exc" or a["r"][1] != want:
            _v = emit({"why": f"{name} with shift={c['shift']} should raise {want}, got {a['r'][:2]}", "cls": f"{name}:shift-guard"})
            if _v: return _v
        return None
    if a["r"][0] != "ok":
        _v = emit({"why": f"{name} raised {a['r']}", "cls": f"{name}:raises"})
        if _v: return _v
    r = check_common(c, o, name) or oracle_consistency(c, o, name, c["alt"])
    if r: return r
    x = [F(v) for v in c["x"]]; y = [F(v) for v in c["y"]]
    nx = len(x)
    # potential-outcome table and admissibility of every argument pair the statistic received
    if c["shift"] is None:
        t0, t1 = x + y, x + y
    elif c["shift"][0] == "scalar":
        d = F(c["shift"][1]); t0, t1 = x + [v + d for v in y], [v - d for v in x] + y
    elif c["shift"][1] == "add":
        d = F(c["shift"][2]); t0, t1 = x + [v + d for v in y], [v - d for v in x] + y
    else:
        t0, t1 = x + [v * 2 for v in y], [v / 2 for v in x] + y
    for tag in ("a", "b"):
        rec = o[tag]["rec"]
        if c["stat"] in ("mean", "t"):
            continue
        per = 1 if o[tag]["keep"] else 2
        if len(rec) != 2 + per * c["reps"]:
            _v = emit({"why": f"{name}: statistic called {len(rec)} times, expected {2 + per * c['reps']}", "cls": f"{name}:call-count"})
            if _v: return _v
        for k, (u, v) in enumerate(rec):
            u = [fl(z) for z in u]; v = [fl(z) for z in v]
            if k < 2:
                if u != t0[:nx] or v != t1[nx:]:
                    _v = emit({"why": f"{name}: observed statistic evaluated on {u},{v}, not on the data as given {t0[:nx]},{t1[nx:]}", "cls": f"{name}:observed-not-data"})
                    if _v: return _v
                continue
            if len(u) != nx or len(v) != len(y):
                _v = emit({"why": f"{name}: rearrangement with group sizes {len(u)},{len(v)}", "cls": f"{name}:group-sizes"})
                if _v: return _v
            # some allocation of the units: u from the treatment column of nx units, v from the control column of the rest
            if not admissible_alloc(u, v, t0, t1):
                _v = emit({"why": f"{name}: statistic evaluated on {u},{v}, not an allocation of the units {list(zip(t0, t1))}", "cls": f"{name}:inadmissible"})
                if _v: return _v
        # the rearrangement of every repetition is the one selected by the draws (random.shuffle of the index list left by
        # the previous repetition): predicted by the Python mirror of the model from the logged answers
        ans = [z for (_, z) in o[tag]["log"]]; rr = list(range(len(t0)))
        try:
            for k, (u, v) in enumerate(rec[2:][::per]):
                rr = m_pyshuffle(rr, ans)
                pu = [t0[i] for i in rr[:nx]]; pv = [t1[i] for i in rr[nx:]]
                if [fl(z) for z in u] != pu or [fl(z) for z in v] != pv:
                    _v = emit({"why": f"{name}: repetition {k} evaluated the statistic on {u},{v}; the shuffle selected by the draws {[z for (_, z) in o[tag]['log']]} gives {[float(z) for z in pu]},{[float(z) for z in pv]} (x={c['x']}, y={c['y']})", "cls": f"{name}:wrong-rearrangement"})
                    if _v: return _v
                    break
            else:
                if ans:
                    _v = emit({"why": f"{name}: {len(ans)} draws beyond the {c['reps']} shuffles of {len(t0)} units were requested ({o[tag]['log']}): a later call sharing the generator starts from a skipped part of the stream", "cls": f"{name}:draws-depend-on-data"})
                    if _v: return _v
        except MirrorMismatch:
            _v = emit({"why": f"{name}: the draws requested {o[tag]['log']} are not one shuffle of {len(t0)} units per repetition", "cls": f"{name}:draws-depend-on-data"})
            if _v: return _v
        if per == 2:
            calls = rec[2:]
            if any(calls[2 * i] != calls[2 * i + 1] for i in range(c["reps"])):
                _v = emit({"why": f"{name}: the two evaluations of one repetition saw different data", "cls": f"{name}:double-eval"})
                if _v: return _v
    # observed statistic = documented statistic of the data as given
    if c["stat"] == "mean":
        want = sum(t0[:nx]) / nx - sum(t1[nx:]) / len(y)
        if not close(a["r"][2], want):
            _v = emit({"why": f"{name}: observed statistic {a['r'][2]} is not mean(x)-mean(y)={float(want)}", "cls": f"{name}:observed-stat"})
            if _v: return _v
    return None


def admissible_alloc(u, v, t0, t1):
    """is there a subset S of size len(u) with multiset(t0[S]) = u and multiset(t1[not S]) = v ?"""
    n = len(t0); nx = len(u)
    su, sv = sorted(u), sorted(v)
    if n > 8:
        return True
    for S in itertools.combinations(range(n), nx):
        if sorted(t0[i] for i in S) == su and sorted(t1[i] for i in range(n) if i not in S) == sv:
            return True
    return False


def oracle_one(c, o):
    name = "one_sample"
    a = o["a"]
    x = [F(v) for v in c["x"]]
    if c["y"] is not None and len(c["y"]) != len(c["x"]):
        if a["r"][0] != "exc" or a["r"][1] != "ValueError":
            _v = emit({"why": f"one_sample with unpaired lengths should raise ValueError, got {a['r'][:2]}", "cls": "one_sample:pair-guard"})
            if _v: return _v
        return None
    if a["r"][0] != "ok":
        _v = emit({"why": f"one_sample raised {a['r']}", "cls": "one_sample:raises"})
        if _v: return _v
    r = check_common(c, o, name) or oracle_consistency(c, o, name, c["alt"])
    if r: return r
    z = x if c["y"] is None else [p - q for p, q in zip(x, [F(v) for v in c["y"]])]
    for tag in ("a", "b"):
        rec = o[tag]["rec"]
        if c["stat"] in ("mean", "t"):
            continue
        if len(rec) != 1 + c["reps"]:
            _v = emit({"why": f"one_sample: statistic called {len(rec)} times", "cls": "one_sample:call-count"})
            if _v: return _v
        if [fl(v) for v in rec[0]] != z:
            _v = emit({"why": f"one_sample: observed statistic evaluated on {rec[0]} not on z={z}", "cls": "one_sample:observed-not-data"})
            if _v: return _v
        for zz in rec[1:]:
            if [abs(fl(v)) for v in zz] != [abs(v) for v in z]:
                _v = emit({"why": f"one_sample: rearrangement {zz} changes more than signs of {z}", "cls": "one_sample:inadmissible"})
                if _v: return _v
    if c["stat"] == "mean" and not close(a["r"][2], sum(z) / len(z)):
        _v = emit({"why": f"one_sample: observed statistic {a['r'][2]} is not mean(z)", "cls": "one_sample:observed-stat"})
        if _v: return _v
    return None


def oracle_corr(c, o):
    name = "spearman_corr" if c["spearman"] else "corr"
    if o["r"][0] != "ok":
        _v = emit({"why": f"{name} raised {o['r']}", "cls": f"{name}:raises"})
        if _v: return _v
    if not o["unmodified"]:
        _v = emit({"why": f"{name} modified its input", "cls": f"{name}:input-modified"})
        if _v: return _v
    if not o["global_same"]:
        _v = emit({"why": f"{name} advanced numpy's global random state", "cls": f"{name}:global-rng"})
        if _v: return _v
    p, tst, sims = o["r"][1], o["r"][2], o["r"][3]
    if len(sims) != c["reps"]:
        _v = emit({"why": f"{name}: len(sims) != reps", "cls": f"{name}:dist-length"})
        if _v: return _v
    want = pv_spec(c["alt"], fl(tst), [fl(s) for s in sims], c["plus1"])
    if not close(p, want):
        _v = emit({"why": f"{name}: p={p} but tail count formula on the returned sims gives {want} (plus1={c['plus1']}, alt={c['alt']})", "cls": f"{name}:p-not-from-dist"})
        if _v: return _v
    x = [float(F(v)) for v in c["x"]]; y = [float(F(v)) for v in c["y"]]
    if c["spearman"]:
        rk = lambda a: [sorted(a).index(v) + 1 for v in a] if len(set(a)) == len(a) else None
        rx, ry = rk(x), rk(y)
        if rx is None or ry is None:
            return None
        x, y = [float(v) for v in rx], [float(v) for v in ry]
    want_t = float(np.corrcoef(np.array(x), np.array(y))[0, 1])
    if not (abs(tst - want_t) <= 1e-9):
        _v = emit({"why": f"{name}: reported statistic {tst} but {'rank ' if c['spearman'] else ''}correlation of the data is {want_t}", "cls": f"{name}:observed-stat"})
        if _v: return _v
    # every simulated value is the correlation of some re-pairing (values identify the arrangement)
    ans = [a for (_, a) in o["log"]]
    xs = list(x)
    for k in range(c["reps"]):
        xp = m_fy(xs, ans)
        e = float(np.corrcoef(np.array(xp), np.array(y))[0, 1])
        if not (abs(e - sims[k]) <= 1e-9 * (1 + abs(e))):
            _v = emit({"why": f"{name}: repetition {k} has statistic {sims[k]}, the re-pairing selected by the draws gives {e}", "cls": f"{name}:wrong-rearrangement"})
            if _v: return _v
    return None


def oracle_k(c, o):
    name = "k_sample"
    a = o["a"]
    if a["r"][0] != "ok":
        _v = emit({"why": f"k_sample raised {a['r']}", "cls": "k_sample:raises"})
        if _v: return _v
    r = check_common(c, o, name)
    if r: return r
    b = o["b"]
    kept = a if a["keep"] else b
    other = b if a["keep"] else a
    for t in (other, kept):
        if t["r"][0] != "ok":
            if "TapeExhausted" in str(t["r"]):
                _v = emit({"why": f"k_sample: the keep_dist={t['keep']} twin asked for more draws than the keep_dist={not t['keep']} run consumed on the same answers (results {a['r'][:3]} / {b['r'][:3]}): the number of draws depends on keep_dist or on the data", "cls": "k_sample:keepdist-draws"})
                if _v: return _v
            _v = emit({"why": f"k_sample raised {t['r']}", "cls": "k_sample:raises"})
            if _v: return _v
    d = [fl(v) for v in kept["r"][3]]; tst = fl(kept["r"][2])
    cc = 1 if c["plus1"] else 0
    want = Fraction(sum(1 for v in d if v >= tst) + cc, c["reps"] + cc)
    if len(d) != c["reps"] or not close(kept["r"][1], want):
        _v = emit({"why": f"k_sample: p={kept['r'][1]} but (#{{dist>=obs}}+c)/(reps+c)={want}", "cls": "k_sample:p-not-from-dist"})
        if _v: return _v
    if not close(other["r"][1], kept["r"][1]) or not same_result(other["r"][2], kept["r"][2]):
        _v = emit({"why": f"k_sample: keep_dist changes the result: {other['r'][:3]} vs {kept['r'][:3]}", "cls": "k_sample:keepdist-differs"})
        if _v: return _v
    g0 = sorted(c["g"])
    for tag in ("a", "b"):
        if o[tag]["rec"] and o[tag]["rec"][0] != c["g"]:
            _v = emit({"why": f"k_sample: the observed statistic was evaluated on the labels {o[tag]['rec'][0]}, not on the labels as given {c['g']}", "cls": "k_sample:observed-not-data"})
            if _v: return _v
    for tag in ("a", "b"):
        for g in o[tag]["rec"][1:]:
            if sorted(g) != g0:
                _v = emit({"why": f"k_sample: relabelling {g} does not conserve the labels {c['g']}", "cls": "k_sample:inadmissible"})
                if _v: return _v
    if c["stat"] == "one-way anova":
        x = [F(v) for v in c["x"]]; xbar = sum(x) / len(x)
        ssb = sum((sum(x[i] for i in range(len(x)) if c["g"][i] == k) / c["g"].count(k) - xbar) ** 2 * c["g"].count(k) for k in set(c["g"]))
        if not close(a["r"][2], ssb, 1e-9):
            _v = emit({"why": f"k_sample: observed statistic {a['r'][2]} is not the between-group sum of squares {float(ssb)}", "cls": "k_sample:observed-stat"})
            if _v: return _v
    return None


def oracle_permute(c, o):
    if o["r"][0] != "ok":
        _v = emit({"why": f"permute raised {o['r']}", "cls": "permute:raises"})
        if _v: return _v
    if not o["unmodified"]:
        _v = emit({"why": "permute modified its argument", "cls": "permute:input-modified"})
        if _v: return _v
    if not o["global_same"]:
        _v = emit({"why": "permute with an explicit generator advanced numpy's global state", "cls": "permute:global-rng"})
        if _v: return _v
    if sorted(fl(v) for v in o["r"][1]) != sorted(F(v) for v in c["x"]):
        _v = emit({"why": f"permute returned {o['r'][1]}, not a rearrangement of {c['x']}", "cls": "permute:inadmissible"})
        if _v: return _v
    return None


def oracle_pot(c, o):
    r = o["r"]
    if c["kind"] in ("bad", "badmul"):
        return None if (r[0] == "exc" and r[1] == "AssertionError") else {"why": f"potential_outcomes accepted a non-inverse pair: {r[:2]}", "cls": "potential_outcomes:inverse-guard"}
    if c["kind"] == "cube":
        return None if (r[0] == "exc" and r[1] == "AssertionError") else {"why": f"potential_outcomes accepted u^3 as its own inverse: {r[:2]}", "cls": "potential_outcomes:inverse-guard"}
    if c["kind"] in ("left_only", "right_only"):
        return None if (r[0] == "exc" and r[1] == "AssertionError") else {"why": f"potential_outcomes accepted a pair that is inverse in one direction only ({c['kind']}, variant {int(abs(F(c['d'])) * 2) % 4}: e.g. u -> 2u with u -> floor(u/2)): {r[:2]}", "cls": "potential_outcomes:inverse-guard"}
    if r[0] != "ok":
        _v = emit({"why": f"potential_outcomes raised {r}", "cls": "potential_outcomes:raises"})
        if _v: return _v
    x = [F(v) for v in c["x"]]; y = [F(v) for v in c["y"]]; d = F(c["d"])
    f, finv = ((lambda u: u + d), (lambda u: u - d)) if c["kind"] == "add" else ((lambda u: u * 2), (lambda u: u / 2))
    want = list(zip(x + [f(v) for v in y], [finv(v) for v in x] + y))
    got = [(fl(a), fl(b)) for a, b in r[1]]
    if len(got) != len(want) or any(not close(g[0], w[0]) or not close(g[1], w[1]) for g, w in zip(got, want)):
        _v = emit({"why": f"potential_outcomes returned {r[1]}, expected {[(float(a), float(b)) for a, b in want]}", "cls": "potential_outcomes:table"})
        if _v: return _v
    if not o["unmodified"]:
        _v = emit({"why": "potential_outcomes modified its inputs", "cls": "potential_outcomes:input-modified"})
        if _v: return _v
    return None


def same_result(a, b):
    """equality of two recorded results in which NaN equals NaN (a statistic that is undefined for the data, e.g. a
    correlation of two points, is reproducibly undefined)"""
    if isinstance(a, (list, tuple)) and isinstance(b, (list, tuple)):
        return len(a) == len(b) and all(same_result(x, y) for x, y in zip(a, b))
    if isinstance(a, float) and isinstance(b, float) and math.isnan(a) and math.isnan(b):
        return True
    return a == b


def oracle_real(c, o):
    name = c["fn"]
    for tag in ("rec_rs", "rec_int"):
        if tag in o:
            x = [float(v) for v in c["x"]]; y = [float(v) for v in c["y"]]
            for a in o[tag]["rec"]:
                if name == "two_sample":
                    ok = len(a[0]) == len(x) and len(a[1]) == len(y) and sorted(a[0] + a[1]) == sorted(x + y)
                else:
                    ok = len(a[0]) == len(x) and all(abs(u) == abs(v) for u, v in zip(a[0], x))
                if not ok:
                    gen = "RandomState" if tag == "rec_rs" else "int seed"
                    _v = emit({"why": f"{name} with a {gen} generator handed the statistic {a}, not a rearrangement / sign change of x={x}, y={y}", "cls": f"{name}:inadmissible"})
                    if _v: return _v
    if "named_tape" in o:
        tp = o["named_tape"]
        if tp["r"][0] != "ok":
            _v = emit({"why": f"{name}(stat={c['stat']!r}) raised on a scripted generator: {tp['r']}", "cls": f"{name}:raises"})
            if _v: return _v
        got = [tp["r"][2]] + tp["r"][3]
        if tp.get("leftover"):
            _v = emit({"why": f"{name}(stat={c['stat']!r}) drew {tp['leftover']} more answers than one shuffle pass / one sign per unit for each of the {c['reps']} repetitions: the number of draws depends on the data", "cls": f"{name}:draws-depend-on-data"})
            if _v: return _v
        for k, (gv, ev) in enumerate(zip(got, tp["expected"])):
            if (math.isfinite(ev) and not (abs(gv - ev) <= 1e-9 * (1 + abs(ev)))) or (math.isinf(ev) and gv != ev):
                what = "observed statistic" if k == 0 else f"simulated value {k - 1}"
                return {"why": f"{name}(stat={c['stat']!r}): {what} = {gv} but the documented statistic ({'difference in means' if c['stat'] == 'mean' else 'pooled-variance / one-sample t'}) on the {'data as given' if k == 0 else 'rearrangement selected by the draws'} is {ev} (x={c['x']}, y={c['y']})",
                        "cls": f"{name}:observed-stat" if k == 0 else f"{name}:wrong-rearrangement"}
    o = {k: v for k, v in o.items() if not k.startswith("rec_") and k != "named_tape"}
    rs = {k: v["r"] for k, v in o.items()}
    if any(v[0] != "ok" for v in rs.values()):
        bad = [(k, v[:3]) for k, v in rs.items() if v[0] != "ok"]
        _v = emit({"why": f"{name} raised on real seeds: {bad}", "cls": f"{name}:raises"})
        if _v: return _v
    if not same_result(rs["int1"], rs["int2"]):
        _v = emit({"why": f"{name}: two calls with seed={c['seed']} under different numpy global states differ", "cls": f"{name}:irreproducible"})
        if _v: return _v
    if not same_result(rs["int1"], rs["sha"]):
        _v = emit({"why": f"{name}: int seed and SHA256(seed) give different results", "cls": f"{name}:int-vs-sha256"})
        if _v: return _v
    if not same_result(rs["rs1"], rs["rs2"]):
        _v = emit({"why": f"{name}: two RandomState generators in the same state give different results", "cls": f"{name}:randomstate-replay"})
        if _v: return _v
    for k, v in o.items():
        if not v.get("global_same", True):
            _v = emit({"why": f"{name} ({k}) advanced numpy's global random state although a seed/generator was given", "cls": f"{name}:global-rng"})
            if _v: return _v
    for tag in ("int1", "rs1"):
        p, tst, d = rs[tag][1], rs[tag][2], rs[tag][3]
        if not all(math.isfinite(v) for v in d + [tst]):
            continue
        alt = c["alt"] if name != "k_sample" else "greater"
        want = pv_spec(alt, fl(tst), [fl(v) for v in d], c["plus1"])
        if len(d) != c["reps"] or not close(p, want):
            _v = emit({"why": f"{name}[{tag}]: p={p} but the tail-count formula on the returned dist gives {want} (alt={alt}, plus1={c['plus1']}, obs={tst}, dist={d})", "cls": f"{name}:p-not-from-dist"})
            if _v: return _v
    if "nokeep" in rs and (not close(rs["nokeep"][1], rs["int1"][1]) or not same_result(rs["nokeep"][2], rs["int1"][2])):
        _v = emit({"why": f"{name}: keep_dist=False gives {rs['nokeep'][:3]}, keep_dist=True {rs['int1'][:3]} under the same seed", "cls": f"{name}:keepdist-differs"})
        if _v: return _v
    return None


def _oracle_plain(c, o):
    return {"two_sample": oracle_two, "one_sample": oracle_one, "corr": oracle_corr, "k_sample": oracle_k, "permute": oracle_permute,
            "pot": oracle_pot, "real": oracle_real, "prng": oracle_prng, "coverage": oracle_coverage, "seq": oracle_seq, "seq2": oracle_seq2, "manyreps": oracle_manyreps}[c["f"]](c, o)


def nontrivial(c, o):
    f = c["f"]
    if f in ("two_sample", "one_sample", "k_sample"):
        a = o["a"]
        if a["r"][0] != "ok": return False
        kept = a if a["keep"] else o["b"]
        if kept["r"][0] != "ok": return False
        d = kept["r"][3]; tst = kept["r"][2]
        return d is not None and any(v == tst for v in d) or (d is not None and any(v > tst for v in d) and any(v < tst for v in d))
    if f == "corr":
        return o["r"][0] == "ok"
    if f == "real":
        return o["int1"]["r"][0] == "ok" and 0 < o["int1"]["r"][1] < 1
    return True


def key(c):
    return json.dumps(c, sort_keys=True)


def run(c):
    o = _run_plain(c)
    if isinstance(o, dict):
        o["retained_changed"] = retained_changed(_REC)
    return o


def oracle(c, o):
    if isinstance(o, dict) and o.get("retained_changed"):
        v = emit({"why": "results kept by the caller changed when later calls were made: " + o["retained_changed"], "cls": "results:p-not-from-dist"})
        if v: return v
    if isinstance(o, dict) and "retained_changed" in o:
        o = {k: v for k, v in o.items() if k != "retained_changed"}
    return _oracle_plain(c, o)
