"""python -m harness.runner Cxx tier seed out.json [--replay file]
Runs one property's case generator against the implementation in /repo and writes the
observations, the Coq terms for the model evaluation and the oracle verdicts."""
import sys, os, json, random, importlib, traceback
from . import common


def main():
    prop, tier, seed, out = sys.argv[1], sys.argv[2], int(sys.argv[3]), sys.argv[4]
    replay = sys.argv[sys.argv.index("--replay") + 1] if "--replay" in sys.argv else None
    common.assert_repo()
    mod = importlib.import_module(f"harness.props.{prop.lower()}")
    rng = random.Random(seed * 1000003 + int(prop[1:]))
    dist = common.Dist()
    if replay:
        rp = json.load(open(replay))
        inputs = [rp["case"]]
    else:
        corpus = os.path.join(os.path.dirname(os.path.dirname(os.path.abspath(__file__))), "corpus", f"{prop}.json")
        inputs = []
        if os.path.exists(corpus):
            inputs += json.load(open(corpus))
        inputs += list(mod.cases(tier, rng, dist))
    cases = []
    for inp in inputs:
        try:
            obs = mod.run(inp)
            orc = mod.oracle(inp, obs)
            term = mod.to_coq(inp, obs)
            extra = mod.extra_terms(inp, obs) if hasattr(mod, "extra_terms") else []
            nt = bool(mod.nontrivial(inp, obs))
            key = mod.key(inp)
        except Exception as e:  # harness bug or an implementation failure outside the mapped ones
            from .tape import MirrorMismatch
            if isinstance(e, MirrorMismatch):
                obs = common.jsonable(obs) if "obs" in dir() else {}
                cases.append({"input": common.jsonable(inp), "obs": obs, "oracle": {"why": "the draws requested by the implementation do not match one shuffle pass per repetition/group of the design: the number or bounds of the draws depend on the data values", "cls": "draws:draws-depend-on-data"},
                              "coq": None, "coq_extra": [], "nontrivial": False, "key": json.dumps(common.jsonable(inp), sort_keys=True, default=str)})
                continue
            obs = {"harness_exception": traceback.format_exc()[-1500:]}
            orc = {"why": "harness could not process the case: " + repr(e)[:300], "cls": "harness-exception"}
            term, nt, key = None, False, json.dumps(common.jsonable(inp), sort_keys=True, default=str)
            extra = []
        cases.append({"input": common.jsonable(inp), "obs": common.jsonable(obs), "oracle": orc,
                      "coq": term, "coq_extra": extra, "nontrivial": nt, "key": key})
    res = {"cases": cases, "coq_header": mod.COQ_HEADER, "rule": mod.RULE,
           "distribution": dist.out(), "assumptions": getattr(mod, "ASSUMPTIONS", []),
           "trusted_base": getattr(mod, "TRUSTED", []),
           "exhaustive": getattr(mod, "EXHAUSTIVE", {}).get(tier, []),
           "skipped": getattr(mod, "SKIPPED", [0])[0]}
    if hasattr(mod, "generated") and not replay:
        res["generated"] = mod.generated(tier)
    with open(out, "w") as f:
        json.dump(res, f, default=str)


if __name__ == "__main__":
    main()
