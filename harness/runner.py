"""python -m harness.runner Cxx tier seed out.json [--replay file]
Runs one property's case generator against the implementation in /repo and writes the
observations, the Coq terms for the model evaluation and the oracle verdicts."""
import sys, os, json, random, importlib, traceback
from . import common


def main():
    prop, tier, seed, out = sys.argv[1], sys.argv[2], int(sys.argv[3]), sys.argv[4]
    replay = sys.argv[sys.argv.index("--replay") + 1] if "--replay" in sys.argv else None
    common.assert_repo()
    mod = importlib.import_module(f"harness.props.{prop.lower()}")
    rng = random.Random(seed * 1000003 + int(prop[1:]))
    dist = common.Dist()
    if replay:
        rp = json.load(open(replay))
        inputs = [rp["case"]]
    else:
        corpus = os.path.join(os.path.dirname(os.path.dirname(os.path.abspath(__file__))), "corpus", f"{prop}.json")
        inputs = []
        if os.path.exists(corpus):
            inputs += json.load(open(corpus))
        inputs += list(mod.cases(tier, rng, dist))
    cases = []
    for inp in inputs:
        try:
            obs = mod.run(inp)
            orc = mod.oracle(inp, obs)
            from .core_runs import TapeTooWide
            try:
                term = mod.to_coq(inp, obs)
                extra = mod.extra_terms(inp, obs) if hasattr(mod, "extra_terms") else []
            except TapeTooWide:
                term, extra = None, []
                if orc is None:
                    orc = {"why": "the implementation requested draws far wider than any shuffle / sign / choice of the design calls for (answers above 10^5)", "cls": "draws:draws-depend-on-data"}
            except Exception:
                if orc is None:
                    raise
                term, extra = None, []      # a case the oracle already rejects: its verdict stands, no Gallina term is written
            key = mod.key(inp)
            try:
                nt = bool(mod.nontrivial(inp, obs))
            except Exception:
                if orc is None:
                    raise
                nt = False      # a case the oracle already rejects: its verdict stands
        except Exception as e:  # harness bug or an implementation failure outside the mapped ones
            from .tape import MirrorMismatch
            if isinstance(e, MirrorMismatch):
                obs = common.jsonable(obs) if "obs" in dir() else {}
                cases.append({"input": common.jsonable(inp), "obs": obs, "oracle": {"why": "the draws requested by the implementation do not match one shuffle pass per repetition/group of the design: the number or bounds of the draws depend on the data values", "cls": "draws:draws-depend-on-data"},
                              "coq": None, "coq_extra": [], "nontrivial": False, "key": json.dumps(common.jsonable(inp), sort_keys=True, default=str)})
                continue
            obs = {"harness_exception": traceback.format_exc()[-1500:]}
            orc = {"why": "harness could not process the case: " + repr(e)[:300], "cls": "harness-exception"}
            term, nt, key = None, False, json.dumps(common.jsonable(inp), sort_keys=True, default=str)
            extra = []
        cases.append({"input": common.jsonable(inp), "obs": common.jsonable(obs), "oracle": orc,
                      "coq": term, "coq_extra": extra, "nontrivial": nt, "key": key})
        if common.TIMEOUTS[0] >= 3:
            # the implementation stopped terminating: report what was found so far instead of waiting out every case
            if not any(c["oracle"] for c in cases):
                cases[-1]["oracle"] = {"why": "a call of the implementation did not terminate (3 time-outs); last input shown", "cls": "nontermination"}
            break
    # automatic summary of what was generated and what came back (kinds of cases, options, result kinds, sizes)
    for cs in cases:
        inp = cs["input"] if isinstance(cs["input"], dict) else {}
        for k in ("f", "kind", "fn", "src", "alt", "m", "method", "comb", "stat", "plus1", "keep", "dtype", "in_place", "op", "tf", "order"):
            if k in inp and isinstance(inp[k], (str, bool, int, list)):
                v = inp[k]
                dist.add("case." + k, v[0] if isinstance(v, list) and v else v)
        for k in ("x", "p", "g", "distr", "ops", "m"):
            if k in inp and isinstance(inp[k], list):
                dist.add("size." + k, len(inp[k]))
        for k in ("n", "N", "reps"):
            if k in inp and isinstance(inp[k], int):
                dist.add("value." + k, inp[k] if inp[k] < 20 else "20+")
        ob = cs["obs"] if isinstance(cs["obs"], dict) else {}
        r = ob.get("r")
        if r is None and isinstance(ob.get("a"), dict):
            r = ob["a"].get("r")
        if isinstance(r, list) and r:
            dist.add("result", r[0] if r[0] != "exc" else "exc:" + str(r[1] if len(r) > 1 else ""))
        dist.add("oracle", "ok" if cs["oracle"] is None else cs["oracle"].get("cls", "violation"))
    res = {"cases": cases, "coq_header": mod.COQ_HEADER, "rule": mod.RULE,
           "distribution": dist.out(), "assumptions": getattr(mod, "ASSUMPTIONS", []),
           "trusted_base": getattr(mod, "TRUSTED", []),
           "exhaustive": getattr(mod, "EXHAUSTIVE", {}).get(tier, []),
           "skipped": getattr(mod, "SKIPPED", [0])[0]}
    if hasattr(mod, "generated") and not replay:
        res["generated"] = mod.generated(tier)
    with open(out, "w") as f:
        json.dump(res, f, default=str)


if __name__ == "__main__":
    main()
