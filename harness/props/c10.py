"""C10: Westfall-Young adjusted p-values dominate raw ones and control FWER exactly."""
import itertools, json, math
from fractions import Fraction
import numpy as np
from ..common import *
from ..npc_common import qmat
from permute import npc as NPC

COQ_HEADER = """From PV Require Import Lib.Base Model.WY Corr.C10.
Open Scope Q_scope."""
RULE = ("westfall_young driven by a scripted Randomizer (k-th randomization selects table row k) and table-lookup test functions "
        "returning NumPy or Python numbers: all tables with 1..2 simulated rows x 1..2 hypotheses over {-1,0,1} (exhaustive), random "
        "tables reps<=6, m<=3 over -3..3 (ties, extreme/central observed rows), methods minP/maxT/invalid, alternatives as string, "
        "list, mixed list, wrong length, invalid; in_place both; each case also on a relabelling and (thorough: every) rotation of "
        "the rows for the FWER count; non-trivial = some adjusted value strictly above its raw value or a tie among raw values")
EXHAUSTIVE = {"quick": ["tables with 1..2 simulated rows x 1..2 hypotheses over {-1,0,1}, both methods, both alternatives"],
              "thorough": ["same"]}
ASSUMPTIONS = ["Python's sorted() is stable; rankdata(method='min') = 1 + number of strictly smaller entries"]
WALT = {"greater": "WGreater", "two-sided": "WTwoSided"}


def _cases(tier, rng, dist):
    vals = (-1, 0, 1)
    for reps in (1, 2):
        for m in (1, 2):
            for cells in itertools.product(vals, repeat=(reps + 1) * m):
                t = [list(cells[i * m:(i + 1) * m]) for i in range(reps + 1)]
                for meth in ("minP", "maxT"):
                    for alt in ("greater", "two-sided"):
                        if tier == "quick" and reps == 2 and m == 2 and (sum(cells) + len(meth)) % 3:
                            continue
                        yield {"table": t, "method": meth, "alts": alt, "in_place": False, "pynum": (sum(cells) % 2 == 0), "rot": False}
    # very many randomizations (beyond 2^16, not a multiple of it): every one of them counts
    from .. import sizes
    bigreps = [70001 + 7 * k for k in range(2 if tier == "quick" else 6)]
    bigreps += sizes.extra_sizes(["npc"], bigreps, cap=250000, lo=16)[:4]        # just beyond every integer constant of the source
    for k, reps_ in enumerate(bigreps):
        yield {"big": True, "seed": rng.randint(0, 10**6), "reps": reps_, "m": 2 + k % 2, "method": ["minP", "maxT"][k % 2], "alts": ["greater", "two-sided"][(k // 2) % 2],
               "table": [[0]], "in_place": False, "pynum": True, "rot": False}
    for _ in range(300 if tier == "quick" else 3000):
        reps, m = rng.randint(1, 6), rng.randint(1, 3)
        a = rng.randint(1, 3)
        t = [[rng.randint(-a, a) for _ in range(m)] for _ in range(reps + 1)]
        if rng.random() < 0.2:
            t[0] = [a + 1] * m
        kind = rng.random()
        if kind < 0.5: alts = rng.choice(["greater", "two-sided"])
        elif kind < 0.75: alts = [rng.choice(["greater", "two-sided"])] * m
        elif kind < 0.85: alts = [rng.choice(["greater", "two-sided"]) for _ in range(m)]
        elif kind < 0.9: alts = ["greater"] * (m + 1)
        elif kind < 0.95: alts = rng.choice(["less", ["greater"] * (m - 1) + ["smaller"] if m > 1 else ["bad"]])
        else: alts = ("greater",)
        yield {"table": t, "method": rng.choice(["minP", "maxT"] * 6 + ["maxP"]), "alts": alts, "in_place": rng.random() < 0.5,
               "pynum": rng.random() < 0.5, "rot": (tier == "thorough" or rng.random() < 0.15), "perm_seed": rng.randint(0, 10**6)}


def big_table(c):
    return np.random.RandomState(c["seed"]).randint(-3, 4, size=(c["reps"] + 1, c["m"]))


def textbook_big(t, method, two_sided):
    """the step-down min-P / max-T values on integer counts, O(n log n) per hypothesis (tables with tens of thousands of rows)"""
    n, m = t.shape
    S = np.abs(t) if two_sided else t
    C = np.empty((n, m), dtype=np.int64)                      # C[r, j] = #{rows with statistic >= row r's} in column j
    for j in range(m):
        srt = np.sort(S[:, j]); C[:, j] = n - np.searchsorted(srt, S[:, j], side="left")
    raw = C[0].copy()
    adj = [None] * m; prev = 0
    if method == "minP":
        L = sorted(range(m), key=lambda j: int(raw[j]), reverse=True)[::-1]
        cm = np.full(n, n + 1, dtype=np.int64); cnts = {}
        for k in range(m - 1, -1, -1):
            cm = np.minimum(cm, C[:, L[k]]); cnts[k] = int(np.sum(cm <= raw[L[k]]))
    else:
        L = sorted(range(m), key=lambda j: int(S[0, j]))[::-1]
        cx = np.full(n, -10**9, dtype=np.int64); cnts = {}
        for k in range(m - 1, -1, -1):
            cx = np.maximum(cx, S[:, L[k]]); cnts[k] = int(np.sum(cx >= S[0, L[k]]))
    for k, j in enumerate(L):
        prev = max(cnts[k], prev); adj[j] = Fraction(prev, n)
    return adj, [Fraction(int(v), n) for v in raw]


def drive(table, method, alts, in_place, pynum, mta=None):
    t = table
    state = {"k": 0}
    def rand(data):
        state["k"] += 1
        data.group = np.array([state["k"]] * len(data.group), dtype=object)
        return data
    def mk(j):
        def f(data):
            v = float(t[int(data.group[0])][j])
            return v if pynum else np.float64(v)
        return f
    R = NPC.Experiment.Randomizer(randomize=rand)
    data = NPC.Experiment(group=[0, 0, 0], response=[[1], [2], [3]], randomizer=R)
    tests = [mk(j) for j in range(len(t[0]))]
    if mta is not None:
        # the test array built by the library's own Experiment.make_test_array(func, indices) with an index list that is NOT
        # 0..m-1 in order (a relabelled order, or a subset of the columns of a wider table): hypothesis j of the call is
        # func(data, indices[j]); the wider table u holds column j of [table] at position indices[j]
        m = len(t[0]); width = max(mta) + 1
        u = [[-99.0] * width for _ in t]
        for k in range(len(t)):
            for j in range(m):
                u[k][mta[j]] = t[k][j]
        def f(data, idx):
            v = float(u[int(data.group[0])][idx])
            return v if pynum else np.float64(v)
        tests = NPC.Experiment.make_test_array(f, list(mta))
    r = guarded(lambda: NPC.westfall_young(data, tests, method=method, alternatives=alts, in_place=in_place, reps=len(t) - 1))
    if r[0] != "ok":
        return list(r), None
    adj, raw = r[1]
    m = len(t[0])
    return ["ok", [float(adj[j]) for j in range(m)], [float(raw[j]) for j in range(m)]], [int(g) for g in data.group]


def run(c):
    if c.get("big"):
        r, grp = drive(big_table(c), c["method"], c["alts"], False, True)
        return {"r": r, "group_after": grp}
    alts = c["alts"] if not isinstance(c["alts"], list) else list(c["alts"])
    if isinstance(c["alts"], list) and False:
        pass
    mta = None
    if c.get("mta") is not None:
        m_ = len(c["table"][0]); rs_ = np.random.RandomState(c["mta"])
        mta = [int(i) for i in rs_.permutation(m_ + (2 if c["mta"] % 2 else 0))[:m_]]
    r, grp = drive(c["table"], c["method"], tuple(alts) if isinstance(c["alts"], tuple) else alts, c["in_place"], c["pynum"], mta=mta)
    out = {"r": r, "group_after": grp, "mta": mta}
    m = len(c["table"][0])
    if r[0] == "ok" and m > 1 and "perm_seed" in c:
        perm = [int(i) for i in np.random.RandomState(c["perm_seed"]).permutation(m)]
        t2 = [[row[j] for j in perm] for row in c["table"]]
        a2 = [alts[j] for j in perm] if isinstance(alts, list) and len(alts) == m else alts
        out["perm"] = perm; out["r_perm"] = drive(t2, c["method"], a2, c["in_place"], c["pynum"])[0]
    if r[0] == "ok" and c.get("rot"):
        rots = []
        for k in range(len(c["table"])):
            t2 = [c["table"][k]] + c["table"][:k] + c["table"][k + 1:]
            rr = drive(t2, c["method"], alts, False, c["pynum"])[0]
            rots.append(min(rr[1]) if rr[0] == "ok" else None)
        out["rot_min_adj"] = rots
    return out


def norm_alts(c):
    m = len(c["table"][0]); a = c["alts"]
    if isinstance(a, str): return [a] * m
    if isinstance(a, list): return a if len(a) == m else None
    return None


def textbook(c):
    alts = norm_alts(c)
    if alts is None or c["method"] not in ("minP", "maxT") or any(x not in WALT for x in alts):
        return None
    t = [[Fraction(v) for v in row] for row in c["table"]]
    rows = t; n = len(rows); m = len(t[0])
    s = lambda r, j: abs(rows[r][j]) if alts[j] == "two-sided" else rows[r][j]
    P = [[Fraction(sum(1 for r2 in range(n) if s(r2, j) >= s(r, j)), n) for j in range(m)] for r in range(n)]
    raw = P[0]
    if c["method"] == "minP":
        L = sorted(range(m), key=lambda j: raw[j], reverse=True)[::-1]     # the implementation's (stable) order, most significant first
        adj = {}; prev = Fraction(0)
        for k, j in enumerate(L):
            cnt = sum(1 for r in range(n) if min(P[r][l] for l in L[k:]) <= raw[j])
            prev = max(Fraction(cnt, n), prev); adj[j] = prev
    else:
        la = alts[-1]
        keyf = (lambda j: abs(rows[0][j])) if la == "two-sided" else (lambda j: rows[0][j])
        L = sorted(range(m), key=keyf)[::-1]
        adj = {}; prev = Fraction(0)
        for k, j in enumerate(L):
            cnt = sum(1 for r in range(n) if max(s(r, l) for l in L[k:]) >= s(0, j))
            prev = max(Fraction(cnt, n), prev); adj[j] = prev
    return [adj[j] for j in range(m)], raw, L


def oracle(c, o):
    r = o["r"]
    if c.get("big"):
        if r[0] != "ok":
            return {"why": f"westfall_young(reps={c['reps']}) raised {r[:3]}", "cls": "westfall_young:raises"}
        adj, raw = textbook_big(big_table(c), c["method"], c["alts"] == "two-sided")
        if any(abs(Fraction(a) - b) > Fraction(1, 10**9) for a, b in zip(r[2], raw)):
            return {"why": f"westfall_young(reps={c['reps']}, {c['method']}, {c['alts']}): raw p-values {r[2]} are not (count+1)/(reps+1) = {[float(x) for x in raw]} (table from RandomState({c['seed']}))", "cls": "westfall_young:raw"}
        if any(abs(Fraction(a) - b) > Fraction(1, 10**9) for a, b in zip(r[1], adj)):
            return {"why": f"westfall_young(reps={c['reps']}, {c['method']}, {c['alts']}): adjusted p-values {r[1]} differ from the step-down permutation probabilities {[float(x) for x in adj]} over all {c['reps']} randomizations (table from RandomState({c['seed']}))", "cls": "westfall_young:adjusted"}
        return None
    tb = textbook(c)
    if tb is None:
        return None if (r[0] == "exc" and r[1] == "ValueError") else {"why": f"invalid method/alternatives {c['method']!r}/{c['alts']!r} not rejected with ValueError: {r[:2]}", "cls": "westfall_young:validation"}
    if r[0] != "ok":
        _v = emit({"why": f"westfall_young raised {r}", "cls": "westfall_young:raises"})
        if _v: return _v
    adj, raw, L = tb
    reps = len(c["table"]) - 1
    got_adj, got_raw = r[1], r[2]
    if any(abs(Fraction(g) - w) > Fraction(1, 10**10) for g, w in zip(got_raw, raw)):
        _v = emit({"why": f"raw p-values {got_raw} are not (count+1)/(reps+1) = {[str(x) for x in raw]}", "cls": "westfall_young:raw"})
        if _v: return _v
    for g, w in zip(got_adj, got_raw):
        if g < w - 1e-12 or not (1 / (reps + 1) - 1e-12 <= g <= 1 + 1e-12):
            _v = emit({"why": f"adjusted {got_adj} below raw {got_raw} or outside [1/(reps+1),1]", "cls": "westfall_young:adj-below-raw"})
            if _v: return _v
    uniform = len(set(norm_alts(c))) == 1
    if uniform and any(abs(Fraction(g) - w) > Fraction(1, 10**10) for g, w in zip(got_adj, adj)):
        _v = emit({"why": f"{c['method']} adjusted p-values {got_adj} differ from the step-down permutation probabilities {[str(x) for x in adj]} (table {c['table']}, alternatives {c['alts']})", "cls": f"westfall_young:{c['method']}:stepdown"})
        if _v: return _v
    if uniform:
        m = len(got_adj)
        key = got_raw if c["method"] == "minP" else [-(abs(v) if norm_alts(c)[0] == "two-sided" else v) for v in c["table"][0]]
        for a in range(m):
            for b in range(m):
                if key[a] < key[b] - 1e-12 and got_adj[a] > got_adj[b] + 1e-12:
                    _v = emit({"why": f"adjusted values {got_adj} not ordered like {'raw p-values' if c['method'] == 'minP' else 'observed statistics'} {key}", "cls": "westfall_young:order"})
                    if _v: return _v
        if "r_perm" in o and len(set(key)) == len(key):
            rp = o["r_perm"]
            if rp[0] != "ok" or any(abs(rp[1][k] - got_adj[o["perm"][k]]) > 1e-10 for k in range(m)):
                _v = emit({"why": f"relabelling hypotheses by {o['perm']} does not permute the result: {got_adj} vs {rp}", "cls": "westfall_young:relabel"})
                if _v: return _v
    if not c["in_place"] and o["group_after"] != [0, 0, 0]:
        _v = emit({"why": "in_place=False changed the caller's Experiment", "cls": "westfall_young:in-place"})
        if _v: return _v
    if uniform and "rot_min_adj" in o and all(v is not None for v in o["rot_min_adj"]):
        n = len(o["rot_min_adj"])
        for k in range(1, n + 1):
            cnt = sum(1 for v in o["rot_min_adj"] if v <= k / n + 1e-12)
            if cnt > k:
                _v = emit({"why": f"FWER: {cnt} of the {n} rotations of the table have smallest adjusted p-value <= {k}/{n} (table {c['table']}, {c['method']}, {c['alts']})", "cls": "westfall_young:fwer"})
                if _v: return _v
    return None


def to_coq(c, o):
    if c.get("big"):
        return None
    r = o["r"]
    m = len(c["table"][0])
    meth = {"minP": "MinP", "maxT": "MaxT"}.get(c["method"], "MBad")
    a = c["alts"]
    if isinstance(a, str): al = [WALT.get(a, "WBad")] * m
    elif isinstance(a, list): al = [WALT.get(x, "WBad") for x in a]
    else: return None      # a tuple: rejected before the table is looked at
    t = [[Fraction(v) for v in row] for row in c["table"]]
    impl = cres(("ok", ([Fraction(v).limit_denominator(10**6) for v in r[1]], [Fraction(v).limit_denominator(10**6) for v in r[2]])) if r[0] == "ok" else r,
                lambda v: f"({clist(v[0], cq)}, {clist(v[1], cq)})")
    return f"WCase {clist(t[0], cq)} {qmat(t[1:])} {meth} {clist(al, lambda x: x)} {impl}"


def nontrivial(c, o):
    r = o["r"]
    return r[0] == "ok" and (any(a > b + 1e-12 for a, b in zip(r[1], r[2])) or len(set(r[2])) < len(r[2]))


def key(c):
    return json.dumps(c, sort_keys=True)


def generated(tier):
    """source-derived obligations (G4 formulas): regenerated from /repo's current source text on every run"""
    from ..translate.tables import obligations
    return obligations("C10")


def cases(tier, rng, dist):
    for i, c in enumerate(_cases(tier, rng, dist)):
        if isinstance(c, dict) and not c.get("big") and "table" in c and i % 3 == 1:
            c["mta"] = 1000 + i
        yield c
