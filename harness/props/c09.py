"""C09: fwer_minp attaches adjustments to the right hypotheses and is monotone."""
import itertools, json, math
from fractions import Fraction
import numpy as np
from ..common import *
from ..npc_common import *
from permute import npc as NPC

COQ_HEADER = """From PV Require Import Lib.Base Model.Npc Model.Adjust Corr.C09.
Open Scope Q_scope."""
RULE = ("p-vectors in every order for j<=4 distinct grid values (all permutations, incl. 3-cycles) and random vectors j<=5 with "
        "ties (Liptak: raw p-values up to 1-2^-40 with rows on column minima), distr matrices B<=8 with ties, combiners fisher/liptak/tippett/valid callable, plus1 in {T,F}; each case is also run "
        "on a random relabelling (pvalues and columns permuted together); non-trivial = the sorting order is not an involution or "
        "the vector has a tie; distinct by full input; exact-tie cases skipped for the value comparison")
EXHAUSTIVE = {"quick": ["all orderings of 3 distinct grid p-values x 6 matrices x 3 combiners"],
              "thorough": ["all orderings of 3 and 4 distinct grid p-values x 20 matrices x 3 combiners"]}
ASSUMPTIONS = ["np.argsort returns a sorting permutation (checked in Coq per case); with tied p-values the model follows NumPy's order",
               "np.log / norm.ppf increasing (Liptak quantiles supplied to the model as a table of SciPy's values)"]
SKIPPED = [0]


def _cases(tier, rng, dist):
    nm = 6 if tier == "quick" else 20
    sizes = [3] if tier == "quick" else [3, 4]
    for j in sizes:
        base = [Fraction(k, 8) for k in (1, 3, 5, 6)][:j]
        for perm in itertools.permutations(base):
            for t in range(nm):
                B = rng.randint(2, 8)
                m = gen_matrix(rng, B, j, rng.randint(1, 4))
                for spec in ("fisher", "tippett", COMBS[3], COMBS[4]):     # COMBS[4]: a valid combiner that is NOT symmetric in its arguments
                    yield {"p": [str(x) for x in perm], "distr": [[str(v) for v in r] for r in m], "comb": spec, "plus1": bool(t % 2),
                           "perm_seed": rng.randint(0, 10**6)}
    for _ in range(250 if tier == "quick" else 2500):
        j, B = rng.randint(2, 5), rng.randint(1, 8)
        spec = rng.choice(COMBS[:5])
        hi = 7 if spec == "liptak" else 8
        pool = [Fraction(rng.randint(1, hi), 8) for _ in range(rng.randint(1, j))]
        p = [rng.choice(pool) if rng.random() < 0.5 else Fraction(rng.randint(1, hi), 8) for _ in range(j)]
        m = gen_matrix(rng, B, j, rng.randint(0, 4))
        if spec == "liptak" and rng.random() < 0.6:
            # raw p-values very close to 1 together with rows sitting on column minima (clipped partial p-values)
            p = [rng.choice([1 - Fraction(1, 2**rng.choice([10, 20, 30, 40])), Fraction(9999, 10000), Fraction(rng.randint(1, 7), 8)]) for _ in range(j)]
            m = gen_matrix(rng, rng.randint(3, 8), j, 1)
        yield {"p": [str(x) for x in p], "distr": [[str(v) for v in r] for r in m], "comb": spec, "plus1": rng.random() < 0.5,
               "perm_seed": rng.randint(0, 10**6)}


def _run(c):
    p = [Fraction(x) for x in c["p"]]
    m = [[Fraction(v) for v in r] for r in c["distr"]]
    pv = interned(np.array([float(x) for x in p])); d = interned(np.array([[float(v) for v in r] for r in m]))
    pv0, d0 = pv.copy(), d.copy()
    r = guarded(lambda: [float(v) for v in NPC.fwer_minp(pv, d, make_comb(c["comb"]), plus1=c["plus1"])])
    unmod = bool((pv == pv0).all() and (d == d0).all())
    perm = [int(i) for i in np.random.RandomState(c["perm_seed"]).permutation(len(p))]
    r2 = guarded(lambda: [float(v) for v in NPC.fwer_minp(pv0[perm].copy(), d0[:, perm].copy(), make_comb(c["comb"]), plus1=c["plus1"])])
    return {"r": list(r), "unmodified": unmod, "perm": perm, "r_perm": list(r2), "ord": [int(i) for i in np.argsort(pv0)]}


def spec_fwer(p, m, order, comb, plus1):
    j = len(p)
    po = [p[i] for i in order]; mo = [[r[i] for i in order] for r in m]
    adj = []; skip = False
    for k in range(0, j - 1):
        e = exact_npc(po[k:], [r[k:] for r in mo], comb, plus1)
        if e[0] == "exc":
            return None, False
        skip = skip or e[2]
        adj.append(max(e[1], adj[-1]) if adj else e[1])
    adj.append(max(po[-1], adj[-1]))
    out = [None] * j
    for k, i in enumerate(order):
        out[i] = adj[k]
    return out, skip


def oracle(c, o):
    p = [Fraction(x) for x in c["p"]]
    m = [[Fraction(v) for v in r] for r in c["distr"]]
    want, skip = spec_fwer(p, m, o["ord"], c["comb"], c["plus1"])
    r = o["r"]
    if want is None:
        return None
    if r[0] != "ok":
        return {"why": f"fwer_minp raised {r}", "cls": "fwer_minp:raises"}
    if not o["unmodified"]:
        return {"why": "fwer_minp modified its arguments", "cls": "fwer_minp:input-modified"}
    got = r[1]
    if any(not (-1e-12 <= g <= 1 + 1e-12) for g in got):
        return {"why": f"adjusted p-values outside [0,1]: {got}", "cls": "fwer_minp:range"}
    for a in range(len(p)):
        for b in range(len(p)):
            if p[a] < p[b] and got[a] > got[b] + 1e-12:
                return {"why": f"not monotone in the raw p-values: p={c['p']} adjusted={got}", "cls": "fwer_minp:not-monotone"}
    if not skip and any(abs(Fraction(g) - w) > Fraction(1, 10**10) for g, w in zip(got, want)):
        return {"why": f"p={c['p']}: returned {got}, step-down values attached to the supplied order are {[float(w) for w in want]}", "cls": "fwer_minp:wrong-hypothesis"}
    if len(set(p)) == len(p) and not skip:
        rp = o["r_perm"]
        if rp[0] != "ok" or any(abs(rp[1][k] - got[o["perm"][k]]) > 1e-10 for k in range(len(p))):
            return {"why": f"relabelling hypotheses by {o['perm']} does not permute the output: {got} vs {rp}", "cls": "fwer_minp:relabel"}
    return None


def to_coq(c, o):
    p = [Fraction(x) for x in c["p"]]
    m = [[Fraction(v) for v in r] for r in c["distr"]]
    want, skip = spec_fwer(p, m, o["ord"], c["comb"], c["plus1"])
    if skip:
        SKIPPED[0] += 1
        return None
    tab = None
    if c["comb"] == "liptak":
        B = len(m); cc = 1 if c["plus1"] else 0
        allp = list(p) + [Fraction(k, B + cc) for k in range(0, B + cc + 3)]
        tab = liptak_table([x for x in allp if x > 0])
    r = o["r"]
    impl = cres(("ok", [Fraction(v) for v in r[1]]) if r[0] == "ok" else r, lambda l: clist(l, cq))
    return f"FCase {clist(p, cq)} {qmat(m)} {clist(o['ord'], cnat)} {comb_coq(c['comb'], tab)} {cbool(c['plus1'])} {impl}"


def nontrivial(c, o):
    od = o["ord"]
    return len(set(c["p"])) < len(c["p"]) or any(od[od[i]] != i for i in range(len(od)))


def key(c):
    return json.dumps(c, sort_keys=True)


# ---- failure paths (round 12): every third case is preceded by calls that the library rejects, or that fail inside a user
# callable; they raise on the unchanged tree and must leave nothing behind (common.fail_first) ----

def failing_calls(c):
    pv = interned(np.array([float(Fraction(x)) for x in c["p"]])); d = interned(np.array([[float(Fraction(v)) for v in r] for r in c["distr"]]))
    k = c["ff"] % 3
    n = len(c["p"])
    def fixed_len(p):
        if len(p) != n:
            raise ValueError("combining function written for exactly %d p-values" % n)
        return -2 * float(np.sum(np.log(p)))
    def aborting(p):
        if len(p) < n:
            raise Abort()
        return -2 * float(np.sum(np.log(p)))
    # the SAME argument objects as the valid call that follows (interned arrays): a call aborted inside the step-down must leave them intact
    return [[("unknown combining function name", lambda: NPC.fwer_minp(pv, d, "Fisher", plus1=c["plus1"])),
             ("combining function rejects the first nested subset", lambda: NPC.fwer_minp(pv, d, fixed_len, plus1=c["plus1"])),
             ("combining function aborts on the first nested subset", lambda: NPC.fwer_minp(pv, d, aborting, plus1=c["plus1"]))][k],
            ("p-values and distr of different widths", lambda: NPC.fwer_minp(np.array([0.5, 0.2, 0.1, 0.7, 0.9]), d[:, :1], "fisher")),
            ("watch", [pv, d])]


def cases(tier, rng, dist):
    return mark_ff(_cases(tier, rng, dist))


_oracle_plain = oracle


def oracle(c, o):
    if ff_args_modified(o):
        return {"why": f"a fwer_minp call that was rejected / aborted inside the step-down left the caller's pvalues or distr modified: {o['ff']}", "cls": "fwer_minp:input-modified"}
    return _oracle_plain(c, o)


_REC = []
NPC = RecordingModule(NPC, _REC, ["fwer_minp", "npc"])


def run(c):
    ff = fail_first(failing_calls(c)) if "ff" in c else None
    o = _run(c)
    if ff is not None and isinstance(o, dict):
        o["ff"] = ff
    if isinstance(o, dict):
        o["retained_changed"] = retained_changed(_REC)
    return o


_oracle_before_retention = oracle


def oracle(c, o):
    if isinstance(o, dict) and o.get("retained_changed"):
        return {"why": "results kept by the caller changed when later calls were made: " + o["retained_changed"], "cls": "fwer_minp:result-aliased"}
    return _oracle_before_retention(c, o)
