"""C17: Experiment randomization histories conserve labels and respect in_place."""
import itertools, json, math, copy, random
from fractions import Fraction
import numpy as np
from scipy.stats import ttest_ind
from ..common import *
from ..tape import Tape, lazy
from ..npc_common import make_comb, comb_coq, exact_npc, liptak_table, qmat
from ..core_runs import qlist, fl
from permute import npc as NPC
from permute.npc import Experiment

COQ_HEADER = """From PV Require Import Lib.Base Model.Prng Model.Core Model.Experiment Corr.C17.
From PV Require Model.Npc Model.WY.
Import Model.Npc(comb, Fisher, Liptak, Tippett, NegWSum, PosSum, NegMax).
Import Model.WY(wmethod, walt, MinP, MaxT, MBad, WGreater, WTwoSided, WBad).
Open Scope Q_scope."""
RULE = ("random histories of 1..6 operations (randomize, sim_npc, westfall_young) with any mix of in_place and reseeding, both "
        "built-in randomizers, integer and string labels (2..3 groups), unequal strata incl. singletons, 1..2 response columns; the "
        "generator is a scripted tape, deep copies are forks with their own script; the full Experiment state is snapshotted after "
        "every step; built-in test functions compared with their definitions; wrong-type arguments; seeded reproducibility with real "
        "seeds; non-trivial = at least one in_place=True and one in_place=False operation and a changed assignment; distinct by history")
ASSUMPTIONS = ["copy.deepcopy of the generator is modelled as a fork with an independent answer script (cryptorandom's copies also continue as a different stream)",
               "labels are mapped to integers preserving their sort order (np.unique)"]
SKIPPED = [0]
WALT = {"greater": "WGreater", "two-sided": "WTwoSided"}


def cases(tier, rng, dist):
    N = 120 if tier == "quick" else 1200
    for _ in range(N):
        strat = rng.random() < 0.5
        n = rng.randint(2, 7)
        k = rng.choice([2, 2, 2, 3])
        g = [rng.randrange(k) for _ in range(n)]
        for lab in range(k):
            if lab not in g: g[rng.randrange(n)] = lab
        if len(set(g)) < k: k = len(set(g))
        strata = [rng.randint(0, 2) for _ in range(n)] if strat else None
        ncol = rng.randint(1, 2)
        mult = n
        for lab in set(g): mult *= g.count(lab)
        resp = [[rng.randint(-3, 3) * mult for _ in range(ncol)] for _ in range(n)]
        ops = []
        for _ in range(rng.randint(1, 6)):
            kind = rng.choice(["randomize", "randomize", "sim_npc", "wy"])
            op = {"op": kind, "in_place": rng.random() < 0.5, "reseed": rng.random() < 0.25}
            if kind != "randomize":
                op["reps"] = rng.randint(1, 3)
                op["tests"] = [[rng.choice(["mean_diff", "anova"]), rng.randrange(ncol)] for _ in range(rng.randint(2, 3) if kind == "sim_npc" else rng.randint(1, 3))]
                if kind == "sim_npc":
                    op["comb"] = "tippett"     # order-independent in binary64; sums/products can break exact ties (combiners are C07's subject)
                else:
                    op["method"] = rng.choice(["minP", "maxT"]); op["alts"] = rng.choice(["greater", "two-sided"])
            ops.append(op)
        dist.add("randomizer", "strata" if strat else "group"); dist.add("n_ops", len(ops)); dist.add("labels", k)
        yield {"f": "history", "g": g, "strata": strata, "resp": resp, "ops": ops, "strlabels": False, "labset": rng.choice(["int", "int", "str", "wide", "neg"]), "aseed": rng.randint(0, 10**9),
               # how the caller holds the data: nested lists, or ONE object-dtype table (as read from a file) whose columns are
               # handed over as views: stratum + arm as covariates, the arm column as group, the remaining columns as responses
               "container": rng.choice(["lists", "lists", "table", "table_f"]),
               # the values that code the strata: small integers, or non-integer numbers with equal integer parts / of both signs
               "stratalpha": rng.choice(["int", "int", "frac", "signed"])}
    # strata that each hold ONE label only: a randomization within strata cannot change the assignment at all, whatever numbers code
    # the strata (non-integers with equal integer parts, both signs); any movement is a movement between strata
    for k in range(6 if tier == "quick" else 30):
        n = rng.randint(8, 12)
        strata = [i % 3 for i in range(n)]
        yield {"f": "history", "g": [s % 2 for s in strata], "strata": strata, "resp": [[rng.randint(-3, 3) * 2 * n] for _ in range(n)],
               "ops": [{"op": "randomize", "in_place": True, "reseed": False}, {"op": "randomize", "in_place": True, "reseed": k % 2 == 0}],
               "strlabels": False, "labset": "int", "aseed": rng.randint(0, 10**9), "container": "lists", "stratalpha": ["frac", "signed", "int"][k % 3]}
    for _ in range(N // 2):
        n = rng.randint(2, 8); k = rng.choice([1, 2, 2, 3])
        g = [rng.randrange(k) for _ in range(n)]
        resp = [[rng.choice([rng.randint(-5, 5), round(rng.gauss(0, 2), 2)]) for _ in range(2)] for _ in range(n)]
        yield {"f": "testfn", "g": g, "resp": resp, "fn": rng.choice(["mean_diff", "ttest", "anova"]), "idx": rng.randrange(2), "strlabels": False, "labset": rng.choice(["int", "str", "wide", "neg"])}
    yield {"f": "types"}
    # the stratification in force is the Experiment's CURRENT first covariate: the caller edits it in place between two
    # randomizations, or two Experiments with different strata share one Randomizer
    for _ in range(30 if tier == "quick" else 300):
        n = rng.randint(3, 7)
        gg = [0, 1] + [rng.randrange(2) for _ in range(n - 2)]; rng.shuffle(gg)     # both labels present (mean_diff needs two groups)
        yield {"f": "restrat", "g": gg, "s1": [rng.randint(0, 2) for _ in range(n)], "s2": [rng.randint(0, 2) for _ in range(n)],
               "mode": rng.choice(["edit_in_place", "edit_in_place", "rebind", "shared_randomizer", "shared_randomizer"]), "first": rng.choice(["randomize", "sim_npc", "wy"]),
               "rand": rng.choice(["strata", "strata", "group"]), "g_other": [rng.choice([5, 6, 6]) for _ in range(n)], "aseed": rng.randint(0, 10**9)}
    for s in range(6 if tier == "quick" else 30):
        yield {"f": "repro", "seed": 100 + s, "strat": bool(s % 2)}
    # TWO LIVE EXPERIMENTS used in alternation (own Randomizers and generators; the same label array object, the same test-function
    # array and the same randomizer function may have gone into both): every call must return what it returns when its
    # Experiment is used alone
    for k in range(30 if tier == "quick" else 300):
        n1, n2 = rng.randint(4, 7), rng.randint(3, 8)
        if rng.random() < 0.3: n2 = n1
        def lab(n):
            gg = [0, 1] + [rng.randrange(2) for _ in range(n - 2)]; rng.shuffle(gg); return gg
        ops = []
        for _ in range(rng.randint(3, 7)):
            ops.append({"on": rng.choice([1, 2]), "op": rng.choice(["randomize", "randomize", "sim_npc", "wy"]), "in_place": rng.random() < 0.6, "reps": rng.randint(1, 3)})
        g1 = lab(n1)
        yield {"f": "interleave", "g1": g1, "g2": (list(g1) if n2 == n1 and rng.random() < 0.5 else lab(n2)), "s1": [rng.randint(0, 1) for _ in range(n1)], "s2": [rng.randint(0, 2) for _ in range(n2)],
               "strat1": rng.random() < 0.6, "strat2": rng.random() < 0.6, "r1": [[rng.randint(-3, 3), rng.randint(-3, 3)] for _ in range(n1)],
               "r2": [[rng.randint(-3, 3), rng.randint(-3, 3)] for _ in range(n2)], "ops": ops, "share_labels": rng.random() < 0.5,
               "a1": rng.randint(0, 10**9), "a2": rng.randint(0, 10**9)}
    # ONE plain SHA256 instance held by an Experiment's Randomizer AND used directly by the caller (or by a second Randomizer):
    # re-seeding the Experiment with an int gives it a generator of its own and must leave the shared instance where it was
    for k in range(16 if tier == "quick" else 160):
        n = rng.randint(4, 7)
        gg = [0, 1] + [rng.randrange(2) for _ in range(n - 2)]; rng.shuffle(gg)
        yield {"f": "sharedgen", "g": gg, "s1": [rng.randint(0, 1) for _ in range(n)], "strat": rng.random() < 0.5, "seed": rng.randint(0, 10**6), "reseed": rng.randint(0, 10**6),
               "via": rng.choice(["randomize", "sim_npc", "wy"]), "in_place": rng.random() < 0.5, "other": rng.choice(["direct", "direct", "randomizer"])}
    # FAILURE PATHS: a call that is aborted in the middle of its repetition loop (a test function that raises an ordinary exception
    # or a non-Exception such as Ctrl-C), or that is handed an unusable seed, must leave the Experiment usable and, with
    # in_place=False, exactly as it was: same assignment, same Randomizer object, same generator object, not advanced
    for k in range(40 if tier == "quick" else 400):
        n = rng.randint(4, 7)
        gg = [0, 1] + [rng.randrange(2) for _ in range(n - 2)]; rng.shuffle(gg)
        yield {"f": "failhist", "g": gg, "s1": [rng.randint(0, 1) for _ in range(n)], "s2": [rng.randint(0, 2) for _ in range(n)], "strat": rng.random() < 0.6,
               "resp": [[rng.randint(-3, 3), rng.randint(-3, 3)] for _ in range(n)], "warm": rng.random() < 0.5,
               "fail": rng.choice(["sim_npc", "wy", "sim_npc", "wy", "bad_seed_randomize", "bad_seed_sim_npc", "bad_seed_wy"]), "in_place": rng.random() < 0.5,
               "at": rng.randint(3, 6), "base": rng.random() < 0.5, "restrat": rng.random() < 0.5, "reps": rng.randint(2, 4),
               "container": rng.choice(["lists", "table"]), "aseed": rng.randint(0, 10**9), "gseed": rng.randint(0, 10**6)}


LAB = ["a", "b", "c", "d"]


# label alphabets: the model works with the rank of a label in sorted order; numeric labels whose string order
# differs from their numeric order (2 < 10 < 100, -20 < -3 < -1) must still be taken in NUMERIC sorted order
LABSETS = {"str": LAB, "wide": [2, 10, 100, 1000], "neg": [-20, -3, -1, 7]}


def labset(c):
    if c.get("labset") in LABSETS:
        return LABSETS[c["labset"]]
    return LAB if c.get("strlabels") else None


def labels_of(c):
    L = labset(c)
    return [L[v] for v in c["g"]] if L else list(c["g"])


def back(c, arr):
    L = labset(c)
    return [L.index(v if isinstance(v, str) else int(v)) if L else int(v) for v in arr]


def mk_tests(spec):
    fns = {"mean_diff": Experiment.TestFunc.mean_diff, "ttest": Experiment.TestFunc.ttest, "anova": Experiment.TestFunc.one_way_anova}
    out = []
    for name, idx in spec:
        out.append(Experiment.make_test_array(fns[name], [idx])[0])
    return out


def run_sharedgen(c):
    from cryptorandom.cryptorandom import SHA256
    from permute import utils as _u
    n = len(c["g"]); tests = mk_tests([["mean_diff", 0]])
    fn = NPC.randomize_in_strata if c["strat"] else NPC.randomize_group
    def mkexp(seed_obj):
        return Experiment(group=list(c["g"]), response=[[i * i] for i in range(n)], covariate=[[v, 7] for v in c["s1"]], randomizer=Experiment.Randomizer(randomize=fn, seed=seed_obj))
    def reseeding_call(e):
        if c["via"] == "randomize":
            return [int(v) for v in e.randomize(in_place=c["in_place"], seed=c["reseed"]).group]
        if c["via"] == "sim_npc":
            r = NPC.sim_npc(e, tests + tests, combine="tippett", in_place=c["in_place"], reps=2, seed=c["reseed"]); return [float(r[0]), [int(v) for v in e.group]]
        r = NPC.westfall_young(e, tests, in_place=c["in_place"], reps=2, seed=c["reseed"]); return [[float(v) for v in r[0]], [int(v) for v in e.group]]
    x = np.arange(7.0)
    def other_use(g, holder):
        if holder is None:
            return [float(v) for v in _u.permute(x, g)]
        return [int(v) for v in holder.randomize(in_place=True).group]
    g = SHA256(c["seed"]); e = mkexp(g)
    holder = mkexp(g) if c["other"] == "randomizer" else None          # a second Experiment whose Randomizer holds the SAME instance
    out = {"r1": list(guarded(lambda: other_use(g, holder))), "re": list(guarded(lambda: reseeding_call(e))), "r2": list(guarded(lambda: other_use(g, holder))),
           "after": list(guarded(lambda: [int(v) for v in e.randomize(in_place=True).group]))}
    # the same uses of the shared instance WITHOUT the re-seeded Experiment in between
    g2 = SHA256(c["seed"]); holder2 = mkexp(g2) if c["other"] == "randomizer" else None
    out["t1"] = list(guarded(lambda: other_use(g2, holder2))); out["t2"] = list(guarded(lambda: other_use(g2, holder2)))
    # the re-seeded call on a fresh Experiment that never held the shared instance
    e3 = mkexp(12345)
    out["re_fresh"] = list(guarded(lambda: reseeding_call(e3))); out["after_fresh"] = list(guarded(lambda: [int(v) for v in e3.randomize(in_place=True).group]))
    return out


def oracle_sharedgen(c, o):
    from ..core_runs import same_result
    for k in ("r1", "re", "r2", "after", "t1", "t2", "re_fresh", "after_fresh"):
        if o[k][0] != "ok":
            _v = emit({"why": f"shared SHA256 instance, {c['via']}(seed={c['reseed']}): step {k} raised {o[k][:3]}", "cls": "experiment:raises"})
            if _v: return _v
            return None
    if not same_result(o["r1"][1], o["t1"][1]) or not same_result(o["r2"][1], o["t2"][1]):
        _v = emit({"why": f"a SHA256 instance shared by an Experiment's Randomizer and {'a second Randomizer' if c['other'] == 'randomizer' else 'the caller (permute(x, g))'}: after {c['via']}(in_place={c['in_place']}, seed={c['reseed']}) on the Experiment the shared instance yields {o['r2'][1]}, without that call {o['t2'][1]} (first use {o['r1'][1]} / {o['t1'][1]}): re-seeding the Experiment disturbed the instance it no longer uses", "cls": "experiment:irreproducible"})
        if _v: return _v
    if not same_result(o["re"][1], o["re_fresh"][1]) or (c["in_place"] and not same_result(o["after"][1], o["after_fresh"][1])):
        _v = emit({"why": f"{c['via']}(seed={c['reseed']}) on an Experiment that held a shared SHA256 instance returned {o['re'][1]} then {o['after'][1]}; on a fresh Experiment {o['re_fresh'][1]} then {o['after_fresh'][1]}", "cls": "experiment:irreproducible"})
        if _v: return _v
    return None


def run_interleave(c):
    import random as _r
    tests = mk_tests([["mean_diff", 0], ["mean_diff", 1]])          # ONE test array for both Experiments
    def build(which, shared_labels=None):
        g, st, resp, strat, a = (c["g1"], c["s1"], c["r1"], c["strat1"], c["a1"]) if which == 1 else (c["g2"], c["s2"], c["r2"], c["strat2"], c["a2"])
        t = Tape(None, lazy(_r.Random(a), "random"))
        R = Experiment.Randomizer(randomize=NPC.randomize_in_strata if strat else NPC.randomize_group, seed=t)
        grp = shared_labels if shared_labels is not None else np.array(g)
        return Experiment(group=grp, response=[list(r) for r in resp], covariate=[[v, 7] for v in st], randomizer=R)
    def apply(e, op):
        if op["op"] == "randomize":
            r = guarded(lambda: [int(v) for v in e.randomize(in_place=op["in_place"]).group])
        elif op["op"] == "sim_npc":
            r = guarded(lambda: (lambda v: [float(v[0]), [float(x) for x in v[1]], [float(x) for x in v[2]]])(NPC.sim_npc(e, tests, combine="tippett", in_place=op["in_place"], reps=op["reps"])))
        else:
            r = guarded(lambda: (lambda v: [[float(x) for x in v[0]], [float(x) for x in v[1]]])(NPC.westfall_young(e, tests, in_place=op["in_place"], reps=op["reps"])))
        return [list(r)[:2], [int(v) for v in e.group]]
    # (an object-dtype label array, as read from a mixed table, or a plain integer one)
    shared = np.array(c["g1"], dtype=(object if c["a1"] % 2 else None)) if (c["share_labels"] and c["g1"] == c["g2"]) else None
    ea, eb = build(1, shared), build(2, shared)
    inter = [apply(ea if op["on"] == 1 else eb, op) for op in c["ops"]]
    alone = {}
    for which in (1, 2):
        e = build(which)
        alone[which] = [apply(e, op) for op in c["ops"] if op["on"] == which]
    k = {1: 0, 2: 0}; al = []
    for op in c["ops"]:
        al.append(alone[op["on"]][k[op["on"]]]); k[op["on"]] += 1
    return {"inter": inter, "alone": al, "shared_intact": (shared is None or shared.tolist() == list(c["g1"]))}


def oracle_interleave(c, o):
    from ..core_runs import same_result
    for k, (a, b) in enumerate(zip(o["inter"], o["alone"])):
        if not same_result(a, b):
            _v = emit({"why": f"two Experiments used in alternation: call {k} ({c['ops'][k]}) returned / left {str(a)[:200]}, but {str(b)[:200]} when its Experiment is used alone (same data, same generator answers)", "cls": "experiment:irreproducible"})
            if _v: return _v
            _v = emit({"why": f"two Experiments used in alternation: call {k} ({c['ops'][k]}) differs from the same call on the Experiment alone: {str(a)[:160]} vs {str(b)[:160]}", "cls": "experiment:in-place-false-mutates"})
            if _v: return _v
    if not o["shared_intact"]:
        _v = emit({"why": "the label array handed to both Experiments was modified", "cls": "experiment:response-changed"})
        if _v: return _v
    return None


def run_failhist(c):
    import random as _r
    n = len(c["g"])
    t0 = Tape(None, lazy(_r.Random(c["aseed"]), "random"))
    fn = NPC.randomize_in_strata if c["strat"] else NPC.randomize_group
    R = Experiment.Randomizer(randomize=fn, seed=t0)
    if c["container"] == "table":
        table = np.empty((n, 4), dtype=object)
        for i in range(n):
            table[i, 0] = c["s1"][i]; table[i, 1] = 7; table[i, 2] = c["resp"][i][0]; table[i, 3] = c["resp"][i][1]
        e = Experiment(group=np.array(c["g"], dtype=object), response=table[:, 2:], covariate=table[:, 0:2], randomizer=R)
    else:
        e = Experiment(group=list(c["g"]), response=[list(r) for r in c["resp"]], covariate=[[v, 7] for v in c["s1"]], randomizer=R)
    init = snap(e)
    out = {}
    if c["warm"]:
        out["warm"] = list(guarded(lambda: [int(v) for v in e.randomize(in_place=True).group]))[:2]
    g_before = [int(v) for v in e.group]
    log_before = len(t0.log)
    calls = [0]
    def failing(data):
        calls[0] += 1
        if calls[0] >= c["at"]:
            raise (Abort() if c["base"] else ValueError("test statistic failed on purpose"))
        return float(np.sum(np.asarray(data.response)[np.asarray(data.group) == data.group[0], 0].astype(float)))
    good = mk_tests([["mean_diff", 0], ["mean_diff", 1]])
    np.random.seed(c["gseed"]); gstate = np.random.get_state()[1].tolist()[:8]
    bad_seed = [[1, 2], {"seed": 3}, np.random.default_rng(1), np.array(5)][c["at"] % 4]
    fk = c["fail"]
    if fk == "sim_npc":
        th = lambda: NPC.sim_npc(e, [failing, good[1]], combine="tippett", in_place=c["in_place"], reps=c["reps"] + 3)
    elif fk == "wy":
        th = lambda: NPC.westfall_young(e, [good[0], failing], method=["minP", "maxT"][c["at"] % 2], in_place=c["in_place"], reps=c["reps"] + 3)
    elif fk == "bad_seed_randomize":
        th = lambda: e.randomize(in_place=c["in_place"], seed=bad_seed)
    elif fk == "bad_seed_sim_npc":
        th = lambda: NPC.sim_npc(e, good, combine="tippett", in_place=c["in_place"], reps=c["reps"], seed=bad_seed)
    else:
        th = lambda: NPC.westfall_young(e, good, in_place=c["in_place"], reps=c["reps"], seed=bad_seed)
    out["failed"] = rejected(th)
    out["window"] = [a for (_, a) in t0.log[log_before:]]
    out["fork_window"] = [a for (_, a) in t0.forks[-1].log] if t0.forks else []
    out["after_fail"] = {"group": [int(v) for v in e.group], "group_before": g_before, "others_same": snap(e) == init, "same_randomizer": e.randomizer is R,
                         "same_prng": e.randomizer.prng is t0, "draws_by_failed_call": len(t0.log) - log_before, "n_forks": len(t0.forks)}
    # follow-up: (optionally) re-stratify in place, then valid calls
    strata = list(c["s1"])
    if c["restrat"] and c["strat"]:
        strata = list(c["s2"])
        e.covariate[:, 0] = np.array(strata, dtype=object)
        init = snap(e)          # (the caller's own edit of the strata)
    out["strata_now"] = strata
    follow = []
    gb = [int(v) for v in e.group]
    r1 = guarded(lambda: [int(v) for v in e.randomize(in_place=True).group]); follow.append(["randomize", gb, list(r1)[:2]])
    gb = [int(v) for v in e.group]
    r2 = guarded(lambda: NPC.sim_npc(e, good, combine="tippett", in_place=True, reps=c["reps"]))
    follow.append(["sim_npc", gb, [r2[0]] + ([float(r2[1][0])] if r2[0] == "ok" else list(r2[1:3])), [int(v) for v in e.group]])
    gb = [int(v) for v in e.group]
    r3 = guarded(lambda: [int(v) for v in e.randomize(in_place=False).group]); follow.append(["randomize_copy", gb, list(r3)[:2], [int(v) for v in e.group]])
    out["follow"] = follow
    out["gstate_same"] = np.random.get_state()[1].tolist()[:8] == gstate
    out["same_prng_end"] = e.randomizer.prng is t0
    out["others_same_end"] = snap(e) == init
    return out


def oracle_failhist(c, o):
    what = f"{c['fail']}(in_place={c['in_place']}) aborted by {'a non-Exception (Ctrl-C-like)' if c['base'] else 'a ValueError'} at the statistic's evaluation {c['at']}" \
        if not c["fail"].startswith("bad_seed") else f"{c['fail']}(in_place={c['in_place']}) with an unusable seed object"
    if o["failed"][0] != "exc":
        _v = emit({"why": f"{what}: the call returned normally", "cls": "experiment:raises"})
        if _v: return _v
    a = o["after_fail"]
    g0 = sorted(c["g"])
    def strata_ok(g, ref, strata):
        return all(sorted(g[i] for i in range(len(g)) if strata[i] == st) == sorted(ref[i] for i in range(len(g)) if strata[i] == st) for st in set(strata))
    if not a["others_same"] or not o["others_same_end"]:
        _v = emit({"why": f"{what}: responses or covariates changed", "cls": "experiment:response-changed"})
        if _v: return _v
    if sorted(a["group"]) != g0:
        _v = emit({"why": f"{what}: the assignment left behind {a['group']} is not a rearrangement of {c['g']}", "cls": "experiment:labels-not-conserved"})
        if _v: return _v
    if c["strat"] and not strata_ok(a["group"], a["group_before"], c["s1"]):
        _v = emit({"why": f"{what}: labels moved between strata: {a['group_before']} -> {a['group']} (strata {c['s1']})", "cls": "experiment:strata-violated"})
        if _v: return _v
    if (not c["in_place"] or c["fail"].startswith("bad_seed")) and a["group"] != a["group_before"]:
        _v = emit({"why": f"{what}: the caller's assignment changed {a['group_before']} -> {a['group']}", "cls": "experiment:in-place-false-mutates"})
        if _v: return _v
    if not a["same_randomizer"] or not a["same_prng"] or not o["same_prng_end"]:
        _v = emit({"why": f"{what}: afterwards the Experiment holds a different Randomizer / generator object than before the call (same randomizer: {a['same_randomizer']}, same generator: {a['same_prng']}, at the end: {o['same_prng_end']})", "cls": "experiment:in-place-false-mutates"})
        if _v: return _v
    if (not c["in_place"] or c["fail"].startswith("bad_seed")) and a["draws_by_failed_call"] != 0:
        _v = emit({"why": f"{what}: the Experiment's own generator was advanced by {a['draws_by_failed_call']} draws although the call worked on a copy / never started", "cls": "experiment:in-place-false-mutates"})
        if _v: return _v
    if not o["gstate_same"]:
        _v = emit({"why": f"{what}: a later call without a new seed drew from the global np.random state", "cls": "experiment:global-rng"})
        if _v: return _v
    strata = o["strata_now"]
    for step in o["follow"]:
        name, gb, r = step[0], step[1], step[2]
        if r[0] != "ok":
            _v = emit({"why": f"{what}: the valid call {name} that followed raised {r}", "cls": "experiment:raises"})
            if _v: return _v
            continue
        ga = r[1] if name != "sim_npc" else step[3]
        if name == "randomize_copy" and step[3] != gb:
            _v = emit({"why": f"{what}: a later randomize(in_place=False) changed the caller's assignment {gb} -> {step[3]}", "cls": "experiment:in-place-false-mutates"})
            if _v: return _v
        if sorted(ga) != g0:
            _v = emit({"why": f"{what}: the later call {name} produced {ga}, not a rearrangement of {c['g']}", "cls": "experiment:labels-not-conserved"})
            if _v: return _v
        if c["strat"] and not strata_ok(ga, gb, strata):
            _v = emit({"why": f"{what}: the later call {name} moved labels between the strata in force {strata}: {gb} -> {ga}", "cls": "experiment:strata-violated"})
            if _v: return _v
    return None


def run_restrat(c):
    import random as _r
    n = len(c["g"])
    t = Tape(None, lazy(_r.Random(c["aseed"]), "random"))
    rfn = NPC.randomize_group if c.get("rand") == "group" else NPC.randomize_in_strata
    R = Experiment.Randomizer(randomize=rfn, seed=t)
    resp = [[float(i)] for i in range(n)]
    e = Experiment(group=list(c["g"]), response=resp, covariate=[[v, 7] for v in c["s1"]], randomizer=R)
    tests = Experiment.make_test_array(Experiment.TestFunc.mean_diff, [0])
    def first(ex):
        if c["first"] == "randomize":
            ex.randomize(in_place=True)
        elif c["first"] == "sim_npc":
            NPC.sim_npc(ex, tests * 2, reps=2, in_place=True)
        else:
            NPC.westfall_young(ex, tests, reps=2, in_place=True)
    r1 = guarded(lambda: first(e))
    g1 = [int(v) for v in e.group]
    k0 = len(t.log)
    if c["mode"] == "edit_in_place":
        e.covariate[:, 0] = np.array(c["s2"]); target = e
    elif c["mode"] == "rebind":
        e.covariate = np.array([[v, 7] for v in c["s2"]]); target = e
    else:
        # a second Experiment (other labels, other strata) that shares the Randomizer object
        start2 = list(g1) if c.get("rand") != "group" else list(c.get("g_other", g1))
        target = Experiment(group=start2, response=resp, covariate=[[v, 7] for v in c["s2"]], randomizer=R)
    start = [int(v) for v in target.group]
    r2 = guarded(lambda: target.randomize(in_place=True))
    g2 = [int(v) for v in target.group]
    first_after = [int(v) for v in e.group]
    window = [a for (_, a) in t.log[k0:]]
    # reference: a fresh Experiment in the same state (assignment g1, strata s2) with a replay generator holding the window
    t3 = Tape(list(window))
    ref = Experiment(group=list(start), response=resp, covariate=[[v, 7] for v in c["s2"]], randomizer=Experiment.Randomizer(randomize=rfn, seed=t3))
    r3 = guarded(lambda: ref.randomize(in_place=True))
    return {"r": [list(r1)[:2], list(r2)[:2], list(r3)[:2]], "g1": g1, "g2": g2, "ref": [int(v) for v in ref.group], "left": len(t3.answers), "window": window, "start": start,
            "first_after": first_after if target is not e else None}


def run(c):
    f = c["f"]
    if f == "history":
        return run_history(c)
    if f == "restrat":
        return run_restrat(c)
    if f == "failhist":
        return run_failhist(c)
    if f == "interleave":
        return run_interleave(c)
    if f == "sharedgen":
        return run_sharedgen(c)
    if f == "testfn":
        e = Experiment(group=labels_of(c), response=c["resp"])
        fn = {"mean_diff": Experiment.TestFunc.mean_diff, "ttest": Experiment.TestFunc.ttest, "anova": Experiment.TestFunc.one_way_anova}[c["fn"]]
        r = guarded(lambda: float(fn(e, c["idx"])))
        r2 = guarded(lambda: float(Experiment.make_test_array(fn, [0, 1])[c["idx"]](e)))
        # index lists in any order, with repetitions: make_test_array(func, indices)[i](data) = func(data, indices[i])
        ilists = [[1, 0], [1, 1, 0], [0, 0], [1], [0, 1, 0, 1]]
        arr_ok = []
        for il in ilists:
            ta = guarded(lambda: Experiment.make_test_array(fn, il))
            if ta[0] != "ok":
                arr_ok.append([il, list(ta)[:2]]); continue
            vals = [list(guarded(lambda t=t: float(t(e)))) for t in ta[1]]
            direct = [list(guarded(lambda i=i: float(fn(e, i)))) for i in il]
            arr_ok.append([il, vals, direct])
        return {"r": list(r), "via_array": list(r2), "index_lists": arr_ok}
    if f == "types":
        e = Experiment(group=[0, 1, 0, 1], response=[[1], [2], [3], [4]])
        t = Experiment.make_test_array(Experiment.TestFunc.mean_diff, [0])
        return {"sim_npc": list(guarded(lambda: NPC.sim_npc([1, 2, 3], t, reps=2)))[:2],
                "wy": list(guarded(lambda: NPC.westfall_young({"group": [0, 1]}, t, reps=2)))[:2],
                "randomizer": list(guarded(lambda: Experiment(group=[0, 1], response=[[1], [2]], randomizer=NPC.randomize_group)))[:2],
                "randomizer2": list(guarded(lambda: Experiment(group=[0, 1], response=[[1], [2]], randomizer="strata")))[:2],
                # wrong-type objects of every truth value (only None means "use the default")
                **{f"randomizer_{k}": list(guarded(lambda v=v: Experiment(group=[0, 1], response=[[1], [2]], randomizer=v)))[:2]
                   for k, v in enumerate([0, 0.0, False, "", [], (), {}, 1, True, b"", range(0), Experiment])},
                **{f"data_{k}": list(guarded(lambda v=v: NPC.sim_npc(v, t, reps=2)))[:2] for k, v in enumerate([None, 0, "", [], {"group": [0, 1]}, np.zeros((2, 2))])}}
    # repro: seeded randomization from the same assignment
    outs = []
    for rep in range(2):
        cov = [[0], [0], [1], [1], [1], [0]] if c["strat"] else None
        R = Experiment.Randomizer(randomize=NPC.randomize_in_strata if c["strat"] else NPC.randomize_group)
        e = Experiment(group=[0, 1, 0, 1, 1, 0], response=[[1]] * 6, covariate=cov, randomizer=R)
        np.random.seed(rep)
        gst = lambda: (np.random.get_state()[1].tobytes(), np.random.get_state()[2])
        g0 = gst(); touched = []
        e.randomize(in_place=True, seed=c["seed"])
        if gst() != g0: touched.append("randomize(in_place=True, seed)")
        a = [int(v) for v in e.group]
        g0 = gst()
        e2 = e.randomize(in_place=False, seed=c["seed"] + 1)
        if gst() != g0: touched.append("randomize(in_place=False, seed)")
        tests = Experiment.make_test_array(Experiment.TestFunc.mean_diff, [0])
        e.response = np.array([[1], [2], [4], [8], [16], [32]], dtype=object)
        g0 = gst()
        sp = NPC.sim_npc(e, tests * 2, reps=4, seed=c["seed"] + 2, in_place=bool(rep == 0 or True))
        if gst() != g0: touched.append("sim_npc(in_place=True, seed)")
        g0 = gst()
        wy = NPC.westfall_young(e, tests, reps=4, seed=c["seed"] + 3, in_place=False)
        if gst() != g0: touched.append("westfall_young(in_place=False, seed)")
        g0 = gst()
        NPC.sim_npc(e, tests * 2, reps=2, seed=c["seed"] + 4, in_place=False)
        if gst() != g0: touched.append("sim_npc(in_place=False, seed)")
        g0 = gst()
        NPC.westfall_young(e, tests, reps=2, seed=c["seed"] + 5, in_place=True)
        if gst() != g0: touched.append("westfall_young(in_place=True, seed)")
        gsame = touched
        outs.append([a, [int(v) for v in e2.group], [int(v) for v in e.group], float(sp[0]), [float(sp[2][0]), float(sp[2][1])], [float(wy[0][0]), float(wy[1][0])], gsame])
    # the SAME Experiment object re-seeded with the same seed, from the same assignment, after its generator was
    # advanced in place: every repetition must give the same result, and the same as a fresh SHA256(seed) generator
    same = []
    cov = [[0], [0], [1], [1], [1], [0]] if c["strat"] else None
    fnr = NPC.randomize_in_strata if c["strat"] else NPC.randomize_group
    e = Experiment(group=[0, 1, 0, 1, 1, 0], response=[[1], [2], [4], [8], [16], [32]], covariate=cov, randomizer=Experiment.Randomizer(randomize=fnr))
    tests = Experiment.make_test_array(Experiment.TestFunc.mean_diff, [0])
    start = np.array(e.group).copy()
    def from_start(what, seed):
        e.group = start.copy()
        if what == "randomize":
            e.randomize(in_place=True, seed=seed); return [int(v) for v in e.group]
        if what == "randomize_copy":
            e2 = e.randomize(in_place=False, seed=seed); return [[int(v) for v in e2.group], [int(v) for v in e.group]]
        if what == "sim_npc_copy":
            r = NPC.sim_npc(e, tests * 2, reps=3, seed=seed, in_place=False); return [float(r[0]), [float(v) for v in r[2]], [int(v) for v in e.group]]
        if what == "westfall_young_copy":
            r = NPC.westfall_young(e, tests, reps=3, seed=seed, in_place=False); return [[float(v) for v in r[0]], [float(v) for v in r[1]], [int(v) for v in e.group]]
        if what == "sim_npc":
            r = NPC.sim_npc(e, tests * 2, reps=3, seed=seed, in_place=True); return [float(r[0]), [int(v) for v in e.group]]
        r = NPC.westfall_young(e, tests, reps=3, seed=seed, in_place=True); return [[float(v) for v in r[0]], [int(v) for v in e.group]]
    for what in ("randomize", "randomize_copy", "sim_npc_copy", "westfall_young_copy", "sim_npc", "westfall_young"):
        s = c["seed"] + 7 if c["seed"] != 100 else 0       # seed 0 is a seed like any other
        r1 = guarded(lambda: from_start(what, s))
        r2 = guarded(lambda: from_start(what, s))
        guarded(lambda: e.randomize(in_place=True))            # advance the generator without re-seeding
        r3 = guarded(lambda: from_start(what, s))
        from cryptorandom.cryptorandom import SHA256 as _SHA
        r4 = guarded(lambda: from_start(what, _SHA(s)))
        ent = [what, list(r1), list(r2), list(r3), list(r4)]
        if what.endswith("_copy"):
            # two more seeded calls WITHOUT touching the Experiment in between: in_place=False leaves no trace, so they agree with r1
            def again():
                if what == "randomize_copy":
                    e2 = e.randomize(in_place=False, seed=s); return [[int(v) for v in e2.group], [int(v) for v in e.group]]
                if what == "sim_npc_copy":
                    r = NPC.sim_npc(e, tests * 2, reps=3, seed=s, in_place=False); return [float(r[0]), [float(v) for v in r[2]], [int(v) for v in e.group]]
                r = NPC.westfall_young(e, tests, reps=3, seed=s, in_place=False); return [[float(v) for v in r[0]], [float(v) for v in r[1]], [int(v) for v in e.group]]
            ent.append([list(guarded(again)), list(guarded(again))])
        same.append(ent)
    return {"outs": outs, "same": same}


def snap(e):
    return [None if a is None else (np.array(a).tolist()) for a in (e.response, e.covariate)]


def run_history(c):
    rng = random.Random(c["aseed"])
    tapes = []
    def new_tape():
        t = Tape(None, lazy(random.Random(rng.randrange(10**9)), "random")); tapes.append(t); return t
    t0 = new_tape()
    fn = NPC.randomize_in_strata if c["strata"] is not None else NPC.randomize_group
    R = Experiment.Randomizer(randomize=fn, seed=t0)
    SA = {"int": [0, 1, 2], "frac": [0.25, 0.75, 1.5], "signed": [-0.5, 0.5, 0.75]}[c.get("stratalpha", "int")]
    cov = None if c["strata"] is None else [[SA[s], 7] for s in c["strata"]]
    table = table0 = None
    if c.get("container", "lists") != "lists":
        labs = labels_of(c)
        rows = [[(SA[c["strata"][i]] if c["strata"] is not None else 0), labs[i]] + list(c["resp"][i]) for i in range(len(labs))]
        table = np.empty((len(rows), len(rows[0])), dtype=object, order="F" if c["container"] == "table_f" else "C")
        for i, r in enumerate(rows):
            for j, v in enumerate(r): table[i, j] = v
        table0 = table.copy()
        e = Experiment(group=table[:, 1], response=table[:, 2:], covariate=table[:, 0:2], randomizer=R)
    else:
        e = Experiment(group=labels_of(c), response=c["resp"], covariate=cov, randomizer=R)
    init = snap(e)
    steps = []
    def probe():
        """built-in test functions on the CURRENT assignment vs their definitions (column 0)"""
        g = back(c, e.group); col = [float(r[0]) for r in c["resp"]]
        labs = sorted(set(g)); out = []
        for name, fn in (("mean_diff", Experiment.TestFunc.mean_diff), ("one_way_anova", Experiment.TestFunc.one_way_anova)):
            if name == "mean_diff" and len(labs) != 2:
                continue
            got = guarded(lambda: float(Experiment.make_test_array(fn, [0])[0](e)))
            if name == "mean_diff":
                want = float(np.mean([col[i] for i in range(len(g)) if g[i] == labs[0]]) - np.mean([col[i] for i in range(len(g)) if g[i] == labs[1]]))
            else:
                m = float(np.mean(col)); want = float(sum((np.mean([col[i] for i in range(len(g)) if g[i] == k]) - m) ** 2 * g.count(k) for k in labs))
            if got[0] != "ok" or abs(got[1] - want) > 1e-9 * (1 + abs(want)):
                out.append([name, list(got), want, g])
        return out
    probes = [probe()]
    for op in c["ops"]:
        cur = e.randomizer.prng
        nforks_before = {id(t): len(t.forks) for t in tapes}
        seed = new_tape() if op["reseed"] else None
        g_before = back(c, e.group)
        if op["op"] == "randomize":
            r = guarded(lambda: e.randomize(in_place=op["in_place"], seed=seed))
            out = ["ok", back(c, r[1].group), r[1] is e] if r[0] == "ok" else list(r)
        elif op["op"] == "sim_npc":
            r = guarded(lambda: NPC.sim_npc(e, mk_tests(op["tests"]), combine=make_comb(op["comb"]), in_place=op["in_place"], reps=op["reps"], seed=seed))
            out = ["ok", float(r[1][0]), [float(r[1][1][j]) for j in range(len(op["tests"]))], [float(r[1][2][j]) for j in range(len(op["tests"]))]] if r[0] == "ok" else list(r)
        else:
            r = guarded(lambda: NPC.westfall_young(e, mk_tests(op["tests"]), method=op["method"], alternatives=op["alts"], in_place=op["in_place"], reps=op["reps"], seed=seed))
            out = ["ok", [float(r[1][0][j]) for j in range(len(op["tests"]))], [float(r[1][1][j]) for j in range(len(op["tests"]))]] if r[0] == "ok" else list(r)
        used = e.randomizer.prng
        fork = None
        for t in tapes + [f for t in tapes for f in t.forks]:
            pass
        # the fork created by this operation (if any) hangs off the generator in use after the optional reseed
        if len(used.forks) > nforks_before.get(id(used), 0):
            fork = used.forks[-1]
        steps.append({"out": out, "group_after": back(c, e.group), "group_before": g_before, "others_same": snap(e) == init and (table is None or bool(np.all(table == table0))),
                      "reseed_idx": tapes.index(seed) if seed is not None else None, "fork": fork, "gen_is": tapes.index(e.randomizer.prng)})
        if r[0] != "ok":
            break
        probes.append(probe())
    # tapes are complete now: freeze their full answer lists
    for s in steps:
        s["fork_answers"] = [a for (_, a) in s["fork"].log] if s["fork"] is not None else []
        del s["fork"]
    return {"steps": steps, "tapes": [[a for (_, a) in t.log] for t in tapes], "probes": probes}


# ------------------------------------------------------------------------------------------------
def oracle_restrat(c, o):
    if any(r[0] != "ok" for r in o["r"][:2]):
        _v = emit({"why": f"randomization raised {o['r']}", "cls": "experiment:raises"})
        if _v: return _v
    if o.get("first_after") is not None and o["first_after"] != o["g1"]:
        _v = emit({"why": f"randomizing a second Experiment that shares the Randomizer changed the FIRST Experiment's assignment from {o['g1']} to {o['first_after']} (second: {o.get('start')} -> {o['g2']})",
                   "cls": "experiment:labels-not-conserved"})
        if _v: return _v
    base = o.get("start", o["g1"])
    if sorted(base) != sorted(o["g2"]):
        _v = emit({"why": f"randomization turned {base} into {o['g2']}: not a rearrangement of the labels", "cls": "experiment:labels-not-conserved"})
        if _v: return _v
    for k in (set(c["s2"]) if c.get("rand") != "group" else []):
        a = sorted(base[i] for i in range(len(c["s2"])) if c["s2"][i] == k); b = sorted(o["g2"][i] for i in range(len(c["s2"])) if c["s2"][i] == k)
        if a != b:
            _v = emit({"why": f"after the strata were changed to {c['s2']} ({c['mode']}; earlier strata {c['s1']}, first call {c['first']}), randomize_in_strata turned {o['g1']} into {o['g2']}: labels moved between the current strata",
                       "cls": "experiment:strata-violated"})
            if _v: return _v
    if o["r"][2][0] != "ok" or o["ref"] != o["g2"] or o["left"] != 0:
        _v = emit({"why": f"randomization after a change of strata ({c['mode']}, {c['s1']} -> {c['s2']}) gives {o['g2']}; a fresh Experiment in the same state on the same answers gives {o['ref']} (answers left: {o['left']})",
                   "cls": "experiment:irreproducible"})
        if _v: return _v
    return None


def oracle(c, o):
    f = c["f"]
    if f == "failhist":
        return oracle_failhist(c, o)
    if f == "interleave":
        return oracle_interleave(c, o)
    if f == "sharedgen":
        return oracle_sharedgen(c, o)
    if f == "restrat":
        return oracle_restrat(c, o)
    if f == "types":
        for k, v in o.items():
            if v[0] != "exc" or v[1] != "ValueError":
                _v = emit({"why": f"wrong-type argument accepted ({k}): {v}", "cls": f"experiment:type-check:{k}"})
                if _v: return _v
        return None
    if f == "repro":
        a, b = o["outs"]
        if a != b:
            _v = emit({"why": f"seeded randomize / sim_npc / westfall_young from the same assignment differ between two runs: {a} vs {b}", "cls": "experiment:irreproducible"})
            if _v: return _v
        if a[6] or b[6]:
            _v = emit({"why": f"seeded calls advanced numpy's global random state: {a[6] or b[6]}", "cls": "experiment:global-rng"})
            if _v: return _v
        for ent in o.get("same", []):
            what, r1, r2, r3, r4 = ent[:5]
            if len(ent) > 5 and any(x != r1 for x in ent[5]):
                _v = emit({"why": f"{what}(seed={c['seed'] + 7}): repeated seeded calls on the same, untouched Experiment give {r1[1]}, then {[x[1] for x in ent[5]]}", "cls": "experiment:irreproducible"})
                if _v: return _v
            if r1[0] != "ok":
                _v = emit({"why": f"{what}(in_place=True, seed=...) raised {r1}", "cls": "experiment:raises"})
                if _v: return _v
            if not (r1 == r2 == r3):
                _v = emit({"why": f"{what}(seed={c['seed'] + 7}) repeated on the same Experiment from the same assignment gives {r1[1]}, {r2[1]}, then (after an unseeded randomize) {r3[1]}", "cls": "experiment:irreproducible"})
                if _v: return _v
            if what.endswith("_copy") and r1[0] == "ok" and r1[1][-1] != [0, 1, 0, 1, 1, 0]:
                _v = emit({"why": f"{what}(in_place=False) changed the caller's group assignment to {r1[1][-1]}", "cls": "experiment:in-place-false-mutates"})
                if _v: return _v
            if r1 != r4:
                _v = emit({"why": f"{what}: int seed {c['seed'] + 7} gives {r1[1]} but a fresh SHA256 generator with that seed {r4[1]}", "cls": "experiment:int-vs-sha256"})
                if _v: return _v
        return None
    if f == "testfn":
        g = c["g"]; idx = c["idx"]; col = [float(r[idx]) for r in c["resp"]]
        labs = sorted(set(g)); r = o["r"]
        if c["fn"] in ("mean_diff", "ttest") and len(labs) != 2:
            return None if (r[0] == "exc" and r[1] == "ValueError") else {"why": f"{c['fn']} with {len(labs)} groups did not raise ValueError: {r}", "cls": "testfunc:groups-guard"}
        if r[0] != "ok":
            _v = emit({"why": f"TestFunc.{c['fn']} raised {r}", "cls": "testfunc:raises"})
            if _v: return _v
        a = [col[i] for i in range(len(g)) if g[i] == labs[0]]
        if c["fn"] == "mean_diff":
            b = [col[i] for i in range(len(g)) if g[i] == labs[1]]
            want = float(np.mean(a) - np.mean(b))
        elif c["fn"] == "ttest":
            b = [col[i] for i in range(len(g)) if g[i] == labs[1]]
            want = float(ttest_ind(a, b, equal_var=True)[0])
        else:
            m = float(np.mean(col)); want = sum((np.mean([col[i] for i in range(len(g)) if g[i] == k]) - m) ** 2 * g.count(k) for k in labs)
        ok = (math.isnan(want) and math.isnan(r[1])) or r[1] == want or abs(r[1] - want) <= 1e-9 * (1 + abs(want))
        if not ok:
            _v = emit({"why": f"TestFunc.{c['fn']}(index={idx}) = {r[1]} but its definition gives {want} (groups {g}, column {col})", "cls": f"testfunc:{c['fn']}"})
            if _v: return _v
        v = o["via_array"]
        if v[0] != "ok" or not ((math.isnan(v[1]) and math.isnan(r[1])) or v[1] == r[1]):
            _v = emit({"why": f"make_test_array(func, indices)[i](data) = {v} differs from func(data, indices[i]) = {r}", "cls": "testfunc:make_test_array"})
            if _v: return _v
        for ent in o.get("index_lists", []):
            same = lambda a, b: a == b or (a[0] == b[0] == "ok" and math.isnan(a[1]) and math.isnan(b[1])) or (a[0] == b[0] == "exc" and a[1] == b[1])
            if len(ent) == 2 or len(ent[1]) != len(ent[0]) or any(not same(a[:2], b[:2]) for a, b in zip(ent[1], ent[2])):
                _v = emit({"why": f"make_test_array({c['fn']}, {ent[0]}) gives {ent[1:2]}, func(data, indices[i]) gives {ent[2:] if len(ent) > 2 else None}", "cls": "testfunc:make_test_array"})
                if _v: return _v
        return None
    g0 = c["g"]
    for k, pr in enumerate(o.get("probes", [])):
        if pr:
            name, got, want, g = pr[0]
            _v = emit({"why": f"after {k} operation(s) TestFunc.{name} on the current assignment {g} returns {got}, its definition gives {want}", "cls": f"testfunc:{name}:stale"})
            if _v: return _v
    for k, s in enumerate(o["steps"]):
        op = c["ops"][k]
        if s["out"][0] != "ok":
            if s["out"][1] == "ValueError" and len(set(g0)) != 2 and any(t[0] == "mean_diff" for t in op.get("tests", [])):
                return None      # mean_diff is defined for exactly two groups: documented ValueError ends the history
            _v = emit({"why": f"operation {k} {op} raised {s['out']}", "cls": "experiment:raises"})
            if _v: return _v
        if not s["others_same"]:
            _v = emit({"why": f"operation {k} {op} changed responses or covariates", "cls": "experiment:response-changed"})
            if _v: return _v
        ga = s["group_after"]
        if sorted(ga) != sorted(g0):
            _v = emit({"why": f"after operation {k} {op} the group vector {ga} is not a rearrangement of the original labels {g0}", "cls": "experiment:labels-not-conserved"})
            if _v: return _v
        if c["strata"] is not None:
            for st in set(c["strata"]):
                if sorted(ga[i] for i in range(len(ga)) if c["strata"][i] == st) != sorted(g0[i] for i in range(len(g0)) if c["strata"][i] == st):
                    _v = emit({"why": f"after operation {k} {op} labels moved between strata: {ga} (strata {c['strata']}, original {g0})", "cls": "experiment:strata-violated"})
                    if _v: return _v
        if not op["in_place"] and ga != s["group_before"]:
            _v = emit({"why": f"operation {k} {op} with in_place=False changed the caller's group assignment {s['group_before']} -> {ga}", "cls": "experiment:in-place-false-mutates"})
            if _v: return _v
        if op["op"] == "randomize":
            same_obj = s["out"][2]
            if op["in_place"] != same_obj:
                _v = emit({"why": f"randomize(in_place={op['in_place']}) returned {'the same' if same_obj else 'a different'} object", "cls": "experiment:copy-semantics"})
                if _v: return _v
            if sorted(s["out"][1]) != sorted(g0):
                _v = emit({"why": f"randomize returned group {s['out'][1]}, not a rearrangement of {g0}", "cls": "experiment:labels-not-conserved"})
                if _v: return _v
    return None


def exp_coq(c, o):
    resp = clist(c["resp"], lambda r: qlist([Fraction(v) for v in r]))
    st = "None" if c["strata"] is None else f"(Some {clist(c['strata'])})"
    kind = "Unstrat" if c["strata"] is None else "Strat"
    return f"{{| group := {clist(c['g'])}; response := {resp}; strata := {st}; kind := {kind}; gen := {clist(o['tapes'][0], cnat)} |}}"


def to_coq(c, o):
    f = c["f"]
    if f == "testfn":
        if any(isinstance(v, float) and not math.isfinite(v) for r in c["resp"] for v in r):
            return None
        r = o["r"]
        if c["fn"] == "ttest":
            # the model computes the rational sign(t) t^2; undefined / infinite t (zero pooled variance) is left to the oracle
            if r[0] == "ok" and not math.isfinite(r[1]):
                return None
            if r[0] == "ok" and abs(r[1]) > 1e3:
                return None
            fn = f"(TtestSqF {cnat(c['idx'])})"
            impl = cres(("ok", Fraction(r[1]) * abs(Fraction(r[1]))) if r[0] == "ok" else r, cq)
            return f"TestFnCase {fn} {clist(c['g'])} {clist(c['resp'], lambda r: qlist([Fraction(v) for v in r]))} {impl}"
        fn = f"({'MeanDiffF' if c['fn'] == 'mean_diff' else 'AnovaF'} {cnat(c['idx'])})"
        impl = cres(("ok", Fraction(r[1])) if r[0] == "ok" and math.isfinite(r[1]) else (r if r[0] == "exc" else ("exc", "Other")), cq)
        return f"TestFnCase {fn} {clist(c['g'])} {clist(c['resp'], lambda r: qlist([Fraction(v) for v in r]))} {impl}"
    if f == "failhist":
        # the state an ABORTED call leaves behind, against Model/ExperimentAbort.v: j = at - 1 randomizations were completed
        # when the statistic raised at its evaluation number [at]; the answers are those the call consumed
        if c["fail"] not in ("sim_npc", "wy") or o["failed"][0] != "exc" or o["failed"][1] not in ("ValueError", "Base:Abort"):
            return None
        a = o["after_fail"]
        ans = o["window"] if c["in_place"] else o["fork_window"]
        resp = clist(c["resp"], lambda r: qlist([Fraction(v) for v in r]))
        st = f"(Some {clist(c['s1'])})" if c["strat"] else "None"
        e = f"{{| group := {clist(a['group_before'])}; response := {resp}; strata := {st}; kind := {'Strat' if c['strat'] else 'Unstrat'}; gen := {clist(ans, cnat)} |}}"
        return f"AbortCase {e} {cbool(c['in_place'])} {cnat(c['at'] - 1)} {clist(a['group'])}"
    if f == "restrat":
        # the model's step from the state reached after the change of strata: assignment g1, the NEW strata, the answers consumed
        if any(r[0] != "ok" for r in o["r"][:2]):
            return None
        n = len(c["g"])
        if c.get("rand") == "group":
            return None
        e = (f"{{| group := {clist(o.get('start', o['g1']))}; response := {clist([[Fraction(i)] for i in range(n)], lambda r: qlist(r))}; strata := Some {clist(c['s2'])}; "
             f"kind := Strat; gen := {clist(o['window'], cnat)} |}}")
        return f"History {e} [(Randomize true None [])] [(Step {clist(o['g2'])} (OGroup {clist(o['g2'])}))]"
    if f != "history":
        return None
    ops, exps = [], []
    for k, s in enumerate(o["steps"]):
        op = c["ops"][k]
        rs = "None" if s["reseed_idx"] is None else f"(Some {clist(o['tapes'][s['reseed_idx']], cnat)})"
        fork = clist(s["fork_answers"], cnat)
        tests = clist(op.get("tests", []), lambda t: f"({'MeanDiffF' if t[0] == 'mean_diff' else 'AnovaF'} {cnat(t[1])})")
        if op["op"] == "randomize":
            ops.append(f"Randomize {cbool(op['in_place'])} {rs} {fork}")
        elif op["op"] == "sim_npc":
            ops.append(f"SimNpc {cbool(op['in_place'])} {rs} {fork} {cnat(op['reps'])} {tests} {comb_coq(op['comb'])}")
        else:
            al = clist([WALT[op["alts"]]] * len(op["tests"]), lambda x: x)
            ops.append(f"WestfallYoung {cbool(op['in_place'])} {rs} {fork} {cnat(op['reps'])} {tests} {'MinP' if op['method'] == 'minP' else 'MaxT'} {al}")
        out = s["out"]
        if out[0] != "ok":
            name = out[1] if out[1] in ("ValueError", "TypeError") else "OutOfTape"
            exps.append(f"Raised {name}")
            break
        if not all(math.isfinite(v) for v in (out[1:] if op["op"] == "randomize" else [x for part in out[1:] for x in (part if isinstance(part, list) else [part])]) if isinstance(v, float)):
            return None
        if op["op"] == "randomize":
            o_c = f"(OGroup {clist(out[1])})"
        elif op["op"] == "sim_npc":
            o_c = f"(ONpc {cq(fl(out[1]))} {qlist([fl(v) for v in out[2]])} {qlist([fl(v) for v in out[3]])})"
        else:
            o_c = f"(OWY {qlist([fl(v) for v in out[1]])} {qlist([fl(v) for v in out[2]])})"
        exps.append(f"Step {clist(s['group_after'])} {o_c}")
    return f"History {exp_coq(c, o)} {clist(ops, lambda x: '(' + x + ')')} {clist(exps, lambda x: '(' + x + ')')}"


def nontrivial(c, o):
    if c["f"] == "failhist":
        return o["failed"][0] == "exc"
    if c["f"] == "interleave":
        return len({op["on"] for op in c["ops"]}) == 2
    if c["f"] == "sharedgen":
        return o["re"][0] == "ok"
    if c["f"] != "history":
        return c["f"] == "testfn" and o["r"][0] == "ok"
    ips = [op["in_place"] for op in c["ops"][:len(o["steps"])]]
    return (True in ips) and (False in ips) and any(s["group_after"] != c["g"] for s in o["steps"])


def key(c):
    return json.dumps(c, sort_keys=True)
