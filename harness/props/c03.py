"""C03: admissible rearrangements; caller data untouched -- wrapper over harness/all_rand.py (scripted-tape runs of the unstratified and stratified tests and helpers)."""
from .. import all_rand as AR
from ..all_rand import COQ_HEADER, run, to_coq, extra_terms, nontrivial, key, SKIPPED

RULE = ('all scripted runs of the unstratified and stratified tests and of permute / permute_within_groups / permute_rows: every argument received by a recording statistic and every helper output is checked to be an admissible rearrangement (pooled multiset and group sizes, signs only, labels, within stratum / row); caller arrays (int, float, object dtypes) compared bytewise around every call; Experiment histories (in_place=False must leave the Experiment bit-identical, labels conserved within strata) and permute_incidence_fixed_sums inputs (several dtypes and layouts); non-trivial = non-constant data with more than one group/stratum; distinct by full input')
ASSUMPTIONS = [
    "the generator is driven through a scripted subclass of cryptorandom.SHA256 (harness/tape.py): requests are answered lazily and logged; the same answers are replayed for the keep_dist twin",
    "data are exactly representable (small integers times group-size products times powers of two, optional large offsets), so named float statistics are exact; 't'-type statistics are black boxes checked through dist",
    "SHA-256 / Mersenne-Twister output is assumed uniform; condition.argsort() is an oracle input of the model"]
oracle = AR.filtered_oracle(['input-modified', 'inadmissible', 'group-sizes', 'observed-not-data', 'double-eval', 'in-place-false-mutates', 'in-place', 'labels-not-conserved', 'strata-violated', 'response-changed', 'shape', 'margins'])


def cases(tier, rng, dist):
    return AR.cases(tier, rng, dist, extra=('exp', 'pifs'))


def generated(tier):
    """G2: every statement of /repo/permute/*.py that can write into an object received as a parameter"""
    from ..translate.effects import scan
    from ..common import cstr
    _, writes = scan()
    items = sorted({(m, f, t) for (m, f, ln, k, t) in writes})
    detail = [list(w) for w in writes]
    text = ("From Coq Require Import String List Bool.\nImport ListNotations.\nFrom PV Require Import Lib.EffectSites.\n"
            "Definition sites : list (string * string * string) := [" + "; ".join(f"({cstr(m)}, {cstr(f)}, {cstr(t)})" for (m, f, t) in items) + "].\n"
            "Theorem parameter_writes_allowed : forallb write_ok sites = true.\nProof. vm_compute. reflexivity. Qed.\n")
    return [{"name": "G2_parameter_writes_allowed", "file": "C03_G2_writes.v", "text": text, "detail": detail, "cls": "source:parameter-write"}]
