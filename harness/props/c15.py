"""C15: sprt applies Wald's rule to every prefix; bernoulli_lh_ratio."""
import itertools, json, math
from fractions import Fraction
import numpy as np
from ..common import *
from permute.sprt import sprt, bernoulli_lh_ratio

COQ_HEADER = """From PV Require Import Lib.Base Model.Sprt Corr.C15.
Open Scope Q_scope."""
RULE = ("all 0/1 sequences of length 0..8 (quick; thorough 0..12) x 7 Bernoulli parameter sets x random_order in {T,F}, with a "
        "recording likelihood-ratio function (the prefixes it receives are compared exactly); table-lookup ratio functions with "
        "values exactly on the thresholds (alpha=1/2,beta=1/4: A=1/2, B=3/2 exact); non-trivial = the test stops strictly before "
        "the last observation or stops exactly at it; distinct by full input; cases with a ratio within 1e-9 of a threshold "
        "are skipped for the model comparison and counted")
EXHAUSTIVE = {"quick": ["0/1 sequences len<=8 x 7 parameter sets x random_order"], "thorough": ["0/1 sequences len<=12 x 7 parameter sets x random_order"]}
ASSUMPTIONS = ["float ratios compared with exact Q at 1e-9 relative; threshold comparisons are exact in the model, near-threshold cases skipped"]
SKIPPED = [0]
PARAMS = [("1/2", "1/10", "1/20", "1/20"), ("1/10", "1/2", "1/20", "1/20"), ("1/2", "3/5", "1/10", "1/5"),
          ("3/10", "7/10", "1/100", "1/100"), ("1/2", "1/2", "1/20", "1/20"), ("9/10", "1/5", "1/5", "1/10"),
          ("2/5", "3/5", "1/4", "1/4")]


def _cases(tier, rng, dist):
    # likelihood functions that use only PART of the prefix they are given (every second observation, the last three, all but the
    # first ...), on list and ndarray samples: sprt still shows them x[:1], x[:2], ... and applies Wald's rule to what they return
    for _ in range(60 if tier == "quick" else 600):
        n = rng.randint(3, 14)
        yield {"lr": "bern", "po": "1/2", "pa": rng.choice(["1/10", "9/10", "1/4", "3/4"]), "alpha": rng.choice(["1/20", "1/5"]), "beta": rng.choice(["1/20", "1/5"]),
               "xs": [rng.randint(0, 1) for _ in range(n)], "ro": rng.random() < 0.85, "dtype": rng.choice(["list", "int64", "int64", "float"]),
               "slice": rng.choice(["even", "tail3", "drop1", "first"])}
    L = 8 if tier == "quick" else 12
    for n in range(0, L + 1):
        for xs in itertools.product((0, 1), repeat=n):
            for k, prm in enumerate(PARAMS):
                if tier == "quick" and n >= 7 and (sum(xs) + k) % 3:
                    continue
                for ro in (True, False):
                    if not ro and (n + k) % 4:
                        continue
                    yield {"lr": "bern", "po": prm[0], "pa": prm[1], "alpha": prm[2], "beta": prm[3], "xs": list(xs), "ro": ro}
    # long samples in narrow dtypes: the number of successes exceeds what int8 / uint8 can hold
    for _ in range(8 if tier == "quick" else 60):
        n = rng.randint(260, 400)
        yield {"lr": "bern", "po": "1/2", "pa": rng.choice(["13/25", "12/25"]), "alpha": "1/20", "beta": "1/20",
               "xs": [1 if rng.random() < 0.7 else 0 for _ in range(n)], "ro": False, "dtype": rng.choice(["int8", "uint8", "bool", "int64", "list"])}
    # samples of several thousand observations examined in order: every prefix length 1, 2, 3, ... up to the first exit
    for n in ((2503, 3001, 5003, 7001) if tier == "quick" else (2503, 3001, 4001, 5003, 7001, 11003, 2047, 2049)):
        yield {"lr": "bern", "po": "1/2", "pa": "13/25", "alpha": "1/20", "beta": "1/20", "xs": [1 if rng.random() < 0.66 else 0 for _ in range(n)], "ro": True, "dtype": "int64", "lenlog": True}
    vals = ["1/2", "3/2", "1", "3/4", "5/4", "1/4", "2", "0", "149/100", "51/100"]
    for _ in range(600 if tier == "quick" else 6000):
        n = rng.randint(0, 7)
        tab = [rng.choice(vals) for _ in range(n + 1)]
        yield {"lr": "table", "table": tab, "alpha": "1/2", "beta": "1/4", "xs": [rng.randint(0, 3) for _ in range(n)], "ro": rng.random() < 0.8}
    # ratios of exactly +inf (the H0 likelihood is 0 or underflows) are at least every threshold: H0 is rejected
    for _ in range(60 if tier == "quick" else 600):
        n = rng.randint(1, 7)
        tab = [rng.choice(vals + ["inf", "inf"]) for _ in range(n + 1)]
        tab[rng.randint(1, n)] = "inf"
        yield {"lr": "table", "table": tab, "alpha": "1/2", "beta": "1/4", "xs": [rng.randint(0, 3) for _ in range(n)], "ro": rng.random() < 0.7}
    for k in range(4 if tier == "quick" else 12):
        yield {"lr": "bern", "po": ["1/10", "1/100"][k % 2], "pa": "1/2", "alpha": "1/20", "beta": "1/20", "xs": [1] * (400 + 50 * k), "ro": False, "dtype": ["list", "int64"][k % 2]}


SLICES = {None: (lambda v: v), "even": (lambda v: v[::2]), "tail3": (lambda v: v[-3:]), "drop1": (lambda v: v[1:]), "first": (lambda v: v[:1])}


def _run(c):
    log = []
    if c["lr"] == "bern":
        po, pa = float(Fraction(c["po"])), float(Fraction(c["pa"]))
        sl = SLICES[c.get("slice")]
        def lr(x):
            # (a user's likelihood function may look at any part of the prefix it is given: every second observation, the last three ...)
            log.append(len(x) if c.get("lenlog") else [int(v) for v in x]); return bernoulli_lh_ratio(sl(x), po, pa)
    else:
        tab = [float("inf") if v == "inf" else float(Fraction(v)) for v in c["table"]]
        def lr(x):
            log.append(list(x)); return tab[len(x)]
    xs = list(c["xs"])
    if c.get("dtype", "list") != "list":
        xs = np.array(c["xs"], dtype=c["dtype"])
    r = guarded(lambda: sprt(lr, float(Fraction(c["alpha"])), float(Fraction(c["beta"])), xs, c["ro"]))
    if r[0] != "ok":
        return {"ok": False, "err": list(r)}
    (concl, ts) = r[1]
    log = [[int(v) for v in l] for l in log] if not c.get("lenlog") else list(log)
    # the decision returned is the caller's own object: clearing it must not change what a later, identical call reports
    first = [bool(concl[0]), bool(concl[1])]
    again = None
    if isinstance(concl, list):
        concl[0] = not concl[0]; concl[1] = not concl[1]
        r2 = guarded(lambda: sprt(lr, float(Fraction(c["alpha"])), float(Fraction(c["beta"])), xs, c["ro"]))
        again = [bool(r2[1][0][0]), bool(r2[1][0][1])] if r2[0] == "ok" else list(r2)[:2]
        log = log[:len(log) // 2] if r2[0] == "ok" and len(log) % 2 == 0 else log
    concl = first
    return {"ok": True, "concl": [bool(concl[0]), bool(concl[1])], "again": again, "ts": float(ts), "log": log, "unmodified": [int(v) for v in xs] == c["xs"]}


def spec(c):
    al, be = Fraction(c["alpha"]), Fraction(c["beta"])
    A, B = be / (1 - al), (1 - be) / al
    if c["lr"] == "bern":
        po, pa = Fraction(c["po"]), Fraction(c["pa"])
        sl = SLICES[c.get("slice")]
        def lr(x):
            x = sl(list(x))
            s = sum(x); f = len(x) - s
            den = po**s * (1 - po)**f
            # the float likelihood under H0 underflows to 0 below 2^-1075: the ratio the library computes is then +inf
            return (pa**s * (1 - pa)**f) / den if den >= Fraction(1, 2**1074) else float("inf")
    else:
        tab = [float("inf") if v == "inf" else Fraction(v) for v in c["table"]]
        lr = lambda x: tab[len(x)]
    xs = c["xs"]; log = []; near = False
    def chk(t):
        nonlocal near
        for th in (A, B):
            if t != th and t != float("inf") and abs(t - th) <= Fraction(1, 10**8) * th:
                near = True
    if c["ro"]:
        ts = Fraction(1)
        for k in range(1, len(xs) + 1):
            ts = lr(xs[:k]); log.append(k if c.get("lenlog") else xs[:k]); chk(ts)
            if not (A < ts < B):
                break
    else:
        ts = lr(xs); log.append(len(xs) if c.get("lenlog") else list(xs)); chk(ts)
    concl = [ts >= B, (ts <= A) and not (ts >= B)]
    return concl, ts, log, near


def oracle(c, o):
    if not o["ok"]:
        return {"why": f"sprt raised {o['err']}", "cls": "sprt:raises"}
    concl, ts, log, near = spec(c)
    if near:
        return None
    if o["log"] != log:
        return {"why": f"likelihood ratio evaluated on {o['log']}, Wald's rule examines {log}", "cls": "sprt:prefixes"}
    if o.get("again") is not None and o["again"] != o["concl"]:
        return {"why": f"sprt reported {o['concl']}; after the caller edited that list, an identical second call reports {o['again']}: the decision objects are shared between calls", "cls": "sprt:decision"}
    if o["concl"] != concl:
        return {"why": f"decision {o['concl']} but ratio {float(ts)} with thresholds demands {concl}", "cls": "sprt:decision"}
    if ts == float("inf") or o["ts"] == float("inf"):
        if o["ts"] != ts:
            return {"why": f"reported ratio {o['ts']} expected {ts}", "cls": "sprt:ratio"}
        return None
    if abs(Fraction(o["ts"]) - ts) > Fraction(1, 10**9) * (abs(ts) + 1):
        return {"why": f"reported ratio {o['ts']} expected {float(ts)}", "cls": "sprt:ratio"}
    return None


def to_coq(c, o):
    if not o["ok"] or c.get("lenlog") or c.get("slice"):
        return None            # (sliced likelihood functions are decided by the exact oracle only)
    if spec(c)[3]:
        SKIPPED[0] += 1
        return None
    if o["ts"] == float("inf") or "inf" in c.get("table", []):
        return None       # the model's ratios are rationals: infinite ratios are decided by the oracle only
    f = f"(Bern {cq(Fraction(c['po']))} {cq(Fraction(c['pa']))})" if c["lr"] == "bern" else f"(Table {clist([Fraction(v) for v in c['table']], cq)})"
    return (f"Case {f} {cq(Fraction(c['alpha']))} {cq(Fraction(c['beta']))} {clist(c['xs'])} {cbool(c['ro'])} "
            f"{cbool(o['concl'][0])} {cbool(o['concl'][1])} {cq(Fraction(o['ts']))} {clist(o['log'], lambda p: clist(p))}")


def nontrivial(c, o):
    return o["ok"] and c["ro"] and len(c["xs"]) >= 2 and 1 <= len(o["log"]) <= len(c["xs"]) and any(o["concl"])


def key(c):
    return json.dumps(c, sort_keys=True)


def generated(tier):
    """source-derived obligations (G4 formulas): regenerated from /repo's current source text on every run"""
    from ..translate.tables import obligations
    return obligations("C15")


# ---- failure paths (round 12): every third case is preceded by calls that the library rejects, or that fail inside a user
# callable; they raise on the unchanged tree and must leave nothing behind (common.fail_first) ----

def failing_calls(c):
    k = 1 + c["ff"] % 4
    seen = []
    def lr(x):
        seen.append(1)
        if len(seen) >= k:
            raise (Abort() if c["ff"] % 2 else ValueError("likelihood ratio failed on purpose"))
        return 1.0
    xs = [1, 0, 1, 1, 0, 1, 0, 0][:max(k + 1, 2)]
    return [("likelihood ratio raises at prefix %d" % k, lambda: sprt(lr, 0.05, 0.05, xs, True)),
            ("alpha given as a string", lambda: sprt(lambda x: 1.0, "0.05", 0.05, [1, 0, 1], True))]


def cases(tier, rng, dist):
    return mark_ff(_cases(tier, rng, dist))


def run(c):
    ff = fail_first(failing_calls(c)) if "ff" in c else None
    o = _run(c)
    if ff is not None and isinstance(o, dict):
        o["ff"] = ff
    return o
