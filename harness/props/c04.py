"""C04: randomizations are uniform over the admissible set and independent across repetitions.
Decision-tree exploration: the scripted generator sees the bound of every request, so ALL answer sequences of a call on a
small design are enumerated; each leaf has probability prod(1/bound).  The leaves are (i) compared with the Gallina model
(exhaustive correspondence over the tape space) and (ii) counted: every admissible outcome must occur equally often."""
import random, itertools, json, math
from fractions import Fraction
from collections import Counter
import numpy as np
from ..common import *
from ..tape import Tape, LogRS
from ..core_runs import qlist, tape_coq, fl
from permute import core, ksample, utils, stratified, npc as NPC

COQ_HEADER = """From PV Require Import Lib.Base Model.Prng Model.Core Model.Stratified Corr.CoreCases Corr.C02 Corr.AllRand.
Open Scope Q_scope."""
RULE = ("exhaustive enumeration of every answer sequence (decision tree) for: permute n<=4 (thorough 5) with and without ties; "
        "random.shuffle as used by two_sample_core n<=4; two_sample allocations n<=4 and two repetitions n=3 (independence); one_sample "
        "sign vectors n<=3 x 2 repetitions; permute_within_groups on all stratifications of <=4 units (thorough 5); permute_rows 2x2, 2x3; "
        "k_sample label arrangements n<=4; randomize_group / randomize_in_strata n<=4; RandomState call structure; one case = one design, "
        "non-trivial = more than one admissible outcome; distinct by design")
EXHAUSTIVE = {"quick": ["all tapes of every listed design (see rule)"], "thorough": ["all tapes of every listed design incl. n=5"]}
EXHAUSTIVE_ALL = True
ASSUMPTIONS = ["an ideal generator answers each request uniformly and independently (SHA-256 / MT19937 assumed uniform)",
               "for RandomState only the call structure is checked; numpy's legacy shuffle/randint/random are trusted to be uniform"]
SKIPPED = [0]


class TreeTooLarge(Exception):
    pass


def explore(fn, limit=200000):
    """all leaves of the decision tree of fn(tape); returns [(answers, outcome)]"""
    leaves = []
    path = []
    while True:
        k = [0]
        def chooser(bound, path=path, k=k):
            i = k[0]; k[0] += 1
            return path[i] if i < len(path) else 0
        t = Tape(None, chooser)
        out = fn(t)
        log = list(t.log)
        leaves.append((log, out))
        if len(leaves) > limit:
            raise RuntimeError("tree too large")
        # odometer increment
        ans = [a for (_, a) in log]; bnd = [b for (b, _) in log]
        i = len(ans) - 1
        while i >= 0 and ans[i] + 1 >= bnd[i]:
            i -= 1
        if i < 0:
            break
        path = ans[:i] + [ans[i] + 1]
    return leaves


def designs(tier):
    big = 5 if tier == "thorough" else 4
    for n in range(1, big + 1):
        yield {"d": "permute", "x": list(range(n))}
    yield {"d": "permute", "x": [0, 0, 1]}
    yield {"d": "permute", "x": [0, 1, 1, 0]}
    for n in range(1, 5):
        yield {"d": "shuffle", "n": n}
    for nx, ny in [(1, 1), (1, 2), (2, 1), (2, 2), (1, 3), (3, 1)] + ([(2, 3)] if tier == "thorough" else []):
        yield {"d": "two_sample", "nx": nx, "ny": ny, "reps": 1}
    yield {"d": "two_sample", "nx": 1, "ny": 2, "reps": 2}
    yield {"d": "two_sample", "nx": 2, "ny": 1, "reps": 2}
    for n, reps in [(1, 1), (2, 1), (3, 1), (2, 2), (3, 2)]:
        yield {"d": "one_sample", "n": n, "reps": reps}
    strat = [[0], [0, 0], [0, 1], [0, 0, 1], [0, 1, 0], [0, 0, 0], [0, 0, 1, 1], [0, 1, 1, 1], [1, 0, 0, 0], [0, 1, 2, 0], [0, 1, 0, 1]]
    if tier == "thorough":
        strat += [[0, 0, 0, 1, 1], [0, 1, 0, 1, 2], [0, 0, 0, 0, 1]]
    for g in strat:
        yield {"d": "pwg", "g": g}
    for g in ([0, 0, 1, 1], [0, 1, 0, 0], [0, 0, 0]):
        yield {"d": "pwg", "g": g, "xmode": "tiny"}      # values k * 2^-40
        yield {"d": "pwg", "g": g, "xmode": "offset"}    # values 2^20 + k
    yield {"d": "rows", "shape": [2, 2]}
    yield {"d": "rows", "shape": [2, 3]}
    yield {"d": "rows", "shape": [3, 2]}
    for g in ([0, 1], [0, 0, 1], [0, 1, 2], [0, 0, 1, 1], [0, 1, 1, 1]):
        yield {"d": "k_sample", "g": g, "reps": 1}
    yield {"d": "k_sample", "g": [0, 0, 1], "reps": 2}
    for g in ([0, 1], [0, 0, 1], [0, 1, 2], [0, 0, 1, 1]):
        yield {"d": "randomize_group", "g": g}
    for g, s in (([0, 1, 0, 1], [0, 0, 1, 1]), ([0, 1, 1, 0], [0, 0, 0, 1]), ([0, 1, 2], [5, 5, 5])):
        yield {"d": "randomize_in_strata", "g": g, "s": s}
    # the stratified TESTS themselves (not only the helper): every within-stratum arrangement of the responses must reach the
    # statistic equally often, also when NaN-coded non-responders make the statistic NaN for some arrangements, for a
    # recording callable and for the named 'mean' / 't' statistics
    for g, cnd, resp in (([0, 0, 0, 0], [0, 0, 1, 1], [1.0, None, None, 8.0]),
                         ([0, 0, 0, 1, 1], [0, 1, 1, 0, 1], [1.0, None, None, 8.0, 16.0]),
                         ([0, 0, 1, 1], [0, 1, 0, 1], [1.0, 2.0, None, 8.0]),
                         ([0, 0, 0], [0, 1, 1], [1.0, 2.0, 4.0])):
        for st in ("rec", "mean", "t"):
            for keep in (True, False):
                if st != "rec" and not keep:
                    continue
                yield {"d": "s2s", "g": g, "c": cnd, "resp": resp, "stat": st, "reps": 1, "keep": keep}
    yield {"d": "s2s", "g": [0, 0, 0], "c": [0, 1, 1], "resp": [1.0, None, 4.0], "stat": "rec", "reps": 2, "keep": True}
    # randomize_in_strata on an Experiment whose strata the caller changed in place after a first randomization: the
    # second randomization is uniform within the CURRENT strata, whatever the first one did
    for g, s1, s2 in (([0, 1, 2, 3], [0, 0, 1, 1], [0, 1, 0, 1]), ([0, 1, 2], [5, 5, 5], [5, 6, 6]), ([0, 1, 2, 3], [0, 1, 1, 1], [0, 0, 0, 1])):
        yield {"d": "restrat", "g": g, "s1": s1, "s2": s2}
    yield {"d": "rs_structure"}


def cases(tier, rng, dist):
    for d in designs(tier):
        dist.add("design", d["d"])
        yield d
    # "for each supported generator type": a plain seed is the same generator as a fresh SHA256(seed), so the uniformity
    # established for generator instances carries over (helpers and get_prng; see core_runs.run_prng)
    for _ in range(6 if tier == "quick" else 40):
        dist.add("design", "seed_kinds")
        yield {"d": "seed_kinds", "f": "prng", "seed": real_seed(rng), "gseed": rng.randint(0, 10**6)}
    # "sign vectors over all 2^n", "allocations over all subsets", "label vectors over all arrangements" for LONG samples too: with 64
    # repetitions under a real generator every unit is flipped / allocated to either side at least once (except with probability
    # 2^-63 per unit).  Sizes: beyond every block size a bulk draw might use (8, 32, 64, 256 bits) and just beyond every integer
    # constant that occurs in the source of the modules (harness/sizes.py), never a multiple of it
    # "successive repetitions are independent ... for each supported generator type": a generator instance shared by several
    # calls -- one of which may be ABORTED inside its repetition loop by a failing statistic -- must serve every later call
    # exactly as a generator that was simply used that far (compared with a forwarding proxy around a reference SHA256 in
    # the same state, and with a second instance): no rewinding, no stale bit pool, no restart
    for gen in ("sha", "rs", "sha"):
        for steps in (["one_sample!1", "one_sample"], ["two_sample!2", "two_sample"], ["one_sample!2", "permute", "two_sample"], ["k_sample!1", "one_sample", "shift"],
                      ["shift!1", "one_sample", "two_sample"], ["one_sample", "two_sample", "one_sample"], ["biv!2", "one_sample", "k_sample"]):
            n = rng.randint(4, 6)
            dist.add("design", "sequence")
            yield {"d": "seq", "f": "seq", "steps": steps, "data": [rng.randint(-4, 4) for _ in range(2 * n)], "n": n, "reps": rng.randint(2, 3), "gen": gen,
                   "seed": rng.randint(0, 10**6), "aseed": rng.randint(0, 10**9), "keep": rng.random() < 0.5}
    # a generator instance shared by an Experiment's Randomizer and another holder; two Experiments in alternation (c17's cases):
    # "successive randomizations are independent ... for each supported generator type"
    from . import c17 as _c17
    for cc in _c17.cases(tier, random.Random(rng.randint(0, 10**9)), Dist()):
        if isinstance(cc, dict) and cc.get("f") in ("sharedgen", "interleave"):
            dist.add("design", cc["f"])
            cc = dict(cc); cc["d"] = "exp"
            yield cc
    from .. import sizes
    ns = [259, 300, 515] + [v for v in sizes.beyond(["core", "utils", "ksample"], cap=6000) if v >= 40]
    for k, n in enumerate(ns[:12] if tier == "quick" else ns[:40]):
        for fn in (("one_sample", "two_sample", "k_sample") if (tier == "thorough" or k < 3) else ("one_sample",)):
            for rs in ((False, True) if tier == "thorough" else (False,)):
                dist.add("design", "coverage")
                yield {"d": "coverage", "f": "coverage", "fn": fn, "n": n + (k % 2 if n % 8 == 0 else 0), "reps": 64, "seed": rng.randint(0, 10**9), "rs": rs}


def xvals(c):
    n = len(c["g"])
    if c.get("xmode") == "tiny":
        return np.arange(n, dtype=float) * 2.0 ** -40
    if c.get("xmode") == "offset":
        return np.arange(n, dtype=float) + 2.0 ** 20
    return np.arange(n, dtype=float)


def run(c):
    d = c["d"]
    if d == "seed_kinds":
        from ..core_runs import run_prng
        return run_prng(c)
    if d == "coverage":
        from ..core_runs import run_coverage
        return run_coverage(c)
    if d == "seq":
        from ..core_runs import run_seq
        return run_seq(c)
    if d == "exp":
        from . import c17 as _c17
        return _c17.run(c)
    if d == "permute":
        x = np.array(c["x"], dtype=float)
        leaves = explore(lambda t: tuple(float(v) for v in utils.permute(x, t)))
    elif d == "shuffle":
        def f(t):
            rr = list(range(c["n"])); t.shuffle(rr); return tuple(rr)
        leaves = explore(f)
    elif d == "two_sample":
        n = c["nx"] + c["ny"]
        x = np.arange(c["nx"], dtype=float); y = np.arange(c["nx"], n, dtype=float)
        def f(t):
            rec = []
            def st(u, v):
                rec.append((tuple(float(z) for z in u), tuple(float(z) for z in v))); return 0.0
            core.two_sample(x, y, reps=c["reps"], stat=st, keep_dist=True, seed=t)
            return tuple(rec[2:])
        leaves = explore(f)
    elif d == "one_sample":
        z = np.array([float(2 ** i) for i in range(c["n"])])
        def f(t):
            rec = []
            def st(u):
                rec.append(tuple(float(v) for v in u)); return 0.0
            core.one_sample(z, reps=c["reps"], stat=st, keep_dist=True, seed=t)
            return tuple(rec[1:])
        leaves = explore(f)
    elif d == "pwg":
        g = np.array(c["g"]); x = xvals(c)
        leaves = explore(lambda t: tuple(float(v) for v in utils.permute_within_groups(x, g, t)))
    elif d == "rows":
        R, Ns = c["shape"]; m = np.arange(R * Ns).reshape(R, Ns)
        leaves = explore(lambda t: tuple(tuple(int(v) for v in r) for r in utils.permute_rows(m, t)))
    elif d == "k_sample":
        g = np.array(c["g"]); x = np.arange(len(g), dtype=float)
        def f(t):
            rec = []
            def st(xx, gg, xbar):
                rec.append(tuple(int(v) for v in gg)); return 0.0
            ksample.k_sample(x, g, reps=c["reps"], stat=st, keep_dist=True, seed=t)
            return tuple(rec[1:])
        leaves = explore(f)
    elif d == "s2s":
        g = np.array(c["g"]); cnd = np.array(c["c"]); resp = np.array([np.nan if v is None else v for v in c["resp"]], dtype=float)
        enc = lambda v: "nan" if (isinstance(v, float) and math.isnan(v)) else float(v)
        def f(t):
            if t_count[0] > 400:
                raise TreeTooLarge()
            rec = []
            def st(u):
                rec.append(tuple(enc(float(v)) for v in u))
                return float("nan") if math.isnan(float(u[0])) else 0.0      # NaN for some arrangements, as an empty arm gives
            kw = dict(reps=c["reps"], seed=t, alternative="greater")
            if c["stat"] == "rec":
                if c["keep"]:
                    stratified.stratified_two_sample(g, cnd, resp, stat=st, keep_dist=True, **kw)
                else:
                    stratified.stratified_two_sample(g, cnd, resp, stat=st, keep_dist=False, **kw)
                return tuple(rec[1:])
            r = stratified.stratified_two_sample(g, cnd, resp, stat=c["stat"], keep_dist=True, **kw)
            return tuple(enc(float(v)) for v in r[2])
        t_count = [0]
        def counted(t):
            t_count[0] += 1
            return f(t)
        try:
            import warnings
            with warnings.catch_warnings():
                warnings.simplefilter("ignore")
                leaves = explore(counted, limit=400)
        except (TreeTooLarge, RuntimeError):
            return {"tree_too_large": True}
    elif d == "restrat":
        def f(t):
            R = NPC.Experiment.Randomizer(randomize=NPC.randomize_in_strata, seed=t)
            n = len(c["g"])
            e = NPC.Experiment(group=list(range(n)), response=[[0]] * n, covariate=[[v] for v in c["s1"]], randomizer=R)
            e.randomize()
            first = tuple(int(v) for v in e.group)
            e.covariate[:, 0] = np.array(c["s2"])
            e.randomize()
            return (first, tuple(int(v) for v in e.group))
        leaves = explore(f)
    elif d in ("randomize_group", "randomize_in_strata"):
        def f(t):
            fn = NPC.randomize_group if d == "randomize_group" else NPC.randomize_in_strata
            R = NPC.Experiment.Randomizer(randomize=fn, seed=t)
            cov = None if d == "randomize_group" else [[s] for s in c["s"]]
            # unit identities 0..n-1 as labels so the arrangement is visible; labels mapped back below
            e = NPC.Experiment(group=list(range(len(c["g"]))), response=[[0]] * len(c["g"]), covariate=cov, randomizer=R)
            e.randomize()
            return tuple(int(v) for v in e.group)
        leaves = explore(f)
    else:
        out = {}
        l = LogRS(3); core.two_sample(np.arange(3.0), np.arange(4.0), reps=2, seed=l); out["two_sample"] = l.calls
        l = LogRS(3); core.one_sample(np.arange(3.0), reps=2, seed=l); out["one_sample"] = l.calls
        l = LogRS(3); utils.permute(np.arange(4.0), l); out["permute"] = l.calls
        l = LogRS(3); utils.permute_within_groups(np.arange(5.0), np.array([0, 1, 0, 1, 1]), l); out["pwg"] = l.calls
        return {"structure": json.loads(json.dumps(out))}
    cnt = Counter(o for (_, o) in leaves)
    weights = Counter()
    for log, o in leaves:
        w = Fraction(1)
        for (b, _) in log: w /= b
        weights[o] += w
    return {"n_leaves": len(leaves), "outcomes": [[list(k) if not isinstance(k, (int, float)) else k, str(weights[k])] for k in sorted(cnt, key=str)],
            "leaves": [[log, o] for (log, o) in leaves[:3000]], "total_weight": str(sum(weights.values()))}


def admissible(c):
    d = c["d"]
    if d == "permute":
        return {tuple(float(v) for v in p) for p in itertools.permutations(c["x"])}
    if d == "shuffle":
        return set(itertools.permutations(range(c["n"])))
    if d == "pwg":
        g = c["g"]; n = len(g)
        per = [list(itertools.permutations([i for i in range(n) if g[i] == k])) for k in sorted(set(g))]
        res = set()
        for combo in itertools.product(*per):
            out = [None] * n
            for k, perm in zip(sorted(set(g)), combo):
                pos = [i for i in range(n) if g[i] == k]
                for i, v in zip(pos, perm): out[i] = float(xvals(c)[v])
            res.add(tuple(out))
        return res
    if d == "rows":
        R, Ns = c["shape"]
        per = [list(itertools.permutations(range(r * Ns, (r + 1) * Ns))) for r in range(R)]
        return set(itertools.product(*per))
    if d == "randomize_group":
        return set(itertools.permutations(range(len(c["g"]))))
    if d == "randomize_in_strata":
        s = c["s"]; n = len(s)
        per = [list(itertools.permutations([i for i in range(n) if s[i] == k])) for k in sorted(set(s))]
        res = set()
        for combo in itertools.product(*per):
            out = [None] * n
            for k, perm in zip(sorted(set(s)), combo):
                pos = [i for i in range(n) if s[i] == k]
                for i, v in zip(pos, perm): out[i] = v
            res.add(tuple(out))
        return res
    return None


def oracle(c, o):
    d = c["d"]
    if d == "seed_kinds":
        from ..core_runs import oracle_prng
        return oracle_prng(c, o)
    if d == "coverage":
        from ..core_runs import oracle_coverage
        return oracle_coverage(c, o)
    if d == "seq":
        from ..core_runs import oracle_seq
        return oracle_seq(c, o)
    if d == "exp":
        from . import c17 as _c17
        return _c17.oracle(c, o)
    if d == "rs_structure":
        want = {"two_sample": [["shuffle", 7]] * 2, "one_sample": [["randint", 0, 2, 3]] * 2, "permute": [["random", 4]],
                "pwg": [["random", 2], ["random", 3]]}
        if o["structure"] != want:
            return {"why": f"RandomState call structure {o['structure']} differs from one shuffle/randint/random call per repetition (or group) {want}", "cls": "randomstate:call-structure"}
        return None
    if o.get("tree_too_large"):
        return {"why": f"{d} {c}: the decision tree of the call does not end after one within-stratum pass per repetition (more than 400 leaves): the number of draws depends on the values drawn", "cls": f"{d}:draws-depend-on-data"}
    if Fraction(o["total_weight"]) != 1:
        return {"why": "decision tree weights do not sum to 1", "cls": f"{d}:tree"}
    w = {tuple(map(lambda z: tuple(z) if isinstance(z, list) else z, k)) if isinstance(k, list) else k: Fraction(v) for k, v in o["outcomes"]}
    def norm(k):
        return tuple(tuple(tuple(y) if isinstance(y, list) else y for y in x) if isinstance(x, list) else x for x in k) if isinstance(k, (list, tuple)) else k
    w = {norm(k): Fraction(v) for k, v in o["outcomes"]}
    adm = admissible(c)
    if adm is not None:
        if set(w) != adm:
            return {"why": f"{d} {c}: outcomes produced {sorted(w)[:6]}... differ from the admissible set (missing {sorted(adm - set(w))[:4]}, extra {sorted(set(w) - adm)[:4]})", "cls": f"{d}:support"}
        if len(set(w.values())) != 1:
            return {"why": f"{d} {c}: admissible outcomes are not equally likely under an ideal generator: {[(k, str(v)) for k, v in list(w.items())[:6]]}", "cls": f"{d}:not-uniform"}
        return None
    if d == "two_sample":
        nx, ny, reps = c["nx"], c["ny"], c["reps"]; n = nx + ny
        # allocation = set of units in the first sample, per repetition
        alloc = Counter()
        for k, v in w.items():
            key = tuple(tuple(sorted(u)) for (u, vv) in k)
            for (u, vv) in k:
                if sorted(u + vv) != [float(i) for i in range(n)] or len(u) != nx:
                    return {"why": f"two_sample: inadmissible rearrangement {u},{vv}", "cls": "two_sample:support"}
            alloc[key] += v
        subsets = list(itertools.combinations([float(i) for i in range(n)], nx))
        want = set(itertools.product(subsets, repeat=reps))
        if set(alloc) != want:
            return {"why": f"two_sample {c}: allocations produced differ from all {len(want)} (sequences of) subsets", "cls": "two_sample:support"}
        if len(set(alloc.values())) != 1:
            return {"why": f"two_sample {c}: allocations (over {reps} repetition(s)) not uniform / not independent: {[(k, str(v)) for k, v in list(alloc.items())[:5]]}", "cls": "two_sample:not-uniform"}
        return None
    if d == "one_sample":
        n, reps = c["n"], c["reps"]
        signs = list(itertools.product([1.0, -1.0], repeat=n))
        want = {tuple(tuple(s[i] * 2.0 ** i for i in range(n)) for s in seq) for seq in itertools.product(signs, repeat=reps)}
        if set(w) != want:
            return {"why": f"one_sample {c}: sign vectors produced differ from all 2^n (per repetition)", "cls": "one_sample:support"}
        if len(set(w.values())) != 1:
            return {"why": f"one_sample {c}: sign vectors not uniform / repetitions not independent", "cls": "one_sample:not-uniform"}
        return None
    if d == "s2s":
        from ..strat_runs import doc_stat
        g = np.array(c["g"]); cnd = np.array(c["c"]); resp = np.array([np.nan if v is None else v for v in c["resp"]], dtype=float)
        ordd = cnd.argsort(kind="stable")
        # the responses sorted by condition: ties in the sort order permute units inside a condition; the set of
        # within-stratum arrangements of the sorted vector does not depend on how they are broken only if the strata
        # of the tied units agree, which the designs guarantee up to the statistic's symmetry (recorded vectors are
        # compared as multisets per (stratum, position-set) below)
        g0 = g[ordd].tolist(); c0 = cnd[ordd].tolist(); r0 = resp[ordd].tolist()
        enc = lambda v: "nan" if (isinstance(v, float) and math.isnan(v)) else float(v)
        n = len(g0)
        per = [list(itertools.permutations([i for i in range(n) if g0[i] == k])) for k in sorted(set(g0))]
        want = Counter()
        for combo in itertools.product(*([list(itertools.product(*per))] * c["reps"])):
            outs = []
            for one in combo:
                u = [None] * n
                for k, perm in zip(sorted(set(g0)), one):
                    pos = [i for i in range(n) if g0[i] == k]
                    for i, v in zip(pos, perm): u[i] = r0[v]
                if c["stat"] == "rec":
                    outs.append(tuple(enc(float(v)) for v in u))
                else:
                    import warnings
                    with warnings.catch_warnings():
                        warnings.simplefilter("ignore")
                        outs.append(enc(float(doc_stat("s2s_" + c["stat"], g0, c0, u))))
            want[tuple(outs)] += 1
        tot = sum(want.values())
        want = {k: Fraction(v, tot) for k, v in want.items()}
        def rnd(k):
            return tuple(tuple(x) if isinstance(x, (list, tuple)) else (x if x == "nan" else round(x, 9)) for x in k)
        got = Counter(); 
        for k, v in w.items(): got[rnd(k)] += v
        wantr = Counter()
        for k, v in want.items(): wantr[rnd(k)] += v
        if dict(got) != dict(wantr):
            return {"why": f"stratified_two_sample {c}: the distribution of {'the arrangements handed to the statistic' if c['stat'] == 'rec' else 'the simulated statistic'} under an ideal generator, {[(k, str(v)) for k, v in sorted(got.items(), key=str)[:6]]}, is not the uniform law on the within-stratum arrangements, {[(k, str(v)) for k, v in sorted(wantr.items(), key=str)[:6]]}",
                    "cls": "stratified_two_sample:not-uniform"}
        return None
    if d == "restrat":
        n = len(c["g"])
        def within(base, strata):
            per = [list(itertools.permutations([i for i in range(n) if strata[i] == k])) for k in sorted(set(strata))]
            res = set()
            for combo in itertools.product(*per):
                out = [None] * n
                for k, perm in zip(sorted(set(strata)), combo):
                    pos = [i for i in range(n) if strata[i] == k]
                    for i, v in zip(pos, perm): out[i] = base[v]
                res.add(tuple(out))
            return res
        firsts = within(tuple(range(n)), c["s1"])
        by_first = {}
        for (fst, snd), v in w.items():
            by_first.setdefault(fst, {})[snd] = by_first.setdefault(fst, {}).get(snd, 0) + v
        if set(by_first) != firsts or len({sum(v.values()) for v in by_first.values()}) != 1:
            return {"why": f"restrat {c}: first randomizations {sorted(by_first)[:4]}... are not uniform on the arrangements within {c['s1']}", "cls": "randomize_in_strata:not-uniform"}
        for fst, sec in by_first.items():
            want = within(fst, c["s2"])
            if set(sec) != want:
                return {"why": f"randomize_in_strata after the strata were changed in place from {c['s1']} to {c['s2']}: from {fst} it produced {sorted(sec)[:4]}..., the arrangements within the current strata are {sorted(want)[:4]}... (missing {sorted(want - set(sec))[:3]}, extra {sorted(set(sec) - want)[:3]})",
                        "cls": "randomize_in_strata:support"}
            if len(set(sec.values())) != 1:
                return {"why": f"randomize_in_strata after a change of strata ({c['s1']} -> {c['s2']}): arrangements within the current strata not equally likely from {fst}: {[(k, str(v)) for k, v in list(sec.items())[:5]]}",
                        "cls": "randomize_in_strata:not-uniform"}
        return None
    if d == "k_sample":
        g = c["g"]; reps = c["reps"]
        arrs = set(itertools.permutations(g))
        want = set(itertools.product(arrs, repeat=reps))
        if set(w) != want:
            return {"why": f"k_sample {c}: label arrangements produced differ from all distinct arrangements", "cls": "k_sample:support"}
        if len(set(w.values())) != 1:
            return {"why": f"k_sample {c}: distinct label arrangements not equally likely: {[(k, str(v)) for k, v in list(w.items())[:5]]}", "cls": "k_sample:not-uniform"}
        return None
    return None


def to_coq(c, o):
    return None


def extra_terms(c, o):
    d = c["d"]; out = []
    if d in ("seed_kinds", "coverage", "seq", "exp"):
        return out
    if d == "permute":
        x = [Fraction(v) for v in c["x"]]
        for log, outc in o["leaves"]:
            out.append(f"(CoreC (PermuteCase {qlist(x)} {tape_coq(log)} {qlist([fl(v) for v in outc])} {cnat(len(log))}))")
    elif d == "shuffle":
        x = [Fraction(i) for i in range(c["n"])]
        for log, outc in o["leaves"]:
            out.append(f"(CoreC (ShuffleCase {qlist(x)} {tape_coq(log)} {qlist([Fraction(v) for v in outc])} {cnat(len(log))}))")
    elif d == "pwg":
        x = [Fraction(float(v)) for v in xvals(c)]
        for log, outc in o["leaves"]:
            out.append(f"(StratC (PwgCase {qlist(x)} {clist(c['g'])} {tape_coq(log)} {qlist([fl(v) for v in outc])} {cnat(len(log))}))")
    elif d == "rows":
        R, Ns = c["shape"]
        qm = lambda m: clist(m, lambda r: qlist([Fraction(v) for v in r]))
        m = [[r * Ns + j for j in range(Ns)] for r in range(R)]
        for log, outc in o["leaves"]:
            out.append(f"(StratC (RowsCase {qm(m)} 1%nat {tape_coq(log)} {clist([outc], qm)} {cnat(len(log))}))")
    return out


def nontrivial(c, o):
    return c["d"] in ("rs_structure", "seed_kinds", "coverage", "seq", "exp") or len(o.get("outcomes", [])) > 1


def key(c):
    return json.dumps(c, sort_keys=True)
