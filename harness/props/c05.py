"""C05: p-value, statistic and dist mutually consistent -- wrapper over harness/all_rand.py (scripted-tape runs of the unstratified and stratified tests and helpers)."""
from .. import all_rand as AR
from ..all_rand import COQ_HEADER, run, to_coq, extra_terms, nontrivial, key, SKIPPED

RULE = ('all scripted and real-seed runs: p recomputed from the returned dist with exact rational comparisons in the stated direction (ties count), keep_dist twins on identical draws, bounds, len(dist)=reps; functions: two_sample, two_sample_shift, one_sample, corr, spearman_corr, k_sample, bivariate_k_sample, sim_corr, stratified_permutationtest, stratified_two_sample, simulate_ts_dist, sim_npc partial p-values and westfall_young raw p-values (scripted Randomizer); non-trivial = simulated values tie with or straddle the observed one')
ASSUMPTIONS = [
    "the generator is driven through a scripted subclass of cryptorandom.SHA256 (harness/tape.py): requests are answered lazily and logged; the same answers are replayed for the keep_dist twin",
    "data are exactly representable (small integers times group-size products times powers of two, optional large offsets), so named float statistics are exact; 't'-type statistics are black boxes checked through dist",
    "SHA-256 / Mersenne-Twister output is assumed uniform; condition.argsort() is an oracle input of the model"]
oracle = AR.filtered_oracle(['p-not-from-dist', 'keepdist-differs', 'keepdist-raises', 'keepdist-draws', 'p-range', 'dist-length', 'tail', 'observed-stat', 'observed-not-data', 'partial-p', 'raw',
                            # sim_npc / westfall_young with in_place=False must leave the data as given for the next call
                            'in-place-false-mutates'])


def cases(tier, rng, dist):
    return AR.cases(tier, rng, dist, extra=('npc', 'wy', 'exp'))


def generated(tier):
    """source-derived obligations (G3 tables / G4 formulas): regenerated from /repo's current source text on every run"""
    from ..translate.tables import obligations
    return obligations("C05")
