"""C05: p-value, statistic and dist mutually consistent -- thin wrapper over harness/core_runs.py (shared scripted-tape runs of the unstratified tests)."""
from .. import core_runs as CR
from ..core_runs import COQ_HEADER, run, to_coq, extra_terms, nontrivial, key, SKIPPED

RULE = ("same runs as C01: p recomputed from the returned dist with exact rational comparisons, keep_dist twins under identical draws, bounds, len(dist); real seeds incl. the float statistics 'mean' and 't'")
ASSUMPTIONS = CR_ASSUMPTIONS = [
    "the generator is driven through a scripted subclass of cryptorandom.SHA256 (harness/tape.py): requests are answered lazily and logged; the same answers are replayed for the keep_dist twin",
    "data are small integers times the product of the group sizes times a power of two (optionally plus a large offset), so every named float statistic is exact in binary64",
    "SHA-256 / Mersenne-Twister output is assumed uniform (real-seed runs check reproducibility and the p-value assembly only)"]
ALLOWED = ['p-not-from-dist', 'keepdist-differs', 'keepdist-raises', 'keepdist-draws', 'p-range', 'dist-length', 'observed-stat']
FOCUS = None


def cases(tier, rng, dist):
    return CR.cases(tier, rng, dist, focus=FOCUS)


def oracle(c, o):
    r = CR.oracle(c, o)
    if r is None:
        return None
    suffix = r["cls"].split(":", 1)[1] if ":" in r["cls"] else r["cls"]
    if suffix in ALLOWED or suffix in ("raises", "harness-exception"):
        return r
    return None
