"""C20: duplicate-row finders."""
import itertools, json
import numpy as np
from collections import Counter
from ..common import *
from permute import qa

COQ_HEADER = """From PV Require Import Lib.Base Model.Qa Corr.C20.
From Coq Require Import String.
Open Scope Z_scope."""
RULE = ("all arrays with <=4 rows, <=2 columns over {0,1,2} (exhaustive in both tiers; thorough adds 5 rows over {0,1}) plus random "
        "arrays up to 8x3 incl. single row/column, runs of 3+, extreme int64 values, large values differing by 1..3 (relative difference < 1e-5); non-trivial = the array holds at least "
        "one repeated row and at least one row that is not repeated; distinct by array contents")
EXHAUSTIVE = {"quick": ["rows<=4, cols<=2, alphabet {0,1,2}"], "thorough": ["rows<=4, cols<=2, alphabet {0,1,2}", "rows=5, cols<=2, alphabet {0,1}"]}
ASSUMPTIONS = ["np.lexsort sorts rows (last column primary); equal keys are equal rows, so tie order is immaterial",
               "str() of a Python int is its decimal numeral"]


def _cases(tier, rng, dist):
    for nr in range(1, 5):
        for nc in range(1, 3):
            for cells in itertools.product(range(3), repeat=nr * nc):
                yield {"x": [list(cells[i * nc:(i + 1) * nc]) for i in range(nr)]}
    if tier == "thorough":
        for nc in range(1, 3):
            for cells in itertools.product(range(2), repeat=5 * nc):
                yield {"x": [list(cells[i * nc:(i + 1) * nc]) for i in range(5)]}
    # tens of thousands of rows, wide rows
    for nr, nc, alpha in ((70001, 2, 40), (1025, 9, 2), (300, 33, 1)) if tier == "quick" else ((70001, 2, 40), (1025, 9, 2), (300, 33, 1), (140001, 1, 5000), (4099, 3, 3)):
        yield {"x": [[0]], "gen": [nr, nc, alpha, rng.randint(0, 10**6)], "layout": rng.choice([0, 1, 3])}
    # wide rows (more columns than any key limit of 32 / 64) whose copies are separated by rows that differ in ONE column only
    from .. import sizes
    wide = [33, 40, 70] if tier == "quick" else [33, 34, 40, 65, 70, 129]
    wide += [v for v in sizes.extra_sizes(["qa"], wide, cap=3000) if v not in wide][:4]          # just beyond every integer constant of the source
    for nc in wide:
        for _ in range(4):
            base = [[rng.randint(0, 1) for _ in range(nc)] for _ in range(2)]
            pool = list(base)
            for b in base:
                for pos in (0, nc // 2, nc - 1):
                    v = list(b); v[pos] += 1; pool.append(v)
            yield {"x": [list(rng.choice(pool)) for _ in range(rng.randint(3, 12))]}
    n = 600 if tier == "quick" else 6000
    big = [2**63 - 1, -2**63, 2**62, -2**62, 0, 1, -1]
    for _ in range(n):
        nr, nc = rng.randint(1, 8), rng.randint(1, 3)
        mode = rng.random()
        if mode < 0.15:
            alpha = big
        elif mode < 0.45:
            # large values that differ by little in relative terms (ids, timestamps)
            base = rng.choice([10**5, 10**6, 1700000000, 2**40, -10**9, 2**53])
            alpha = [base + d for d in range(0, rng.randint(1, 3) + 1)]
        else:
            alpha = list(range(-1, rng.randint(0, 2) + 1))
        pool = [[rng.choice(alpha) for _ in range(nc)] for _ in range(rng.randint(1, 3))]
        x = [list(rng.choice(pool)) if rng.random() < 0.7 else [rng.choice(alpha) for _ in range(nc)] for _ in range(nr)]
        if rng.random() < 0.3:
            x.sort()
        yield {"x": x}


def rows_of(c):
    if "gen" in c:
        nr, nc, alpha, sd = c["gen"]
        return np.random.RandomState(sd).randint(0, alpha + 1, size=(nr, nc)).tolist()
    return c["x"]


def _run(c):
    if "gen" in c:
        c = dict(c); c["x"] = rows_of(c)
    x = interned(np.array(c["x"], dtype=np.int64))
    # memory layout of the caller's array (values identical): C order, Fortran order, a transposed view, every second
    # row of a larger buffer, int32 / int16 dtypes -- chosen from the content so that replays are exact
    lay = (len(c["x"]) * 7 + sum(abs(v) % 11 for r in c["x"] for v in r)) % 6 if "layout" not in c else c["layout"]
    if lay == 1:
        x = np.asfortranarray(x)
    elif lay == 2:
        x = np.ascontiguousarray(x.T).T
    elif lay == 3:
        buf = np.zeros((2 * x.shape[0], x.shape[1]), dtype=np.int64); buf[::2] = x; x = buf[::2]
    elif lay == 4 and all(abs(v) < 2**31 for r in c["x"] for v in r):
        x = np.asfortranarray(x.astype(np.int32))
    elif lay == 5 and all(abs(v) < 2**15 for r in c["x"] for v in r):
        x = np.asfortranarray(x.astype(np.int16))
    x0 = x.copy()
    d = guarded(lambda: np.asarray(qa.find_duplicate_rows(x)).tolist())
    m1 = bool((x == x0).all())
    cs = guarded(lambda: np.asarray(qa.find_consecutive_duplicate_rows(x)).tolist())
    m2 = bool((x == x0).all())
    ds = guarded(lambda: list(qa.find_duplicate_rows(x, as_string=True)))
    css = guarded(lambda: list(qa.find_consecutive_duplicate_rows(x, as_string=True)))
    m3 = bool((x == x0).all())
    # the returned rows are copies: they share no memory with the caller's array (editing a result must not edit the data)
    alias = []
    for nm, fn in (("find_duplicate_rows", qa.find_duplicate_rows), ("find_consecutive_duplicate_rows", qa.find_consecutive_duplicate_rows)):
        res = guarded(lambda: fn(x))
        if res[0] == "ok" and isinstance(res[1], np.ndarray) and res[1].size and np.shares_memory(res[1], x):
            alias.append(nm)
    return {"dups": d, "consec": cs, "dups_s": ds, "consec_s": css, "unmodified": m1 and m2 and m3, "aliased": alias}


def oracle(c, o):
    x = [tuple(r) for r in rows_of(c)]
    if not o["unmodified"]:
        return {"why": "input array modified", "cls": "qa:input-modified"}
    if o.get("aliased"):
        return {"why": f"{o['aliased'][0]} returned rows that share memory with the input {c['x']}: editing the result edits the caller's data (and vice versa), so the input is not safe from modification and the result is not 'a copy of row i+1'", "cls": "qa:result-aliases-input"}
    if o["dups"][0] != "ok":
        return {"why": f"find_duplicate_rows raised {o['dups'][1]}", "cls": "qa:dups-raises"}
    cnt = Counter(x)
    want = Counter({r: m - 1 for r, m in cnt.items() if m >= 2})
    got = Counter(tuple(r) for r in o["dups"][1])
    if got != want:
        return {"why": f"find_duplicate_rows returned {dict(got)}, multiset oracle {dict(want)}", "cls": "qa:dups-multiset"}
    wantc = [list(x[i + 1]) for i in range(len(x) - 1) if x[i + 1] == x[i]]
    if o["consec"][0] != "ok" or [list(r) for r in o["consec"][1]] != wantc:
        return {"why": f"find_consecutive_duplicate_rows returned {o['consec']}, expected {wantc}", "cls": "qa:consec"}
    if o["dups_s"][0] != "ok" or o["dups_s"][1] != [",".join(str(v) for v in r) for r in o["dups"][1]]:
        return {"why": f"as_string result {o['dups_s']} is not the comma-joined rows", "cls": "qa:dups-string"}
    if o["consec_s"][0] != "ok" or o["consec_s"][1] != [",".join(str(v) for v in r) for r in wantc]:
        return {"why": f"as_string consecutive result {o['consec_s']}", "cls": "qa:consec-string"}
    return None


def rows(l):
    return clist(l, lambda r: clist(r))


def to_coq(c, o):
    if "gen" in c:
        return None
    return "Case %s %s %s %s %s" % (
        rows(c["x"]),
        rows(o["dups"][1]) if o["dups"][0] == "ok" else "[[999]]",
        cres(o["consec"], rows),
        clist(o["dups_s"][1], cstr) if o["dups_s"][0] == "ok" else '["?"%string]',
        cres(o["consec_s"], lambda l: clist(l, cstr)))


def nontrivial(c, o):
    cnt = Counter(tuple(r) for r in c["x"])
    return any(m >= 2 for m in cnt.values()) and any(m == 1 for m in cnt.values())


def key(c):
    return json.dumps([c["x"], c.get("gen")])


# ---- failure paths (round 12): every third case is preceded by calls that the library rejects, or that fail inside a user
# callable; they raise on the unchanged tree and must leave nothing behind (common.fail_first) ----

def failing_calls(c):
    k = c["ff"] % 3
    wide = np.array([[1, 2, 3, 4, 5, 6, 7], [1, 2, 3, 4, 5, 6, 8], [1, 2, 3, 4, 5, 9, 9], [0, 2, 3, 4, 5, 6, 7], [0, 2, 3, 4, 5, 6, 1], [5, 5, 5, 5, 5, 5, 0], [5, 5, 5, 5, 5, 5, 1]])
    # (not failures: calls on a WIDER and LONGER table interleaved with the cases -- two tables examined in alternation)
    def widecalls():
        qa.find_consecutive_duplicate_rows(wide); qa.find_duplicate_rows(wide); qa.find_consecutive_duplicate_rows(wide, as_string=True)
        raise Abort()
    return [("calls on a wider table first", widecalls),
            [("1-d input", lambda: qa.find_duplicate_rows(np.array([1, 2, 2]))), ("1-d input", lambda: qa.find_consecutive_duplicate_rows(np.array([1, 2, 2]))),
             ("scalar input", lambda: qa.find_duplicate_rows(3))][k]]


def cases(tier, rng, dist):
    return mark_ff(_cases(tier, rng, dist))


_REC = []
qa = RecordingModule(qa, _REC, ["find_duplicate_rows", "find_consecutive_duplicate_rows"])


def run(c):
    ff = fail_first(failing_calls(c)) if "ff" in c else None
    o = _run(c)
    if ff is not None and isinstance(o, dict):
        o["ff"] = ff
    if isinstance(o, dict):
        o["retained_changed"] = retained_changed(_REC)
    return o


_oracle_before_retention = oracle


def oracle(c, o):
    if isinstance(o, dict) and o.get("retained_changed"):
        return {"why": "results kept by the caller changed when later calls were made: " + o["retained_changed"], "cls": "qa:result-aliased"}
    return _oracle_before_retention(c, o)
