"""C13: hypergeom_conf_interval returns exact test-inversion bounds that cover."""
import itertools, json, math
from fractions import Fraction
import numpy as np
from ..common import *
from permute.utils import hypergeom_conf_interval

COQ_HEADER = """From PV Require Import Lib.Base Model.ConfInt Corr.C13.
Open Scope Q_scope."""
RULE = ("all (N, n, x) with N<=9 (quick; thorough N<=14) x cl in {1/10, 1/2, 4/5, 9/10, 19/20, 99/100} x alternatives x starting points "
        "G in {None, 0, N, N//2}; random N<=40 (thorough 200); exact equality of the integer limits with the model's bisection and "
        "with exhaustive test inversion; coverage summed exactly for every true G on the exhaustive domain; cases in which a tail "
        "equals the level exactly are skipped (float noise decides) and counted; non-trivial = 0<x<n; distinct by full input")
EXHAUSTIVE = {"quick": ["N<=9, all n, x, 6 levels, 3 alternatives, 4 starting points"], "thorough": ["N<=14, all n, x, 6 levels, 3 alternatives, 4 starting points"]}
ASSUMPTIONS = ["scipy hypergeom.cdf accurate to 1e-12; exact ties between a tail and the level are skipped"]
CLS = ["1/10", "1/2", "4/5", "9/10", "19/20", "99/100"]
CALT = {"two-sided": "CITwoSided", "lower": "CILower", "upper": "CIUpper"}
SKIPPED = [0]


def _cases(tier, rng, dist):
    NM = 9 if tier == "quick" else 14
    for N in range(1, NM + 1):
        for n in range(1, N + 1):
            for x in range(0, n + 1):
                for cl in CLS:
                    for alt in CALT:
                        for G in (None, 0, N, N // 2):
                            if tier == "quick" and N > 5 and (N + n + x + len(cl) + len(alt) + (G or 0)) % 4: continue
                            yield {"N": N, "n": n, "x": x, "cl": cl, "alt": alt, "G": G}
    # populations of a thousand and more (exact inversion over every G by big-integer tails)
    for _ in range(4 if tier == "quick" else 30):
        N = rng.choice([1000, 1500, 2500]); n = rng.randint(5, 40); x = rng.choice([0, n, rng.randint(0, n), rng.randint(0, n)])
        yield {"N": N, "n": n, "x": x, "cl": rng.choice(CLS[2:]), "alt": rng.choice(list(CALT)), "G": rng.choice([None, 0, N, N // 3])}
    for _ in range(200 if tier == "quick" else 1500):
        N = rng.randint(10, 40 if tier == "quick" else 200); n = rng.randint(1, N); x = rng.randint(0, n)
        yield {"N": N, "n": n, "x": x, "cl": rng.choice(CLS), "alt": rng.choice(list(CALT)), "G": rng.choice([None, None, 0, N, rng.randint(0, N)])}


def _run(c):
    # the counts in the form the caller holds them (ints, NumPy integer scalars, writable 0-d arrays); the same objects are
    # passed to a second, identical call
    form = (c["n"] + c["x"] + c["N"] + len(c["alt"])) % 3
    mk = [int, np.int64, lambda v: np.array(v)][form]
    n, x, N = mk(c["n"]), mk(c["x"]), mk(c["N"])
    # the documented starting point G: None, a Python int, or (every other case) a writable 0-d int64 array the caller reuses
    Gobj = c["G"] if (c["G"] is None or (c["n"] + c["x"]) % 2 == 0) else np.array(c["G"], dtype=np.int64)
    call = lambda: hypergeom_conf_interval(n, x, N, cl=float(Fraction(c["cl"])), alternative=c["alt"], G=Gobj)
    r = guarded(call)
    after = [int(n), int(x), int(N)] + ([int(Gobj)] if Gobj is not None else [])
    if r[0] != "ok":
        return {"r": list(r), "after": after}
    lo, hi = r[1]
    r2 = guarded(call)
    again = [int(v) for v in r2[1]] if r2[0] == "ok" else list(r2)[:2]
    return {"r": ["ok", int(lo) if float(lo).is_integer() else lo, int(hi) if float(hi).is_integer() else hi], "types": [type(lo).__name__, type(hi).__name__],
            "after": after, "again": again, "form": form}


def tail(N, G, n, x):
    tot = math.comb(N, n)
    pm = [Fraction(math.comb(G, k) * math.comb(N - G, n - k), tot) for k in range(0, n + 1)]
    return sum(pm[x:]), sum(pm[:x + 1])


def exact(c):
    N, n, x = c["N"], c["n"], c["x"]
    a = 1 - Fraction(c["cl"]); a = a / 2 if c["alt"] == "two-sided" else a
    tie = False
    lo, hi = 0, N
    ts = [tail(N, G, n, x) for G in range(N + 1)]
    # a tail exactly equal to the level: the library compares floats, so noise may decide.  The case is skipped only
    # when the float difference the library computes has the WRONG sign (noise flips the inclusive comparison);
    # a difference of exactly 0.0 (dyadic levels) or of the right sign leaves the exact rule in force
    from scipy.stats import hypergeom as _hg
    clf = float(Fraction(c["cl"])); clf = 1 - (1 - clf) / 2 if c["alt"] == "two-sided" else clf
    for G in range(N + 1):
        if abs(ts[G][0] - a) < Fraction(1, 10**12) and x > 0 and (clf - _hg.cdf(x - 1, N, G, n) < 0) != (ts[G][0] < a):
            tie = True
        if abs(ts[G][1] - a) < Fraction(1, 10**12) and x < n and (_hg.cdf(x, N, G, n) - (1 - clf) < 0) != (ts[G][1] < a):
            tie = True
    if c["alt"] != "upper" and x > 0:
        lo = min(G for G in range(N + 1) if ts[G][0] >= a)
    if c["alt"] != "lower" and x < n:
        hi = max(G for G in range(N + 1) if ts[G][1] >= a)
    return lo, hi, tie, ts, a


def oracle(c, o):
    r = o["r"]
    if r[0] != "ok":
        return {"why": f"hypergeom_conf_interval({c['n']}, {c['x']}, {c['N']}, cl={c['cl']}, {c['alt']}, G={c['G']}) raised {r}", "cls": "hypergeom_conf_interval:raises"}
    want_after = [c["n"], c["x"], c["N"]] + ([c["G"]] if c["G"] is not None else [])
    if o.get("after") is not None and o["after"] != want_after:
        return {"why": f"hypergeom_conf_interval changed the caller's argument objects (n, x, N[, G]) = {want_after} to {o['after']}", "cls": "hypergeom_conf_interval:input-modified"}
    if "again" in o and o["again"] != [r[1], r[2]]:
        return {"why": f"hypergeom_conf_interval(n={c['n']}, x={c['x']}, N={c['N']}, cl={c['cl']}, {c['alt']}) returned {(r[1], r[2])}, a second call with the same argument objects {o['again']}", "cls": "hypergeom_conf_interval:limits"}
    lo, hi, tie, ts, a = exact(c)
    if tie:
        return None
    ok_types = ("int", "int64", "int32") + (("ndarray",) if o.get("form") == 2 else ())     # 0-d integer arrays in, 0-d integer arrays may come out
    if not all(isinstance(v, (int, np.integer)) for v in r[1:3]) or any(t not in ok_types for t in o["types"]):
        return {"why": f"limits are not integers: {r[1:3]} ({o['types']})", "cls": "hypergeom_conf_interval:not-integer"}
    if (r[1], r[2]) != (lo, hi):
        return {"why": f"hypergeom_conf_interval(n={c['n']}, x={c['x']}, N={c['N']}, cl={c['cl']}, {c['alt']}, G={c['G']}) = {(r[1], r[2])}, exact test inversion gives {(lo, hi)}", "cls": "hypergeom_conf_interval:limits"}
    if c["alt"] == "two-sided" and Fraction(c["cl"]) >= Fraction(1, 2) and not (c["x"] <= r[1] <= r[2] <= c["N"] - (c["n"] - c["x"])):
        return {"why": f"x <= lower <= upper <= N-(n-x) violated: {r[1:3]}", "cls": "hypergeom_conf_interval:order"}
    return None


def to_coq(c, o):
    r = o["r"]
    if r[0] != "ok": return None
    if exact(c)[2]:
        SKIPPED[0] += 1; return None
    if c["N"] > 60: return None
    return f"HCI {cnat(c['n'])} {cnat(c['x'])} {cnat(c['N'])} {cq(Fraction(c['cl']))} {CALT[c['alt']]} {cnat(int(r[1]))} {cnat(int(r[2]))}"


def nontrivial(c, o):
    return o["r"][0] == "ok" and 0 < c["x"] < c["n"]


def key(c):
    return json.dumps(c, sort_keys=True)


def generated(tier):
    """source-derived obligations (G4 formulas): regenerated from /repo's current source text on every run"""
    from ..translate.tables import obligations
    return obligations("C13")


# ---- failure paths (round 12): every third case is preceded by calls that the library rejects, or that fail inside a user
# callable; they raise on the unchanged tree and must leave nothing behind (common.fail_first) ----

def failing_calls(c):
    k = c["ff"] % 3
    def boom(*a, **kw):
        raise Abort()
    return [[("bad alternative", lambda: hypergeom_conf_interval(5, 2, 12, alternative="both")),
             ("two-sided, non-numeric level", lambda: hypergeom_conf_interval(5, 2, 12, cl="0.9", alternative="two-sided")),
             ("two-sided, population given as None", lambda: hypergeom_conf_interval(5, 2, None, cl=0.5, alternative="two-sided"))][k],
            ("two-sided, sample larger than the population", lambda: hypergeom_conf_interval(10, 3, 5, cl=0.6, alternative="two-sided"))]


def cases(tier, rng, dist):
    return mark_ff(_cases(tier, rng, dist))


_REC = []
hypergeom_conf_interval = recording(hypergeom_conf_interval, _REC)


def run(c):
    ff = fail_first(failing_calls(c)) if "ff" in c else None
    o = _run(c)
    if ff is not None and isinstance(o, dict):
        o["ff"] = ff
    if isinstance(o, dict):
        o["retained_changed"] = retained_changed(_REC)
    return o


_oracle_before_retention = oracle


def oracle(c, o):
    if isinstance(o, dict) and o.get("retained_changed"):
        return {"why": "results kept by the caller changed when later calls were made: " + o["retained_changed"], "cls": "hypergeom_conf_interval:result-aliased"}
    return _oracle_before_retention(c, o)
