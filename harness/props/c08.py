"""C08: npc monotone in the partial p-values, symmetric in the tests, rank based; combiners as documented."""
import itertools, json, math
from fractions import Fraction
import numpy as np
from scipy.stats import norm
from ..common import *
from ..npc_common import *
from permute import npc as NPC

COQ_HEADER = """From PV Require Import Lib.Base Model.Npc Corr.C08.
Open Scope Q_scope."""
RULE = ("call sessions (2-5 npc calls with different combiners/plus1/p on the SAME ndarray objects, each compared with the stateless model); related-input pairs on matrices B<=10, n<=4 with ties, int and float dtypes: raise one observed p-value; permute pvalues "
        "and columns together; replace a column by a*x+b (a>0), x^3 or exp(x/8) (strictly increasing), also across the int/float "
        "dtype boundary; combiner values on grids; malformed shapes; non-trivial = base result strictly between its bounds and a "
        "column with ties; distinct by full input; relabel relation asserted exactly only when no two different vectors tie in exact "
        "arithmetic (skips counted)")
ASSUMPTIONS = ["np.log, norm.ppf increasing; float non-associativity of np.prod/np.sum can only matter on exact ties between different vectors, which are skipped"]
SKIPPED = [0]


def cases(tier, rng, dist):
    N = 400 if tier == "quick" else 4000
    for _ in range(N):
        B, n = rng.randint(1, 10), rng.randint(2, 4)
        m = gen_matrix(rng, B, n, rng.randint(1, 4))
        spec = rng.choice(COMBS[:6] + COMBS[8:])
        lo = 1; hi = 7 if spec == "liptak" else 8
        p = [Fraction(rng.randint(lo, hi), 8) for _ in range(n)]
        kind = rng.choice(["raise", "relabel", "transform", "dtype"])
        if rng.random() < 0.3:
            # the library's inverse-root-n weighted combiner with unequal sizes; square matrices (B == n) included on purpose
            spec = ["invn", [rng.choice([1, 4, 9, 16, 25, 100]) for _ in range(n)]]
            if rng.random() < 0.6:
                B = n; m = gen_matrix(rng, B, n, rng.randint(1, 4))
        c = {"f": "rel", "kind": kind, "distr": [[str(v) for v in r] for r in m], "p": [str(x) for x in p], "comb": spec,
             "plus1": rng.random() < 0.5}
        if kind == "raise":
            i = rng.randrange(n); q = list(p); q[i] = min(Fraction(hi, 8), q[i] + Fraction(rng.randint(1, 4), 8))
            c["p2"] = [str(x) for x in q]
        elif kind == "relabel":
            perm = list(range(n)); rng.shuffle(perm); c["perm"] = perm
            if spec not in ("fisher", "liptak", "tippett", "negmax") and spec != COMBS[3] and spec[0] != "invn":
                c["comb"] = "tippett"
        elif kind == "transform":
            c["col"] = rng.randrange(n); c["tf"] = rng.choice(["affine", "cube", "exp", "half", "offset60", "offset60"])
            c["a"] = rng.randint(1, 5); c["b"] = rng.randint(-7, 7)
        else:
            c["col"] = None
        yield c
    # sessions: the SAME ndarray objects are passed to a sequence of calls (different combiners / plus1 / p),
    # as a user who compares combining functions on one permutation distribution does; every call is compared
    # with the stateless model, so results that depend on the call history are exposed
    for _ in range(120 if tier == "quick" else 1200):
        B, n = rng.randint(2, 12), rng.randint(2, 4)
        m = gen_matrix(rng, B, n, rng.randint(1, 4))
        seq = []
        for _k in range(rng.randint(2, 5)):
            spec = rng.choice(["fisher", "liptak", "tippett"])
            hi = 7 if spec == "liptak" else 8
            seq.append({"comb": spec, "plus1": rng.random() < 0.7, "p": [str(Fraction(rng.randint(1, hi), 8)) for _ in range(n)],
                        "same_p": rng.random() < 0.5})
        yield {"f": "session", "distr": [[str(v) for v in r] for r in m], "seq": seq, "layout": rng.choice(["C", "F", "F", "T"])}
    for _ in range(60 if tier == "quick" else 600):
        n = rng.randint(1, 6)
        yield {"f": "comb", "p": [str(Fraction(rng.randint(1, 16), 16)) for _ in range(n)], "size": [rng.choice([1, 4, 9, 16, 25, 100]) for _ in range(n)]}
    yield {"f": "bad", "p": ["1/2"], "ncol": 1}
    yield {"f": "bad", "p": [], "ncol": 2}
    yield {"f": "bad", "p": ["1/2", "1/4"], "ncol": 3}
    yield {"f": "bad", "p": ["1/2", "1/4", "1/8"], "ncol": 2}


def call(p, m, spec, plus1, dtype=float):
    if dtype is np.int64 and all(v.denominator == 1 for r in m for v in r):
        d = interned(np.array([[int(v) for v in r] for r in m], dtype=np.int64))
    else:
        d = interned(np.array([[float(v) for v in r] for r in m]).astype(dtype))
    pv = interned(np.array([float(x) for x in p]))
    d0 = d.copy(); pv0 = pv.copy()
    r = list(guarded(lambda: float(NPC.npc(pv, d, make_comb(spec), plus1=plus1))))
    if not ((d == d0).all() and (pv == pv0).all()):
        # whether the call returned or raised, the caller's arrays must be as they were (they are restored here so that the
        # shared objects do not carry the damage into later cases)
        d[...] = d0; pv[...] = pv0
        r.append("ARGUMENTS-MODIFIED")
    return r


def comb2(c):
    """the combining function of the related call: sizes travel with their tests under relabelling"""
    if c["kind"] == "relabel" and isinstance(c["comb"], list) and c["comb"][0] == "invn":
        return ["invn", [c["comb"][1][j] for j in c["perm"]]]
    return c["comb"]


def second(c):
    m = [[Fraction(v) for v in r] for r in c["distr"]]
    p = [Fraction(x) for x in c["p"]]
    if c["kind"] == "raise":
        return [Fraction(x) for x in c["p2"]], m, float
    if c["kind"] == "relabel":
        perm = c["perm"]
        return [p[j] for j in perm], [[r[j] for j in perm] for r in m], float
    if c["kind"] == "transform":
        j = c["col"]
        f = {"affine": lambda x: c["a"] * x + c["b"], "cube": lambda x: x**3, "half": lambda x: x / 2 + Fraction(1, 3),
             "exp": lambda x: Fraction(math.exp(float(x) / 8)), "offset60": lambda x: x + 2**60}[c["tf"]]
        # offset60: an integer column shifted by 2^60 (ids, nanosecond time stamps): the values stay distinct as int64 although
        # they are closer together than the float64 spacing there -- ranks are taken on the values as given
        return p, [[f(v) if k == j else v for k, v in enumerate(r)] for r in m], (np.int64 if c["tf"] == "offset60" else float)
    return p, m, [np.int64, np.uint8, np.uint64, np.float32, np.int32][(len(c["distr"]) + len(c["p"]) + sum(map(len, c["p"]))) % 5]


def run(c):
    if c["f"] == "comb":
        p = np.array([float(Fraction(x)) for x in c["p"]])
        size = np.array(c["size"], dtype=[np.int64, float, float][len(c["p"]) % 3]); size0 = size.copy(); p0 = p.copy()
        out = {"fisher": float(NPC.fisher(p)), "liptak": float(NPC.liptak(p)) if all(x < 1 for x in p) else None,
               "tippett": float(NPC.tippett(p)), "inw": float(NPC.inverse_n_weight(p, size))}
        out["inw_again"] = float(NPC.inverse_n_weight(p, size))          # same objects, second call
        out["args_unmodified"] = bool((size == size0).all() and (p == p0).all())
        return out
    if c["f"] == "session":
        d = np.array([[float(Fraction(v)) for v in r] for r in c["distr"]])
        # memory layout of the caller's matrix: C order, Fortran order owning its data (e.g. built column by column), or a transposed view
        if c.get("layout") == "F":
            d = np.asfortranarray(d)
        elif c.get("layout") == "T":
            d = np.ascontiguousarray(d.T).T
        d0 = d.copy()
        pv = np.array([float(Fraction(x)) for x in c["seq"][0]["p"]])
        out = []
        for st in c["seq"]:
            if not st["same_p"]:
                pv = np.array([float(Fraction(x)) for x in st["p"]])
            cur = [Fraction(float(x)) for x in pv]
            pv0 = pv.copy()
            r = list(guarded(lambda: float(NPC.npc(pv, d, st["comb"], plus1=st["plus1"]))))
            out.append({"r": r, "p": [str(x) for x in cur], "untouched": bool((d == d0).all() and (pv == pv0).all())})
        return {"steps": out}
    if c["f"] == "bad":
        p = np.array([float(Fraction(x)) for x in c["p"]]); d = np.zeros((3, c["ncol"]))
        return {"npc": list(guarded(lambda: float(NPC.npc(p, d)))), "fwer": list(guarded(lambda: [float(v) for v in NPC.fwer_minp(p, d)]))}
    m = [[Fraction(v) for v in r] for r in c["distr"]]
    p = [Fraction(x) for x in c["p"]]
    p2, m2, dt = second(c)
    return {"r1": call(p, m, c["comb"], c["plus1"]), "r2": call(p2, m2, comb2(c), c["plus1"], dt)}


def oracle(c, o):
    if c["f"] == "comb":
        p = [float(Fraction(x)) for x in c["p"]]
        want = {"fisher": -2 * sum(math.log(x) for x in p), "tippett": max(1 - x for x in p),
                "inw": -sum(x / math.sqrt(s) for x, s in zip(p, c["size"]))}
        if o["liptak"] is not None:
            want["liptak"] = sum(float(norm.ppf(1 - x)) for x in p)
        for k, w in want.items():
            if abs(o[k] - w) > 1e-9 * (1 + abs(w)):
                return {"why": f"{k}({c['p']}) = {o[k]}, documented formula gives {w}", "cls": f"comb:{k}"}
        if not o.get("args_unmodified", True):
            return {"why": f"a combining function modified its arguments (p={c['p']}, size={c['size']})", "cls": "comb:input-modified"}
        if "inw_again" in o and o["inw_again"] != o["inw"]:
            return {"why": f"inverse_n_weight called twice with the same objects: {o['inw']} then {o['inw_again']}", "cls": "comb:inw"}
        return None
    if c["f"] == "bad":
        for k in ("npc", "fwer"):
            if o[k][0] != "exc" or o[k][1] != "ValueError":
                return {"why": f"{k} with {len(c['p'])} p-values and {c['ncol']} columns did not raise ValueError: {o[k]}", "cls": f"{k}:shape-guard"}
        return None
    if c["f"] == "session":
        m = [[Fraction(v) for v in r] for r in c["distr"]]
        for k, (st, so) in enumerate(zip(c["seq"], o["steps"])):
            if not so["untouched"]:
                return {"why": f"npc call {k} of the session modified its arguments", "cls": "npc:mutates-arguments"}
            e = exact_npc([Fraction(x) for x in so["p"]], m, st["comb"], st["plus1"])
            if e[0] == "exc" or e[2]:
                continue
            if so["r"][0] != "ok":
                return {"why": f"npc raised in call {k} of a session: {so['r']}", "cls": "npc:raises"}
            if abs(Fraction(so["r"][1]) - e[1]) > Fraction(1, 10**10):
                hist = [(t["comb"], t["plus1"]) for t in c["seq"][:k + 1]]
                return {"why": f"call {k} of a session on the same distr object returned {so['r'][1]}, the rank p-value is {e[1]} (history {hist})",
                        "cls": "npc:history-dependent"}
        return None
    r1, r2 = o["r1"], o["r2"]
    for r in (r1, r2):
        if r and r[-1] == "ARGUMENTS-MODIFIED":
            return {"why": f"npc ({'raised ' + str(r[1]) if r[0] != 'ok' else 'returned'}) left the caller's p-values or distr modified (p={c['p']}, combiner {c['comb']})", "cls": "npc:mutates-arguments"}
    m = [[Fraction(v) for v in r] for r in c["distr"]]; p = [Fraction(x) for x in c["p"]]
    e1 = exact_npc(p, m, c["comb"], c["plus1"])
    p2, m2, _ = second(c)
    e2 = exact_npc(p2, m2, comb2(c), c["plus1"])
    for (e, r, pp) in ((e1, r1, p), (e2, r2, p2)):
        if e[0] == "exc" and r[0] == "ok":
            return {"why": f"npc accepted the combining function {c['comb']} (increasing in one of its arguments at p={[str(x) for x in pp]}) and returned {r[1]}; the monotonicity guard must raise ValueError",
                    "cls": "npc:combfunc-guard"}
    if e1[0] == "exc" or e2[0] == "exc":
        return None
    if r1[0] != "ok" or r2[0] != "ok":
        return {"why": f"npc raised: {r1} / {r2}", "cls": "npc:raises"}
    if c["kind"] == "raise":
        if r2[1] < r1[1] - 1e-12:
            return {"why": f"raising a partial p-value lowered the global p-value: {r1[1]} -> {r2[1]}", "cls": "npc:not-monotone"}
        return None
    if e1[2] or e2[2]:
        return None
    if abs(r1[1] - r2[1]) > 1e-12:
        return {"why": f"{c['kind']} changed the global p-value: {r1[1]} vs {r2[1]}", "cls": f"npc:{c['kind']}-variant"}
    if abs(Fraction(r1[1]) - e1[1]) > Fraction(1, 10**10):
        return {"why": f"npc={r1[1]} but exact rank p-value {e1[1]}", "cls": "npc:rank-pvalue"}
    return None


def to_coq(c, o):
    if c["f"] == "comb":
        p = [Fraction(x) for x in c["p"]]
        return None  # emitted through extra terms below
    if c["f"] == "bad":
        return None
    return None


def extra_terms(c, o):
    out = []
    if c["f"] == "comb":
        p = [Fraction(x) for x in c["p"]]
        out.append(f"TipCase {clist(p, cq)} {cq(Fraction(o['tippett']))}")
        out.append(f"InwCase {clist(p, cq)} {clist([Fraction(1, math.isqrt(s)) for s in c['size']], cq)} {cq(Fraction(o['inw']))}")
    elif c["f"] == "session":
        m = [[Fraction(v) for v in r] for r in c["distr"]]
        for st, so in zip(c["seq"], o["steps"]):
            pp = [Fraction(x) for x in so["p"]]
            e = exact_npc(pp, m, st["comb"], st["plus1"])
            if e[0] == "ok" and e[2]:
                SKIPPED[0] += 1; continue
            tab = e[3] if e[0] == "ok" else {}
            r = so["r"]
            impl = cres(("ok", Fraction(r[1])) if r[0] == "ok" else r, cq)
            out.append(f"NpcCase {clist(pp, cq)} {qmat(m)} {comb_coq(st['comb'], tab)} {cbool(st['plus1'])} {impl}")
    elif c["f"] == "rel":
        m = [[Fraction(v) for v in r] for r in c["distr"]]; p = [Fraction(x) for x in c["p"]]
        p2, m2, _ = second(c)
        for (pp, mm, r) in ((p, m, o["r1"]), (p2, m2, o["r2"])):
            cb = c["comb"] if mm is m else comb2(c)
            e = exact_npc(pp, mm, cb, c["plus1"])
            if e[0] == "ok" and e[2]:
                SKIPPED[0] += 1; continue
            if c.get("tf") == "exp" and mm is m2:
                continue  # irrational column: the model is compared on the rational inputs only
            tab = e[3] if e[0] == "ok" else {}
            impl = cres(("ok", Fraction(r[1])) if r[0] == "ok" else r, cq)
            out.append(f"NpcCase {clist(pp, cq)} {qmat(mm)} {comb_coq(cb, tab)} {cbool(c['plus1'])} {impl}")
    return out


def nontrivial(c, o):
    if c["f"] == "session":
        return len({t["comb"] for t in c["seq"]}) > 1
    if c["f"] != "rel" or o["r1"][0] != "ok":
        return False
    cols = list(zip(*c["distr"]))
    return any(len(set(col)) < len(col) for col in cols) and 0 < o["r1"][1] < 1


def key(c):
    return json.dumps(c, sort_keys=True)


# ---- failure paths (round 12): every third case is preceded by npc calls that the library rejects; they must leave nothing
# behind.  Extra cases "liptak_one": an observed partial p-value of exactly 1 with Liptak's function (quantile -inf): the
# combined observed statistic is -inf, every row of the distribution is at least as large, so the global p-value is 1 ----
_cases_plain, _run_plain, _oracle_plain, _to_coq_plain, _nontrivial_plain = cases, run, oracle, to_coq, nontrivial
_extra_terms_plain = globals().get("extra_terms")


def failing_calls(c):
    k = c["ff"] % 4
    p3 = np.array([0.2, 1.0, 0.05])
    d3 = np.arange(24, dtype=float).reshape(2, 4, 3) / 30.0
    return [[("3-d distr, liptak", lambda: NPC.npc(p3, d3, "liptak")),
             ("distr without rows, liptak", lambda: NPC.npc(p3, np.empty((0, 3)), "liptak")),
             ("unknown combining function", lambda: NPC.npc(p3, np.ones((4, 3)), "Liptak")),
             ("widths differ, liptak", lambda: NPC.npc(p3, np.ones((4, 2)), "liptak"))][k],
            ("combining function that is not monotone", lambda: NPC.npc(p3, np.ones((4, 3)), lambda p: float(np.sum(p))))]


def cases(tier, rng, dist):
    def more():
        yield from _cases_plain(tier, rng, dist)
        for _ in range(20 if tier == "quick" else 200):
            B, n = rng.randint(2, 8), rng.randint(2, 4)
            yield {"f": "liptak_one", "distr": [[rng.randint(0, 9) for _ in range(n)] for _ in range(B)], "p": [str(Fraction(rng.randint(1, 19), 20)) for _ in range(n)],
                   "one_at": rng.randrange(n), "plus1": rng.random() < 0.5, "as_callable": rng.random() < 0.4}
    return mark_ff(more())


_REC = []
NPC = RecordingModule(NPC, _REC, ["npc", "fisher", "liptak", "tippett", "inverse_n_weight"])


def run(c):
    ff = fail_first(failing_calls(c)) if "ff" in c else None
    if c["f"] == "liptak_one":
        p = np.array([float(Fraction(x)) for x in c["p"]]); p[c["one_at"]] = 1.0
        d = np.array(c["distr"], dtype=float)
        comb = NPC.liptak if c["as_callable"] else "liptak"
        o = {"direct": list(guarded(lambda: float(NPC.liptak(p)))), "npc": list(guarded(lambda: float(NPC.npc(p, d, comb, plus1=c["plus1"])))),
             "smaller": list(guarded(lambda: float(NPC.npc(np.where(np.arange(len(p)) == c["one_at"], 0.5, p), d, comb, plus1=c["plus1"])))) }
    else:
        o = _run_plain(c)
    if ff is not None and isinstance(o, dict):
        o["ff"] = ff
    if isinstance(o, dict):
        o["retained_changed"] = retained_changed(_REC)
    return o


def oracle(c, o):
    if c["f"] != "liptak_one":
        return _oracle_plain(c, o)
    if o["direct"][0] != "ok" or o["direct"][1] != float("-inf"):
        return {"why": f"liptak({c['p']} with entry {c['one_at']} = 1) = {o['direct'][1:]}, expected -inf (the normal quantile of 0)", "cls": "liptak:value"}
    # (with the FUNCTION liptak passed as a callable npc does not cap the row p-values, rows can be NaN and are not counted: only
    # monotonicity is asserted then)
    if o["npc"][0] != "ok" or (o["npc"][1] != 1.0 and not c["as_callable"]):
        return {"why": f"npc with an observed partial p-value of exactly 1 (entry {c['one_at']} of {c['p']}), Liptak: global p = {o['npc'][1:]}, but the observed combined statistic is -inf and every row counts: expected 1.0", "cls": "npc:monotone"}
    if o["smaller"][0] == "ok" and o["smaller"][1] > o["npc"][1] + 1e-12:
        return {"why": f"npc (Liptak): lowering partial p-value {c['one_at']} from 1 to 0.5 RAISED the global p-value {o['npc'][1]} -> {o['smaller'][1]}", "cls": "npc:monotone"}
    return None


def to_coq(c, o):
    return None if c["f"] == "liptak_one" else _to_coq_plain(c, o)


if _extra_terms_plain is not None:
    def extra_terms(c, o):
        return [] if c["f"] == "liptak_one" else _extra_terms_plain(c, o)


def nontrivial(c, o):
    return True if c["f"] == "liptak_one" else _nontrivial_plain(c, o)


_oracle_before_retention = oracle


def oracle(c, o):
    if isinstance(o, dict) and o.get("retained_changed"):
        return {"why": "results kept by the caller changed when later calls were made: " + o["retained_changed"], "cls": "npc:result-aliased"}
    return _oracle_before_retention(c, o)
