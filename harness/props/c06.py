"""C06: seeded runs reproducible, isolated, shared draws -- wrapper over harness/all_rand.py (scripted-tape runs of the unstratified and stratified tests and helpers)."""
from .. import all_rand as AR
from ..all_rand import COQ_HEADER, run, to_coq, extra_terms, nontrivial, key, SKIPPED

RULE = ("all scripted and real-seed runs: numpy's global state compared before/after every seeded call; equal int seeds under different global states; int seed vs SHA256(seed); RandomState replay; the bounds of the draws requested are predicted from sizes/stratification alone (model tape consumption; permute_within_groups one Fisher-Yates pass per group whatever the values); Experiment.randomize / sim_npc / westfall_young and permute_incidence_fixed_sums with real seeds under different global states")
ASSUMPTIONS = [
    "the generator is driven through a scripted subclass of cryptorandom.SHA256 (harness/tape.py): requests are answered lazily and logged; the same answers are replayed for the keep_dist twin",
    "data are exactly representable (small integers times group-size products times powers of two, optional large offsets), so named float statistics are exact; 't'-type statistics are black boxes checked through dist",
    "SHA-256 / Mersenne-Twister output is assumed uniform; condition.argsort() is an oracle input of the model"]
oracle = AR.filtered_oracle(['irreproducible', 'int-vs-sha256', 'randomstate-replay', 'global-rng', 'keepdist-draws', 'draws-depend-on-data', 'contract',
                            # a simulated value that is not the documented statistic of the rearrangement SELECTED BY THE DRAWS: the rearrangement depends on the statistic
                            'stat-option', 'wrong-rearrangement'])


def cases(tier, rng, dist):
    return AR.cases(tier, rng, dist, extra=('exp', 'pifs'))


def generated(tier):
    """G1: every use of numpy's global generator in /repo/permute/*.py"""
    from ..translate.effects import scan
    from ..common import cstr
    sites, _ = scan()
    items = sorted({(m, f) for (m, f, ln, w) in sites})
    text = ("From Coq Require Import String List Bool.\nImport ListNotations.\nFrom PV Require Import Lib.EffectSites.\n"
            "Definition sites : list (string * string) := [" + "; ".join(f"({cstr(m)}, {cstr(f)})" for (m, f) in items) + "].\n"
            "Theorem global_rng_only_in_get_prng : forallb rng_site_ok sites = true.\nProof. vm_compute. reflexivity. Qed.\n")
    return [{"name": "G1_global_rng_only_in_get_prng", "file": "C06_G1_sites.v", "text": text, "detail": [list(x) for x in sites], "cls": "source:global-rng"}]
