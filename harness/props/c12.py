"""C12: binom_conf_interval returns Clopper-Pearson bounds with guaranteed coverage."""
import itertools, json, math
from fractions import Fraction
import numpy as np
from ..common import *
from permute.utils import binom_conf_interval

COQ_HEADER = """From PV Require Import Lib.Base Model.ConfInt Corr.C12.
Open Scope Q_scope."""
RULE = ("grid n in 1..12 (quick; thorough 1..24) x all x x cl in {1/20, 1/5, 3/10, 1/2, 4/5, 9/10, 19/20, 39/40, 99/100} x alternatives, random "
        "n<=40 (thorough 60), starting points p in {None, 0, 1/2, 1, x/n}, documented solver keywords (xtol, rtol, maxiter), a fifth of the grid cases preceded by a call with coarse tolerances (xtol 0.05 / 1e-3 / 0.01) that must not influence the certified plain call; the "
        "returned floats are turned into exact rationals and certified by the Gallina checker cp_check with brackets of width "
        "<= 3e-9 on a 1e-12 grid; non-trivial = 0<x<n so that both limits are solved numerically; distinct by (n,x,cl,alt,p,kwargs)")
EXHAUSTIVE = {"quick": ["n<=6, all x, 9 levels, 3 alternatives (thinned above n=6 / n=3 for levels below 1/2)"], "thorough": ["n<=24, all x, 9 levels, 3 alternatives"]}
ASSUMPTIONS = ["scipy brentq (xtol 2e-12) and binom.cdf are accurate enough that the solved limit is within 1e-9 of the exact one; what is certified is the bracket",
               "confidence levels are passed to the model as the nominal rationals (19/20 for 0.95)"]
CLS = ["1/20", "1/5", "3/10", "1/2", "4/5", "9/10", "19/20", "39/40", "99/100"]   # levels below 1/2: one-sided limits lie beyond x/n
CALT = {"two-sided": "CITwoSided", "lower": "CILower", "upper": "CIUpper"}
DELTA = Fraction(1, 10**9)
GRID = 10**12


def _cases(tier, rng, dist):
    nmax = 12 if tier == "quick" else 24     # exact tails at 1e-12-grid end points cost ~n^2 big-number operations per case
    for n in range(1, nmax + 1):
        for x in range(0, n + 1):
            for cl in CLS:
                for alt in CALT:
                    if tier == "quick" and n > 6 and (n + x + len(cl) + len(alt)) % 3: continue
                    if tier == "quick" and n > 3 and cl in ("1/20", "1/5", "3/10") and (n + x + len(alt)) % 2: continue
                    c = {"n": n, "x": x, "cl": cl, "alt": alt, "p": None, "kw": None}
                    if (n * 7 + x * 3 + len(cl)) % 5 == 0:
                        # a call with coarse documented solver tolerances FIRST: it must not influence the later plain call
                        c["warm"] = [{"xtol": 0.05}, {"xtol": 1e-3, "rtol": 1e-3}, {"xtol": 0.01, "maxiter": 60}][(n + x) % 3]
                    yield c
    for _ in range(150 if tier == "quick" else 500):
        n = rng.randint(1, 40 if tier == "quick" else 60); x = rng.randint(0, n)
        yield {"n": n, "x": x, "cl": rng.choice(CLS), "alt": rng.choice(list(CALT)), "p": rng.choice([None, None, "0", "1/2", "1", "x/n", "1/1000"]),
               "kw": rng.choice([None, None, {"xtol": 1e-10}, {"rtol": 1e-10}, {"maxiter": 200}, {"xtol": 1e-13, "maxiter": 500}]),
               "ntype": rng.choice([None, "int64", "int32", "uint16", "int64", "arr0", "arr0"])}
    yield from big_cases(tier, rng)


def big_cases(tier, rng):
    """large samples with the count at an end of the range: the limit lies within 2^-10 of 0 or 1, far from any
    user-supplied starting point (the result must not depend on it, and must exist)"""
    for _ in range(40 if tier == "quick" else 300):
        n = rng.choice([3000, 5000, 8000, 20000]); x = rng.choice([0, 1, 2, n - 2, n - 1, n])
        yield {"n": n, "x": x, "cl": rng.choice(["1/2", "19/20", "99/100"]), "alt": rng.choice(list(CALT)),
               "p": rng.choice([None, "0", "1/4", "1/2", "3/4", "1", "1/1000"]), "kw": None, "big": True}
    # several dimensions extreme at once: tens of thousands of trials, a handful of successes or failures, confidence levels
    # within 1e-4 ... 1e-9 of 1 (and very low ones); plain calls are certified, calls with a starting point compared with them
    for _ in range(30 if tier == "quick" else 300):
        n = rng.choice([20000, 30011, 50000]); k = rng.randint(0, 16); x = rng.choice([k, n - k])
        yield {"n": n, "x": x, "cl": rng.choice(["9999/10000", "99999/100000", "999999/1000000", "999999/1000000", "99999999/100000000", "999999999/1000000000", "1/1000000"]),
               "alt": rng.choice(list(CALT)), "p": rng.choice([None, None, None, "1/2", "1/1000", "x/n"]), "kw": None, "big": True}
    for _ in range(20 if tier == "quick" else 200):
        n = rng.randint(1, 40); x = rng.randint(0, n)
        yield {"n": n, "x": x, "cl": rng.choice(["999999/1000000", "99999999/100000000", "999999999/1000000000", "1/1000000", "1/1000000000"]),
               "alt": rng.choice(list(CALT)), "p": rng.choice([None, None, "1/2", "x/n"]), "kw": None, "big": True}


class Ratio:
    """an exact non-normalised ratio of two (huge) integers: comparisons by cross-multiplication, no gcd"""
    def __init__(self, num, den): self.num, self.den = num, den
    def __le__(self, a): a = Fraction(a); return self.num * a.denominator <= a.numerator * self.den
    def __ge__(self, a): a = Fraction(a); return self.num * a.denominator >= a.numerator * self.den
    def __float__(self): return self.num / self.den


def tails_big(n, x, p):
    """exact (P(X>=x), P(X<=x)) for x within a few units of 0 or n: only the short side is summed, in big-integer form:
    p = a/D, q = b/D; sum_j C(n,j) a^j b^(n-j) / D^n with the common power of b (or a) factored out"""
    p = Fraction(p)
    a_, D = p.numerator, p.denominator; b_ = D - a_
    T = D**n
    def low_i(k):        # D^n P(X <= k), k small
        if k < 0: return 0
        return sum(math.comb(n, j) * a_**j * b_**(k - j) for j in range(k + 1)) * b_**(n - k)
    def high_i(k):       # D^n P(X >= k), n - k small
        if k > n: return 0
        m = n - k
        return sum(math.comb(n, n - i) * b_**i * a_**(m - i) for i in range(m + 1)) * a_**(n - m)
    if x <= n - x:
        return Ratio(T - low_i(x - 1), T), Ratio(low_i(x), T)
    return Ratio(high_i(x), T), Ratio(T - high_i(x + 1), T)


def count_objects(c):
    """n and x in the form the caller holds them: ints, numpy integer scalars, or writable 0-d integer arrays ('arr0')"""
    n, x = c["n"], c["x"]
    nt = c.get("ntype")          # counts usually come out of numpy (arr.sum(), len): numpy integer scalars are integers too
    if nt == "arr0":
        dt = [np.int64, np.int32, np.uint16][(n + x) % 3]
        return np.array(n, dtype=dt), np.array(x, dtype=dt)
    if nt:
        return getattr(np, nt)(n), getattr(np, nt)(x)
    return n, x


def call(c, p="use", kw="use", objs=None):
    n, x = objs if objs is not None else count_objects(c)
    pp = c["p"] if p == "use" else p
    if pp == "x/n": pp = x / n
    elif pp is not None: pp = float(Fraction(pp))
    k = (c["kw"] if kw == "use" else kw) or {}
    return guarded(lambda: tuple(float(v) for v in binom_conf_interval(n, x, cl=float(Fraction(c["cl"])), alternative=c["alt"], p=pp, **k)))


def _run(c):
    out = {}
    if c.get("ntype") == "arr0":
        # ONE pair of count objects for the whole session: a call that fails (an undocumented keyword, one iteration only)
        # comes first and must leave them as they were; every later call uses the same objects
        objs = count_objects(c)
        out["failing_first"] = [list(call(c, p=None, kw={"maxiter": 1}, objs=objs))[:2], list(call(c, p=None, kw={"tol": 1e-3}, objs=objs))[:2]]
        out["r"] = list(call(c, objs=objs))
        out["plain"] = list(call(c, p=None, kw=None, objs=objs))
        # a SECOND pair of count objects of the same dtype used in alternation with the first: the calls on one pair must not
        # disturb the other pair, neither its value nor the result of the next call on it
        other = (np.array(c["n"], dtype=objs[0].dtype), np.array((c["x"] + max(1, c["n"] // 2)) % (c["n"] + 1), dtype=objs[1].dtype))
        out["other"] = [list(call(c, p=None, kw=None, objs=other)), int(other[1])]
        out["plain_again"] = list(call(c, p=None, kw=None, objs=objs))
        out["other_after"] = [int(other[0]), int(other[1])]
        out["objs_after"] = [int(objs[0]), int(objs[1])]
        return out
    if c.get("big"):
        out["r"] = list(call(c))
        if c["p"] is not None:
            out["plain"] = list(call(c, p=None, kw=None))
        return out
    if c.get("warm"):
        out["warm"] = list(call(c, p=None, kw=c["warm"]))
    r = call(c)
    out["r"] = list(r)
    if c["p"] is not None or c["kw"] is not None:
        out["plain"] = list(call(c, p=None, kw=None))
    if c["x"] + 1 <= c["n"]:
        c2 = dict(c); c2["x"] = c["x"] + 1; out["next_x"] = list(call(c2, p=None, kw=None))
    if c["cl"] != "99/100":
        c3 = dict(c); c3["cl"] = CLS[CLS.index(c["cl"]) + 1]; out["next_cl"] = list(call(c3, p=None, kw=None))
    return out


def tails(n, x, p):
    pm = [math.comb(n, k) * p**k * (1 - p)**(n - k) for k in range(n + 1)]
    return sum(pm[x:]), sum(pm[:x + 1])     # P(X>=x), P(X<=x)


def brackets(L):
    Lf = Fraction(L)
    p1 = max(Fraction(0), Fraction(math.floor((Lf - DELTA) * GRID), GRID))
    p2 = min(Fraction(1), Fraction(math.ceil((Lf + DELTA) * GRID), GRID))
    return p1, p2


def oracle(c, o):
    r = o["r"]
    if r[0] != "ok":
        cls = "binom_conf_interval:kwargs" if c["kw"] else "binom_conf_interval:raises"
        return {"why": f"binom_conf_interval({c['n']}, {c['x']}, cl={c['cl']}, {c['alt']}, p={c['p']}, {c['kw']}) raised {r}", "cls": cls}
    if "plain_again" in o and (o["plain_again"] != o["plain"] or o["other_after"] != [c["n"], o["other"][1]]):
        return {"why": f"binom_conf_interval(n={c['n']}, x={c['x']} as 0-d arrays): after a call on ANOTHER pair of count objects (x={o['other'][1]}) the same call returns {o['plain_again']}, before {o['plain']}; the other pair reads {o['other_after']} afterwards", "cls": "binom_conf_interval:input-modified"}
    if "objs_after" in o and o["objs_after"] != [c["n"], c["x"]]:
        return {"why": f"binom_conf_interval changed the caller's count objects (0-d arrays n={c['n']}, x={c['x']}) to {o['objs_after']} (a call that raised came first: {o['failing_first']})", "cls": "binom_conf_interval:input-modified"}
    L, U = r[1]
    n, x = c["n"], c["x"]; a = (1 - Fraction(c["cl"])); a = a / 2 if c["alt"] == "two-sided" else a
    if not (0 <= L <= U <= 1):
        return {"why": f"limits out of order: {L}, {U}", "cls": "binom_conf_interval:order"}
    want_low = c["alt"] != "upper" and x > 0; want_upp = c["alt"] != "lower" and x < n
    tails = tails_big if c.get("big") else globals()["tails"]
    if not want_low and L != 0.0: return {"why": f"lower limit {L} should be 0", "cls": "binom_conf_interval:trivial-lower"}
    if not want_upp and U != 1.0: return {"why": f"upper limit {U} should be 1", "cls": "binom_conf_interval:trivial-upper"}
    # the function solves cdf(x-1; q) = cl with cl a binary64 number next to 1 (spacing 1.1e-16) and the cdf evaluated in binary64:
    # the tail level it can realise is a up to a few 1e-16 ABSOLUTE, which matters only at levels of 1e-6 and below
    eps = Fraction(1, 10**15)
    if want_low:
        p1, p2 = brackets(L)
        if not ((p1 == 0 or tails(n, x, p1)[0] <= a + eps) and (p2 == 1 or tails(n, x, p2)[0] >= a - eps)):
            return {"why": f"lower limit {L}: P_p(X>={x}) = {float(tails(n, x, Fraction(L))[0])} is not the tail level {float(a)} (n={n}, cl={c['cl']}, {c['alt']}, p={c['p']})", "cls": "binom_conf_interval:lower-limit"}
    if want_upp:
        q1, q2 = brackets(U)
        if not ((q2 == 1 or tails(n, x, q2)[1] <= a + eps) and (q1 == 0 or tails(n, x, q1)[1] >= a - eps)):
            return {"why": f"upper limit {U}: P_p(X<={x}) = {float(tails(n, x, Fraction(U))[1])} is not the tail level {float(a)} (n={n}, cl={c['cl']}, {c['alt']}, p={c['p']})", "cls": "binom_conf_interval:upper-limit"}
    if Fraction(c["cl"]) >= Fraction(1, 2) and c["alt"] == "two-sided" and not (L - 1e-9 <= x / n <= U + 1e-9):
        return {"why": f"x/n={x / n} outside [{L},{U}]", "cls": "binom_conf_interval:mle-outside"}
    if "warm" in o:
        w = o["warm"]; tol = 2 * c["warm"]["xtol"] + 1e-6
        if w[0] != "ok" or not (0 <= w[1][0] <= w[1][1] <= 1) or abs(w[1][0] - L) > tol or abs(w[1][1] - U) > tol:
            return {"why": f"binom_conf_interval({n}, {x}, cl={c['cl']}, {c['alt']}, **{c['warm']}) returned {w}; with default tolerances {r[1]}", "cls": "binom_conf_interval:kwargs"}
    if "plain" in o:
        pl = o["plain"]
        if pl[0] != "ok" or abs(pl[1][0] - L) > 1e-8 or abs(pl[1][1] - U) > 1e-8:
            return {"why": f"result depends on the starting point / solver keywords: {r[1]} vs {pl}", "cls": "binom_conf_interval:start-dependent"}
    if "next_x" in o and o["next_x"][0] == "ok":
        L2, U2 = o["next_x"][1]
        if L2 < L - 1e-9 or U2 < U - 1e-9:
            return {"why": f"limits not monotone in x: x={x}: {r[1]}, x+1: {o['next_x'][1]}", "cls": "binom_conf_interval:not-monotone"}
    if "next_cl" in o and o["next_cl"][0] == "ok":
        L3, U3 = o["next_cl"][1]
        if L3 > L + 1e-9 or U3 < U - 1e-9:
            return {"why": f"intervals not nested in cl: {c['cl']}: {r[1]}, higher level: {o['next_cl'][1]}", "cls": "binom_conf_interval:not-nested"}
    return None


def to_coq(c, o):
    r = o["r"]
    if r[0] != "ok" or c.get("big"): return None      # (big cases: exact tails are checked by the oracle only)
    L, U = r[1]
    if not (0 <= L <= 1 and 0 <= U <= 1): return None
    p1, p2 = brackets(L); q1, q2 = brackets(U)
    return (f"BCI {cnat(c['n'])} {cnat(c['x'])} {cq(Fraction(c['cl']))} {CALT[c['alt']]} {cq(Fraction(L))} {cq(Fraction(U))} "
            f"{cq(p1)} {cq(p2)} {cq(q1)} {cq(q2)}")


def nontrivial(c, o):
    return o["r"][0] == "ok" and 0 < c["x"] < c["n"]


def key(c):
    return json.dumps(c, sort_keys=True)


def generated(tier):
    """source-derived obligations (G4 formulas): regenerated from /repo's current source text on every run"""
    from ..translate.tables import obligations
    return obligations("C12")


# ---- failure paths (round 12): every third case is preceded by calls that the library rejects, or that fail inside a user
# callable; they raise on the unchanged tree and must leave nothing behind (common.fail_first) ----

def failing_calls(c):
    n, x = c["n"], c["x"]
    other = 0.5 if Fraction(c["cl"]) != Fraction(1, 2) else 0.9
    k = c["ff"] % 3
    return [("two-sided, one iteration only", lambda: binom_conf_interval(n, min(max(x, 1), max(n - 1, 1)) if n > 1 else x, cl=other, alternative="two-sided", maxiter=1)),
            [("unknown solver keyword", lambda: binom_conf_interval(n, x, cl=other, alternative="two-sided", tol=1e-3)),
             ("starting point outside [0, 1]", lambda: binom_conf_interval(n, x, cl=other, alternative="two-sided", p=1.5, maxiter=0)),
             ("x > n", lambda: binom_conf_interval(n, n + 1, cl=other, alternative="two-sided", maxiter=1))][k]]


def cases(tier, rng, dist):
    return mark_ff(_cases(tier, rng, dist))


_REC = []
binom_conf_interval = recording(binom_conf_interval, _REC)


def run(c):
    ff = fail_first(failing_calls(c)) if "ff" in c else None
    o = _run(c)
    if ff is not None and isinstance(o, dict):
        o["ff"] = ff
    if isinstance(o, dict):
        o["retained_changed"] = retained_changed(_REC)
    return o


_oracle_before_retention = oracle


def oracle(c, o):
    if isinstance(o, dict) and o.get("retained_changed"):
        return {"why": "results kept by the caller changed when later calls were made: " + o["retained_changed"], "cls": "binom_conf_interval:result-aliased"}
    return _oracle_before_retention(c, o)
