"""C18: IRR concordance statistic; simulate_ts_dist reference/geq; simulate_npc_dist formula."""
import itertools, json, math
from fractions import Fraction
import numpy as np
from ..common import *
from permute import irr

COQ_HEADER = """From PV Require Import Lib.Base Model.Irr Corr.C18.
Open Scope Z_scope."""
RULE = ("compute_ts: all binary matrices with 2<=R<=4, Ns<=3 (quick; thorough Ns<=4) in int and float dtypes; "
        "simulate_ts_dist: real int seeds, num_perm 1..6, obs_ts in {None, 0, 0.0, 1/2, 1, actual}, keep_dist, plus1, the simulated "
        "matrices recorded through the module-level compute_ts; simulate_npc_dist: small perm_distr with ties and perfect-square sizes; "
        "non-trivial = matrix neither unanimous on every item nor constant; distinct by full input")
EXHAUSTIVE = {"quick": ["binary matrices 2<=R<=4, 1<=Ns<=3"], "thorough": ["binary matrices 2<=R<=4, 1<=Ns<=4"]}
ASSUMPTIONS = ["the simulated matrices are observed by wrapping permute.irr.compute_ts (module attribute) with a recorder",
               "float results compared with exact Q at 1e-12; floats that are correctly rounded small-denominator rationals are decoded with limit_denominator(10^6)"]


def _cases(tier, rng, dist):
    maxNs = 3 if tier == "quick" else 4
    for R in range(2, 5):
        for Ns in range(1, maxNs + 1):
            for cells in itertools.product((0, 1), repeat=R * Ns):
                m = [list(cells[i * Ns:(i + 1) * Ns]) for i in range(R)]
                yield {"f": "ts", "m": m, "dtype": "int" if sum(cells) % 2 else "float"}
    for R, Ns in ((40, 300), (3, 70001), (300, 3), (17, 1025)) if tier == "quick" else ((40, 300), (3, 70001), (300, 3), (17, 1025), (64, 64), (129, 257)):
        yield {"f": "ts", "big": [R, Ns, rng.randint(0, 10**6)], "m": [[0]], "dtype": rng.choice(["int", "float", "bool"])}
    from .. import sizes
    for np_ in [70001] + sizes.extra_sizes(["irr"], [70001], cap=200000, lo=16)[:3]:            # just beyond every integer constant of the source
        yield {"f": "sim", "m": [[rng.randint(0, 1) for _ in range(5)] for _ in range(4)], "ov": "none", "num_perm": np_, "keep": False, "plus1": True, "seed": rng.randint(0, 10**6), "big": True}
    for _ in range(100 if tier == "quick" else 1000):
        R, Ns = rng.randint(2, 7), rng.randint(1, 8)
        yield {"f": "ts", "m": [[rng.randint(0, 1) for _ in range(Ns)] for _ in range(R)], "dtype": rng.choice(["int", "float", "bool"])}
    for _ in range(250 if tier == "quick" else 2500):
        R, Ns = rng.randint(2, 4), rng.randint(1, 5)
        m = [[rng.randint(0, 1) for _ in range(Ns)] for _ in range(R)]
        ov = rng.choice(["none", "none", "zero_int", "zero_float", "half", "one", "actual", "big"])
        yield {"f": "sim", "m": m, "ov": ov, "num_perm": rng.randint(1, 6), "keep": rng.random() < 0.6,
               "plus1": rng.random() < 0.5, "seed": real_seed(rng)}
    # larger designs, many repetitions: simulated values tie with the reference at many different counts c/(Ns R (R-1)),
    # and the tail count must be the same whether or not the distribution is kept
    for k in range(80 if tier == "quick" else 800):
        R, Ns = [(4, 7), (5, 5), (4, 7), (6, 6), (5, 8), (3, 9)][k % 6]
        q = rng.choice([0.3, 0.5, 0.7])
        m = [[1 if rng.random() < q else 0 for _ in range(Ns)] for _ in range(R)]
        yield {"f": "sim", "m": m, "ov": rng.choice(["none", "none", "none", "actual"]), "num_perm": 30, "keep": False,
               "plus1": rng.random() < 0.5, "seed": real_seed(rng)}
    for _ in range(150 if tier == "quick" else 1500):
        B, S = rng.randint(1, 6), rng.randint(2, 4)
        cols = [[rng.randint(0, 3) for _ in range(B)] for _ in range(S)]
        yield {"f": "npcdist", "cols": cols, "obs": [rng.randint(0, 3) for _ in range(S)],
               "size": [rng.choice([1, 4, 9, 16, 25]) for _ in range(S)], "plus1": rng.random() < 0.5}


def exact_ts(m):
    R, Ns = len(m), len(m[0])
    agree = 0
    for i in range(Ns):
        for a in range(R):
            for b in range(a + 1, R):
                agree += (m[a][i] == m[b][i])
    return Fraction(agree, Ns * R * (R - 1) // 2)


OV = {"none": None, "zero_int": 0, "zero_float": 0.0, "half": 0.5, "one": 1, "big": 7.25}


def _run(c):
    if c["f"] == "ts":
        dt = {"int": np.int64, "float": float, "bool": bool}[c["dtype"]]
        if c.get("big"):
            R, Ns, sd = c["big"]
            a = np.random.RandomState(sd).randint(0, 2, size=(R, Ns)).astype(dt); a0 = a.copy()
            r = guarded(lambda: float(irr.compute_ts(a)), secs=120)
            y = a0.astype(np.int64).sum(0)
            num = int((y * (y - 1) + (R - y) * (R - y - 1)).sum())
            return {"r": list(r), "unmodified": bool((a == a0).all()), "exact": [num, Ns * R * (R - 1)]}
        a = np.array(c["m"], dtype=dt)
        a0 = a.copy()
        r = guarded(lambda: float(irr.compute_ts(a)))
        return {"r": list(r), "unmodified": bool((a == a0).all())}
    if c["f"] == "sim":
        a = np.array(c["m"])
        # the ratings as the caller holds them: C order, Fortran order (e.g. the transpose of an items x raters table), strided rows
        lay = (len(c["m"]) + len(c["m"][0]) + c["num_perm"]) % 4
        if lay == 1:
            a = np.asfortranarray(a)
        elif lay == 2:
            a = np.ascontiguousarray(a.T).T
        elif lay == 3:
            buf = np.zeros((2 * a.shape[0], a.shape[1]), dtype=a.dtype); buf[::2] = a; a = buf[::2]
        a0 = a.copy()
        ov = OV[c["ov"]] if c["ov"] != "actual" else float(exact_ts(c["m"]))
        rec = []
        orig = irr.compute_ts
        def wrapper(r):
            rec.append(np.array(r).tolist()); return orig(r)
        irr.compute_ts = wrapper
        try:
            r = guarded(lambda: irr.simulate_ts_dist(a, obs_ts=ov, num_perm=c["num_perm"], keep_dist=c["keep"], seed=c["seed"], plus1=c["plus1"]))
        finally:
            irr.compute_ts = orig
        r2 = guarded(lambda: irr.simulate_ts_dist(a, obs_ts=ov, num_perm=c["num_perm"], keep_dist=True, seed=c["seed"], plus1=c["plus1"]))
        out = {"ok": r[0] == "ok" and r2[0] == "ok", "ov": ov, "unmodified": bool((a == a0).all()), "rec": rec}
        if out["ok"]:
            d = r[1]
            out.update({"obs": float(d["obs_ts"]), "geq": int(d["geq"]), "p": float(d["pvalue"]), "num_perm": int(d["num_perm"]),
                        "dist": None if d["dist"] is None else [float(v) for v in d["dist"]],
                        "dist_kept": [float(v) for v in r2[1]["dist"]], "geq_kept": int(r2[1]["geq"]), "p_kept": float(r2[1]["pvalue"])})
        else:
            out["err"] = [list(r), list(r2)]
        return out
    cols = np.array(c["cols"], dtype=float).T
    # the stratum sizes as the caller holds them: ONE array object (integer or float dtype) passed to every call below
    size = np.array(c["size"], dtype=[np.int64, float, float, np.int32][(len(c["cols"]) + sum(c["size"])) % 4])
    size0 = size.copy()
    r = guarded(lambda: irr.simulate_npc_dist(cols, size, obs_ts=np.array(c["obs"], dtype=float), plus1=c["plus1"]))
    if r[0] != "ok":
        return {"ok": False, "err": list(r)}
    out = {"ok": True, "obs_npc": float(r[1]["obs_npc"]), "pvalue": float(r[1]["pvalue"]), "num_perm": int(r[1]["num_perm"])}
    r1 = guarded(lambda: irr.simulate_npc_dist(cols, size, obs_ts=np.array(c["obs"], dtype=float), plus1=c["plus1"]))
    out["again"] = [r1[0], float(r1[1]["obs_npc"]), float(r1[1]["pvalue"])] if r1[0] == "ok" else list(r1)
    out["size_unmodified"] = bool((size == size0).all()) and size.dtype == size0.dtype
    # the same call with the per-stratum p-values supplied instead of the observed statistics, and with neither
    B = cols.shape[0]; pc = 1 if c["plus1"] else 0
    pv = np.array([(np.sum(cols[:, j] >= c["obs"][j]) + pc) / (B + pc) for j in range(cols.shape[1])])
    r2 = guarded(lambda: irr.simulate_npc_dist(cols, size, pvalues=pv, plus1=c["plus1"]))
    out["via_pvalues"] = [r2[0], float(r2[1]["obs_npc"]), float(r2[1]["pvalue"])] if r2[0] == "ok" else list(r2)
    out["neither"] = list(guarded(lambda: irr.simulate_npc_dist(cols, size, plus1=c["plus1"])))[:2]
    out["size_unmodified"] = out["size_unmodified"] and bool((size == size0).all())
    return out


def oracle(c, o):
    if c["f"] == "ts":
        if not o["unmodified"]:
            return {"why": "compute_ts modified its input", "cls": "irr:input-modified"}
        if o["r"][0] != "ok":
            return {"why": f"compute_ts raised {o['r']}", "cls": "irr:ts-raises"}
        e = exact_ts(c["m"]) if not c.get("big") else Fraction(o["exact"][0], o["exact"][1])
        if not math.isfinite(o["r"][1]):
            return {"why": f"compute_ts={o['r'][1]} for the {len(c['m'])} x {len(c['m'][0])} matrix {c['m']}; the fraction of agreeing rater pairs is {e}", "cls": "irr:ts-value"}
        if abs(Fraction(o["r"][1]) - e) > Fraction(1, 10**10):
            return {"why": f"compute_ts={o['r'][1]} but the fraction of agreeing rater pairs is {e}", "cls": "irr:ts-value"}
        return None
    if c["f"] == "sim":
        if not o["ok"]:
            return {"why": f"simulate_ts_dist raised {o['err']}", "cls": "irr:sim-raises"}
        if not o["unmodified"]:
            return {"why": "simulate_ts_dist modified the ratings passed", "cls": "irr:input-modified"}
        ref = Fraction(o["ov"]) if o["ov"] is not None else exact_ts(c["m"])
        if abs(Fraction(o["obs"]) - ref) > Fraction(1, 10**10):
            return {"why": f"reference value obs_ts={o['obs']} but expected {float(ref)} (override={o['ov']})", "cls": "irr:sim-reference"}
        dist = o["dist_kept"]
        if len(dist) != c["num_perm"] or o["num_perm"] != c["num_perm"]:
            return {"why": "len(dist) != num_perm", "cls": "irr:sim-distlen"}
        # near-tie guard: values are k/(Ns R(R-1)/2): exact comparison through rounding to that grid
        geq = sum(1 for v in dist if Fraction(v) >= ref - Fraction(1, 10**9))
        if o["geq"] != geq or o["geq_kept"] != geq:
            return {"why": f"geq={o['geq']} (keep_dist=True run: {o['geq_kept']}) but #{{dist >= reference}}={geq}", "cls": "irr:sim-geq"}
        pc = 1 if c["plus1"] else 0
        want = Fraction(geq + pc, c["num_perm"] + pc)
        if abs(Fraction(o["p"]) - want) > Fraction(1, 10**10) or abs(Fraction(o["p_kept"]) - want) > Fraction(1, 10**10):
            return {"why": f"pvalue={o['p']} expected {want}", "cls": "irr:sim-pvalue"}
        if o["dist"] is not None and o["dist"] != dist:
            return {"why": "dist differs between two runs with the same seed", "cls": "irr:sim-irreproducible"}
        # every simulated matrix is a row-wise rearrangement of the ratings
        for s in o["rec"][-c["num_perm"]:]:
            if len(s) != len(c["m"]) or any(sorted(a) != sorted(b) for a, b in zip(s, c["m"])):
                return {"why": f"a simulated matrix {s} is not a within-rater rearrangement of {c['m']}", "cls": "irr:sim-not-rowperm"}
        return None
    if not o["ok"]:
        return {"why": f"simulate_npc_dist raised {o['err']}", "cls": "irr:npcdist-raises"}
    B = len(c["cols"][0]); pc = 1 if c["plus1"] else 0
    ps = [Fraction(sum(1 for v in col if v >= ob) + pc, B + pc) for col, ob in zip(c["cols"], c["obs"])]
    want = -sum(float(p) / math.sqrt(s) for p, s in zip(ps, c["size"]))
    if abs(o["obs_npc"] - want) > 1e-9 or o["num_perm"] != B:
        return {"why": f"obs_npc={o['obs_npc']} expected {want}", "cls": "irr:npcdist-formula"}
    if not o.get("size_unmodified", True):
        return {"why": f"simulate_npc_dist modified the array of stratum sizes passed by the caller ({c['size']})", "cls": "irr:input-modified"}
    ag = o.get("again")
    if ag is not None and (ag[0] != "ok" or ag[1] != o["obs_npc"] or ag[2] != o["pvalue"]):
        return {"why": f"simulate_npc_dist called twice with the same arguments returned (obs_npc, p) = ({o['obs_npc']}, {o['pvalue']}) and then {ag}", "cls": "irr:npcdist-formula"}
    vp = o.get("via_pvalues")
    if vp is not None and (vp[0] != "ok" or abs(vp[1] - want) > 1e-9 or abs(vp[2] - o["pvalue"]) > 1e-12):
        return {"why": f"simulate_npc_dist with the per-stratum p-values supplied gives {vp}, with the observed statistics obs_npc={o['obs_npc']}, p={o['pvalue']}", "cls": "irr:npcdist-formula"}
    if "neither" in o and o["neither"] != ["exc", "ValueError"]:
        return {"why": f"simulate_npc_dist without obs_ts and without pvalues did not raise ValueError: {o['neither']}", "cls": "irr:npcdist-guard"}
    return None


def dq(v):
    """decode a float that is a correctly rounded small-denominator rational (k/(Ns R (R-1)), k/(B+1))"""
    return cq(Fraction(v).limit_denominator(10**6))


def mat(m):
    return clist(m, lambda r: clist(r))


def to_coq(c, o):
    if c["f"] == "ts":
        if o["r"][0] != "ok" or not math.isfinite(o["r"][1]) or c.get("big"):
            return None
        return f"TsCase {mat(c['m'])} {cq(Fraction(o['r'][1]))}"
    if c["f"] == "sim":
        if not o["ok"] or c.get("big"):
            return None
        n = c["num_perm"]
        expected_calls = n + (1 if o["ov"] is None else 0)
        if len(o["rec"]) != expected_calls:
            return None
        sims = o["rec"][-n:]
        dist = copt(o["dist"], lambda d: clist(d, dq))
        return (f"SimCase {mat(c['m'])} {copt(o['ov'], dq)} {clist(sims, mat)} {cbool(c['plus1'])} "
                f"{dq(o['obs'])} {cnat(o['geq'])} {dq(o['p'])} {dist}")
    if not o["ok"]:
        return None
    cols = clist(c["cols"], lambda col: clist(col, lambda v: cq(Fraction(v))))
    rsq = clist(c["size"], lambda s: cq(Fraction(1, math.isqrt(s))))
    return f"NpcDistCase {cols} {clist(c['obs'], lambda v: cq(Fraction(v)))} {cbool(c['plus1'])} {rsq} {cq(Fraction(o['obs_npc']))}"


def nontrivial(c, o):
    if c["f"] == "npcdist":
        return len(set(map(tuple, c["cols"]))) > 1
    m = c["m"]
    cols = list(zip(*m))
    return any(len(set(col)) > 1 for col in cols) and any(len(set(col)) == 1 for col in cols) or (c["f"] == "sim" and any(len(set(col)) > 1 for col in cols))


def key(c):
    return json.dumps(c, sort_keys=True)


def generated(tier):
    """source-derived obligations (G4 formulas): regenerated from /repo's current source text on every run"""
    from ..translate.tables import obligations
    return obligations("C18")


# ---- failure paths (round 12): every third case is preceded by calls that the library rejects, or that fail inside a user
# callable; they raise on the unchanged tree and must leave nothing behind (common.fail_first) ----

def failing_calls(c):
    k = c["ff"] % 4
    big = np.array([[1, 0, 1, 1, 0, 1, 0, 0, 1, 1, 0, 1]] * 3 + [[0, 1, 1, 0, 0, 1, 1, 0, 1, 0, 0, 1]] * 4)      # 7 x 12
    class Dying(np.random.RandomState):
        n_ = 0
        def _tick(self):
            Dying.n_ += 1
            if Dying.n_ > 5:
                Dying.n_ = 0; raise Abort()
        def random(self, *a, **kw): self._tick(); return np.random.RandomState.random_sample(self, *a, **kw)
        def random_sample(self, *a, **kw): self._tick(); return np.random.RandomState.random_sample(self, *a, **kw)
        def shuffle(self, *a, **kw): self._tick(); return np.random.RandomState.shuffle(self, *a, **kw)
        def permutation(self, *a, **kw): self._tick(); return np.random.RandomState.permutation(self, *a, **kw)
        def randint(self, *a, **kw): self._tick(); return np.random.RandomState.randint(self, *a, **kw)
    return [[("simulate_ts_dist, num_perm given as a float", lambda: irr.simulate_ts_dist(big, num_perm=1e2, keep_dist=True, seed=5)),
             ("simulate_ts_dist, num_perm given as a string", lambda: irr.simulate_ts_dist(big, num_perm="100", seed=5)),
             ("simulate_ts_dist, generator fails in the loop", lambda: irr.simulate_ts_dist(big, num_perm=50, seed=Dying(3))),
             ("simulate_ts_dist, generator fails in the loop (keep_dist)", lambda: irr.simulate_ts_dist(big, num_perm=50, keep_dist=True, seed=Dying(3)))][k],
            ("compute_ts on a 1-d array", lambda: irr.compute_ts(np.array([1, 0, 1])))]


def cases(tier, rng, dist):
    return mark_ff(_cases(tier, rng, dist))


_REC = []
irr = RecordingModule(irr, _REC, ["compute_ts", "simulate_ts_dist", "simulate_npc_dist"])


def run(c):
    ff = fail_first(failing_calls(c)) if "ff" in c else None
    o = _run(c)
    if ff is not None and isinstance(o, dict):
        o["ff"] = ff
    if isinstance(o, dict):
        o["retained_changed"] = retained_changed(_REC)
    return o


_oracle_before_retention = oracle


def oracle(c, o):
    if isinstance(o, dict) and o.get("retained_changed"):
        return {"why": "results kept by the caller changed when later calls were made: " + o["retained_changed"], "cls": "irr:result-aliased"}
    return _oracle_before_retention(c, o)
