"""C19: permute_incidence_fixed_sums makes margin-preserving checkerboard swaps only."""
import itertools, json, math, random
from fractions import Fraction
import numpy as np
from ..common import *
from ..tape import Tape, lazy
from permute.utils import permute_incidence_fixed_sums as pifs

COQ_HEADER = """From PV Require Import Lib.Base Model.Prng Model.Incidence Corr.C19.
Open Scope Z_scope."""
RULE = ("all binary matrices of shapes 2x2, 2x3, 3x2 (quick) and 3x3, 2x4 (thorough) that admit a checkerboard swap x k in 0..3 x "
        "random answer scripts (constant scripts can select a non-swappable row pair forever), random matrices up to 5x5, dtypes int64/uint8/bool/float64 and both memory layouts; "
        "validation inputs (non-2D, values outside {0,1} incl. min 0/max 1 with 0.5, all-zero, all-one); real seeds twice under "
        "different global states; non-trivial = k>=1 and more than one reachable matrix; distinct by full input")
EXHAUSTIVE = {"quick": ["binary 2x2, 2x3, 3x2 with a swappable pair, k<=3"], "thorough": ["binary 2x2, 2x3, 3x2, 3x3, 2x4 with a swappable pair, k<=3"]}
ASSUMPTIONS = ["cryptorandom.random_sample(rows, 2) = first two picks of sample_by_index; Random.choice = one bounded draw"]


def swappable(m):
    R, C = len(m), len(m[0])
    for a in range(R):
        for b in range(R):
            if a != b and any(m[a][c] == 1 and m[b][c] == 0 for c in range(C)) and any(m[a][c] == 0 and m[b][c] == 1 for c in range(C)):
                return True
    return False


def neighbours(m):
    R, C = len(m), len(m[0]); out = set()
    for a in range(R):
        for b in range(R):
            if a == b: continue
            for p in range(C):
                for q in range(C):
                    if p != q and m[a][p] == 1 and m[a][q] == 0 and m[b][p] == 0 and m[b][q] == 1:
                        n = [list(r) for r in m]; n[a][p] = 0; n[a][q] = 1; n[b][p] = 1; n[b][q] = 0
                        out.add(tuple(tuple(r) for r in n))
    return out


def reach_exact(m, k):
    cur = {tuple(tuple(r) for r in m)}
    for _ in range(k):
        nxt = set()
        for x in cur: nxt |= neighbours(x)
        cur = nxt
    return cur


def _cases(tier, rng, dist):
    shapes = [(2, 2), (2, 3), (3, 2)] + ([(3, 3), (2, 4)] if tier == "thorough" else [])
    for (R, C) in shapes:
        for cells in itertools.product((0, 1), repeat=R * C):
            m = [list(cells[i * C:(i + 1) * C]) for i in range(R)]
            if not swappable(m): continue
            for k in range(0, 4):
                if tier == "quick" and (R, C) != (2, 2) and (sum(cells) + k) % 2: continue
                yield {"m": m, "k": k, "dtype": ["int64", "uint8", "bool", "float64"][(sum(cells) + k) % 4], "order": "C" if k % 2 else "F",
                       "mode": "random", "aseed": sum(cells) * 31 + k}
    for _ in range(150 if tier == "quick" else 1500):
        R, C = rng.randint(2, 5), rng.randint(2, 5)
        m = [[rng.randint(0, 1) for _ in range(C)] for _ in range(R)]
        if not swappable(m): continue
        yield {"m": m, "k": rng.randint(0, 4), "dtype": rng.choice(["int64", "uint8", "bool", "float64", "int8"]), "order": rng.choice("CF"),
               "mode": "random", "aseed": rng.randint(0, 10**9)}
    # many swaps on larger matrices (the model follows every one of them on the logged answers)
    for R, C, k in ((12, 12, 300), (40, 5, 150), (4, 70, 200)) if tier == "quick" else ((12, 12, 300), (40, 5, 150), (4, 70, 200), (20, 20, 1000), (64, 3, 257)):
        m = [[rng.randint(0, 1) for _ in range(C)] for _ in range(R)]
        if swappable(m):
            yield {"m": m, "k": k, "dtype": rng.choice(["int64", "uint8", "bool"]), "order": rng.choice("CF"), "mode": "random", "aseed": rng.randint(0, 10**9)}
    # wide matrices whose numbers of discordant columns are 255, 256, 257, 512 (beyond the range of 8-bit counters)
    for a, b, c2 in ((256, 3, 2), (255, 4, 1), (257, 1, 0), (512, 2, 3), (256, 256, 5)):
        m = [[1] * a + [0] * b + [1] * c2, [0] * a + [1] * b + [1] * c2]
        for k in (0, 1, 2):
            yield {"m": m, "k": k, "dtype": ["int64", "uint8", "bool"][k], "order": "C", "mode": "random", "aseed": rng.randint(0, 10**9)}
    for bad in ([[0, 1, 0.5], [1, 0, 0]], [[1, 2], [3, 4]], [[0, 0], [0, 0]], [[1, 1], [1, 1]], [[0, 1, -1], [1, 0, 1]], [[0, 1, 2], [1, 0, 0]], [[0.25, 1], [1, 0]]):
        yield {"m": bad, "k": 1, "bad": "values"}
    for nd in ([0, 1, 1, 0], [[[0, 1], [1, 0]]]):
        yield {"m": nd, "k": 1, "bad": "ndim"}
    # few swappable row pairs among many rows: the retry loop needs hundreds or thousands of attempts
    for s in range(4 if tier == "quick" else 20):
        R = rng.randint(40, 80)
        m = [[rng.randint(0, 1)] * 2 for _ in range(R)]
        i, j = rng.sample(range(R), 2); m[i] = [1, 0]; m[j] = [0, 1]
        yield {"m": m, "k": rng.choice([1, 1, 2, 3]), "real_seed": real_seed(rng), "rare": [i, j]}
    for s in range(8 if tier == "quick" else 60):
        R, C = rng.randint(2, 4), rng.randint(2, 4)
        m = [[rng.randint(0, 1) for _ in range(C)] for _ in range(R)]
        if swappable(m):
            yield {"m": m, "k": rng.randint(1, 5), "real_seed": real_seed(rng)}


def _run(c):
    if "bad" in c:
        a = np.array(c["m"])
        return {"r": list(guarded(lambda: pifs(a, k=c["k"], seed=5).tolist(), secs=10))}
    if "real_seed" in c:
        a = np.array(c["m"]); outs = []; same = []
        for gs, mk in ((1, lambda: c["real_seed"]), (2, lambda: c["real_seed"]), (3, lambda: np.random.RandomState(seed_int(c["real_seed"]))), (4, lambda: np.random.RandomState(seed_int(c["real_seed"])))):
            np.random.seed(gs); g0 = np.random.get_state()[1].tobytes()
            r = guarded(lambda: pifs(a, k=c["k"], seed=mk()).tolist(), secs=60)
            same.append(g0 == np.random.get_state()[1].tobytes()); outs.append(list(r))
        return {"outs": outs, "global_same": same}
    a = np.array(c["m"], dtype=c["dtype"], order=c["order"]); a0 = a.copy()
    t = Tape(None, lazy(random.Random(c["aseed"]), c["mode"]))
    g0 = np.random.get_state()[1].tobytes()
    # the swap count as the caller holds it: a Python int, a NumPy integer scalar, or a writable 0-d integer array
    kform = (c["k"] + len(c["m"]) + len(c["m"][0]) + c["aseed"]) % 3
    kobj = [int, np.int64, lambda v: np.array(v)][kform](c["k"])
    r = guarded(lambda: pifs(a, k=kobj, seed=t), secs=20)
    out = {"r": [r[0], np.array(r[1]).astype(int).tolist(), str(np.array(r[1]).dtype), r[1] is a] if r[0] == "ok" else list(r),
           "log": list(t.log), "unmodified": bool((a == a0).all()), "global_same": g0 == np.random.get_state()[1].tobytes(),
           "k_after": int(kobj), "kform": kform}
    if r[0] == "ok" and kform == 2:
        # a second call with the SAME count object: it performs the same number of swaps (the answers of the first call are replayed)
        t2 = Tape([z for (_, z) in t.log])
        r2 = guarded(lambda: pifs(a, k=kobj, seed=t2), secs=20)
        out["again"] = [r2[0], np.array(r2[1]).astype(int).tolist()] if r2[0] == "ok" else list(r2)[:2]
    return out


def oracle(c, o):
    if "bad" in c:
        r = o["r"]
        return None if (r[0] == "exc" and r[1] == "ValueError") else {"why": f"invalid input {c['m']} ({c['bad']}) not rejected with ValueError: {r[:2]}", "cls": f"pifs:validation:{c['bad']}"}
    if "real_seed" in c:
        outs = o["outs"]
        if any(x[0] != "ok" for x in outs):
            _v = emit({"why": f"raised with a real seed: {outs}", "cls": "pifs:raises"})
            if _v: return _v
        if outs[0] != outs[1]:
            _v = emit({"why": f"two calls with seed={c['real_seed']} under different numpy global states differ", "cls": "pifs:irreproducible"})
            if _v: return _v
        if outs[2] != outs[3]:
            _v = emit({"why": "two RandomState generators in the same state give different results", "cls": "pifs:randomstate-replay"})
            if _v: return _v
        if not all(o["global_same"]):
            _v = emit({"why": "a seeded call advanced numpy's global random state", "cls": "pifs:global-rng"})
            if _v: return _v
        if "rare" in c:
            # exactly one swappable pair: the result after k swaps is determined (the two rows exchanged k times)
            i, j = c["rare"]; want = [list(r_) for r_ in c["m"]]
            if c["k"] % 2:
                want[i], want[j] = want[j], want[i]
            for x in (outs[0], outs[2]):
                if x[1] != want:
                    diff = sum(1 for a_, b_ in zip(sum(x[1], []), sum(c["m"], [])) if a_ != b_)
                    _v = emit({"why": f"{len(c['m'])}x2 matrix whose only swappable rows are {i} and {j}, k={c['k']}: {diff} cells differ from the input, exactly {4 * (c['k'] % 2)} must (result is not the input after exactly k swaps)", "cls": "pifs:not-k-swaps"})
                    if _v: return _v
        return None
    r = o["r"]
    if r[0] != "ok":
        _v = emit({"why": f"raised {r} on a swappable binary matrix {c['m']}", "cls": "pifs:raises"})
        if _v: return _v
    if not o["unmodified"]:
        _v = emit({"why": f"the input matrix (dtype {c['dtype']}) was modified", "cls": "pifs:input-modified"})
        if _v: return _v
    if o.get("k_after", c["k"]) != c["k"]:
        _v = emit({"why": f"permute_incidence_fixed_sums changed the caller's swap count object k={c['k']} (a 0-d array) to {o['k_after']}: a second call with it performs another number of swaps", "cls": "pifs:input-modified"})
        if _v: return _v
    if "again" in o and (o["again"][0] != "ok" or o["again"][1] != r[1]):
        _v = emit({"why": f"a second call with the same matrix, the same k object ({c['k']}) and the same answers returned {o['again'][1]}, the first {r[1]}", "cls": "pifs:k-swaps"})
        if _v: return _v
    if r[3]:
        _v = emit({"why": "the input object itself was returned", "cls": "pifs:input-modified"})
        if _v: return _v
    if not o["global_same"]:
        _v = emit({"why": "a call with an explicit generator advanced numpy's global random state", "cls": "pifs:global-rng"})
        if _v: return _v
    m, out, k = c["m"], r[1], c["k"]
    if len(out) != len(m) or any(len(a) != len(b) for a, b in zip(out, m)) or any(v not in (0, 1) for row in out for v in row):
        _v = emit({"why": f"result {out} is not a binary matrix of the input's shape", "cls": "pifs:shape"})
        if _v: return _v
    if [sum(r_) for r_ in out] != [sum(r_) for r_ in m] or [sum(col) for col in zip(*out)] != [sum(col) for col in zip(*m)]:
        _v = emit({"why": f"margins changed: {m} -> {out}", "cls": "pifs:margins"})
        if _v: return _v
    if k == 0 and out != m:
        _v = emit({"why": "k=0 did not return an equal copy", "cls": "pifs:k0"})
        if _v: return _v
    ham = sum(1 for a, b in zip(sum(m, []), sum(out, [])) if a != b)
    if ham > 4 * k:
        _v = emit({"why": f"{ham} cells differ after k={k} swaps", "cls": "pifs:hamming"})
        if _v: return _v
    if len(m) * len(m[0]) <= 12 and k <= 3 and tuple(tuple(x) for x in out) not in reach_exact(m, k):
        _v = emit({"why": f"{out} is not reachable from {m} by exactly {k} checkerboard swaps", "cls": "pifs:not-k-swaps"})
        if _v: return _v
    return None


def to_coq(c, o):
    mat = lambda m: clist(m, lambda r: clist(r))
    if "bad" in c:
        if c["bad"] == "ndim":
            return f"PCase [] false {cnat(c['k'])} [] (Err ValueError) 0%nat"
        if any(isinstance(v, float) and not float(v).is_integer() for r in c["m"] for v in r):
            return None
        r = o["r"]
        return f"PCase {mat(c['m'])} true {cnat(c['k'])} [0%nat;0%nat;0%nat;0%nat;0%nat;0%nat] {cres(r, mat)} 0%nat"
    if "real_seed" in c or o["r"][0] != "ok":
        return None
    return f"PCase {mat(c['m'])} true {cnat(c['k'])} {clist([a for (_, a) in o['log']], cnat)} (Ok {mat(o['r'][1])}) {cnat(len(o['log']))}"


def nontrivial(c, o):
    if "bad" in c or "real_seed" in c or c["k"] < 1:
        return False
    return len(reach_exact(c["m"], 1)) > 1 if len(c["m"]) * len(c["m"][0]) <= 12 else True


def key(c):
    return json.dumps(c, sort_keys=True)


# ---- failure paths (round 12): every third case is preceded by calls that the library rejects, or that fail inside a user
# callable; they raise on the unchanged tree and must leave nothing behind (common.fail_first) ----

def failing_calls(c):
    k = c["ff"] % 3
    # six rows, only rows 0 and 1 can be swapped (14 of the 15 row pairs are dead): the generator fails in the middle of the search
    m6 = np.array([[1, 0, 0], [0, 1, 0], [1, 1, 1], [0, 0, 0], [1, 1, 1], [0, 0, 0]])
    m4 = np.array([[1, 1, 1, 1], [0, 0, 0, 0], [1, 0, 1, 0], [0, 1, 0, 1]])
    return [("generator fails during the search for a swappable pair", lambda: pifs([m6, m4, m6[::-1].copy()][k], k=3, seed=dying_sha(11 + c["ff"], 2 + c["ff"] % 5))),
            [("non-binary matrix", lambda: pifs(np.array([[0, 2], [1, 0]]), k=1, seed=3)), ("1-d input", lambda: pifs(np.array([0, 1, 1]), k=1, seed=3)),
             ("negative k", lambda: pifs(np.array([[0, 1], [1, 0]]), k=-1, seed="x"))][k]]


def cases(tier, rng, dist):
    return mark_ff(_cases(tier, rng, dist))


_REC = []
pifs = recording(pifs, _REC)


def run(c):
    ff = fail_first(failing_calls(c)) if "ff" in c else None
    o = _run(c)
    if ff is not None and isinstance(o, dict):
        o["ff"] = ff
    if isinstance(o, dict):
        o["retained_changed"] = retained_changed(_REC)
    return o


_oracle_before_retention = oracle


def oracle(c, o):
    if isinstance(o, dict) and o.get("retained_changed"):
        return {"why": "results kept by the caller changed when later calls were made: " + o["retained_changed"], "cls": "pifs:result-aliased"}
    return _oracle_before_retention(c, o)
