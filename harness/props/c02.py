"""C02: stratified tests estimate the exact within-stratum permutation value."""
from .. import strat_runs as SR
from ..strat_runs import COQ_HEADER, run, to_coq, extra_terms, nontrivial, key, cases, SKIPPED

RULE = ("scripted-tape runs of permute_within_groups, permute_rows chains, stratified_permutationtest (recording callable on the "
        "permuted conditions), stratified_two_sample ('mean' and recording callables, keep_dist twins), bivariate_k_sample "
        "('two-way anova', exact), sim_corr (arrangement identified through 4^i values), stratified_permutationtest_mean; 1..4 strata of "
        "sizes 1..4 incl. singletons, unbalanced conditions, ties, several binary scales; named float statistics ('t', "
        "'mean_within_strata', NaN responders, concordance) on real seeds; non-trivial = more than one stratum and non-constant data; "
        "distinct by full input")
ASSUMPTIONS = ["condition.argsort() is an oracle input of the model (checked to sort in Coq)", "np.unique returns sorted labels",
               "named float statistics are black boxes: the p-value assembly is checked on the returned dist with exact comparisons"]


def oracle(c, o):
    return SR.oracle(c, o)


def generated(tier):
    """source-derived obligations (G4 formulas): regenerated from /repo's current source text on every run"""
    from ..translate.tables import obligations
    return obligations("C02")
