"""C11: adjust_p = textbook Bonferroni / Holm / Benjamini-Hochberg."""
import itertools, json, math
from fractions import Fraction
import numpy as np
from ..common import *
from permute.npc import adjust_p

COQ_HEADER = """From PV Require Import Lib.Base Model.Adjust Corr.C11.
Open Scope Q_scope."""
RULE = ("all vectors over the grid {0,1/8,1/4,1/2,1} with n<=4 (quick; thorough: grid {0,1/16,1/8,1/4,1/2,1}, n<=5) x 3 methods, "
        "random vectors n<=40 of permutation p-values k/(reps+1) with heavy ties, unknown method names; each case also run on a "
        "random relabelling; non-trivial = at least one tie block and at least one value capped at 1 or a strict running max/min; "
        "distinct by (method, vector)")
EXHAUSTIVE = {"quick": ["grid {0,1/8,1/4,1/2,1}, n<=4, 3 methods"], "thorough": ["grid {0,1/16,1/8,1/4,1/2,1}, n<=5, 3 methods"]}
ASSUMPTIONS = ["np.argsort returns some sorting permutation (checked per case in Coq: is_sorting_perm); no tie order is assumed",
               "float results compared with exact Q at 1e-12"]
METHODS = {"holm-bonferroni": "Holm", "bonferroni": "Bonferroni", "benjamini-hochberg": "BH"}


def _cases(tier, rng, dist):
    grid = [Fraction(0), Fraction(1, 8), Fraction(1, 4), Fraction(1, 2), Fraction(1)]
    nmax = 4
    if tier == "thorough":
        grid = [Fraction(0), Fraction(1, 16), Fraction(1, 8), Fraction(1, 4), Fraction(1, 2), Fraction(1)]; nmax = 5
    for n in range(1, nmax + 1):
        for v in itertools.product(grid, repeat=n):
            for m in METHODS:
                yield {"p": [str(x) for x in v], "m": m, "perm_seed": n + len(m)}
    for _ in range(400 if tier == "quick" else 4000):
        n = rng.randint(1, 40); reps = rng.choice([7, 9, 19, 99, 999])
        pool = [Fraction(rng.randint(1, reps + 1), reps + 1) for _ in range(rng.randint(1, max(1, n // 2)))]
        v = [rng.choice(pool) if rng.random() < 0.7 else Fraction(rng.randint(0, reps + 1), reps + 1) for _ in range(n)]
        if rng.random() < 0.2:
            v.sort(reverse=rng.random() < 0.5)
        yield {"p": [str(x) for x in v], "m": rng.choice(list(METHODS)), "perm_seed": rng.randint(0, 10**6)}
    # long vectors (hundreds, tens of thousands of hypotheses, heavy ties): the values are still the textbook ones
    from .. import sizes
    bign = [300, 1025, 70001] if tier == "quick" else [300, 1025, 4099, 70001, 140001]
    bign += sizes.extra_sizes(["npc"], bign, cap=400000, lo=16)[:4]                # just beyond every integer constant of the source
    for n in bign:
        for m in METHODS:
            yield {"big": True, "n": n, "m": m, "seed": rng.randint(0, 10**6), "p": [], "perm_seed": 0}
    # unknown method names are rejected whatever the vector: one p-value, many, tied, sorted, all ones, zeros
    for name in ["nonsense", "holm", "Bonferroni", "bh", "", "holm-bonferroni ", "benjamini hochberg", "BONFERRONI", "b", "none"]:
        for v in (["1/8", "1/2"], ["1/32"], ["1"], ["0"], ["1/2", "1/2", "1/2"], ["1", "1"], ["1/8", "1/4", "1/2", "1"], [str(Fraction(k, 41)) for k in range(1, 41)]):
            yield {"p": v, "m": name, "perm_seed": len(name) + len(v)}


def textbook(p, m):
    n = len(p)
    idx = sorted(range(n), key=lambda i: p[i])
    sp = [p[i] for i in idx]
    if m == "bonferroni":
        return [min(Fraction(1), n * x) for x in p]
    out = [None] * n
    if m == "holm-bonferroni":
        for i in range(n):
            out[idx[i]] = max(min(Fraction(1), (n - j) * sp[j]) for j in range(0, i + 1))
    else:
        for i in range(n):
            out[idx[i]] = min(min(Fraction(1), n * sp[j] / (j + 1)) for j in range(i, n))
    return out


def big_vector(c):
    rs = np.random.RandomState(c["seed"])
    return rs.randint(0, 1001, size=c["n"]) / 1000.0          # permutation p-values k/1000 with many ties


def textbook_big(p, m):
    n = len(p); order = np.argsort(p, kind="stable"); sp = p[order]
    if m == "bonferroni":
        return np.minimum(1.0, n * p)
    out = np.empty(n)
    if m == "holm-bonferroni":
        out[order] = np.maximum.accumulate(np.minimum(1.0, (n - np.arange(n)) * sp))
    else:
        out[order] = np.minimum.accumulate(np.minimum(1.0, n * sp / (np.arange(n) + 1.0))[::-1])[::-1]
    return out


def _run(c):
    if c.get("big"):
        a = big_vector(c); a0 = a.copy()
        r = guarded(lambda: np.asarray(adjust_p(a, c["m"]), dtype=float), secs=120)
        if r[0] != "ok":
            return {"r": list(r)[:3], "unmodified": bool((a == a0).all())}
        want = textbook_big(a0, c["m"])
        bad = np.nonzero(~(np.abs(r[1] - want) <= 1e-9))[0] if r[1].shape == want.shape else np.array([0])
        return {"r": ["ok", int(len(bad))] + ([int(bad[0]), float(a0[bad[0]]), float(r[1][bad[0]]) if r[1].shape == want.shape else None, float(want[bad[0]])] if len(bad) else []),
                "unmodified": bool((a == a0).all()), "shape": list(r[1].shape)}
    p = [Fraction(x) for x in c["p"]]
    a = interned(np.array([float(x) for x in p]))
    a0 = a.copy()
    # the form in which the caller holds the p-values: contiguous array, every second element of a buffer, Python list
    form = (len(p) + sum(x.numerator for x in p)) % 4
    if form == 1 and len(p) > 0:
        buf = np.zeros(2 * len(p)); buf[::2] = a0; arg = buf[::2]
    elif form == 2:
        arg = [float(x) for x in p]
    else:
        arg = a
    res = guarded(lambda: adjust_p(arg, c["m"]))
    aliased = res[0] == "ok" and isinstance(res[1], np.ndarray) and isinstance(arg, np.ndarray) and res[1].size > 0 and np.shares_memory(res[1], arg)
    r = (res[0], [float(v) for v in res[1]]) if res[0] == "ok" else res
    unmod = bool((a == a0).all()) and [float(v) for v in arg] == [float(v) for v in a0]
    rs = np.random.RandomState(c["perm_seed"])
    perm = rs.permutation(len(p))
    r2 = guarded(lambda: [float(v) for v in adjust_p(a0[perm].copy(), c["m"])])
    # the sorting permutation numpy would use (oracle input of the model)
    ord_ = [int(i) for i in np.argsort(a0)]
    return {"r": list(r), "aliased": bool(aliased), "unmodified": unmod, "perm": [int(i) for i in perm], "r_perm": list(r2), "ord": ord_}


def oracle(c, o):
    if c.get("big"):
        r = o["r"]
        if r[0] != "ok":
            return {"why": f"adjust_p raised on {c['n']} p-values: {r}", "cls": "adjust_p:raises"}
        if not o["unmodified"]:
            return {"why": "adjust_p modified its input", "cls": "adjust_p:input-modified"}
        if r[1]:
            return {"why": f"{c['m']} on {c['n']} p-values k/1000 (RandomState({c['seed']}).randint(0, 1001, {c['n']})/1000): {r[1]} entries differ from the textbook values, e.g. index {r[2]}: p={r[3]}, returned {r[4]}, textbook {r[5]}", "cls": "adjust_p:value"}
        return None
    p = [Fraction(x) for x in c["p"]]
    r = o["r"]
    if c["m"] not in METHODS:
        if r[0] != "exc" or r[1] != "ValueError":
            return {"why": f"unknown method {c['m']!r} did not raise ValueError: {r}", "cls": "adjust_p:unknown-method"}
        return None
    if r[0] != "ok":
        return {"why": f"adjust_p raised {r}", "cls": "adjust_p:raises"}
    if not o["unmodified"]:
        return {"why": "adjust_p modified its input", "cls": "adjust_p:input-modified"}
    if o.get("aliased"):
        return {"why": f"adjust_p({c['p']}, {c['m']!r}) returned an array that shares memory with its input: editing the adjusted values edits the caller's p-values", "cls": "adjust_p:input-modified"}
    want = textbook(p, c["m"])
    got = r[1]
    if len(got) != len(want) or any(abs(Fraction(g) - w) > Fraction(1, 10**10) for g, w in zip(got, want)):
        return {"why": f"{c['m']} on {c['p']}: returned {got}, textbook {[float(w) for w in want]}", "cls": f"adjust_p:{c['m']}:value"}
    if o["r_perm"][0] != "ok" or any(abs(o["r_perm"][1][k] - got[o["perm"][k]]) > 1e-10 for k in range(len(got))):
        return {"why": f"relabelling the hypotheses does not permute the output: {o['r_perm']} vs {got} under {o['perm']}", "cls": "adjust_p:relabel"}
    return None


def to_coq(c, o):
    if c.get("big"):
        return None
    p = [Fraction(x) for x in c["p"]]
    m = METHODS.get(c["m"], "Unknown")
    r = o["r"]
    impl = cres(("ok", [Fraction(v) for v in r[1]]) if r[0] == "ok" else r, lambda l: clist(l, cq))
    return f"Case {clist(p, cq)} {clist(o['ord'], cnat)} {m} {impl}"


def nontrivial(c, o):
    if c.get("big"):
        return o["r"][0] == "ok"
    p = [Fraction(x) for x in c["p"]]
    return c["m"] in METHODS and len(set(p)) < len(p) and len(set(p)) > 1


def key(c):
    return c["m"] + "|" + ",".join(c["p"])


def generated(tier):
    """source-derived obligations (G4 formulas): regenerated from /repo's current source text on every run"""
    from ..translate.tables import obligations
    return obligations("C11")


# ---- failure paths (round 12): every third case is preceded by calls that the library rejects, or that fail inside a user
# callable; they raise on the unchanged tree and must leave nothing behind (common.fail_first) ----

def failing_calls(c):
    if c.get("big"):
        return [("adjust_p(unknown method)", lambda: adjust_p(np.array([0.01, 0.04, 0.03]), "no-such-method"))]
    a = interned(np.array([float(Fraction(x)) for x in c["p"]]))
    return [("adjust_p(unknown method)", lambda: adjust_p(a, ["nonsense", "Holm", "bh", None][c["ff"] % 4])),
            ("adjust_p(unknown method, list)", lambda: adjust_p([0.5, 0.01, 0.2], "hommel"))]


def cases(tier, rng, dist):
    return mark_ff(_cases(tier, rng, dist))


_REC = []
adjust_p = recording(adjust_p, _REC)


def run(c):
    ff = fail_first(failing_calls(c)) if "ff" in c else None
    o = _run(c)
    if ff is not None and isinstance(o, dict):
        o["ff"] = ff
    if isinstance(o, dict):
        o["retained_changed"] = retained_changed(_REC)
    return o


_oracle_before_retention = oracle


def oracle(c, o):
    if isinstance(o, dict) and o.get("retained_changed"):
        return {"why": "results kept by the caller changed when later calls were made: " + o["retained_changed"], "cls": "adjust_p:result-aliased"}
    return _oracle_before_retention(c, o)
