"""C07: NPC global p-value is an exact rank p-value (never zero, exactly valid)."""
import itertools, json, math
from fractions import Fraction
import numpy as np
from ..common import *
from ..npc_common import *
from permute import npc as NPC

COQ_HEADER = """From PV Require Import Lib.Base Model.Npc Corr.C07.
Open Scope Q_scope."""
RULE = ("npc on matrices B<=10, n<=4 (and 20% with 5..16 partial tests, B<=30; Liptak p-values up to 1-2^-30) over alphabets of 1..4 values (ties), every row rotated into the observed position with "
        "pvalues=(count+1)/(reps+1) as sim_npc forms them, plus arbitrary pvalues k/8, all combiners (fisher, liptak, tippett, "
        "valid/invalid callables), plus1 in {T,F}, int and float dtypes; sim_npc driven by a scripted Randomizer with "
        "table-lookup test functions (NumPy and Python numbers); non-trivial = matrix with a tie in some column and global p "
        "strictly between its bounds; distinct by full input; cases whose exact combined statistics tie between different "
        "vectors are skipped for the model comparison (float non-associativity) and counted")
ASSUMPTIONS = ["np.log and norm.ppf are increasing; Liptak quantiles enter the model as a table of SciPy's values",
               "rankdata(method='min') = 1 + number of strictly smaller entries"]
SKIPPED = [0]


def cases(tier, rng, dist):
    N = 500 if tier == "quick" else 5000
    for _ in range(N):
        B, n = rng.randint(1, 10), rng.randint(2, 4)
        spec = rng.choice(COMBS)
        if rng.random() < 0.2:
            # many partial tests: summation order inside the combining functions starts to matter
            B, n = rng.randint(2, 30), rng.choice([5, 8, 9, 12, 16]); spec = rng.choice(["liptak", "liptak", "fisher", "tippett"])
        m = gen_matrix(rng, B, n, rng.randint(0, 3) if n <= 4 else rng.choice([3, B, 3 * B]))
        mode = rng.random()
        if n > 4:
            mode = 0.0      # the observed statistics are a row of the matrix (sim_npc's construction)
        if mode < 0.5:   # observed row is a row of the matrix (rotation argument)
            i0 = rng.randrange(B)
            yield {"f": "npc", "distr": [[str(v) for v in r] for r in m], "obs_row": i0, "p": None, "comb": spec,
                   "plus1": False if rng.random() < 0.7 else True, "dtype": rng.choice(["float", "int", "uint8", "uint64"])}
        else:
            p = [str(Fraction(rng.randint(1, 8), 8)) for _ in range(n)]
            if spec == "liptak":
                p = [str(rng.choice([Fraction(rng.randint(1, 7), 8), 1 - Fraction(1, 2**rng.choice([10, 20, 30])), Fraction(9999, 10000)])) for _ in range(n)]
            yield {"f": "npc", "distr": [[str(v) for v in r] for r in m], "obs_row": None, "p": p, "comb": spec,
                   "plus1": rng.random() < 0.5, "dtype": rng.choice(["float", "int", "uint8", "uint64"])}
    for _ in range(N // 2):
        reps, n = rng.randint(1, 8), rng.randint(2, 3)
        t = gen_matrix(rng, reps + 1, n, rng.randint(0, 3))
        intobs = rng.random() < 0.35
        if intobs:
            # the statistics of the data as given happen to be whole numbers (returned as Python ints), those of the
            # re-allocations are halves: the matrix of statistics must not take its type from the observed row
            t = [t[0]] + [[v + Fraction(rng.choice([0, 1, 1]), 2) for v in r] for r in t[1:]]
        mta = None
        if rng.random() < 0.3:
            # the test array built by the library's own make_test_array(func, indices), with an index list in any order and with
            # REPEATED indices (two tests of the same response column): position j of the call is func(data, indices[j])
            mta = [rng.randrange(n) for _ in range(n)]
            t = [[row[mta[j]] for j in range(n)] for row in t]
        yield {"f": "sim", "mta": mta, "intobs": intobs, "table": [[str(v) for v in r] for r in t], "comb": rng.choice(COMBS[:5] + ["logit", "logit"]),
               "pynum": rng.random() < 0.5, "in_place": rng.random() < 0.5,
               # how the user's randomizer delivers the new assignment: a fresh array bound to data.group (as randomize_group
               # does) or the existing array overwritten in place (as randomize_in_strata does)
               "rand_style": rng.choice(["rebind", "inplace", "inplace"]), "abort_first": rng.choice([None, None, 2, 3])}
    # the data in force are the Experiment's CURRENT arrays: the caller edits responses (or the strata column) in place
    # between two sim_npc calls; the second call must equal the same call on a fresh Experiment holding the edited data
    for _ in range(12 if tier == "quick" else 120):
        n = rng.randint(4, 8)
        g = [0, 1] + [rng.randrange(2) for _ in range(n - 2)]; rng.shuffle(g)
        yield {"f": "sim_edit", "g": g, "resp1": [[rng.randint(-5, 5), rng.randint(-5, 5)] for _ in range(n)],
               "resp2": [[rng.randint(-5, 5), rng.randint(-5, 5)] for _ in range(n)], "strata": [rng.randrange(2) for _ in range(n)],
               "strat": rng.random() < 0.5, "in_place": rng.random() < 0.3, "seed": rng.randint(0, 10**6), "reps": rng.randint(3, 8),
               "comb": rng.choice(["fisher", "tippett"]), "fn": rng.choice(["sim_npc", "westfall_young"])}
    # tens of thousands of permutations (beyond 2^16): every row counts (Tippett: exact through integer counts)
    for k in range(2 if tier == "quick" else 8):
        yield {"f": "npc_big", "B": 70001 + 13 * k, "n": 2 + k % 3, "seed": rng.randint(0, 10**6), "plus1": bool(k % 2), "q": [rng.randint(1, 60000) for _ in range(4)]}
    # malformed shapes
    for spec in ("fisher", "tippett"):
        yield {"f": "npc", "distr": [["1", "2"], ["0", "1"]], "obs_row": None, "p": ["1/2"], "comb": spec, "plus1": True, "dtype": "float"}
        yield {"f": "npc", "distr": [["1", "2", "3"], ["0", "1", "1"]], "obs_row": None, "p": ["1/2", "1/4"], "comb": spec, "plus1": True, "dtype": "float"}


def pvals_of(c):
    m = [[Fraction(v) for v in r] for r in c["distr"]]
    if c["obs_row"] is None:
        return m, [Fraction(x) for x in c["p"]]
    B = len(m); obs = m[c["obs_row"]]
    # sim_npc: (count among the other rows + 1)/(reps+1) with reps = B-1  == #{rows >=}/B
    return m, [Fraction(sum(1 for k in range(B) if m[k][j] >= obs[j]), B) for j in range(len(obs))]


def run_sim(c):
    t = [[Fraction(v) for v in r] for r in c["table"]]
    state = {"k": 0}
    def rand(data):
        state["k"] += 1
        if c.get("rand_style", "rebind") == "inplace" and isinstance(data.group, np.ndarray):
            data.group[:] = state["k"]
        else:
            data.group = np.array([state["k"]] * len(data.group), dtype=object)
        return data
    def mk(j):
        def f(data):
            k = int(data.group[0])
            v = float(t[k][j])
            if c.get("intobs") and v.is_integer():
                return int(v)
            return v if c["pynum"] else np.float64(v)
        return f
    R = NPC.Experiment.Randomizer(randomize=rand)
    data = NPC.Experiment(group=[0, 0, 0], response=[[1], [2], [3]], randomizer=R)
    tests = [mk(j) for j in range(len(t[0]))]
    if c.get("mta"):
        idx = list(c["mta"])
        def f(data, i):
            k = int(data.group[0]); v = float(t[k][idx.index(i)])          # (columns with the same index hold the same values)
            if c.get("intobs") and v.is_integer():
                return int(v)
            return v if c["pynum"] else np.float64(v)
        tests = NPC.Experiment.make_test_array(f, idx)
    aborted = None
    if c.get("abort_first") is not None:
        # FAILURE PATH: on the SAME Experiment, a call with in_place=False is first aborted inside its repetition loop (the first
        # test raises at its 2nd / 3rd evaluation: an ordinary exception or a non-Exception such as Ctrl-C); it worked on a copy
        # and must leave the Experiment as given for the valid call that follows
        cnt = [0]
        def bad(d):
            cnt[0] += 1
            if cnt[0] >= c["abort_first"]:
                raise (Abort() if c["abort_first"] % 2 else ValueError("test statistic failed on purpose"))
            return 0.0
        aborted = rejected(lambda: NPC.sim_npc(data, [bad] + tests[1:], combine=make_comb(c["comb"]), in_place=False, reps=len(t) + 2))
        state["k"] = 0
    r = guarded(lambda: NPC.sim_npc(data, tests, combine=make_comb(c["comb"]), in_place=c["in_place"], reps=len(t) - 1))
    if r[0] != "ok":
        return {"r": list(r), "aborted": aborted}
    p, ts, ps = r[1]
    return {"r": ["ok", float(p), [float(ps[j]) for j in range(len(t[0]))]], "ts": [float(ts[j]) for j in range(len(t[0]))],
            "group_after": [int(g) for g in data.group]}


def run_sim_edit(c):
    Ex = NPC.Experiment
    rfn = NPC.randomize_in_strata if c["strat"] else NPC.randomize_group
    tests = Ex.make_test_array(Ex.TestFunc.mean_diff, [0, 1])
    def mk(resp):
        return Ex(group=list(c["g"]), response=[list(map(float, r)) for r in resp], covariate=[[s, 7] for s in c["strata"]],
                  randomizer=Ex.Randomizer(randomize=rfn))
    def call(e):
        if c["fn"] == "sim_npc":
            r = NPC.sim_npc(e, tests, combine=c["comb"], in_place=c["in_place"], reps=c["reps"], seed=c["seed"])
            return [float(r[0]), [float(v) for v in r[1]], [float(v) for v in r[2]]]
        r = NPC.westfall_young(e, tests, in_place=c["in_place"], reps=c["reps"], seed=c["seed"])
        return [[float(v) for v in r[0]], [float(v) for v in r[1]]]
    e = mk(c["resp1"])
    r1 = guarded(lambda: call(e))
    g_after1 = [int(v) for v in e.group]
    e.response[:, :] = np.array(c["resp2"], dtype=float)          # the caller's in-place edit
    e.group = np.array(c["g"])                                    # (start the second call from the original assignment)
    r2 = guarded(lambda: call(e))
    fresh = mk(c["resp2"])
    r3 = guarded(lambda: call(fresh))
    return {"r1": list(r1), "r2": list(r2), "fresh": list(r3), "g_after1": g_after1}


def big_npc_data(c):
    B, n = c["B"], c["n"]; cc = 1 if c["plus1"] else 0
    d = np.random.RandomState(c["seed"]).randint(0, 50, size=(B, n)).astype(float)
    # observed partial p-values half-way between two attainable row p-values: no ties with any row, exact in binary64 comparisons
    p = [(2 * c["q"][j] + 1 + 4 * cc) / (2.0 * (B + cc)) for j in range(n)]
    return d, p


def run(c):
    if c["f"] == "npc_big":
        d, p = big_npc_data(c); d0 = d.copy()
        r = guarded(lambda: float(NPC.npc(np.array(p), d, "tippett", plus1=c["plus1"])), secs=180)
        B, n = d.shape; cc = 1 if c["plus1"] else 0
        ge = np.empty((B, n), dtype=np.int64)
        for j in range(n):
            srt = np.sort(d0[:, j]); ge[:, j] = B - np.searchsorted(srt, d0[:, j], side="left")
        minge = ge.min(axis=1)
        thr = min(2 * c["q"][j] + 1 + 4 * cc for j in range(n))          # (minge + 2cc)/(B+cc) <= thr / (2 (B+cc))
        hits = int(np.sum(2 * (minge + 2 * cc) <= thr))
        return {"r": list(r), "unmodified": bool((d == d0).all()), "hits": hits}
    if c["f"] == "sim":
        return run_sim(c)
    if c["f"] == "sim_edit":
        return run_sim_edit(c)
    m, p = pvals_of(c)
    dt = {"float": float, "int": np.int64, "uint8": np.uint8, "uint64": np.uint64}[c["dtype"]]
    d = interned(np.array([[float(v) for v in r] for r in m]).astype(dt))
    d0 = d.copy()
    pv = interned(np.array([float(x) for x in p]))
    pv0 = pv.copy()
    r = guarded(lambda: float(NPC.npc(pv, d, make_comb(c["comb"]), plus1=c["plus1"])))
    return {"r": list(r), "unmodified": bool((d == d0).all() and (pv == pv0).all())}


def oracle(c, o):
    if c["f"] == "npc_big":
        r = o["r"]; cc = 1 if c["plus1"] else 0
        if r[0] != "ok":
            _v = emit({"why": f"npc raised on a {c['B']} x {c['n']} matrix: {r[:3]}", "cls": "npc:raises"})
            if _v: return _v
            return None
        if not o["unmodified"]:
            _v = emit({"why": "npc modified its arguments", "cls": "npc:input-modified"})
            if _v: return _v
        want = Fraction(cc + o["hits"], cc + c["B"])
        if abs(Fraction(r[1]) - want) > Fraction(1, 10**12):
            _v = emit({"why": f"npc (Tippett, plus1={c['plus1']}) on a {c['B']} x {c['n']} matrix (RandomState({c['seed']}).randint(0, 50)): returned {r[1]}, the rank p-value over all rows is {float(want)} ({o['hits']} rows)", "cls": "npc:rank-pvalue"})
            if _v: return _v
        return None
    if c["f"] == "sim_edit":
        if any(o[k][0] != "ok" for k in ("r1", "r2", "fresh")):
            _v = emit({"why": f"{c['fn']} raised: {[o[k][:2] for k in ('r1', 'r2', 'fresh')]}", "cls": "sim_npc:raises"})
            if _v: return _v
            return None
        if o["r2"][1] != o["fresh"][1]:
            _v = emit({"why": f"{c['fn']}(in_place={c['in_place']}, seed={c['seed']}) on an Experiment whose responses were edited in place after an earlier call returned {str(o['r2'][1])[:200]}; "
                              f"a fresh Experiment holding the same data gives {str(o['fresh'][1])[:200]} (responses before {c['resp1']}, after {c['resp2']})", "cls": "sim_npc:rank-pvalue"})
            if _v: return _v
        return None
    if c["f"] == "sim":
        t = [[Fraction(v) for v in r] for r in c["table"]]
        obs, sims = t[0], t[1:]
        reps = len(sims); n = len(obs)
        ps = [Fraction(sum(1 for r in sims if r[j] >= obs[j]) + 1, reps + 1) for j in range(n)]
        e = exact_npc(ps, sims + [obs], c["comb"], False)
        r = o["r"]
        if e[0] == "exc":
            return None if (r[0] == "exc" and r[1] == "ValueError") else {"why": f"expected ValueError, got {r}", "cls": "sim_npc:guard"}
        if r[0] != "ok":
            _v = emit({"why": f"sim_npc raised {r}", "cls": "sim_npc:raises"})
            if _v: return _v
        if any(abs(Fraction(a) - b) > Fraction(1, 10**10) for a, b in zip(r[2], ps)):
            _v = emit({"why": f"partial p-values {r[2]} expected {[float(x) for x in ps]}", "cls": "sim_npc:partial-p"})
            if _v: return _v
        if r[1] < 1.0 / (reps + 1) - 1e-12:
            _v = emit({"why": f"global p {r[1]} below 1/(reps+1): the observed row does not count itself", "cls": "sim_npc:observed-row-not-counted"})
            if _v: return _v
        if not e[2] and abs(Fraction(r[1]) - e[1]) > Fraction(1, 10**10):
            _v = emit({"why": f"global p {r[1]} but #rows with combined statistic >= observed / #rows = {e[1]}", "cls": "sim_npc:rank-pvalue"})
            if _v: return _v
        if not c["in_place"] and o["group_after"] != [0, 0, 0]:
            _v = emit({"why": "in_place=False changed the caller's group", "cls": "sim_npc:in-place"})
            if _v: return _v
        return None
    m, p = pvals_of(c)
    e = exact_npc(p, m, c["comb"], c["plus1"])
    r = o["r"]
    if e[0] == "exc":
        return None if (r[0] == "exc" and r[1] == "ValueError") else {"why": f"expected ValueError for bad shapes / invalid combiner, got {r}", "cls": "npc:guard"}
    if r[0] != "ok":
        _v = emit({"why": f"npc raised {r}", "cls": "npc:raises"})
        if _v: return _v
    if not o["unmodified"]:
        _v = emit({"why": "npc modified its arguments", "cls": "npc:input-modified"})
        if _v: return _v
    B = len(m); cc = 1 if c["plus1"] else 0
    if not (cc / (B + cc) - 1e-12 <= r[1] <= 1 + 1e-12):
        _v = emit({"why": f"npc={r[1]} outside [c/(B+c),1]", "cls": "npc:range"})
        if _v: return _v
    if c["obs_row"] is not None and not c["plus1"] and r[1] < 1.0 / B - 1e-12:
        _v = emit({"why": f"observed row is row {c['obs_row']} of distr but global p={r[1]} < 1/B: it does not count itself", "cls": "npc:observed-row-not-counted"})
        if _v: return _v
    if not e[2] and abs(Fraction(r[1]) - e[1]) > Fraction(1, 10**10):
        _v = emit({"why": f"npc={r[1]} but exact rank p-value is {e[1]}", "cls": "npc:rank-pvalue"})
        if _v: return _v
    return None


def to_coq(c, o):
    if c["f"] in ("sim_edit", "npc_big"):
        return None
    r = o["r"]
    if c["f"] == "sim":
        t = [[Fraction(v) for v in row] for row in c["table"]]
        obs, sims = t[0], t[1:]
        ps = [Fraction(sum(1 for x in sims if x[j] >= obs[j]) + 1, len(sims) + 1) for j in range(len(obs))]
        e = exact_npc(ps, sims + [obs], c["comb"], False)
        if e[0] == "ok" and e[2]:
            SKIPPED[0] += 1; return None
        tab = e[3] if e[0] == "ok" else ({} if c["comb"] != "liptak" else liptak_table(ps))
        impl = cres(("ok", (Fraction(r[1]), [Fraction(x).limit_denominator(10**6) for x in r[2]])) if r[0] == "ok" else r,
                    lambda v: f"({cq(v[0])}, {clist(v[1], cq)})")
        return f"SimCase {qmat(t)} {comb_coq(c['comb'], tab)} {impl}"
    m, p = pvals_of(c)
    e = exact_npc(p, m, c["comb"], c["plus1"])
    if e[0] == "ok" and e[2]:
        SKIPPED[0] += 1; return None
    tab = e[3] if e[0] == "ok" else {}
    impl = cres(("ok", Fraction(r[1])) if r[0] == "ok" else r, cq)
    return f"NpcCase {clist(p, cq)} {qmat(m)} {comb_coq(c['comb'], tab)} {cbool(c['plus1'])} {impl}"


def nontrivial(c, o):
    if c["f"] == "npc_big":
        return o["r"][0] == "ok"
    if c["f"] == "sim_edit":
        return o["r2"][0] == "ok"
    r = o["r"]
    if r[0] != "ok":
        return False
    rows = c["table"] if c["f"] == "sim" else c["distr"]
    cols = list(zip(*rows))
    return any(len(set(col)) < len(col) for col in cols) and 0 < r[1] < 1


def key(c):
    return json.dumps(c, sort_keys=True)


def generated(tier):
    """source-derived obligations (G4 formulas): regenerated from /repo's current source text on every run"""
    from ..translate.tables import obligations
    return obligations("C07")
