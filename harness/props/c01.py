"""C01: unstratified tests estimate the exact permutation p-value -- thin wrapper over harness/core_runs.py (shared scripted-tape runs of the unstratified tests)."""
from .. import core_runs as CR
from ..core_runs import COQ_HEADER, run, to_coq, extra_terms, nontrivial, key, SKIPPED

RULE = ('scripted-tape runs of two_sample / two_sample_shift / one_sample / corr / spearman_corr / k_sample: sizes 1..7, tie-heavy integer data at several binary scales and offsets, named and recording callable statistics (NumPy and Python numbers), all alternatives, plus1, keep_dist twins on the same draws, reps 1..5, answer strategies random/all-zero/all-max; real int/SHA256/RandomState seeds; non-trivial = the simulated values hit the observed one or fall on both sides of it; distinct by full input')
ASSUMPTIONS = CR_ASSUMPTIONS = [
    "the generator is driven through a scripted subclass of cryptorandom.SHA256 (harness/tape.py): requests are answered lazily and logged; the same answers are replayed for the keep_dist twin",
    "data are small integers times the product of the group sizes times a power of two (optionally plus a large offset), so every named float statistic is exact in binary64",
    "SHA-256 / Mersenne-Twister output is assumed uniform (real-seed runs check reproducibility and the p-value assembly only)"]
ALLOWED = ['observed-stat', 'observed-not-data', 'p-not-from-dist', 'wrong-rearrangement', 'call-count', 'inadmissible', 'group-sizes', 'double-eval', 'pair-guard', 'keepdist-differs',
           # the binomial law of H needs every call to take its draws from the generator as its primitives define them, also after earlier calls
           'irreproducible', 'draws-depend-on-data']
FOCUS = None


def cases(tier, rng, dist):
    return CR.cases(tier, rng, dist, focus=FOCUS)


def oracle(c, o):
    from .. import common
    common.ALLOW[0] = list(ALLOWED)      # violations of other classes do not end the oracle early (common.emit)
    try:
        r = CR.oracle(c, o)
    finally:
        common.ALLOW[0] = None
    if r is None:
        return None
    suffix = r["cls"].split(":", 1)[1] if ":" in r["cls"] else r["cls"]
    if suffix in ALLOWED or suffix in ("raises", "harness-exception"):
        return r
    return None


def generated(tier):
    """source-derived obligations (G4 formulas): regenerated from /repo's current source text on every run"""
    from ..translate.tables import obligations
    return obligations("C01")
