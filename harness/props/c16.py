"""C16: shift tests and potential outcomes -- thin wrapper over harness/core_runs.py (shared scripted-tape runs of the unstratified tests)."""
from .. import core_runs as CR
from ..core_runs import COQ_HEADER, run, to_coq, extra_terms, nontrivial, key, SKIPPED

RULE = ('two_sample_shift with scalar shifts (0, +-, large, half-integers on int data), inverse pairs, non-inverse pairs, missing shift, single callable; potential_outcomes tables; recording statistics see treatment/control columns; same draws as two_sample')
ASSUMPTIONS = CR_ASSUMPTIONS = [
    "the generator is driven through a scripted subclass of cryptorandom.SHA256 (harness/tape.py): requests are answered lazily and logged; the same answers are replayed for the keep_dist twin",
    "data are small integers times the product of the group sizes times a power of two (optionally plus a large offset), so every named float statistic is exact in binary64",
    "SHA-256 / Mersenne-Twister output is assumed uniform (real-seed runs check reproducibility and the p-value assembly only)"]
ALLOWED = ['shift-guard', 'inverse-guard', 'table', 'observed-not-data', 'inadmissible', 'observed-stat', 'p-not-from-dist', 'input-modified', 'keepdist-differs', 'wrong-rearrangement', 'draws-depend-on-data', 'irreproducible']
FOCUS = 'C16'


def cases(tier, rng, dist):
    return CR.cases(tier, rng, dist, focus=FOCUS)


def oracle(c, o):
    from .. import common
    common.ALLOW[0] = list(ALLOWED)      # violations of other classes do not end the oracle early (common.emit)
    try:
        r = CR.oracle(c, o)
    finally:
        common.ALLOW[0] = None
    if r is None:
        return None
    suffix = r["cls"].split(":", 1)[1] if ":" in r["cls"] else r["cls"]
    if suffix in ALLOWED or suffix in ("raises", "harness-exception"):
        return r
    return None


def generated(tier):
    """source-derived obligations (G6): the potential-outcome tables re-read from the source and compared with the model's"""
    from ..translate.tables import obligations
    return obligations("C16")
