"""C14: hypergeometric / binomial_p exact tails and argument validation."""
import itertools, json, math
from fractions import Fraction
import numpy as np
from ..common import *
from permute.utils import hypergeometric, binomial_p

COQ_HEADER = """From PV Require Import Lib.Base Model.Pvalues Corr.C14.
Open Scope Z_scope."""
RULE = ("populations N>=1 (scipy defines no law for an empty population); hypergeometric: every (x,N,n,G) in [0,N+2]^3 x alternatives for N<=8 (quick; thorough N<=14), admissible and "
        "inadmissible; binomial_p: n<=12 (thorough n<=30), x in [0,n+2], p in {0,1/8,..,1}; random larger (N<=60, n<=60); "
        "non-trivial = admissible arguments with 0 < p-value < 1; distinct by argument tuple")
EXHAUSTIVE = {"quick": ["hypergeometric N<=8 all (x,n,G) in [0,N+2]^3", "binomial n<=12, p=k/8"],
              "thorough": ["hypergeometric N<=14 all (x,n,G) in [0,N+2]^3", "binomial n<=30, p=k/8"]}
ASSUMPTIONS = ["scipy hypergeom/binom cdf and sf are accurate to 1e-12 absolute on these ranges (floats compared with exact Q at 1e-12)",
               "far-tail values (down to 1e-280) are compared with the exact rational tail at 1e-9 RELATIVE"]
ALTS = ["greater", "less", "two-sided"]
CALT = {"greater": "Greater", "less": "Less", "two-sided": "TwoSided"}


def _cases(tier, rng, dist):
    NH = 8 if tier == "quick" else 14
    for N in range(1, NH + 1):
        for x in range(0, N + 3):
            for n in range(0, N + 3):
                for G in range(0, N + 3):
                    for alt in ALTS:
                        if alt != "greater" and (x + n + G) % 3 and tier == "quick" and N > 5:
                            continue
                        yield {"f": "hyper", "x": x, "N": N, "n": n, "G": G, "alt": alt}
    NB = 12 if tier == "quick" else 30
    for n in range(0, NB + 1):
        for x in range(0, n + 3):
            for k in range(0, 9):
                for alt in ALTS:
                    yield {"f": "binom", "x": x, "n": n, "pa": k, "pb": 8 - k, "alt": alt}
    # large populations and samples (hundreds to tens of thousands): exact tails by big-integer arithmetic
    for _ in range(40 if tier == "quick" else 300):
        N = rng.choice([300, 1000, 5000, 20000, 70001]); n = rng.choice([rng.randint(0, 60), rng.randint(0, min(N, 400))]); G = rng.randint(0, N)
        lo, hi = max(0, n - (N - G)), min(n, G)
        x = rng.randint(lo, hi) if rng.random() < 0.9 else rng.randint(0, n + 1)
        yield {"f": "hyper", "x": x, "N": N, "n": n, "G": G, "alt": rng.choice(ALTS), "big": True}
        n = rng.choice([300, 1000, 3000]); den = rng.choice([2, 4, 8, 16]); pa = rng.randint(0, den)
        yield {"f": "binom", "x": rng.choice([rng.randint(0, n), int(n * pa / den) + rng.randint(-3, 3)]) % (n + 1), "n": n, "pa": pa, "pb": den - pa, "alt": rng.choice(ALTS), "big": True}
    # deep tails: outcomes at or near an end of the support of a moderately large population have probabilities of 1e-15 ... 1e-250;
    # they can occur, so their p-value is not 0, and "returns P(X >= x)" is read with a RELATIVE float allowance
    for _ in range(60 if tier == "quick" else 400):
        N = rng.choice([60, 100, 100, 200, 400, 1000]); n = rng.randint(N // 4, (3 * N) // 4); G = rng.randint(N // 4, (3 * N) // 4)
        lo, hi = max(0, n - (N - G)), min(n, G)
        x = rng.choice([hi - rng.randint(0, 6), lo + rng.randint(0, 6)]); x = max(lo, min(hi, x))
        yield {"f": "hyper", "x": x, "N": N, "n": n, "G": G, "alt": rng.choice(ALTS), "big": True}
        n = rng.choice([60, 100, 200, 400]); den = rng.choice([2, 4, 8, 16]); pa = rng.randint(1, den - 1)
        yield {"f": "binom", "x": rng.choice([n - rng.randint(0, 6), rng.randint(0, 6)]), "n": n, "pa": pa, "pb": den - pa, "alt": rng.choice(ALTS), "big": True}
    for _ in range(300 if tier == "quick" else 3000):
        N = rng.randint(15, 60); n = rng.randint(0, N); G = rng.randint(0, N)
        x = rng.randint(max(0, n - (N - G)), min(n, G)) if rng.random() < 0.9 else rng.randint(0, N)
        yield {"f": "hyper", "x": x, "N": N, "n": n, "G": G, "alt": rng.choice(ALTS)}
        n = rng.randint(13, 60); den = rng.choice([2, 3, 5, 7, 10, 16, 100]); pa = rng.randint(0, den)
        yield {"f": "binom", "x": rng.randint(0, n), "n": n, "pa": pa, "pb": den - pa, "alt": rng.choice(ALTS)}


def _run(c):
    # the form in which the caller holds the counts: Python ints, NumPy integer scalars, or 0-d / one-element integer arrays
    # (e.g. the result of arr.sum(keepdims=...) or an element view); the SAME objects are passed to a second call
    names = ["x", "N", "n", "G"] if c["f"] == "hyper" else ["x", "n"]
    form = (sum(c[k] for k in names) + len(c["alt"])) % 4
    mk = [int, np.int64, lambda v: np.array(v), lambda v: np.array([v])[0:1].reshape(())][form]
    args = {k: mk(c[k]) for k in names}
    if c["f"] == "hyper":
        call = lambda: float(hypergeometric(args["x"], args["N"], args["n"], args["G"], c["alt"]))
    else:
        p = c["pa"] / (c["pa"] + c["pb"])
        call = lambda: float(binomial_p(args["x"], args["n"], p, c["alt"]))
    r = guarded(call)
    after1 = {k: int(args[k]) for k in names}
    r2 = guarded(call)
    return {"r": list(r), "again": list(r2), "args_after": after1, "form": form}


def exact(c):
    """independent oracle in Fractions (math.comb)"""
    if c["f"] == "hyper":
        x, N, n, G = c["x"], c["N"], c["n"], c["G"]
        if x > n or n > N or G > N or x > G:
            return None
        tot = math.comb(N, n)
        pm = [Fraction(math.comb(G, k) * math.comb(N - G, n - k), tot) for k in range(0, n + 1)]
    else:
        x, n = c["x"], c["n"]
        if x > n:
            return None
        p = Fraction(c["pa"], c["pa"] + c["pb"])
        pm = [math.comb(n, k) * p**k * (1 - p)**(n - k) for k in range(0, n + 1)]
    lo, up = sum(pm[:x + 1]), sum(pm[x:])
    return {"greater": up, "less": lo, "two-sided": min(Fraction(1), 2 * min(lo, up))}[c["alt"]]


def oracle(c, o):
    e = exact(c)
    r = o["r"]
    if e is None:
        if r[0] != "exc" or r[1] != "ValueError":
            return {"why": f"inadmissible arguments {c} did not raise ValueError: {r}", "cls": f"{c['f']}:guard-missing"}
        return None
    names = ["x", "N", "n", "G"] if c["f"] == "hyper" else ["x", "n"]
    if any(o["args_after"][k] != c[k] for k in names):
        return {"why": f"{c['f']} changed the caller's count objects: passed {[c[k] for k in names]} (as {['int', 'np.int64', '0-d array', '0-d view'][o['form']]}), afterwards {o['args_after']}", "cls": f"{c['f']}:input-modified"}
    if r[0] != "ok":
        return {"why": f"admissible arguments {c} raised {r[1]}: {r[2]}", "cls": f"{c['f']}:raises"}
    if o["again"][0] != "ok" or o["again"][1] != r[1]:
        return {"why": f"{c}: a second call with the same argument objects returned {o['again'][:2]}, the first {r[1]}", "cls": f"{c['f']}:wrong-tail:{c['alt']}"}
    if not math.isfinite(r[1]) or not (abs(Fraction(r[1]) - e) <= Fraction(1, 10**10) + (Fraction(1, 10**9) * e if c.get("big") else 0)):
        return {"why": f"{c}: returned {r[1]}, exact {float(e)}", "cls": f"{c['f']}:wrong-tail:{c['alt']}"}
    # relative allowance (the unchanged tree is within 5e-13 of the exact value down to 1e-280, measured on 18000 calls): an
    # outcome that can occur must not get the p-value 0 or a value that is off in its leading digits (validity at small alpha)
    if e > Fraction(1, 10**280) and abs(Fraction(r[1]) - e) > Fraction(1, 10**9) * e:
        return {"why": f"{c}: returned {r[1]!r}, exact {float(e)!r} (relative error {float(abs(Fraction(r[1]) - e) / e):.3g}): a possible outcome in the far tail gets a p-value that is not its tail probability",
                "cls": f"{c['f']}:wrong-tail:{c['alt']}"}
    return None


def to_coq(c, o):
    if c.get("big"):
        return None        # (the model's exact tails at this size are evaluated by the oracle in Python only)
    r = o["r"]
    impl = cres(("ok", Fraction(r[1])) if r[0] == "ok" and math.isfinite(r[1]) else ("exc", r[1] if r[0] == "exc" else "Other"), cq)
    if c["f"] == "hyper":
        return f"HCase {cnat(c['x'])} {cnat(c['N'])} {cnat(c['n'])} {cnat(c['G'])} {CALT[c['alt']]} {impl}"
    return f"BCase {cnat(c['x'])} {cnat(c['n'])} {cz(c['pa'])} {cz(c['pb'])} {CALT[c['alt']]} {impl}"


def nontrivial(c, o):
    r = o["r"]
    return r[0] == "ok" and 0 < r[1] < 1


def key(c):
    return json.dumps(c, sort_keys=True)


def generated(tier):
    """source-derived obligations (G3 tables / G4 formulas): regenerated from /repo's current source text on every run"""
    from ..translate.tables import obligations
    return obligations("C14")


# ---- failure paths (round 12): every third case is preceded by calls that the library rejects, or that fail inside a user
# callable; they raise on the unchanged tree and must leave nothing behind (common.fail_first) ----

from permute.utils import binom_conf_interval as _bci, hypergeom_conf_interval as _hci


def failing_calls(c):
    k = c["ff"] % 4
    return [[("binom_conf_interval, one iteration only", lambda: _bci(10, 3, maxiter=1)),
             ("binom_conf_interval, unknown keyword", lambda: _bci(10, 3, tol=1e-10)),
             ("hypergeom_conf_interval, bad alternative", lambda: _hci(5, 2, 12, alternative="both")),
             ("hypergeometric, impossible arguments", lambda: hypergeometric(5, 10, 2, 6))][k],
            ("binomial_p, x > n", lambda: binomial_p(10, 5, 0.5))]


def cases(tier, rng, dist):
    return mark_ff(_cases(tier, rng, dist))


_REC = []
hypergeometric = recording(hypergeometric, _REC); binomial_p = recording(binomial_p, _REC)


def run(c):
    ff = fail_first(failing_calls(c)) if "ff" in c else None
    o = _run(c)
    if ff is not None and isinstance(o, dict):
        o["ff"] = ff
    if isinstance(o, dict):
        o["retained_changed"] = retained_changed(_REC)
    return o


_oracle_before_retention = oracle


def oracle(c, o):
    if isinstance(o, dict) and o.get("retained_changed"):
        return {"why": "results kept by the caller changed when later calls were made: " + o["retained_changed"], "cls": "hyper:wrong-tail:result-aliased"}
    return _oracle_before_retention(c, o)
