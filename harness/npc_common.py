"""Shared by C07/C08/C09: combiners defined identically here and in Model/Npc.v, exact oracle."""
import math
from fractions import Fraction
import numpy as np
from scipy.stats import norm
from .common import *

EPS = float(np.finfo(float).eps)


def make_comb(spec):
    """spec: 'fisher' | 'liptak' | 'tippett' | ['negwsum', [w...]] | 'possum' | 'negmax' -> argument for permute.npc"""
    if isinstance(spec, str) and spec in ("fisher", "liptak", "tippett"):
        return spec
    if spec == "possum":
        return lambda p: np.sum(p)
    if spec == "negmax":
        return lambda p: -np.max(p)
    if spec == "logit":
        # a valid combiner whose value is -inf as soon as one p-value is >= 1: whole groups of rows tie at -inf
        def logit(p):
            with np.errstate(divide="ignore"):
                p = np.asarray(p, dtype=float)
                return float(np.sum(np.log((1.0 - np.minimum(p, 1.0)) / p)))
        return logit
    if spec[0] == "invn":
        # the library's own weighted combiner, as irr.simulate_npc_dist uses it: sizes are perfect squares (exact weights)
        from permute import npc as _NPC
        size = np.array([int(x) for x in spec[1]])
        return lambda p: _NPC.inverse_n_weight(p, size)
    w = [float(Fraction(x)) for x in spec[1]]
    return lambda p: -sum(wi * pi for wi, pi in zip(w, list(p)))


def weights_of(spec):
    if spec[0] == "invn":
        return [Fraction(1, math.isqrt(int(x))) for x in spec[1]]
    return [Fraction(x) for x in spec[1]]


def psi_exact(spec, p, tab=None):
    """exact statistic; for fisher the product (order reversed)"""
    if spec == "fisher":
        r = Fraction(1)
        for x in p: r *= x
        return r
    if spec == "liptak":
        return sum(tab[1 - x] for x in p)
    if spec == "tippett":
        return max(1 - x for x in p)
    if spec == "possum":
        return sum(p)
    if spec == "negmax":
        return -max(p)
    if spec == "logit":
        r = Fraction(1)
        for x in p: r *= (1 - min(x, Fraction(1))) / x
        return r
    w = weights_of(spec)
    return -sum(wi * pi for wi, pi in zip(w, p))


def stat_ge(spec, s, t):
    return s <= t if spec == "fisher" else s >= t


def liptak_table(ps):
    """exact key 1-p -> Fraction(norm.ppf(1 - float(p))) for all p occurring (floats as the library sees them)"""
    tab = {}
    for p in ps:
        if p >= 1:
            tab[Fraction(0)] = Fraction(-10**9)   # norm.ppf(0) = -inf: below every finite sum that can occur
            continue
        tab[1 - p] = Fraction(float(norm.ppf(1.0 - float(p))))
    tab[Fraction(EPS)] = Fraction(float(norm.ppf(1.0 - (1.0 - EPS))))
    return tab


def exact_npc(p, distr, spec, plus1):
    """Fractions oracle following the property text. Returns ('ok', value, skip) | ('exc', 'ValueError')"""
    n, B = len(p), len(distr)
    if n < 2 or any(len(r) != n for r in distr):
        return ("exc", "ValueError")
    cc = 1 if plus1 else 0
    rows = []
    for r in distr:
        rp = []
        for j in range(n):
            ge = sum(1 for k in range(B) if distr[k][j] >= r[j])
            rp.append(Fraction(ge + 2 * cc, B + cc))
        rows.append(rp)
    tab = None
    if spec == "liptak":
        rows = [[(1 - Fraction(EPS)) if x >= 1 else x for x in rp] for rp in rows]
        tab = liptak_table([x for rp in rows for x in rp] + list(p))
        tab[1 - (1 - Fraction(EPS))] = tab[Fraction(EPS)]
    if callable_spec(spec):
        obs = psi_exact(spec, p)
        for i in range(n):
            q = list(p); q[i] = q[i] + Fraction(1, 10)
            if not stat_ge(spec, obs, psi_exact(spec, q)):
                return ("exc", "ValueError")
    obs = psi_exact(spec, p, tab)
    hits = 0; skip = False
    for rp in rows:
        s = psi_exact(spec, rp, tab)
        if stat_ge(spec, s, obs):
            hits += 1
        if rp != list(p) and abs(s - obs) <= Fraction(1, 10**11) * (1 + abs(obs)) and not (spec == "logit" and s == 0 and obs == 0):
            skip = True      # (two statistics that are both exactly -inf compare equal in floating point as well)
    return ("ok", Fraction(cc + hits, cc + B), skip, tab)


def callable_spec(spec):
    return not (isinstance(spec, str) and spec in ("fisher", "liptak", "tippett"))


def comb_coq(spec, tab=None):
    if spec == "fisher": return "Fisher"
    if spec == "tippett": return "Tippett"
    if spec == "liptak":
        return "(Liptak " + clist(sorted(tab.items()), lambda kv: f"({cq(kv[0])}, {cq(kv[1])})") + ")"
    if spec == "possum": return "PosSum"
    if spec == "negmax": return "NegMax"
    if spec == "logit": return "Logit"
    return "(NegWSum " + clist(weights_of(spec), cq) + ")"


def qmat(rows):
    return clist(rows, lambda r: clist(r, cq))


def gen_matrix(rng, B, n, alpha):
    return [[Fraction(rng.randint(0, alpha)) for _ in range(n)] for _ in range(B)]


COMBS = ["fisher", "liptak", "tippett", ["negwsum", ["1", "1", "1", "1", "1"]], ["negwsum", ["1", "1/2", "2", "0", "1"]], "negmax", "possum", "logit",
         # invalid only in a LATER argument (the earlier ones outweigh it): the guard must test each argument on its own
         ["negwsum", ["1", "1", "-1", "1", "1"]], ["negwsum", ["2", "-1", "1", "-3", "1"]], ["negwsum", ["3", "2", "1", "-1", "-1"]]]
