"""Shared helpers for the per-property harness modules (run inside /venv/bin/python with
PYTHONPATH=/repo so that `import permute` is /repo's working tree)."""
import os, sys, json, random, signal, itertools, math
from fractions import Fraction
import numpy as np


def assert_repo():
    import permute
    p = os.path.realpath(permute.__file__)
    repo = os.path.realpath(os.environ.get("VERIF_REPO", "/repo"))   # VERIF_REPO: tools/try_patch.sh only
    assert p.startswith(repo + "/"), f"permute imported from {p}, not {repo}"


EXN = {"ValueError": "ValueError", "TypeError": "TypeError", "NameError": "NameError",
       "AssertionError": "AssertionError", "IndexError": "IndexError", "KeyError": "KeyError",
       "UnboundLocalError": "NameError"}


def exn_name(e):
    for cls in type(e).__mro__:
        if cls.__name__ in EXN:
            return EXN[cls.__name__]
    return "Other:" + type(e).__name__


class Timeout(Exception):
    pass


def _alarm(sig, frm):
    raise Timeout()


TIMEOUTS = [0]       # calls of the implementation that did not return within their alarm (the runner stops after a few)


def guarded(f, *a, secs=30, **k):
    """run f; return ('ok', value) or ('exc', name, message)"""
    signal.signal(signal.SIGALRM, _alarm)
    signal.alarm(secs)
    try:
        return ("ok", f(*a, **k))
    except Timeout:
        TIMEOUTS[0] += 1
        return ("exc", "Timeout", f"no result within {secs} s")
    except Exception as e:  # noqa
        return ("exc", exn_name(e), str(e)[:200])
    finally:
        signal.alarm(0)


class Abort(BaseException):
    """a non-Exception failure thrown on purpose from a user callable (the analogue of Ctrl-C in the middle of a loop)"""


def rejected(f, secs=20):
    """run a call that is EXPECTED to fail; returns ['exc', name] / ['ok'] (the value is dropped).  Catches BaseException too."""
    signal.signal(signal.SIGALRM, _alarm)
    signal.alarm(secs)
    try:
        f()
        return ["ok"]
    except Timeout:
        TIMEOUTS[0] += 1
        return ["exc", "Timeout"]
    except BaseException as e:  # noqa
        return ["exc", exn_name(e) if isinstance(e, Exception) else "Base:" + type(e).__name__]
    finally:
        signal.alarm(0)


def dying_sha(seed, after):
    """a cryptorandom SHA256 generator that fails (Abort) at its [after]-th primitive request"""
    from cryptorandom.cryptorandom import SHA256
    class Dying(SHA256):
        left = after
        def _tick(self):
            self.left -= 1
            if self.left < 0:
                raise Abort()
        def random(self, *a, **k): self._tick(); return SHA256.random(self, *a, **k)
        def randint(self, *a, **k): self._tick(); return SHA256.randint(self, *a, **k)
        def getrandbits(self, *a, **k): self._tick(); return SHA256.getrandbits(self, *a, **k)
        def _randbelow(self, *a, **k): self._tick(); return SHA256._randbelow(self, *a, **k)
        def randbelow_from_randbits(self, *a, **k): self._tick(); return SHA256.randbelow_from_randbits(self, *a, **k)
    return Dying(seed)


# ---- results kept by the caller: what a call returned must not change when LATER calls are made (a result that aliases a
# module-level scratch object, a cached table, another result) ----
def deep_same(a, b):
    if isinstance(a, np.ndarray) or isinstance(b, np.ndarray):
        a_, b_ = np.asarray(a), np.asarray(b)
        if a_.shape != b_.shape:
            return False
        if a_.dtype == object or b_.dtype == object:
            return all(deep_same(x, y) for x, y in zip(a_.ravel().tolist(), b_.ravel().tolist()))
        try:
            return bool(np.array_equal(a_, b_, equal_nan=True))
        except TypeError:
            return bool(np.array_equal(a_, b_))
    if isinstance(a, dict) and isinstance(b, dict):
        return a.keys() == b.keys() and all(deep_same(a[k], b[k]) for k in a)
    if isinstance(a, (list, tuple)) and isinstance(b, (list, tuple)):
        return len(a) == len(b) and all(deep_same(x, y) for x, y in zip(a, b))
    try:
        if a != a and b != b:
            return True
    except Exception:
        pass
    try:
        return bool(a == b)
    except Exception:
        return a is b


def recording(fn, store, keep=6):
    """wrap a library function: every returned object is kept together with a deep copy taken at return time"""
    import copy, functools
    @functools.wraps(fn)
    def w(*a, **k):
        r = fn(*a, **k)
        try:
            store.append((getattr(fn, "__name__", "?"), r, copy.deepcopy(r)))
        except Exception:
            pass
        del store[:-keep]
        return r
    w._recording = True
    return w


class RecordingModule:
    """a view of a library module whose listed functions are wrapped by [recording]"""
    def __init__(self, mod, store, names):
        self._m, self._s, self._n, self._w = mod, store, set(names), {}
    def __getattr__(self, name):
        v = getattr(self._m, name)
        if name in self._n and callable(v):
            if name not in self._w or self._w[name].__wrapped__ is not v:
                self._w[name] = recording(v, self._s)
            return self._w[name]
        return v


def retained_changed(store):
    """description of the first kept result that no longer equals its value at return time, else None"""
    for name, r, snap in store:
        if not deep_same(r, snap):
            return f"a result returned earlier by {name} reads {str(r)[:120]} now, it was {str(snap)[:120]} when it was returned"
    return None


def fail_first(calls):
    """FAILURE PATHS: before a case, make calls that the library must reject or that fail inside a user callable (every one of
    them raises on the unchanged tree).  A rejected or aborted call must leave nothing behind -- no module-level switch, no
    half-restored argument, no stale loop state -- so the case that follows is decided exactly as without them.
    [calls] = list of (label, thunk); returns [[label, outcome...], ...] for the evidence / replay."""
    watch = [(lab, th) for lab, th in calls if lab == "watch"]
    before = [[a.copy() for a in th] for _, th in watch]
    out = [[lab] + rejected(th) for lab, th in calls if lab != "watch"]
    for (_, arrs), olds in zip(watch, before):
        same = all(a.shape == b.shape and bool(np.all((a == b) | ((a != a) & (b != b)))) for a, b in zip(arrs, olds))
        out.append(["args-intact", same])
    return out


def ff_args_modified(o):
    """True when the failing calls made before a case left the caller's (watched) argument arrays modified"""
    return any(e[0] == "args-intact" and e[1] is False for e in ((o or {}).get("ff") or []) if isinstance(e, list))


def mark_ff(gen, every=3):
    """mark every [every]-th case of a generator with 'ff' (its index): its run is preceded by failing calls"""
    for i, c in enumerate(gen):
        if isinstance(c, dict) and i % every == 1:
            c["ff"] = i
        yield c


# ---- Coq term printers -------------------------------------------------------------------
def cz(z):
    z = int(z)
    return f"({z})%Z" if z < 0 else f"{z}%Z"


def cnat(n):
    return f"{int(n)}%nat"


def clist(xs, f=cz):
    return "[" + "; ".join(f(x) for x in xs) + "]"


def cq(fr):
    fr = Fraction(fr)
    return f"({fr.numerator} # {fr.denominator})%Q"


def cbool(b):
    return "true" if b else "false"


def cstr(s):
    return '"' + s.replace('"', '""') + '"%string'


def cres(r, f):
    """r = ('ok', v) | ('exc', name, msg)"""
    if r[0] == "ok":
        return f"(Ok {f(r[1])})"
    name = r[1] if r[1] in ("ValueError", "TypeError", "NameError", "AssertionError", "IndexError", "KeyError") else "OutOfTape"
    return f"(Err {name})"


def copt(v, f):
    return "None" if v is None else f"(Some {f(v)})"


def jsonable(o):
    if isinstance(o, np.ndarray):
        return o.tolist()
    if isinstance(o, (np.integer,)):
        return int(o)
    if isinstance(o, (np.floating,)):
        return float(o)
    if isinstance(o, Fraction):
        return f"{o.numerator}/{o.denominator}"
    if isinstance(o, (list, tuple)):
        return [jsonable(x) for x in o]
    if isinstance(o, dict):
        return {str(k): jsonable(v) for k, v in o.items()}
    if isinstance(o, (np.bool_,)):
        return bool(o)
    return o


class Dist:
    """input-distribution counters printed into the evidence"""
    def __init__(self):
        self.d = {}

    def add(self, name, value):
        self.d.setdefault(name, {})
        k = str(value)
        self.d[name][k] = self.d[name].get(k, 0) + 1

    def out(self):
        return self.d


# ---- interned argument arrays ---------------------------------------------------------------------------
# A user typically passes the SAME ndarray object to several calls (other method, other combiner, other flag).
# Arrays with equal content are therefore shared between cases, so that results depending on the call history
# (memoisation keyed by object identity, in-place writes into arguments) are exposed by the stateless model.
_POOL = {}


def interned(a):
    a = np.asarray(a)
    k = (str(a.dtype), a.shape, a.flags["C_CONTIGUOUS"], a.tobytes())
    hit = _POOL.get(k)
    if hit is not None:
        if hit[0].tobytes() == k[3]:
            return hit[0]
        hit[0][...] = hit[1]        # a callee wrote into it (reported by the 'unmodified' checks): restore
        return hit[0]
    if len(_POOL) > 20000:
        _POOL.clear()
    _POOL[k] = (a, a.copy())
    return a


def real_seed(rng):
    """an explicit seed for real-generator runs: 0 (falsy!) and very large integers are seeds like any other"""
    r = rng.random()
    if r < 0.15:
        return 0
    if r < 0.25:
        return 2**64 + rng.randint(0, 10**6)
    if r < 0.32:
        return "seed-%d" % rng.randint(0, 99)       # str and float seeds are documented seeds of get_prng as well
    if r < 0.38:
        return rng.randint(0, 99) + 0.5
    return rng.randint(1, 10**6)


def seed_int(seed):
    """a deterministic 32-bit integer derived from any seed (for RandomState twins and harness-side choices)"""
    import zlib
    return seed % 2**32 if isinstance(seed, int) else zlib.crc32(repr(seed).encode())


# ---- class filter shared by the oracles that serve several properties (core_runs, strat_runs, and the modules used as
# "extra" sources): a property names the violation classes it is responsible for; a violation of another class must
# not end the oracle early and hide a later one of an allowed class, so every return site goes through emit() ----
ALLOW = [None]


def class_allowed(cls, allowed):
    suffix = cls.split(":", 1)[1] if ":" in cls else cls
    return suffix in allowed or suffix.split(":")[0] in allowed or suffix in ("raises", "harness-exception")


def emit(v):
    """v: a violation dict or None; returns it unless a class filter is active and excludes it"""
    if v is None or ALLOW[0] is None:
        return v
    return v if class_allowed(v["cls"], ALLOW[0]) else None
