"""Sizes taken from the source text of /repo/permute (boundary-value analysis driven by the code's own constants).

Every integer constant >= 8 that occurs in the body of a module (literals, folded constant expressions such as 2**17,
1 << 16, 10**4, 2e4, and the ranges implied by narrow dtype names such as uint8) is a candidate *size threshold*: a
block size, a fast-path limit, a buffer length.  The case generators ask for these and build inputs whose sizes
(repetitions, units, strata, hypotheses, columns, sample length) lie just beyond each threshold and are not a multiple
of it.  Default argument values (reps=10**5 ...) and docstrings are not thresholds.  This only chooses inputs; it can
never raise an alarm by itself."""
import ast, os

DTYPE_RANGE = {"uint8": 256, "int8": 128, "uint16": 65536, "int16": 32768, "float16": 2048, "bool_": 2, "ubyte": 256, "byte": 128}
MODULES = ["core", "utils", "npc", "ksample", "stratified", "irr", "sprt", "qa"]


def _fold(node):
    """value of a constant integer expression, or None"""
    if isinstance(node, ast.Constant):
        v = node.value
        if isinstance(v, bool):
            return None
        if isinstance(v, int):
            return v
        if isinstance(v, float) and v == int(v) and abs(v) < 1e12:
            return int(v)
        return None
    if isinstance(node, ast.UnaryOp) and isinstance(node.op, ast.USub):
        v = _fold(node.operand)
        return None if v is None else -v
    if isinstance(node, ast.BinOp):
        a, b = _fold(node.left), _fold(node.right)
        if a is None or b is None:
            return None
        try:
            if isinstance(node.op, ast.Pow) and 0 <= b <= 64 and abs(a) <= 1024:
                return a ** b
            if isinstance(node.op, ast.LShift) and 0 <= b <= 64:
                return a << b
            if isinstance(node.op, ast.Mult):
                return a * b
            if isinstance(node.op, ast.Add):
                return a + b
            if isinstance(node.op, ast.Sub):
                return a - b
            if isinstance(node.op, ast.FloorDiv) and b:
                return a // b
        except Exception:
            return None
    return None


def constants(modules=None, lo=8, hi=10**7, repo=None):
    """{value: [module:function:line, ...]} for the integer constants of the module bodies"""
    repo = repo or os.environ.get("VERIF_REPO", "/repo")
    out = {}
    for m in modules or MODULES:
        path = f"{repo}/permute/{m}.py"
        try:
            tree = ast.parse(open(path).read())
        except Exception:
            continue
        skip = set()
        for fn in ast.walk(tree):
            if isinstance(fn, (ast.FunctionDef, ast.Lambda)):
                for d in list(fn.args.defaults) + [k for k in fn.args.kw_defaults if k is not None]:
                    for sub in ast.walk(d):
                        skip.add(id(sub))
            if isinstance(fn, (ast.FunctionDef, ast.Module, ast.ClassDef)) and fn.body and isinstance(fn.body[0], ast.Expr) \
                    and isinstance(getattr(fn.body[0], "value", None), ast.Constant) and isinstance(fn.body[0].value.value, str):
                skip.add(id(fn.body[0].value))

        def visit(node, where):
            if id(node) in skip:
                return
            if isinstance(node, ast.FunctionDef):
                where = node.name
            v = _fold(node)
            if v is not None:
                if lo <= abs(v) <= hi:
                    out.setdefault(abs(v), []).append(f"{m}:{where}:{getattr(node, 'lineno', 0)}")
                return          # do not descend into a folded expression (2**17 is one constant, not 2 and 17)
            if isinstance(node, ast.Attribute) and node.attr in DTYPE_RANGE and DTYPE_RANGE[node.attr] >= lo:
                out.setdefault(DTYPE_RANGE[node.attr], []).append(f"{m}:{where}:{node.lineno}:dtype {node.attr}")
            if isinstance(node, ast.Constant) and isinstance(node.value, str) and node.value in DTYPE_RANGE and DTYPE_RANGE[node.value] >= lo:
                out.setdefault(DTYPE_RANGE[node.value], []).append(f"{m}:{where}:{node.lineno}:dtype {node.value}")
            for ch in ast.iter_child_nodes(node):
                visit(ch, where)
        visit(tree, "<module>")
    return out


def thresholds(modules=None, lo=8, hi=10**7):
    return sorted(constants(modules, lo, hi))


def beyond(modules=None, lo=8, hi=10**7, extra=(), cap=None):
    """sizes just beyond every threshold T (T+3, and 2T+3 when it fits), never a multiple of T, deduplicated; [extra] are
    thresholds always included (so that the unchanged tree exercises the large paths too)"""
    out = []
    for t in sorted(set(thresholds(modules, lo, hi)) | set(extra)):
        for s in (t + 3, 2 * t + 3):
            if (cap is None or s <= cap) and s not in out:
                out.append(s)
    return out


if __name__ == "__main__":
    import json
    print(json.dumps(constants(), indent=1))


def extra_sizes(modules, fixed, cap, lo=8):
    """sizes T+3 for the source constants T (<= cap) that none of the [fixed] sizes already lies beyond without being a multiple"""
    out = []
    for t in thresholds(modules, lo=lo, hi=cap):
        if not any(f > t and f % t for f in fixed) and t + 3 not in out:
            out.append(t + 3)
    return out
