"""Shared runner for the stratified tests and helpers (C02; also used by C03/C04/C05/C06)."""
import itertools, json, math
from fractions import Fraction
import numpy as np
from .common import *
from .tape import Tape, lazy, m_fy, m_pwg, m_rows
from .core_runs import same_result, F, fl, arr, call_test, gen_values, CALT, ALTS, qlist, tape_coq, close, global_state, snapshot, wrap_num
from cryptorandom.cryptorandom import SHA256
from permute import stratified, ksample, utils, irr
_REC = []
stratified = RecordingModule(stratified, _REC, ["sim_corr", "stratified_permutationtest", "stratified_two_sample", "stratified_permutationtest_mean", "corrcoef"])
ksample = RecordingModule(ksample, _REC, ["k_sample", "bivariate_k_sample"])
utils = RecordingModule(utils, _REC, ["permute", "permute_within_groups", "permute_rows"])
irr = RecordingModule(irr, _REC, ["compute_ts", "simulate_ts_dist", "simulate_npc_dist"])

COQ_HEADER = """From PV Require Import Lib.Base Model.Prng Model.Core Model.Stratified Corr.CoreCases Corr.C02.
Open Scope Q_scope."""
STATV = ["SumFirstHalf", "WeightedV", "ConstV", "CountMatch"]
SKIPPED = [0]


def make_statv(name, rec, numkind, as_int=False):
    def count_match(v):
        return float(sum(1 for a, b in zip(v[:-1], v[1:]) if a == b))
    f = {"SumFirstHalf": lambda v: float(np.sum(np.array(v, dtype=float)[:len(v) // 2])),
         "WeightedV": lambda v: sum((i + 1) * float(x) for i, x in enumerate(v)),
         "ConstV": lambda v: 0.0, "CountMatch": lambda v: count_match(list(v))}[name]
    def g(v):
        rec.append([int(z) for z in v] if as_int else np.array(v, dtype=float).tolist())
        return wrap_num(f(v), numkind)
    return g


def gen_strata(rng, dist):
    ns = rng.randint(1, 4)
    sizes = [rng.choice([1, 1, 2, 2, 3, 4]) for _ in range(ns)]
    labels = rng.sample(range(-2, 7), ns)
    g = [lab for lab, s in zip(labels, sizes) for _ in range(s)]
    rng.shuffle(g)
    dist.add("strata", ns); dist.add("n_units", len(g)); dist.add("singletons", sizes.count(1))
    return g


def chooser_of(c):
    import random
    return lazy(random.Random(c["aseed"]), c["mode"])


def cases(tier, rng, dist):
    N = {"quick": 120, "thorough": 1200}[tier]
    mode = lambda: rng.choice(["random"] * 4 + ["zero", "max"])
    for _ in range(N):
        g = gen_strata(rng, dist)
        sc = Fraction(2) ** rng.choice([0, 0, -40]); off = rng.choice([0, 0, 2**20])
        x = [(Fraction(rng.randint(0, 3)) + off) * sc for _ in g]
        c = {"f": "pwg", "x": [str(v) for v in x], "g": g, "dtype": rng.choice(["float", "int", "object"]), "mode": mode(), "aseed": rng.randint(0, 10**9)}
        if rng.random() < 0.5:
            # session: the caller re-stratifies IN PLACE (same group array object) and calls again
            g2 = list(g); rng.shuffle(g2)
            if rng.random() < 0.5:
                g2 = [rng.randint(0, 2) for _ in g]
            c["g2"] = g2
        yield c
    # large stratified designs (strata x units beyond 2^14, e.g. 130 matched pairs / 75 strata of three), 2-D data (units x variables)
    # and units whose stratum label is missing (NaN: they belong to no stratum and stay where they are)
    for k in range(3 if tier == "quick" else 12):
        ns, per = [(130, 2), (75, 3), (40, 7)][k % 3]
        g = [a for a in range(ns) for _ in range(per)]; rng.shuffle(g)
        yield {"f": "pwg", "x": [str(rng.randint(0, 9)) for _ in g], "g": g, "dtype": "float", "mode": "random", "aseed": rng.randint(0, 10**9)}
        cnd = [0] * len(g); seen = {}
        for i, a in enumerate(g):
            cnd[i] = seen.get(a, 0) % 2; seen[a] = seen.get(a, 0) + 1
        yield {"f": "s2s", "g": g, "c": cnd, "resp": [str(rng.randint(0, 9) * 4) for _ in g], "stat": STATV[0], "alt": "greater", "reps": 2, "plus1": True,
               "keep": k % 2 == 0, "num": "np", "mode": "random", "aseed": rng.randint(0, 10**9)}
    for fn in ("s2s", "ts"):
        yield {"f": "manyreps", "fn": fn, "reps": 70001, "seed": rng.randint(0, 10**6), "plus1": rng.random() < 0.5, "alt": rng.choice(ALTS),
               "resp": [rng.randint(0, 5) for _ in range(8)], "m": [[rng.randint(0, 1) for _ in range(4)] for _ in range(3)]}
    for _ in range(10 if tier == "quick" else 100):
        g = gen_strata(rng, dist)
        yield {"f": "pwgx", "kind": rng.choice(["2d", "2d", "nanlabel", "nanlabel", "record"]), "g": g, "ncol": rng.randint(2, 3), "seed": rng.randint(0, 10**6),
               "vals": [rng.randint(0, 9) for _ in range(3 * len(g))], "nanpos": [i for i in range(len(g)) if rng.random() < 0.3]}
    for _ in range(N // 2):
        R, Ns = rng.randint(1, 4), rng.randint(1, 4)
        yield {"f": "rows", "m": [[rng.randint(0, 3) for _ in range(Ns)] for _ in range(R)], "reps": rng.randint(1, 3), "mode": mode(), "aseed": rng.randint(0, 10**9),
               "layout": rng.choice(["C", "C", "F", "T", "strided"])}
    for _ in range(N):
        g = gen_strata(rng, dist)
        k = rng.choice([1, 2, 2, 2, 3])
        c = [rng.randint(0, k - 1) for _ in g]
        yield {"f": "spt", "g": g, "c": c, "stat": rng.choice(STATV), "alt": rng.choice(ALTS), "reps": rng.randint(1, 5), "plus1": rng.random() < 0.5,
               "num": rng.choice(["np", "py"]), "mode": mode(), "aseed": rng.randint(0, 10**9)}
    for _ in range(N):
        g = gen_strata(rng, dist)
        c = [rng.randint(0, 1) for _ in g]
        if len(set(c)) < 2:
            c[0] = 1 - c[0]
            if len(c) == 1: c = c + [1 - c[0]]; g = g + [g[0]]
        n0 = c.count(min(c)); n1 = len(c) - n0
        resp = gen_values(rng, len(g), n0 * n1, dist)
        yield {"f": "s2s", "g": g, "c": c, "resp": [str(v) for v in resp], "stat": rng.choice(STATV + ["mean", "mean"]), "alt": rng.choice(ALTS),
               "reps": rng.randint(1, 5), "plus1": rng.random() < 0.5, "keep": rng.random() < 0.5, "num": rng.choice(["np", "py"]), "mode": mode(), "aseed": rng.randint(0, 10**9)}
    for _ in range(N // 2):
        g1 = gen_strata(rng, dist)
        g2 = [rng.randint(0, 2) for _ in g1]
        if len(set(g2)) < 2:
            continue
        mult = len(g1)
        for s in set(g2): mult *= g2.count(s)
        x = [Fraction(rng.randint(-2, 2) * mult) for _ in g1]
        if len(set(x)) < 2:
            x[0] += mult
        yield {"f": "biv", "x": [str(v) for v in x], "g1": g1, "g2": g2, "reps": rng.randint(1, 5), "plus1": rng.random() < 0.5, "keep": rng.random() < 0.5,
               "mode": mode(), "aseed": rng.randint(0, 10**9), "cstat": rng.random() < 0.3}    # cstat: a user callable as statistic
    for _ in range(N // 2):
        # sim_corr: x values 4^i identify the arrangement through the statistic; strata of size >= 2 (a pair has
        # correlation +-1, defined as long as its two y values differ)
        ns = rng.randint(1, 3)
        g = [k for k in range(ns) for _ in range(rng.randint(2, 4))]
        rng.shuffle(g)
        x = [Fraction(4) ** i for i in range(len(g))]; rng.shuffle(x)
        y = [Fraction(rng.randint(-3, 3)) for _ in g]
        for k in range(ns):
            idx = [i for i, gi in enumerate(g) if gi == k]
            if len(idx) == 2 and y[idx[0]] == y[idx[1]]:
                y[idx[1]] += 1
        # dtypes as the caller holds them: x is integer-valued (dose levels, counts) and may be an integer array while y has
        # non-integer values, or the other way round; the statistic is the correlation of the values as given
        xdt, ydt = rng.choice([("float", "float"), ("float", "float"), ("int", "float"), ("int", "float"), ("float", "int")])
        if xdt == "int" and rng.random() < 0.8:
            y = [v + Fraction(rng.choice([1, 1, 3]), rng.choice([2, 4])) for v in y]
        yield {"f": "simcorr", "x": [str(v) for v in x], "y": [str(v) for v in y], "g": g, "alt": rng.choice(ALTS), "reps": rng.randint(1, 4), "plus1": rng.random() < 0.5,
               "mode": mode(), "aseed": rng.randint(0, 10**9), "xdt": xdt, "ydt": ydt}
    for _ in range(N // 2):
        ng, nc = rng.randint(1, 3), rng.choice([1, 2, 2, 2, 3, 3, 4, 5])     # designs with MORE and FEWER treatment conditions alternate in the stream
        per = rng.randint(1, 2)
        g = [a for a in range(ng) for _ in range(nc * per)]
        c = [b for _ in range(ng) for b in range(nc) for _ in range(per)]
        resp = [Fraction(rng.randint(-3, 3) * per) for _ in g]
        yield {"f": "sptm", "g": g, "c": c, "resp": [str(v) for v in resp]}
    yield from nan_arm_cases(rng)
    # simulate_ts_dist with every kind of caller-supplied reference value (none, 0, 1/2, 1, 1/4: the seed selects it)
    for k in range(10):
        ng = rng.randint(1, 3)
        yield {"f": "named", "fn": "ts", "g": [a for a in range(ng) for _ in range(4)], "c": [b for _ in range(ng) for b in (0, 0, 1, 1)],
               "resp": [rng.choice([0, 1]) for _ in range(4 * ng)], "alt": "greater", "reps": rng.randint(1, 10), "plus1": rng.random() < 0.5,
               "seed": 5 * rng.randint(0, 10**6) + (k % 5), "gseed": rng.randint(0, 10**6)}
    # named statistics with real seeds: all alternatives; reproducibility; options usable
    for _ in range(N // 2):
        ng = rng.randint(1, 3)
        g = [a for a in range(ng) for _ in range(4)]
        c = [b for _ in range(ng) for b in (0, 0, 1, 1)]
        resp = [rng.choice([0, 1]) if rng.random() < 0.5 else round(rng.gauss(0, 1), 2) for _ in g]
        if rng.random() < 0.2:
            resp[rng.randrange(len(resp))] = float("nan")
        elif rng.random() < 0.2:
            # several NaN-coded non-responders (a documented feature): some rearrangements leave one arm without responders
            for i in rng.sample(range(len(resp)), min(len(resp) - 1, rng.randint(2, 3))):
                resp[i] = float("nan")
        nanarm = False
        if ng == 1 and rng.random() < 0.5:
            # as many non-responders as one arm holds: for some rearrangements the arm is empty and the statistic NaN
            resp = [float(rng.randint(0, 5)) for _ in g]
            for i in rng.sample([0, 1, 2, 3], 2):
                resp[i] = float("nan")
            nanarm = True
        sep = rng.random() if not nanarm else 0.9
        if sep < 0.25:
            # (nearly) perfectly separated binary responses: the pooled t statistic of the data, or of some
            # rearrangement, is +-inf (both samples constant, different means) -- a legitimate, extreme value
            resp = [float(ci) if sep < 0.15 else float(1 - ci) for ci in c]
            if rng.random() < 0.4:
                resp[rng.randrange(len(resp))] = float(rng.choice([0, 1]))
        yield {"f": "named", "fn": rng.choice(["s2s_t", "s2s_t", "s2s_mean"]) if (sep < 0.25 or nanarm) else rng.choice(["spt", "s2s_mean", "s2s_t", "s2s_mws", "sim_corr", "biv", "ts"]), "g": g, "c": c, "resp": resp,
               "alt": rng.choice(ALTS), "reps": rng.randint(1, 10), "plus1": rng.random() < 0.5, "seed": real_seed(rng), "gseed": rng.randint(0, 10**6)}


def nan_arm_cases(rng):
    """non-responders (NaN) as numerous as one arm, observed statistic defined: some rearrangements empty an arm"""
    for fn in ("s2s_mean", "s2s_t"):
        for resp in ([2.0, float("nan"), float("nan"), 0.0], [float("nan"), 4.0, 3.0, float("nan")], [1.0, float("nan"), 5.0, float("nan"), 2.0, 7.0]):
            n = len(resp)
            yield {"f": "named", "fn": fn, "g": [0] * n, "c": [0] * (n // 2) + [1] * (n - n // 2), "resp": resp, "alt": rng.choice(ALTS), "reps": 8,
                   "plus1": rng.random() < 0.5, "seed": real_seed(rng), "gseed": rng.randint(0, 10**6)}


def to_arr(vals, dtype):
    if dtype == "object":
        return np.array([float(v) for v in vals], dtype=object)
    return arr(vals, dtype)


def run_pwgx(c):
    """permute_within_groups on data forms the tape model does not carry: 2-D (units x variables), record arrays, NaN labels"""
    n = len(c["g"]); g = np.array(c["g"], dtype=float if c["kind"] == "nanlabel" else int)
    if c["kind"] == "nanlabel":
        for i in c["nanpos"]: g[i] = np.nan
        x = np.array(c["vals"][:n], dtype=float) + np.arange(n) * 16.0
    elif c["kind"] == "2d":
        x = np.array(c["vals"][:n * c["ncol"]], dtype=float).reshape(n, c["ncol"]) + (np.arange(n) * 16.0)[:, None]
    else:
        x = np.zeros(n, dtype=[("a", float), ("b", int)]); x["a"] = np.array(c["vals"][:n], dtype=float) + np.arange(n) * 16.0; x["b"] = np.arange(n)
    x0 = x.copy(); g0 = g.copy()
    outs = []
    for rep in range(3):
        # unrelated allocations between the calls: the result must not depend on what the heap held before
        junk = [np.full(n * (rep + 1), float(rep + 7)) for _ in range(4)]
        r = guarded(lambda: utils.permute_within_groups(x, g, c["seed"]))
        outs.append(r[1].tolist() if r[0] == "ok" else list(r)[:2]); del junk
    unmod = bool((x == x0).all()) and bool(((g == g0) | (np.isnan(g) & np.isnan(g0))).all()) if c["kind"] == "nanlabel" else bool((x == x0).all() and (g == g0).all())
    return {"outs": outs, "unmodified": unmod, "x": x0.tolist()}


def oracle_pwgx(c, o):
    if not o["unmodified"]:
        _v = emit({"why": "permute_within_groups modified its arguments", "cls": "pwg:input-modified"})
        if _v: return _v
    first = o["outs"][0]
    if first and first[0] == "exc":
        _v = emit({"why": f"permute_within_groups raised {first} on {c['kind']} data", "cls": "pwg:raises"})
        if _v: return _v
        return None
    if any(out != first for out in o["outs"][1:]):
        _v = emit({"why": f"permute_within_groups(seed={c['seed']}) on {c['kind']} data returned different results on repeated calls: {str(first)[:120]} / {str(o['outs'][1])[:120]}", "cls": "pwg:irreproducible"})
        if _v: return _v
    key = lambda u: json.dumps(u)
    x = o["x"]; g = list(c["g"]); n = len(g)
    if len(first) != n:
        _v = emit({"why": f"permute_within_groups returned {len(first)} units for {n}", "cls": "pwg:inadmissible"})
        if _v: return _v
        return None
    lab = [None if (c["kind"] == "nanlabel" and i in c["nanpos"]) else g[i] for i in range(n)]
    for k in set(lab):
        idx = [i for i in range(n) if lab[i] == k]
        if k is None:
            if any(key(first[i]) != key(x[i]) for i in idx):
                _v = emit({"why": f"units without a stratum label (NaN) did not stay where they are: input {[x[i] for i in idx]}, output {[first[i] for i in idx]}", "cls": "pwg:inadmissible"})
                if _v: return _v
        elif sorted(key(first[i]) for i in idx) != sorted(key(x[i]) for i in idx):
            _v = emit({"why": f"permute_within_groups on {c['kind']} data: stratum {k} held {[x[i] for i in idx]} and now holds {[first[i] for i in idx]}: units are not conserved within the stratum", "cls": "pwg:inadmissible"})
            if _v: return _v
    return None


def run_manyreps(c):
    if c["fn"] == "s2s":
        g = np.array([0, 0, 0, 0, 1, 1, 1, 1]); cond = np.array([0, 1, 0, 1, 0, 1, 0, 1]); resp = np.array(c["resp"], dtype=float)
        call = lambda keep: stratified.stratified_two_sample(g, cond, resp, stat="mean", alternative=c["alt"], reps=c["reps"], keep_dist=keep, seed=c["seed"], plus1=c["plus1"])
    else:
        m = np.array(c["m"])
        def call(keep):
            d = irr.simulate_ts_dist(m, num_perm=c["reps"], keep_dist=keep, seed=c["seed"], plus1=c["plus1"])
            return (d["pvalue"], d["obs_ts"], d["dist"]) if keep else (d["pvalue"], d["obs_ts"])
    a = guarded(lambda: call(True), secs=180); b = guarded(lambda: call(False), secs=180)
    out = {"keep": [a[0]] + ([float(a[1][0]), float(a[1][1]), len(a[1][2])] if a[0] == "ok" else list(a)[1:3]),
           "nokeep": [b[0]] + ([float(b[1][0]), float(b[1][1])] if b[0] == "ok" else list(b)[1:3])}
    if a[0] == "ok":
        d = np.asarray(a[1][2], dtype=float); out["up"] = int(np.sum(d >= float(a[1][1])))
    return out


def oracle_manyreps(c, o):
    name = "stratified_two_sample" if c["fn"] == "s2s" else "simulate_ts_dist"
    if o["keep"][0] != "ok" or o["nokeep"][0] != "ok":
        _v = emit({"why": f"{name}(reps={c['reps']}) raised {o['keep'][:3]} / {o['nokeep'][:3]}", "cls": f"{name}:raises"})
        if _v: return _v
        return None
    p, tst, nd = o["keep"][1:4]
    if nd != c["reps"]:
        _v = emit({"why": f"{name}: len(dist) = {nd}, reps = {c['reps']}", "cls": f"{name}:dist-length"})
        if _v: return _v
    if not close(o["nokeep"][1], p) or not same_result(o["nokeep"][2], tst):
        _v = emit({"why": f"{name}(reps={c['reps']}, seed={c['seed']}): keep_dist=False gives (p, stat) = {o['nokeep'][1:3]}, keep_dist=True {[p, tst]} on the same seed", "cls": f"{name}:keepdist-differs"})
        if _v: return _v
    cc = 1 if c["plus1"] else 0
    pg = Fraction(o["up"] + cc, c["reps"] + cc)
    want = pg if (c["fn"] == "ts" or c["alt"] == "greater") else None
    if want is not None and not close(p, want, 1e-9):
        _v = emit({"why": f"{name}(reps={c['reps']}): p = {p} but (#{{dist >= observed}} + c)/(reps + c) = {float(want)}", "cls": f"{name}:tail:greater"})
        if _v: return _v
    return None


def _run_plain(c):
    f = c["f"]
    if f == "manyreps":
        return run_manyreps(c)
    if f == "pwgx":
        return run_pwgx(c)
    if f == "pwg":
        x = to_arr([F(v) for v in c["x"]], c["dtype"]); g = np.array(c["g"])
        t = Tape(None, chooser_of(c))
        r, unmod, gsame = call_test(utils.permute_within_groups, (x, g, t), {}, (x, g))
        out = {"r": [r[0], [float(v) for v in r[1]]] if r[0] == "ok" else list(r), "log": list(t.log), "unmodified": unmod, "global_same": gsame}
        if c.get("g2") is not None:
            g[:] = c["g2"]
            t2 = Tape(None, chooser_of(c))
            r2, unmod2, _ = call_test(utils.permute_within_groups, (x, g, t2), {}, (x, g))
            out["second"] = {"r": [r2[0], [float(v) for v in r2[1]]] if r2[0] == "ok" else list(r2), "log": list(t2.log), "unmodified": unmod2}
        return out
    if f == "rows":
        m = np.array(c["m"]); t = Tape(None, chooser_of(c)); outs = []
        lay = c.get("layout", "C")      # memory layouts a caller may pass: the rows are the rows whatever the strides
        if lay == "F":
            m = np.asfortranarray(m)
        elif lay == "T":
            m = np.ascontiguousarray(m.T).T
        elif lay == "strided":
            big = np.zeros((m.shape[0], 2 * m.shape[1]), dtype=m.dtype); big[:, ::2] = m; m = big[:, ::2]
        m0 = m.copy(); cur = m
        ok = True
        for _ in range(c["reps"]):
            r = guarded(lambda: utils.permute_rows(cur, t))
            if r[0] != "ok":
                return {"r": list(r)}
            cur = r[1]; outs.append(np.array(cur).tolist())
        return {"r": ["ok", outs], "log": list(t.log), "unmodified": bool((m == m0).all())}
    if f == "spt":
        g = np.array(c["g"]); cond = np.array(c["c"]); resp = np.zeros(len(g))
        rec = []; t = Tape(None, chooser_of(c))
        st = make_statv(c["stat"], rec, c["num"], as_int=True)
        r, unmod, gsame = call_test(stratified.stratified_permutationtest, (g, cond, resp), dict(alternative=c["alt"], reps=c["reps"], testStatistic=st, seed=t, plus1=c["plus1"]), (g, cond, resp))
        if r[0] != "ok":
            return {"r": list(r)}
        p, tst, d = r[1]
        return {"r": ["ok", float(p), None if d is None else float(tst), None if d is None else [float(v) for v in d]], "rec": rec, "log": list(t.log),
                "unmodified": unmod, "global_same": gsame}
    if f == "s2s":
        g = np.array(c["g"]); cond = np.array(c["c"]); resp = arr([F(v) for v in c["resp"]])
        out = {"ord": [int(i) for i in cond.argsort()]}
        for tag, keep, answers in (("a", c["keep"], None), ("b", not c["keep"], "replay")):
            rec = []
            t = Tape(None, chooser_of(c)) if answers is None else Tape([a for (_, a) in out["a"]["log"]])
            st = c["stat"] if c["stat"] == "mean" else make_statv(c["stat"], rec, c["num"])
            r, unmod, gsame = call_test(stratified.stratified_two_sample, (g, cond, resp), dict(stat=st, alternative=c["alt"], reps=c["reps"], keep_dist=keep, seed=t, plus1=c["plus1"]), (g, cond, resp))
            if r[0] != "ok":
                out[tag] = {"r": list(r)}; continue
            v = r[1]
            out[tag] = {"r": ["ok", float(v[0]), float(v[1]), [float(z) for z in v[2]] if keep else None], "rec": rec, "log": list(t.log), "unmodified": unmod,
                        "global_same": gsame, "keep": keep}
        return out
    if f == "biv":
        x = arr([F(v) for v in c["x"]]); g1 = np.array(c["g1"]); g2 = np.array(c["g2"])
        out = {}
        for tag, keep, answers in (("a", c["keep"], None), ("b", not c["keep"], "replay")):
            t = Tape(None, chooser_of(c)) if answers is None else Tape([a for (_, a) in out["a"]["log"]])
            kw = dict(reps=c["reps"], keep_dist=keep, seed=t, plus1=c["plus1"])
            rec = []
            if c.get("cstat"):
                def cst(xx, gg1, gg2, xbar, rec=rec):
                    rec.append((np.array(gg1).tolist(), np.array(gg2).tolist(), float(xbar)))
                    return float(sum(float(v) * (i + 1) for i, v in enumerate(np.asarray(xx, dtype=float)) if gg2[i] == min(np.array(gg2).tolist())))
                kw["stat"] = cst
            r, unmod, gsame = call_test(ksample.bivariate_k_sample, (x, g1, g2), kw, (x, g1, g2))
            if r[0] != "ok":
                out[tag] = {"r": list(r)}; continue
            v = r[1]
            out[tag] = {"r": ["ok", float(v[0]), float(v[1]), [float(z) for z in v[2]] if keep else None], "log": list(t.log), "unmodified": unmod, "global_same": gsame, "keep": keep, "rec": rec}
        return out
    if f == "simcorr":
        x = arr([F(v) for v in c["x"]], c.get("xdt", "float")); y = arr([F(v) for v in c["y"]], c.get("ydt", "float")); g = np.array(c["g"])
        t = Tape(None, chooser_of(c))
        r, unmod, gsame = call_test(stratified.sim_corr, (x, y, g), dict(reps=c["reps"], alternative=c["alt"], seed=t, plus1=c["plus1"]), (x, y, g))
        if r[0] != "ok":
            return {"r": list(r)}
        p, tst, d = r[1]
        return {"r": ["ok", float(p), float(tst), [float(v) for v in d]], "log": list(t.log), "unmodified": unmod, "global_same": gsame}
    if f == "sptm":
        g = np.array(c["g"]); cond = np.array(c["c"]); resp = arr([F(v) for v in c["resp"]])
        r, unmod, _ = call_test(stratified.stratified_permutationtest_mean, (g, cond, resp), {}, (g, cond, resp))
        return {"r": [r[0], float(r[1])] if r[0] == "ok" else list(r), "unmodified": unmod}
    return run_named(c)


def named_call(c, seed, keep=True):
    g = np.array(c["g"]); cond = np.array(c["c"]); resp = np.array(c["resp"], dtype=float)
    fn = c["fn"]; kw = dict(reps=c["reps"], seed=seed, plus1=c["plus1"])
    if fn == "spt":
        r2 = np.nan_to_num(resp)
        p, tst, d = stratified.stratified_permutationtest(g, cond, r2, alternative=c["alt"], **kw); return p, tst, d
    if fn in ("s2s_mean", "s2s_t", "s2s_mws"):
        st = {"s2s_mean": "mean", "s2s_t": "t", "s2s_mws": "mean_within_strata"}[fn]
        r2 = resp if fn != "s2s_mws" else np.nan_to_num(resp)
        return stratified.stratified_two_sample(g, cond, r2, stat=st, alternative=c["alt"], keep_dist=True, **kw)
    if fn == "sim_corr":
        x = np.nan_to_num(resp) + np.arange(len(g)) * 0.01; y = np.arange(len(g))[::-1] * 1.0 + np.nan_to_num(resp) ** 2
        return stratified.sim_corr(x, y, g, alternative=c["alt"], **kw)
    if fn == "biv":
        x = np.nan_to_num(resp) + np.arange(len(g)) * 0.01
        return ksample.bivariate_k_sample(x, g, cond, keep_dist=True, **kw)
    m = (np.nan_to_num(resp).reshape(-1, 4) > 0).astype(int)
    if m.shape[0] < 2:
        m = np.vstack([m, 1 - m])
    # the reference value may be supplied by the caller (obs_ts=...): the p-value is then the tail count of dist
    # against THAT value; the keep_dist=False twin (same seed) must report the same p-value
    obs = [None, 0.0, 0.5, 1.0, 0.25][seed_int(c["seed"]) % 5]
    d = irr.simulate_ts_dist(m, obs_ts=obs, num_perm=c["reps"], keep_dist=keep, seed=seed, plus1=c["plus1"])
    if not keep:
        return d["pvalue"], d["obs_ts"], []
    return d["pvalue"], d["obs_ts"], d["dist"]


def doc_stat(fn, g, cond, u):
    """the documented statistic, written independently of the library (u = response / condition vector in the order given)"""
    from scipy.stats import ttest_ind
    g = np.array(g); cond = np.array(cond); u = np.array(u, dtype=float)
    def sptm(gg, cc, rr):
        conds = sorted(set(cc.tolist())); tot = 0.0
        for gk in sorted(set(gg.tolist())):
            means = [rr[(gg == gk) & (cc == ck)].mean() for ck in conds]
            tot += abs(means[0] - means[1]) if len(conds) == 2 else float(np.std(means))
        return tot
    if fn == "s2s_mean":
        c0 = cond.min(); return float(np.nanmean(u[cond == c0]) - np.nanmean(u[cond != c0]))
    if fn == "s2s_t":
        c0 = cond.min(); a = u[cond == c0]; b = u[cond != c0]
        a = a[~np.isnan(a)]; b = b[~np.isnan(b)]
        # Student's t with the pooled variance, written out: zero pooled variance gives +-inf for different means, nan for equal ones
        na, nb = len(a), len(b)
        if na + nb < 3 or na == 0 or nb == 0:
            return float("nan")
        sp2 = (float(((a - a.mean()) ** 2).sum()) + float(((b - b.mean()) ** 2).sum())) / (na + nb - 2)
        den = math.sqrt(sp2 * (1.0 / na + 1.0 / nb)); diff = float(a.mean() - b.mean())
        if den == 0:
            return float("nan") if diff == 0 else math.copysign(float("inf"), diff)
        return diff / den
    if fn == "s2s_mws":
        return sptm(g, cond, u)
    raise KeyError(fn)


def doc_corr(x, y, g):
    """documented statistic of sim_corr, written independently of the library: sum over groups of Pearson correlations"""
    x = np.asarray(x, dtype=float); y = np.asarray(y, dtype=float); g = np.asarray(g)
    tot = 0.0
    for k in sorted(set(g.tolist())):
        a = x[g == k]; b = y[g == k]
        da = a - a.mean(); db = b - b.mean()
        den = math.sqrt(float((da * da).sum()) * float((db * db).sum()))
        tot += float((da * db).sum()) / den if den > 0 else float("nan")
    return tot


def run_named_tape(c):
    """stratified_two_sample with a named statistic on a scripted tape: arrangements predicted by the mirror"""
    g = np.array(c["g"]); cond = np.array(c["c"]); resp = np.array(c["resp"], dtype=float)
    if c["fn"] in ("s2s_mws", "spt"):
        resp = np.nan_to_num(resp)
    import random
    t = Tape(None, lazy(random.Random(c["seed"]), "random"))
    if c["fn"] == "spt":
        # default statistic of stratified_permutationtest: the stratified mean statistic of the CONDITIONS rearranged
        # within groups (rows stay where they are)
        r = guarded(lambda: stratified.stratified_permutationtest(g, cond, resp, alternative=c["alt"], reps=c["reps"], seed=t, plus1=c["plus1"]))
        if r[0] != "ok":
            return {"r": list(r)}
        p, tst, d = r[1]
        ans = [a for (_, a) in t.log]
        exp = [doc_stat("s2s_mws", g.tolist(), cond.tolist(), resp.tolist())]
        for _ in range(c["reps"]):
            exp.append(doc_stat("s2s_mws", g.tolist(), m_pwg(cond.tolist(), g.tolist(), ans), resp.tolist()))
        return {"r": ["ok", float(p), float(tst), [float(v) for v in d]], "expected": exp, "leftover": len(ans)}
    st = {"s2s_mean": "mean", "s2s_t": "t", "s2s_mws": "mean_within_strata"}[c["fn"]]
    r = guarded(lambda: stratified.stratified_two_sample(g, cond, resp, stat=st, alternative=c["alt"], reps=c["reps"], keep_dist=True, seed=t, plus1=c["plus1"]))
    if r[0] != "ok":
        return {"r": list(r)}
    p, tst, d = r[1]
    ordd = cond.argsort()
    r0 = resp[ordd].tolist(); g0 = g[ordd].tolist(); c0 = cond[ordd].tolist()
    ans = [a for (_, a) in t.log]
    exp = [doc_stat(c["fn"], g0, c0, r0)]
    for _ in range(c["reps"]):
        exp.append(doc_stat(c["fn"], g0, c0, m_pwg(r0, g0, ans)))
    return {"r": ["ok", float(p), float(tst), [float(v) for v in d]], "expected": exp, "leftover": len(ans)}


def run_named(c):
    out = {}
    if c["fn"] in ("s2s_mean", "s2s_t", "s2s_mws", "spt"):
        out["tape"] = run_named_tape(c)
    def one(tag, mk, gs):
        np.random.seed(gs); g0 = global_state()
        r = guarded(lambda: named_call(c, mk()))
        g1 = global_state()
        if r[0] != "ok":
            out[tag] = {"r": list(r)}; return
        p, tst, d = r[1]
        out[tag] = {"r": ["ok", float(p), float(tst), [float(v) for v in d]], "global_same": g0 == g1}
    one("int1", lambda: c["seed"], c["gseed"]); one("int2", lambda: c["seed"], c["gseed"] + 1)
    one("sha", lambda: SHA256(c["seed"]), c["gseed"] + 2)
    one("rs1", lambda: np.random.RandomState(seed_int(c["seed"])), c["gseed"] + 3); one("rs2", lambda: np.random.RandomState(seed_int(c["seed"])), c["gseed"] + 4)
    if c["fn"] == "ts":
        r = guarded(lambda: named_call(c, c["seed"], keep=False))
        out["nokeep"] = {"r": ["ok", float(r[1][0]), float(r[1][1]), []] if r[0] == "ok" else list(r)}
    return out


# ------------------------------------------------------------------------------------------------
def zl(l):
    return clist(l)


def to_coq(c, o):
    f = c["f"]
    if f == "pwg":
        if o["r"][0] != "ok": return None
        return f"PwgCase {qlist([F(v) for v in c['x']])} {zl(c['g'])} {tape_coq(o['log'])} {qlist([fl(v) for v in o['r'][1]])} {cnat(len(o['log']))}"
    if f == "rows":
        if o["r"][0] != "ok": return None
        qm = lambda m: clist(m, lambda r: qlist([Fraction(v) for v in r]))
        return f"RowsCase {qm(c['m'])} {cnat(c['reps'])} {tape_coq(o['log'])} {clist(o['r'][1], qm)} {cnat(len(o['log']))}"
    if f == "spt":
        if o["r"][0] != "ok": return None
        if o["r"][3] is None:
            impl = "None"; rec = "[]"
        else:
            impl = f"(Some ({cq(fl(o['r'][1]))}, {cq(fl(o['r'][2]))}, {qlist([fl(v) for v in o['r'][3]])}))"
            rec = clist(o["rec"][1:], zl)
        return (f"SptCase {zl(c['g'])} {zl(c['c'])} {c['stat']} {CALT[c['alt']]} {cnat(c['reps'])} {cbool(c['plus1'])} {tape_coq(o['log'])} "
                f"{impl} {rec} {cnat(len(o['log']))}")
    if f == "s2s":
        a = o["a"]
        if a["r"][0] != "ok": return None
        st = "None" if c["stat"] == "mean" else f"(Some {c['stat']})"
        rec = "None" if c["stat"] == "mean" else "(Some " + clist(a["rec"][1:], lambda z: qlist([fl(v) for v in z])) + ")"
        d = copt(None if a["r"][3] is None else [fl(v) for v in a["r"][3]], qlist)
        return (f"S2sCase {zl(c['g'])} {zl(c['c'])} {qlist([F(v) for v in c['resp']])} {clist(o['ord'], cnat)} {st} {CALT[c['alt']]} {cnat(c['reps'])} "
                f"{cbool(c['plus1'])} {tape_coq(a['log'])} {cq(fl(a['r'][1]))} {cq(fl(a['r'][2]))} {d} {rec} {cnat(len(a['log']))}")
    if f == "biv":
        if c.get("cstat"):
            return None
        a = o["a"]
        b = o["b"]
        if a["r"][0] != "ok" or b["r"][0] != "ok" or not math.isfinite(a["r"][2]): return None
        if any(t["r"][3] is not None and not all(math.isfinite(v) for v in t["r"][3]) for t in (a, b)):
            SKIPPED[0] += 1; return None      # SST = SSB on some rearrangement: statistic not finite
        d = copt(None if a["r"][3] is None else [fl(v) for v in a["r"][3]], qlist)
        return (f"BivCase {qlist([F(v) for v in c['x']])} {zl(c['g1'])} {zl(c['g2'])} {cnat(c['reps'])} {cbool(c['plus1'])} {tape_coq(a['log'])} "
                f"{cq(fl(a['r'][1]))} {cq(fl(a['r'][2]))} {d} {cnat(len(a['log']))}")
    if f == "simcorr":
        if o["r"][0] != "ok": return None
        ans = [a for (_, a) in o["log"]]
        x = [F(v) for v in c["x"]]
        seen = [m_pwg(x, c["g"], ans) for _ in range(c["reps"])]
        return f"ArrCase {qlist(x)} {zl(c['g'])} {cnat(c['reps'])} {tape_coq(o['log'])} {clist(seen, qlist)} {cnat(len(o['log']))}"
    if f == "sptm":
        r = o["r"]
        if len(set(c["c"])) > 2: return None
        impl = cres(("ok", fl(r[1])) if r[0] == "ok" else r, cq)
        return f"Sptm2Case {zl(c['g'])} {zl(c['c'])} {qlist([F(v) for v in c['resp']])} {impl}"
    return None


def extra_terms(c, o):
    out = []
    if c["f"] == "pwg" and "second" in o and o["second"]["r"][0] == "ok":
        s = o["second"]
        out.append(f"PwgCase {qlist([F(v) for v in c['x']])} {zl(c['g2'])} {tape_coq(s['log'])} {qlist([fl(v) for v in s['r'][1]])} {cnat(len(s['log']))}")
    if c["f"] == "simcorr" and o["r"][0] == "ok" and all(math.isfinite(v) for v in o["r"][3] + [o["r"][2]]):
        out.append(f"StratPval {CALT[c['alt']]} {cq(fl(o['r'][2]))} {qlist([fl(v) for v in o['r'][3]])} {cbool(c['plus1'])} {cq(fl(o['r'][1]))}")
    if c["f"] == "named" and c["fn"] in ("spt", "s2s_mean", "s2s_t", "s2s_mws", "sim_corr"):
        r = o["int1"]["r"]
        if r[0] == "ok" and all(math.isfinite(v) for v in r[3] + [r[2]]):
            out.append(f"StratPval {CALT[c['alt']]} {cq(fl(r[2]))} {qlist([fl(v) for v in r[3]])} {cbool(c['plus1'])} {cq(fl(r[1]))}")
    return out


# ---------------------------------- oracles ----------------------------------
def spec_p(alt, tst, d, plus1):
    cc = 1 if plus1 else 0; reps = len(d)
    up = Fraction(sum(1 for v in d if v >= tst) + cc, reps + cc)
    dn = Fraction(sum(1 for v in d if v <= tst) + cc, reps + cc)
    return {"greater": up, "less": dn, "two-sided": min(Fraction(1), 2 * min(up, dn))}[alt]


CANON = {"spt": "stratified_permutationtest", "s2s": "stratified_two_sample", "s2s_mean": "stratified_two_sample", "s2s_t": "stratified_two_sample",
         "s2s_mws": "stratified_two_sample", "biv": "bivariate_k_sample", "ts": "simulate_ts_dist"}


def tail_check(name, alt, p, tst, d, plus1):
    name = CANON.get(name, name)
    want = spec_p(alt, fl(tst), [fl(v) for v in d], plus1)
    if not close(p, want):
        cls = f"{name}:tail:{alt}"
        if alt in ("less", "two-sided") and name in ("sim_corr", "stratified_permutationtest", "stratified_two_sample"):
            # the recorded known finding is ONE specific wrong table: less = 1 - greater, two-sided = 2 min(greater, 1 - greater);
            # any other value is a different defect and keeps its own class
            pg = spec_p("greater", fl(tst), [fl(v) for v in d], plus1)
            recorded = 1 - pg if alt == "less" else 2 * min(pg, 1 - pg)
            if not close(p, recorded):
                cls += ":not-the-recorded-table"
        return {"why": f"{name}: p={p} but (#{{dist as extreme as observed, {alt}}}+c)/(reps+c) = {want} (obs={tst}, dist={d}, plus1={plus1})",
                "cls": cls}
    return None


def within_strata_ok(orig, new, g):
    for k in set(g):
        if sorted(orig[i] for i in range(len(g)) if g[i] == k) != sorted(new[i] for i in range(len(g)) if g[i] == k):
            return False
    return len(orig) == len(new)


def _oracle_plain(c, o):
    f = c["f"]
    if f == "pwgx":
        return oracle_pwgx(c, o)
    if f == "manyreps":
        return oracle_manyreps(c, o)
    if f == "pwg":
        if o["r"][0] != "ok":
            _v = emit({"why": f"permute_within_groups raised {o['r']}", "cls": "pwg:raises"})
            if _v: return _v
        if not o["unmodified"]:
            _v = emit({"why": "permute_within_groups modified its arguments", "cls": "pwg:input-modified"})
            if _v: return _v
        if not o["global_same"]:
            _v = emit({"why": "permute_within_groups with a generator advanced the global state", "cls": "pwg:global-rng"})
            if _v: return _v
        x = [F(v) for v in c["x"]]
        if not within_strata_ok(x, [fl(v) for v in o["r"][1]], c["g"]):
            _v = emit({"why": f"permute_within_groups moved values between groups: {c['x']} / {c['g']} -> {o['r'][1]}", "cls": "pwg:inadmissible"})
            if _v: return _v
        sizes = sorted(c["g"].count(k) for k in set(c["g"]))
        want = [b for s in [c["g"].count(k) for k in sorted(set(c["g"]))] for b in range(s, 0, -1)]
        if [b for (b, _) in o["log"]] != want:
            _v = emit({"why": f"permute_within_groups requested draws with bounds {[b for (b, _) in o['log']]}, expected one Fisher-Yates pass per group {want} independent of the data", "cls": "pwg:draws-depend-on-data"})
            if _v: return _v
        if "second" in o:
            s = o["second"]; g2 = c["g2"]
            if s["r"][0] != "ok":
                _v = emit({"why": f"permute_within_groups raised on the second call of a session: {s['r']}", "cls": "pwg:raises"})
                if _v: return _v
            if not s["unmodified"]:
                _v = emit({"why": "permute_within_groups modified its arguments (second call)", "cls": "pwg:input-modified"})
                if _v: return _v
            if not within_strata_ok(x, [fl(v) for v in s["r"][1]], g2):
                _v = emit({"why": f"after the group array was changed in place from {c['g']} to {g2}, permute_within_groups moved values between the NEW groups: {c['x']} -> {s['r'][1]}", "cls": "pwg:inadmissible"})
                if _v: return _v
            want2 = [b for k in sorted(set(g2)) for b in range(g2.count(k), 0, -1)]
            if [b for (b, _) in s["log"]] != want2:
                _v = emit({"why": f"second call (group array changed in place to {g2}): draws with bounds {[b for (b, _) in s['log']]}, expected {want2}", "cls": "pwg:draws-depend-on-data"})
                if _v: return _v
        return None
    if f == "rows":
        if o["r"][0] != "ok":
            _v = emit({"why": f"permute_rows raised {o['r']}", "cls": "rows:raises"})
            if _v: return _v
        if not o["unmodified"]:
            _v = emit({"why": "permute_rows modified its argument", "cls": "rows:input-modified"})
            if _v: return _v
        for m2 in o["r"][1]:
            if len(m2) != len(c["m"]) or any(sorted(a) != sorted(b) for a, b in zip(m2, c["m"])):
                _v = emit({"why": f"permute_rows output {m2} is not a row-wise rearrangement of {c['m']}", "cls": "rows:inadmissible"})
                if _v: return _v
        return None
    if f == "spt":
        if o["r"][0] != "ok":
            _v = emit({"why": f"stratified_permutationtest raised {o['r']}", "cls": "spt:raises"})
            if _v: return _v
        if o["r"][3] is None:
            if len(set(c["c"])) >= 2:
                _v = emit({"why": "stratified_permutationtest returned no distribution", "cls": "spt:nodist"})
                if _v: return _v
            return None if o["r"][1] == 1.0 else {"why": f"stratified_permutationtest with a single condition returned p = {o['r'][1]} (documented: 1.0, nan, None)", "cls": "spt:p-range"}
        if not o["unmodified"]:
            _v = emit({"why": "stratified_permutationtest modified its arguments", "cls": "spt:input-modified"})
            if _v: return _v
        if not o["global_same"]:
            _v = emit({"why": "stratified_permutationtest advanced the global state", "cls": "spt:global-rng"})
            if _v: return _v
        for v in o["rec"][1:]:
            if not within_strata_ok(c["c"], v, c["g"]):
                _v = emit({"why": f"stratified_permutationtest: rearranged conditions {v} move labels between groups {c['g']} (original {c['c']})", "cls": "spt:inadmissible"})
                if _v: return _v
        if o["rec"] and o["rec"][0] != c["c"]:
            _v = emit({"why": "observed statistic not evaluated on the conditions as given", "cls": "spt:observed-not-data"})
            if _v: return _v
        if len(o["r"][3]) != c["reps"]:
            _v = emit({"why": "len(dist) != reps", "cls": "spt:dist-length"})
            if _v: return _v
        return tail_check("spt", c["alt"], o["r"][1], o["r"][2], o["r"][3], c["plus1"])
    if f == "s2s":
        a, b = o["a"], o["b"]
        if a["r"][0] != "ok" or b["r"][0] != "ok":
            _v = emit({"why": f"stratified_two_sample raised {a['r']} {b['r']}", "cls": "s2s:raises"})
            if _v: return _v
        for t in (a, b):
            if not t["unmodified"]:
                _v = emit({"why": "stratified_two_sample modified its arguments", "cls": "s2s:input-modified"})
                if _v: return _v
            if not t["global_same"]:
                _v = emit({"why": "stratified_two_sample advanced the global state", "cls": "s2s:global-rng"})
                if _v: return _v
        kept = a if a["keep"] else b; other = b if a["keep"] else a
        if not close(kept["r"][1], other["r"][1]) or not same_result(kept["r"][2], other["r"][2]):
            _v = emit({"why": f"stratified_two_sample: keep_dist changes the result {kept['r'][:3]} vs {other['r'][:3]}", "cls": "s2s:keepdist-differs"})
            if _v: return _v
        resp = [F(v) for v in c["resp"]]; ordd = o["ord"]
        r0 = [resp[i] for i in ordd]; g0 = [c["g"][i] for i in ordd]
        for t in (a, b):
            for v in t["rec"][1:]:
                if not within_strata_ok(r0, [fl(z) for z in v], g0):
                    _v = emit({"why": f"stratified_two_sample: responses {v} moved between groups", "cls": "s2s:inadmissible"})
                    if _v: return _v
        if len(kept["r"][3]) != c["reps"]:
            _v = emit({"why": "len(dist) != reps", "cls": "s2s:dist-length"})
            if _v: return _v
        if c["stat"] == "mean":
            c0 = min(c["c"]); n0 = c["c"].count(c0)
            t = [resp[i] for i in range(len(resp)) if c["c"][i] == c0]; u = [resp[i] for i in range(len(resp)) if c["c"][i] != c0]
            want = sum(t) / len(t) - sum(u) / len(u)
            if not close(kept["r"][2], want):
                _v = emit({"why": f"stratified_two_sample('mean'): observed {kept['r'][2]} is not the difference in means {float(want)}", "cls": "s2s:observed-stat"})
                if _v: return _v
        return tail_check("s2s", c["alt"], kept["r"][1], kept["r"][2], kept["r"][3], c["plus1"])
    if f == "biv":
        a, b = o["a"], o["b"]
        if a["r"][0] != "ok" or b["r"][0] != "ok":
            _v = emit({"why": f"bivariate_k_sample raised {a['r']} {b['r']}", "cls": "biv:raises"})
            if _v: return _v
        kept = a if a["keep"] else b; other = b if a["keep"] else a
        for t in (a, b):
            if not t["unmodified"]:
                _v = emit({"why": "bivariate_k_sample modified its arguments", "cls": "biv:input-modified"})
                if _v: return _v
            if not t["global_same"]:
                _v = emit({"why": "bivariate_k_sample advanced the global state", "cls": "biv:global-rng"})
                if _v: return _v
        if not all(math.isfinite(v) for v in kept["r"][3] + [kept["r"][2]]):
            return None
        if not close(kept["r"][1], other["r"][1]) or not same_result(kept["r"][2], other["r"][2]):
            _v = emit({"why": "bivariate_k_sample: keep_dist changes the result", "cls": "biv:keepdist-differs"})
            if _v: return _v
        if c.get("cstat"):
            x = [float(F(v)) for v in c["x"]]
            f0 = lambda g2: float(sum(v * (i + 1) for i, v in enumerate(x) if g2[i] == min(g2)))
            for t in (a, b):
                if len(t["rec"]) != c["reps"] + 1:
                    _v = emit({"why": f"bivariate_k_sample called the statistic {len(t['rec'])} times for reps={c['reps']}", "cls": "biv:call-count"})
                    if _v: return _v
                for (gg1, gg2, xbar) in t["rec"]:
                    if gg1 != c["g1"] or not within_strata_ok([F(v) for v in c["g2"]], [F(v) for v in gg2], c["g1"]):
                        _v = emit({"why": f"bivariate_k_sample handed the statistic labels {gg2} (fixed factor {gg1}): not a rearrangement of {c['g2']} within the levels of {c['g1']}", "cls": "biv:inadmissible"})
                        if _v: return _v
                    if abs(xbar - sum(x) / len(x)) > 1e-9 * (1 + abs(xbar)):
                        _v = emit({"why": f"bivariate_k_sample passed overall mean {xbar}", "cls": "biv:observed-stat"})
                        if _v: return _v
            if kept["r"][2] != f0(c["g2"]) or any(dv != f0(gg2) for dv, (_, gg2, _) in zip(kept["r"][3], kept["rec"][1:])):
                _v = emit({"why": "bivariate_k_sample with a callable statistic: reported values are not the callable's values on the data as given / on the rearrangements it received", "cls": "biv:observed-stat"})
                if _v: return _v
            return tail_check("biv", "greater", kept["r"][1], kept["r"][2], kept["r"][3], c["plus1"])
        x = [F(v) for v in c["x"]]; m = sum(x) / len(x)
        sst = sum((v - m) ** 2 for v in x)
        ss2 = sum((sum(x[i] for i in range(len(x)) if c["g2"][i] == k) / c["g2"].count(k) - m) ** 2 for k in set(c["g2"]))
        if sst != ss2 and not close(kept["r"][2], ss2 / (sst - ss2), 1e-9):
            _v = emit({"why": f"bivariate_k_sample: observed statistic {kept['r'][2]} is not SSB/(SST-SSB) = {float(ss2 / (sst - ss2))}", "cls": "biv:observed-stat"})
            if _v: return _v
        return tail_check("biv", "greater", kept["r"][1], kept["r"][2], kept["r"][3], c["plus1"])
    if f == "simcorr":
        if o["r"][0] != "ok":
            _v = emit({"why": f"sim_corr raised {o['r']}", "cls": "sim_corr:raises"})
            if _v: return _v
        if not o["unmodified"]:
            _v = emit({"why": "sim_corr modified its arguments", "cls": "sim_corr:input-modified"})
            if _v: return _v
        if not o["global_same"]:
            _v = emit({"why": "sim_corr advanced the global state", "cls": "sim_corr:global-rng"})
            if _v: return _v
        p, tst, d = o["r"][1:4]
        x = [float(F(v)) for v in c["x"]]; y = np.array([float(F(v)) for v in c["y"]]); g = np.array(c["g"])
        ans = [a for (_, a) in o["log"]]
        e0 = doc_corr(x, y, g)
        want_bounds = [b for k in sorted(set(c["g"])) for b in range(c["g"].count(k), 0, -1)] * c["reps"]
        if [b for (b, _) in o["log"]] != want_bounds:
            _v = emit({"why": f"sim_corr requested draws with bounds {[b for (b, _) in o['log']][:12]}..., expected one Fisher-Yates pass per group and repetition {want_bounds[:12]}...", "cls": "sim_corr:draws-depend-on-data"})
            if _v: return _v
        if math.isfinite(e0) and not (abs(e0 - tst) <= 1e-9 * (1 + abs(e0))):
            _v = emit({"why": f"sim_corr: observed statistic {tst} is not the sum over groups of the Pearson correlations of the data as given ({e0}); groups {c['g']}", "cls": "sim_corr:observed-stat"})
            if _v: return _v
        for k in range(c["reps"]):
            xp = np.array(m_pwg(x, c["g"], ans))
            e = doc_corr(xp, y, g)
            if math.isfinite(e) and not (abs(e - d[k]) <= 1e-9 * (1 + abs(e))):      # a NaN where the documented value is finite fails too
                _v = emit({"why": f"sim_corr: repetition {k} has statistic {d[k]} but the within-group re-pairing selected by the draws gives {e}", "cls": "sim_corr:wrong-rearrangement"})
                if _v: return _v
        if not all(math.isfinite(v) for v in d + [tst]): return None
        return tail_check("sim_corr", c["alt"], p, tst, d, c["plus1"])
    if f == "sptm":
        r = o["r"]
        nc = len(set(c["c"]))
        if nc < 2:
            return None if (r[0] == "exc" and r[1] == "ValueError") else {"why": f"stratified_permutationtest_mean with one condition: {r}", "cls": "sptm:guard"}
        if r[0] != "ok":
            _v = emit({"why": f"stratified_permutationtest_mean raised {r}", "cls": "sptm:raises"})
            if _v: return _v
        resp = [float(F(v)) for v in c["resp"]]
        tot = 0.0
        for gk in sorted(set(c["g"])):
            means = [np.mean([resp[i] for i in range(len(resp)) if c["g"][i] == gk and c["c"][i] == ck]) for ck in sorted(set(c["c"]))]
            tot += abs(means[0] - means[1]) if nc == 2 else float(np.std(means))
        if abs(r[1] - tot) > 1e-9 * (1 + abs(tot)):
            _v = emit({"why": f"stratified mean statistic {r[1]} but documented (sum of |diff| for 2 conditions, of std for more) = {tot}; groups={c['g']} conditions={c['c']}", "cls": "sptm:stat-choice"})
            if _v: return _v
        return None
    # named
    name = c["fn"]
    if "tape" in o:
        tp = o.pop("tape")
        if tp["r"][0] != "ok":
            _v = emit({"why": f"{name} raised on a scripted tape: {tp['r']}", "cls": f"{CANON.get(name, name)}:raises"})
            if _v: return _v
        got = [tp["r"][2]] + tp["r"][3]
        if tp.get("leftover"):
            return {"why": f"{CANON.get(name, name)} drew {tp['leftover']} more answers than one within-stratum pass for each of the {c['reps']} repetitions: the number of draws depends on the data (response={c['resp']})",
                    "cls": f"{CANON.get(name, name)}:draws-depend-on-data"}
        for k, (gv, ev) in enumerate(zip(got, tp["expected"])):
            if (math.isfinite(ev) and not (abs(gv - ev) <= 1e-9 * (1 + abs(ev)))) or (math.isinf(ev) and gv != ev):
                what = "observed statistic" if k == 0 else f"simulated value {k - 1}"
                fnn = "stratified_permutationtest (default statistic)" if name == "spt" else f"stratified_two_sample(stat={name[4:]!r})"
                return {"why": f"{fnn}: {what} = {gv} but the documented statistic on the {'data as given' if k == 0 else 'within-stratum rearrangement selected by the draws'} is {ev} (response={c['resp']})",
                        "cls": f"{CANON.get(name, name)}:stat-option:{name[4:] if name != 'spt' else 'mean'}"}
    rs = {k: v["r"] for k, v in o.items()}
    if any(v[0] != "ok" for v in rs.values()):
        _v = emit({"why": f"{name} raised: {[(k, v[:3]) for k, v in rs.items() if v[0] != 'ok']}", "cls": f"{name}:raises"})
        if _v: return _v
    if "nokeep" in rs:
        nk = rs.pop("nokeep"); o = {k: v for k, v in o.items() if k != "nokeep"}
        if not close(nk[1], rs["int1"][1]) or not same_result(nk[2], rs["int1"][2]):
            _v = emit({"why": f"{name}: keep_dist=False gives (p, obs) = {nk[1:3]}, keep_dist=True {rs['int1'][1:3]} under the same seed", "cls": f"{CANON.get(name, name)}:keepdist-differs"})
            if _v: return _v
    def same(a, b):
        return len(a) == len(b) and all((x == y) or (isinstance(x, float) and isinstance(y, float) and math.isnan(x) and math.isnan(y)) or (isinstance(x, list) and same(x, y)) for x, y in zip(a, b))
    if not same(rs["int1"], rs["int2"]):
        _v = emit({"why": f"{name}: equal seeds under different numpy global states differ", "cls": f"{name}:irreproducible"})
        if _v: return _v
    if not same(rs["int1"], rs["sha"]):
        _v = emit({"why": f"{name}: int seed vs SHA256(seed) differ", "cls": f"{name}:int-vs-sha256"})
        if _v: return _v
    if not same(rs["rs1"], rs["rs2"]):
        _v = emit({"why": f"{name}: RandomState replay differs", "cls": f"{name}:randomstate-replay"})
        if _v: return _v
    for k, v in o.items():
        if not v.get("global_same", True):
            _v = emit({"why": f"{name} ({k}) advanced numpy's global random state", "cls": f"{name}:global-rng"})
            if _v: return _v
    p, tst, d = rs["int1"][1:4]
    if name == "ts":
        ov = [None, 0.0, 0.5, 1.0, 0.25][seed_int(c["seed"]) % 5]
        if ov is not None and tst != ov:
            _v = emit({"why": f"simulate_ts_dist(obs_ts={ov}) reports the reference value {tst}: the value supplied by the caller is the one the p-value must be computed against", "cls": "simulate_ts_dist:observed-stat"})
            if _v: return _v
    if len(d) != c["reps"]:
        _v = emit({"why": f"{name}: len(dist) != reps", "cls": f"{name}:dist-length"})
        if _v: return _v
    alt = c["alt"] if name not in ("biv", "ts") else "greater"
    if all(math.isfinite(v) for v in d + [tst]):
        return tail_check(name, alt, p, tst, d, c["plus1"])
    if not any(math.isnan(v) for v in d + [tst]) and alt == "greater":
        # infinite values are ordinary extended reals for the tail count (+-inf compare exactly)
        cc = 1 if c["plus1"] else 0
        want = Fraction(sum(1 for v in d if v >= tst) + cc, len(d) + cc)
        if not close(p, want):
            return {"why": f"{CANON.get(name, name)}: p={p} but (#{{dist >= observed}}+c)/(reps+c) = {want} (obs={tst}, dist={d}, plus1={c['plus1']})",
                    "cls": f"{CANON.get(name, name)}:tail:greater"}
    return None


def nontrivial(c, o):
    f = c["f"]
    if f in ("pwg",):
        return o["r"][0] == "ok" and len(set(c["g"])) > 1 and len(set(c["x"])) > 1
    if f in ("s2s", "biv"):
        a = o["a"]; return a["r"][0] == "ok"
    return o.get("r", ["ok"])[0] == "ok" if "r" in o else True


def key(c):
    return json.dumps(c, sort_keys=True, default=str)


def run(c):
    o = _run_plain(c)
    if isinstance(o, dict):
        o["retained_changed"] = retained_changed(_REC)
    return o


def oracle(c, o):
    if isinstance(o, dict) and o.get("retained_changed"):
        v = emit({"why": "results kept by the caller changed when later calls were made: " + o["retained_changed"], "cls": "results:p-not-from-dist"})
        if v: return v
    if isinstance(o, dict) and "retained_changed" in o:
        o = {k: v for k, v in o.items() if k != "retained_changed"}
    return _oracle_plain(c, o)
