"""Scripted generators: the unmodified library is driven through a subclass of cryptorandom.SHA256 that
answers every request from a tape (or lazily from a strategy) and logs (bound, answer)."""
import numpy as np
from cryptorandom.cryptorandom import SHA256


class TapeExhausted(Exception):
    pass


class Tape(SHA256):
    """answers: list of ints to replay, or None to draw lazily with `chooser(bound)`"""
    def __init__(self, answers=None, chooser=None):
        super().__init__(0)
        self.answers = None if answers is None else list(answers)
        self.chooser = chooser
        self.log = []          # (bound, answer)
        self.kinds = []
        self.forks = []

    def _next(self, bound, kind):
        bound = int(bound)
        if self.answers is not None:
            if not self.answers:
                raise TapeExhausted()
            a = self.answers.pop(0)
        else:
            a = self.chooser(bound)
        assert 0 <= a < bound, (a, bound)
        self.log.append((bound, a)); self.kinds.append(kind)
        return a

    def _randbelow(self, n):
        return self._next(n, "below")

    def getrandbits(self, k):
        raise AssertionError("getrandbits not expected: every request should go through _randbelow/randint/random")

    def randbelow_from_randbits(self, n):
        return self._next(n, "below")

    def random(self, size=None):
        if size is None:
            raise AssertionError("scalar random() not expected")
        k = int(np.prod(size))
        # fykd_sample(n, n): J_i = int(i + u_i*(n - i)); answer d_i = J_i - i, bound n - i
        out = np.empty(k, dtype=object)
        for i in range(k):
            d = self._next(k - i, "unit")
            out[i] = (d + 0.5) / (k - i)
        return out.reshape(size)

    def randint(self, a, b, size=None):
        if size is None:
            return a + self._next(b - a, "below")
        k = int(np.prod(size))
        return np.array([a + self._next(b - a, "below") for _ in range(k)]).reshape(size)

    def __deepcopy__(self, memo):
        # a deep copy (Experiment with in_place=False) is a FORK: a new scripted generator with its own answers and log,
        # registered with its parent so that the harness sees every request (cryptorandom's own SHA256 copies likewise
        # continue as a different stream and leave the original generator where it was)
        import random
        child = Tape(None, lazy(random.Random(len(self.log) * 7919 + len(self.forks) + 13), "random"))
        self.forks.append(child)
        return child


class RefTape(Tape):
    """a logging proxy around a REAL cryptorandom.SHA256: every primitive request (random(size), randint, _randbelow) is
    answered by the reference generator itself.  It is a subclass, so code that special-cases the exact class SHA256 takes its
    generic path; results obtained with a plain SHA256(seed) instance must equal those obtained with RefTape(SHA256(seed))."""
    def __init__(self, ref):
        super().__init__(None, None)
        self.ref = ref

    def _randbelow(self, n):
        # random.Random.shuffle / choice / randrange ask the INSTANCE's _randbelow (rejection sampling on getrandbits)
        a = self.ref._randbelow(int(n)); self.log.append((int(n), int(a))); self.kinds.append("below"); return a

    def randbelow_from_randbits(self, n):
        a = self.ref.randbelow_from_randbits(int(n)); self.log.append((int(n), int(a))); self.kinds.append("below"); return a

    def random(self, size=None):
        out = self.ref.random(size)
        self.log.append((0, -1)); self.kinds.append("unit-block")
        return out

    def randint(self, a, b, size=None):
        out = self.ref.randint(a, b, size)
        self.log.append((int(b - a), -1)); self.kinds.append("below-block")
        return out

    def getrandbits(self, k):
        return self.ref.getrandbits(k)

    def __deepcopy__(self, memo):
        import copy
        return RefTape(copy.deepcopy(self.ref, memo))


def lazy(rng, mode="random"):
    if mode == "zero":
        return lambda m: 0
    if mode == "max":
        return lambda m: m - 1
    return lambda m: rng.randrange(m)


# ---- Python mirror of Model/Prng.v (used to predict rearrangements for named float statistics; it is itself
# compared with the Gallina model in Coq on every case that uses it) ----
class MirrorMismatch(Exception):
    """the implementation requested fewer/other draws than the Fisher-Yates passes the design calls for"""


def m_fy(x, ans):
    """cryptorandom fykd via random_permutation: consumes len(x) answers"""
    a = list(x); n = len(a)
    if len(ans) < n:
        raise MirrorMismatch()
    for i in range(n):
        J = i + ans.pop(0)
        if J >= n:
            raise MirrorMismatch()
        a[i], a[J] = a[J], a[i]
    return a


def m_pyshuffle(x, ans):
    a = list(x)
    for i in reversed(range(1, len(a))):
        if not ans:
            raise MirrorMismatch()
        j = ans.pop(0)
        if not 0 <= j <= i:
            raise MirrorMismatch()
        a[i], a[j] = a[j], a[i]
    return a


def m_sample_all(x, ans):
    pop = list(x); out = []
    n = len(pop)
    for i in range(n):
        w = ans.pop(0)
        out.append(pop[w])
        last = pop.pop()
        if w < n - i - 1:
            pop[w] = last
    return out


class LogRS(np.random.RandomState):
    """logging RandomState: records the method-call structure, delegates to NumPy"""
    def __init__(self, *a):
        super().__init__(*a); self.calls = []

    def shuffle(self, x):
        self.calls.append(("shuffle", len(x))); return super().shuffle(x)

    def randint(self, *a, **k):
        self.calls.append(("randint",) + tuple(int(v) if np.isscalar(v) else tuple(v) for v in a)); return super().randint(*a, **k)

    def random(self, *a, **k):
        self.calls.append(("random",) + tuple(a)); return super().random(*a, **k)

    def choice(self, *a, **k):
        n = int(a[0]) if np.isscalar(a[0]) else len(a[0])
        self.calls.append(("choice", n) + tuple(sorted((kk, str(vv)) for kk, vv in k.items())) + tuple(str(v) for v in a[1:]))
        return super().choice(*a, **k)

    def permutation(self, x):
        self.calls.append(("permutation", int(x) if np.isscalar(x) else len(x))); return super().permutation(x)


def m_pwg(x, group, ans):
    out = list(x)
    for k in sorted(set(group)):
        pos = [i for i, g in enumerate(group) if g == k]
        vals = m_fy([out[i] for i in pos], ans)
        for i, v in zip(pos, vals):
            out[i] = v
    return out


def m_rows(m, ans):
    return [m_fy(r, ans) for r in m]
