"""Fail-closed AST scan of /repo/permute/*.py for the two effect clauses that no pure model can express:
  G1 (C06): every use of numpy's global generator (np.random.<fn>) -- allowed only inside get_prng (seed is None branch)
  G2 (C03): every statement that can write into an object received as a parameter (subscript/attribute store, augmented
            assignment, in-place method or function) while the name still denotes the caller's object.
The result is emitted as a Coq list and the obligation `forallb site_ok sites = true` is re-checked by coqc on every run."""
import ast, os, glob

INPLACE_METHODS = {"sort", "shuffle", "fill", "put", "resize", "itemset", "partition", "setfield", "byteswap", "append", "extend", "insert", "pop", "remove", "clear", "update", "reverse"}
INPLACE_FUNCS = {"shuffle", "put", "copyto", "place", "putmask", "fill_diagonal"}
FRESH_CALLS = {"copy", "deepcopy", "array", "asarray_copy", "zeros", "ones", "empty", "zeros_like", "ones_like", "empty_like", "concatenate", "column_stack", "vstack",
               "hstack", "take", "unique", "arange", "astype", "list", "dict", "sorted", "random_permutation", "random_sample", "permute", "permute_within_groups",
               "permute_rows", "argsort", "rankdata", "nan_to_num", "where", "setdiff1d"}


def root_name(node):
    while isinstance(node, (ast.Subscript, ast.Attribute)):
        node = node.value
    return node.id if isinstance(node, ast.Name) else None


def is_fresh(value):
    """does the expression certainly denote newly allocated memory (or an immutable scalar)?"""
    if isinstance(value, (ast.BinOp, ast.UnaryOp, ast.Compare, ast.BoolOp, ast.Constant, ast.List, ast.Dict, ast.ListComp, ast.DictComp, ast.Tuple, ast.Lambda, ast.JoinedStr)):
        return True
    if isinstance(value, ast.Call):
        f = value.func
        name = f.attr if isinstance(f, ast.Attribute) else (f.id if isinstance(f, ast.Name) else None)
        return name in FRESH_CALLS or name in ("len", "int", "float", "range", "min", "max", "abs", "sum", "get_prng", "SHA256", "Randomizer", "mean", "corrcoef")
    if isinstance(value, ast.Subscript):
        # boolean-mask / fancy indexing copies; a plain slice or integer index is a view: treat x[...] as NOT fresh
        return False
    return False


VIEW_CALLS = {"asarray", "asanyarray", "ascontiguousarray", "asfortranarray", "atleast_1d", "atleast_2d", "ravel", "reshape", "squeeze", "view",
              "transpose", "swapaxes", "diagonal", "require", "array"}      # np.array(x, copy=False) included conservatively


def call_may_return_argument(call, alias):
    f = call.func
    name = f.attr if isinstance(f, ast.Attribute) else (f.id if isinstance(f, ast.Name) else None)
    if name not in VIEW_CALLS:
        return False
    if name == "array" and not any(k.arg == "copy" for k in call.keywords):
        return False
    cands = list(call.args) + ([f.value] if isinstance(f, ast.Attribute) else [])
    return any(isinstance(a, (ast.Name, ast.Subscript, ast.Attribute)) and root_name(a) in alias for a in cands)


class FnScan(ast.NodeVisitor):
    def __init__(self, fname, func):
        self.fname, self.func = fname, func
        self.params = {a.arg for a in func.args.args + func.args.kwonlyargs}
        if func.args.vararg: self.params.add(func.args.vararg.arg)
        if func.args.kwarg: self.params.add(func.args.kwarg.arg)
        self.alias = set(self.params)        # names that may still denote caller-owned objects
        self.writes = []                     # (lineno, kind, name)
        self.globals_rng = []                # (lineno, text)
        self.calls = []                      # (callee name, [may the i-th positional argument be caller-owned?], {keyword: ...})

    def visit_FunctionDef(self, node):
        if node is self.func:
            for st in node.body:
                self.visit(st)
        # nested functions/lambdas: scanned as part of the enclosing function (closures over parameters)
        else:
            for st in node.body:
                self.visit(st)

    def note_write(self, node, kind):
        n = root_name(node)
        if n in self.alias:
            self.writes.append((node.lineno, kind, n))

    def visit_Assign(self, node):
        self.visit(node.value)
        for t in node.targets:
            for tt in (t.elts if isinstance(t, ast.Tuple) else [t]):
                if isinstance(tt, ast.Name):
                    if is_fresh(node.value):
                        self.alias.discard(tt.id)
                    elif isinstance(node.value, ast.Call) and call_may_return_argument(node.value, self.alias):
                        self.alias.add(tt.id)       # np.asarray(x), x.reshape(...), x.ravel(), x.view(), ... may be x itself
                    else:
                        rn = root_name(node.value) if isinstance(node.value, (ast.Name, ast.Subscript, ast.Attribute)) else None
                        if rn in self.alias or not isinstance(node.value, (ast.Name, ast.Subscript, ast.Attribute)):
                            if rn in self.alias:
                                self.alias.add(tt.id)
                            elif tt.id not in self.params:
                                self.alias.discard(tt.id)
                        else:
                            self.alias.discard(tt.id)
                elif isinstance(tt, (ast.Subscript, ast.Attribute)):
                    self.note_write(tt, "store")

    def visit_AugAssign(self, node):
        self.visit(node.value)
        if isinstance(node.target, ast.Name):
            if node.target.id in self.alias:
                self.writes.append((node.lineno, "augassign", node.target.id))
        else:
            self.note_write(node.target, "augstore")

    def may_be_owned(self, arg):
        """can the argument expression denote (part of) an object the CALLER of this function owns?"""
        if isinstance(arg, ast.Starred):
            return True
        if is_fresh(arg):
            return False
        if isinstance(arg, (ast.Name, ast.Subscript, ast.Attribute)):
            return root_name(arg) in self.alias or root_name(arg) is None
        return True

    def visit_Call(self, node):
        f = node.func
        if isinstance(f, ast.Name):
            self.calls.append((f.id, [self.may_be_owned(a) for a in node.args], {k.arg: self.may_be_owned(k.value) for k in node.keywords}))
        if isinstance(f, ast.Attribute):
            if f.attr in INPLACE_METHODS and root_name(f.value) in self.alias and not (isinstance(f.value, ast.Name) and f.value.id in ("prng", "self")):
                self.writes.append((node.lineno, "method:" + f.attr, root_name(f.value)))
            if f.attr in INPLACE_FUNCS and node.args:
                n = root_name(node.args[0])
                if n in self.alias:
                    self.writes.append((node.lineno, "inplace-call:" + f.attr, n))
            for k in node.keywords:
                if k.arg == "out" and root_name(k.value) in self.alias:
                    self.writes.append((node.lineno, "out=", root_name(k.value)))
            # np.random.<fn>(...)
            if isinstance(f.value, ast.Attribute) and f.value.attr == "random" and isinstance(f.value.value, ast.Name) and f.value.value.id in ("np", "numpy"):
                self.globals_rng.append((node.lineno, f"np.random.{f.attr}"))
        self.generic_visit(node)

    def visit_Attribute(self, node):
        self.generic_visit(node)


def scan(repo=None):
    repo = repo or os.environ.get("VERIF_REPO", "/repo")
    sites, writes = [], []
    for path in sorted(glob.glob(os.path.join(repo, "permute", "*.py"))):
        mod = os.path.basename(path)[:-3]
        if mod in ("conftest", "__init__"):
            continue
        tree = ast.parse(open(path).read())
        funcs = []
        for node in ast.walk(tree):
            if isinstance(node, ast.ClassDef):
                for b in node.body:
                    if isinstance(b, ast.FunctionDef):
                        funcs.append((node.name + "." + b.name, b))
                    if isinstance(b, ast.ClassDef):
                        for bb in b.body:
                            if isinstance(bb, ast.FunctionDef):
                                funcs.append((node.name + "." + b.name + "." + bb.name, bb))
        for node in tree.body:
            if isinstance(node, ast.FunctionDef):
                funcs.append((node.name, node))
        scans = {}
        for name, fn in funcs:
            s = FnScan(name, fn)
            s.visit(fn)
            scans[name] = (s, fn)
            for (ln, what) in s.globals_rng:
                sites.append((mod, name, ln, what))
        for name, (s, fn) in scans.items():
            for (ln, kind, target) in s.writes:
                if private_write_is_local(name, fn, target, scans):
                    continue
                writes.append((mod, name, ln, kind, target))
    return sites, writes


def private_write_is_local(name, fn, target, scans):
    """A module-private helper (leading underscore, module level) may write into one of its parameters when EVERY call
    of it in the module passes, for that parameter, an object that cannot be owned by the caller's caller (a fresh local).
    No call site, a starred / keyword-splat call, or one aliased argument keeps the write on the list."""
    if not name.startswith("_") or name.startswith("__") or "." in name:
        return False
    pos = [a.arg for a in fn.args.args]
    if target not in pos and target not in [a.arg for a in fn.args.kwonlyargs]:
        return False
    found = False
    for cname, (s, _) in scans.items():
        for (callee, flags, kw) in s.calls:
            if callee != name:
                continue
            found = True
            if None in kw:                      # **kwargs at the call site
                return False
            if target in kw:
                owned = kw[target]
            elif target in pos and pos.index(target) < len(flags):
                owned = flags[pos.index(target)]
            else:
                owned = False                   # parameter left at its default: not a caller's object
            if owned:
                return False
    return found


if __name__ == "__main__":
    s, w = scan()
    print("global RNG sites:"); [print("  ", x) for x in s]
    print("parameter writes:"); [print("  ", x) for x in w]
