"""G9: the repetition loops of the Monte-Carlo tests, re-read from /repo's current source text on every run.

For every listed function the translator finds the loops over `range(<reps>)` (for-statements and list comprehensions),
turns each statement of a loop body into ONE instruction of the five-instruction language of coq/Lib/LoopShape.v
(SDraw, SPure, SBind, SStore e, SCount c e op) and writes a Coq file that
  * checks the body with the proved-sound checker `shape_ok` (one rearrangement per repetition, taken before the statistic
    is evaluated; at most one stored value per repetition; each counter updated at most once per repetition),
  * states which counters the body updates with which comparison (hand-fixed expectation per site: hitsUp ~ >=,
    hitsDn ~ <=, hits/geq ~ >=) and how many values it stores, and
  * instantiates `loop_spec`: for every number of repetitions, statistic, reference value and starting state the loop
    stores the statistic of the i-th rearrangement at position i and adds to each counter the number of repetitions
    whose statistic compares as stated with the reference value.
The translator is fail-closed: any statement it cannot classify (a buffer, a block flush, a nested loop, a break, a second
statistic expression, a counter that is not initialised to 0 just before the loop ...) raises Unsupported and the
obligation is reported as broken.  It decides nothing about what the loop computes; that is `shape_ok` + `loop_spec`."""
import ast, os
from .tables import Unsupported, find_function

DRAW_FUNCS = {"permute", "permute_within_groups", "permute_rows", "random_permutation", "random_sample"}
DRAW_METHODS = {"shuffle", "randint", "random", "choice", "sample", "permutation", "random_sample", "getrandbits", "randbelow_from_randbits"}
CMP = {ast.GtE: "CGe", ast.LtE: "CLe", ast.Gt: "CGt", ast.Lt: "CLt"}

# (site name, module, function, reps name, reference-value name, statistic callee texts, expected loops in source order)
# expected loop = (number of stored values per repetition, [(counter name, comparison)])
SITES = {
    "two_sample_core": ("core", "two_sample_core", "reps", "tst", {"tst_stat"}, [(1, []), (0, [("hitsUp", "CGe"), ("hitsDn", "CLe")])]),
    "one_sample": ("core", "one_sample", "reps", "tst", {"tst_fun"}, [(1, []), (0, [("hitsUp", "CGe"), ("hitsDn", "CLe")])]),
    "corr": ("core", "corr", "reps", "tst", {"np.corrcoef"}, [(1, [])]),
    "k_sample": ("ksample", "k_sample", "reps", "observed_tst", {"tst_fun"}, [(1, []), (0, [("hits", "CGe")])]),
    "bivariate_k_sample": ("ksample", "bivariate_k_sample", "reps", "observed_tst", {"tst_fun"}, [(1, []), (0, [("hits", "CGe")])]),
    "sim_corr": ("stratified", "sim_corr", "reps", "tst", {"corrcoef"}, [(1, [])]),
    "stratified_permutationtest": ("stratified", "stratified_permutationtest", "reps", "tst", {"tst_fun"}, [(1, [])]),
    "stratified_two_sample": ("stratified", "stratified_two_sample", "reps", "observed_tst", {"tst_fun"}, [(1, []), (0, [("hits", "CGe")])]),
    "simulate_ts_dist": ("irr", "simulate_ts_dist", "num_perm", "obs_ts", {"compute_ts"}, [(1, []), (0, [("geq", "CGe")])]),
    # the per-test stores `for c in range(len(test)): tv[c].append(test[c](data_copy))` count as ONE store of the vector-valued
    # statistic (for every fixed test c the loop is [SDraw; SStore StatNow] with value d = test[c] on the d-th rearrangement)
    "sim_npc": ("npc", "sim_npc", "reps", "ts", {"test[c]"}, [(1, [])]),
    "westfall_young": ("npc", "westfall_young", "reps", "ts", {"test[c]"}, [(1, [])]),
}
BY_PROP = {
    "C05": ["two_sample_core", "one_sample", "corr", "k_sample", "bivariate_k_sample", "sim_corr", "stratified_permutationtest", "stratified_two_sample", "simulate_ts_dist",
            "sim_npc", "westfall_young"],
    "C01": ["two_sample_core", "one_sample", "corr", "k_sample"],
    "C02": ["bivariate_k_sample", "sim_corr", "stratified_permutationtest", "stratified_two_sample"],
    "C18": ["simulate_ts_dist"],
    "C07": ["sim_npc"],
    "C10": ["westfall_young"],
}


def callee(node):
    try:
        return ast.unparse(node.func)
    except Exception:
        return "?"


def is_draw_call(node):
    if not isinstance(node, ast.Call):
        return False
    f = node.func
    if isinstance(f, ast.Name) and f.id in DRAW_FUNCS:
        return True
    if isinstance(f, ast.Attribute) and f.attr in DRAW_METHODS and isinstance(f.value, ast.Name) and f.value.id in ("prng", "seed", "rng"):
        return True
    if isinstance(f, ast.Attribute) and f.attr == "randomize":
        return True
    return False


class Ctx:
    def __init__(self, site, reps, ref, stats, loopvar):
        self.site, self.reps, self.ref, self.stats, self.loopvar = site, reps, ref, stats, loopvar
        self.scratch = None          # name of the scratch variable once bound
        self.stat_text = None        # text of THE statistic expression of this body
        self.counters = []           # counter names in order of first update
        self.dist = None
        self.locals = set()          # names assigned by pure statements / draws
        self.store_kind = None


def n_draws(node):
    return sum(1 for x in ast.walk(node) if is_draw_call(x))


def has_stat(node, cx):
    return any(isinstance(x, ast.Call) and callee(x) in cx.stats for x in ast.walk(node))


def names_in(node):
    return {x.id for x in ast.walk(node) if isinstance(x, ast.Name)}


def strip_stat(node, cx):
    """the statistic expression: a call of the site's statistic, optionally subscripted by constants (np.corrcoef(..)[0, 1])"""
    if isinstance(node, ast.Subscript) and not names_in(node.slice):
        return strip_stat(node.value, cx)
    if isinstance(node, ast.Call) and callee(node) in cx.stats:
        return node
    return None


def value_expr(node, cx):
    """classify an expression whose VALUE is used (stored, bound or compared): returns (instructions before, expr)"""
    if isinstance(node, ast.Name) and cx.scratch is not None and node.id == cx.scratch:
        return [], "Scratch"
    st = strip_stat(node, cx)
    if st is None:
        raise Unsupported(f"{cx.site}: value is not the statistic of the current rearrangement: {ast.unparse(node)}")
    forbidden = {cx.loopvar, cx.dist, cx.scratch} | set(cx.counters)
    if forbidden & names_in(st):
        raise Unsupported(f"{cx.site}: the statistic's arguments mention loop state: {ast.unparse(st)}")
    d = n_draws(st)
    pre = []
    text = ast.unparse(node)
    if d == 1:
        pre = ["SDraw"]
    elif d > 1:
        raise Unsupported(f"{cx.site}: several draws inside one statistic expression: {text}")
    if cx.stat_text is None:
        cx.stat_text = text
    elif cx.stat_text != text or d:
        # a second evaluation must be the same expression on the same rearrangement (and must not draw again)
        raise Unsupported(f"{cx.site}: two different statistic expressions in one repetition: {cx.stat_text} / {text}")
    return pre, "StatNow"


def compare(node, cx):
    """e OP ref  ->  (pre, expr, op)"""
    if not (isinstance(node, ast.Compare) and len(node.ops) == 1 and type(node.ops[0]) in CMP
            and isinstance(node.comparators[0], ast.Name) and node.comparators[0].id == cx.ref):
        raise Unsupported(f"{cx.site}: not a comparison with the reference value {cx.ref}: {ast.unparse(node)}")
    pre, e = value_expr(node.left, cx)
    return pre, e, CMP[type(node.ops[0])]


def counter_index(name, cx):
    if name in (cx.ref, cx.reps, cx.loopvar, cx.dist, cx.scratch) or name in cx.locals:
        raise Unsupported(f"{cx.site}: {name} is used both as a counter and as something else")
    if name not in cx.counters:
        cx.counters.append(name)
    return cx.counters.index(name)


def stmt(node, cx):
    """one Python statement of the loop body -> list of instructions"""
    if isinstance(node, ast.Expr) and is_draw_call(node.value) and n_draws(node.value) == 1 and not has_stat(node.value, cx):
        return ["SDraw"]
    if isinstance(node, ast.Expr) and isinstance(node.value, ast.Call) and isinstance(node.value.func, ast.Attribute) and node.value.func.attr == "append" \
            and isinstance(node.value.func.value, ast.Name) and len(node.value.args) == 1 and not node.value.keywords:
        nm = node.value.func.value.id
        if cx.dist not in (None, nm):
            raise Unsupported(f"{cx.site}: two stores {cx.dist} / {nm}")
        cx.dist = nm; cx.store_kind = "append"
        pre, e = value_expr(node.value.args[0], cx)
        return pre + [f"SStore {e}"]
    if isinstance(node, ast.Assign) and len(node.targets) == 1:
        t = node.targets[0]
        if isinstance(t, ast.Subscript) and isinstance(t.value, ast.Name) and isinstance(t.slice, ast.Name) and t.slice.id == cx.loopvar:
            if cx.dist not in (None, t.value.id):
                raise Unsupported(f"{cx.site}: two stores {cx.dist} / {t.value.id}")
            cx.dist = t.value.id; cx.store_kind = "index"
            pre, e = value_expr(node.value, cx)
            return pre + [f"SStore {e}"]
        if isinstance(t, ast.Name):
            if t.id in (cx.ref, cx.reps, cx.loopvar, cx.dist) or t.id in cx.counters:
                raise Unsupported(f"{cx.site}: the loop body assigns to {t.id}")
            if has_stat(node.value, cx):
                pre, e = value_expr(node.value, cx)
                if e != "StatNow":
                    raise Unsupported(f"{cx.site}: {ast.unparse(node)}")
                if cx.scratch not in (None, t.id):
                    raise Unsupported(f"{cx.site}: two scratch variables {cx.scratch} / {t.id}")
                cx.scratch = t.id
                return pre + ["SBind"]
            forbidden = {cx.dist, cx.scratch} | set(cx.counters)
            if forbidden & names_in(node.value):
                raise Unsupported(f"{cx.site}: a local is computed from loop state: {ast.unparse(node)}")
            d = n_draws(node.value)
            if d == 1:
                cx.locals.add(t.id)
                return ["SDraw"]
            if d == 0:
                if cx.loopvar in names_in(node.value):
                    raise Unsupported(f"{cx.site}: a local depends on the repetition index: {ast.unparse(node)}")
                cx.locals.add(t.id)
                return ["SPure"]
            raise Unsupported(f"{cx.site}: several draws in one statement: {ast.unparse(node)}")
    if isinstance(node, ast.AugAssign) and isinstance(node.op, ast.Add) and isinstance(node.target, ast.Name):
        pre, e, op = compare(node.value, cx)
        return pre + [f"SCount {counter_index(node.target.id, cx)} {e} {op}"]
    if isinstance(node, ast.If) and not node.orelse and len(node.body) == 1 and isinstance(node.body[0], ast.AugAssign) \
            and isinstance(node.body[0].op, ast.Add) and isinstance(node.body[0].target, ast.Name) \
            and isinstance(node.body[0].value, ast.Constant) and node.body[0].value.value == 1 and not isinstance(node.body[0].value.value, bool):
        pre, e, op = compare(node.test, cx)
        return pre + [f"SCount {counter_index(node.body[0].target.id, cx)} {e} {op}"]
    if isinstance(node, ast.For) and not node.orelse and isinstance(node.target, ast.Name) and ast.unparse(node.iter) == "range(len(test))" and len(node.body) == 1:
        # for c in range(len(test)): tv[c].append(test[c](data_copy))   -- one store of the vector of test statistics
        b = node.body[0]; cv = node.target.id
        want = f"tv[{cv}].append(test[{cv}](data_copy))"
        if isinstance(b, ast.Expr) and ast.unparse(b.value) == want and "test[c]" in cx.stats and cv == "c":
            if cx.dist not in (None, "tv"):
                raise Unsupported(f"{cx.site}: two stores {cx.dist} / tv")
            cx.dist = "tv"; cx.store_kind = "per-test-append"
            if cx.stat_text is not None:
                raise Unsupported(f"{cx.site}: a second evaluation of the test statistics in one repetition")
            cx.stat_text = want
            return ["SStore StatNow"]
    raise Unsupported(f"{cx.site}: loop statement not understood: {ast.unparse(node)[:120]}")


def is_range_of(node, reps):
    if not (isinstance(node, ast.Call) and isinstance(node.func, ast.Name) and node.func.id == "range" and len(node.args) == 1 and not node.keywords):
        return False
    a = node.args[0]
    if isinstance(a, ast.Call) and isinstance(a.func, ast.Name) and a.func.id == "int" and len(a.args) == 1:
        a = a.args[0]
    return isinstance(a, ast.Name) and a.id == reps


def mentions_range(node):
    return any(isinstance(x, ast.Call) and isinstance(x.func, ast.Name) and x.func.id == "range" for x in ast.walk(node))


def init_before(block, idx, name):
    """the last assignment to [name] among the statements of [block] that precede position idx"""
    for st in reversed(block[:idx]):
        if isinstance(st, ast.Assign) and any(isinstance(t, ast.Name) and t.id == name for t in st.targets):
            return st.value
        if name in {x.id for x in ast.walk(st) if isinstance(x, ast.Name) and isinstance(x.ctx, ast.Store)}:
            return None
    return None


def loops_of(fn, site, reps, ref, stats):
    """all loops over range(reps) of the function, in source order: list of (instructions, counters, stores-kind)"""
    out = []

    def comp_loop(target_name, comp, wrapped_sum):
        if len(comp.generators) != 1 or comp.generators[0].ifs or not isinstance(comp.generators[0].target, ast.Name) or getattr(comp.generators[0], "is_async", 0):
            raise Unsupported(f"{site}: comprehension not understood: {ast.unparse(comp)[:100]}")
        if not is_range_of(comp.generators[0].iter, reps):
            raise Unsupported(f"{site}: comprehension not over range({reps}): {ast.unparse(comp.generators[0].iter)}")
        cx = Ctx(site, reps, ref, stats, comp.generators[0].target.id)
        if wrapped_sum:
            pre, e, op = compare(comp.elt, cx)
            ins = pre + [f"SCount {counter_index(target_name, cx)} {e} {op}"]
        else:
            cx.dist = target_name
            pre, e = value_expr(comp.elt, cx)
            ins = pre + [f"SStore {e}"]
        out.append((ins, list(cx.counters)))

    def walk_block(block):
        for idx, st in enumerate(block):
            if isinstance(st, ast.For):
                if not is_range_of(st.iter, reps):
                    if any(n_draws(x) for x in st.body):
                        raise Unsupported(f"{site}: a loop that takes rearrangements is not over range({reps}): for ... in {ast.unparse(st.iter)}")
                    walk_block(st.body)
                    continue
                if not any(n_draws(x) or has_stat(x, Ctx(site, reps, ref, stats, "")) for x in st.body):
                    continue          # a loop over the stored values (no rearrangement, no statistic): not a repetition loop
                if st.orelse or not isinstance(st.target, ast.Name):
                    raise Unsupported(f"{site}: for/else or a structured loop target")
                cx = Ctx(site, reps, ref, stats, st.target.id)
                ins = []
                for b in st.body:
                    ins += stmt(b, cx)
                for cname in cx.counters:
                    v = init_before(block, idx, cname)
                    if not (isinstance(v, ast.Constant) and v.value == 0 and not isinstance(v.value, bool)):
                        raise Unsupported(f"{site}: counter {cname} is not set to 0 just before its loop")
                if cx.dist is not None:
                    v = init_before(block, idx, cx.dist)
                    txt = ast.unparse(v) if v is not None else None
                    if cx.store_kind == "per-test-append":
                        # tv[c] = [] for every test, in the loop over the tests that evaluates the observed statistics
                        inits = [x for x in ast.walk(fn) if isinstance(x, ast.Assign) and ast.unparse(x) == "tv[c] = []"]
                        txt = "[]" if len(inits) == 1 and v is not None and ast.unparse(v) == "{}" else None
                    ok = (txt in (f"np.empty({reps})", f"np.zeros({reps})") if cx.store_kind == "index" else txt == "[]")
                    if not ok:
                        raise Unsupported(f"{site}: {cx.dist} is initialised as {txt} before a loop that fills it by {cx.store_kind}")
                out.append((ins, list(cx.counters)))
            elif isinstance(st, ast.While):
                raise Unsupported(f"{site}: while loop")
            elif isinstance(st, ast.If):
                walk_block(st.body); walk_block(st.orelse)
            elif isinstance(st, (ast.With, ast.Try)):
                raise Unsupported(f"{site}: with/try block")
            else:
                comps = [x for x in ast.walk(st) if isinstance(x, (ast.ListComp, ast.GeneratorExp, ast.SetComp, ast.DictComp))]
                comps = [c for c in comps if any(is_range_of(g.iter, reps) for g in c.generators) or n_draws(c) or has_stat(c, Ctx(site, reps, ref, stats, ""))]
                if not comps:
                    if isinstance(st, ast.FunctionDef):
                        continue
                    if n_draws(st) and has_stat(st, Ctx(site, reps, ref, stats, "")):
                        raise Unsupported(f"{site}: a draw outside the repetition loops: {ast.unparse(st)[:100]}")
                    continue
                if len(comps) != 1 or not isinstance(comps[0], ast.ListComp) or not isinstance(st, ast.Assign) or len(st.targets) != 1 or not isinstance(st.targets[0], ast.Name):
                    raise Unsupported(f"{site}: comprehension in an unexpected place: {ast.unparse(st)[:100]}")
                v = st.value
                if v is comps[0]:
                    comp_loop(st.targets[0].id, comps[0], False)
                elif isinstance(v, ast.Call) and ast.unparse(v.func) == "np.sum" and len(v.args) == 1 and not v.keywords and v.args[0] is comps[0]:
                    comp_loop(st.targets[0].id, comps[0], True)
                else:
                    raise Unsupported(f"{site}: comprehension wrapped in something else: {ast.unparse(st)[:100]}")
    walk_block(fn.body)
    return out


def generate_loops(prop, repo=None):
    repo = repo or os.environ.get("VERIF_REPO", "/repo")
    lines = ["From PV Require Import Lib.Base Model.Prng Model.Core Model.NoDist Proofs.LoopLink.", "From PV Require Import Lib.LoopShape.", "From Coq Require Import List QArith.", "Import ListNotations.", "Local Open Scope nat_scope.", ""]
    detail = []
    for site in BY_PROP[prop]:
        mod, fname, reps, ref, stats, expected = SITES[site]
        fn = find_function(ast.parse(open(os.path.join(repo, "permute", mod + ".py")).read()), fname)
        found = loops_of(fn, site, reps, ref, stats)
        if len(found) != len(expected):
            raise Unsupported(f"{site}: {len(found)} repetition loops found, {len(expected)} expected")
        for k, ((ins, counters), (nstore, exp_counts)) in enumerate(zip(found, expected)):
            nm = f"g9_{site}_{k}"
            if [c for c, _ in exp_counts] != counters:
                raise Unsupported(f"{site}: loop {k} updates the counters {counters}, expected {[c for c, _ in exp_counts]}")
            lines.append(f"Definition {nm} : list stmt := [{'; '.join(ins)}].")
            lines.append(f"Lemma {nm}_shape : shape_ok {nm} = true.")
            lines.append("Proof. vm_compute. reflexivity. Qed.")
            cl = "[" + "; ".join(f"({i}, {op})" for i, (_, op) in enumerate(exp_counts)) + "]"
            lines.append(f"Lemma {nm}_meaning : stores (rest_of {nm}) = {nstore} /\\ counts (rest_of {nm}) = {cl}.")
            lines.append("Proof. vm_compute. split; reflexivity. Qed.")
            lines.append(f"Theorem G9_{site}_{k} : forall (value : nat -> Q) (ref : Q) (n : nat) (s : st), exists s',")
            lines.append(f"    loop value ref {nm} n s = Some s' /\\ draws s' = draws s + n /\\")
            lines.append(f"    dist s' = dist s ++ {'vals value (draws s) n' if nstore == 1 else '[]'} /\\")
            conj = [f"cnt s' {i} = cnt s {i} + count_cmp ref {op} (vals value (draws s) n)" for i, (_, op) in enumerate(exp_counts)]
            lines.append("    " + (" /\\ ".join(conj) if conj else "True") + ".")
            lines.append("Proof.")
            lines.append(f"  intros value ref n s. destruct (loop_spec value ref {nm} {nm}_shape n s) as [s' [E [D [L [C _]]]]].")
            lines.append(f"  destruct {nm}_meaning as [Hs Hc]. rewrite Hs in L. rewrite Hc in C. exists s'.")
            lines.append("  split; [exact E|]. split; [exact D|]. split; [exact L|].")
            if conj:
                lines.append("  repeat split; apply C; cbn; tauto.")
            else:
                lines.append("  exact I.")
            lines.append("Qed.")
            # run on ANY list d of simulated values (the dist of the model's keep_dist=True path), the loop stores d / counts its tails
            if nstore == 1:
                lines += [f"Theorem G9_{site}_{k}_stores_the_values : forall (d : list Q) (ref : Q), exists st',",
                          f"  loop (value_of d) ref {nm} (length d) st_init = Some st' /\\ LoopShape.dist st' = d.",
                          f"Proof. intros d ref. destruct (shaped_loop_on_model_values {nm} {nm}_shape d ref st_init eq_refl) as [st' [E [L _]]].",
                          f"  exists st'. split; [exact E|]. rewrite L, (proj1 {nm}_meaning). reflexivity. Qed."]
            for i, (_, op) in enumerate(exp_counts):
                tail = {"CGe": "count_ge ref d", "CLe": "count_le ref d"}.get(op)
                if tail is None:
                    continue
                lines += [f"Theorem G9_{site}_{k}_counter_{i}_is_the_tail_count : forall (d : list Q) (ref : Q), exists st',",
                          f"  loop (value_of d) ref {nm} (length d) st_init = Some st' /\\ cnt st' {i} = {tail}.",
                          f"Proof. intros d ref. destruct (shaped_loop_on_model_values {nm} {nm}_shape d ref st_init eq_refl) as [st' [E [_ C]]].",
                          f"  exists st'. split; [exact E|]. rewrite (C {i} {op}) by (rewrite (proj2 {nm}_meaning); cbn; tauto). reflexivity. Qed."]
            # the translated loop, run on the statistics the MODEL's loop produces on a tape, returns the model's results
            if (site, k) == ("two_sample_core", 0):
                lines += [f"Theorem G9_{site}_{k}_is_the_model : forall s pot nx rr reps t tst d ar t', core_loop s pot nx rr reps t = Ok (d, ar, t') ->",
                          f"  exists st', loop (value_of d) tst {nm} reps st_init = Some st' /\\ LoopShape.dist st' = d.",
                          f"Proof. exact (shaped_loop_is_core_dist {nm} {nm}_shape (proj1 {nm}_meaning)). Qed."]
            if (site, k) == ("two_sample_core", 1):
                lines += [f"Theorem G9_{site}_{k}_is_the_model : forall s pot nx rr reps t tst d ar t', core_loop s pot nx rr reps t = Ok (d, ar, t') ->",
                          f"  exists st', loop (value_of d) tst {nm} reps st_init = Some st' /\\ core_hits s pot nx rr reps t tst = Ok (cnt st' 0, cnt st' 1, t').",
                          f"Proof. exact (shaped_loop_is_core_hits {nm} {nm}_shape (proj2 {nm}_meaning)). Qed."]
            if (site, k) == ("one_sample", 1):
                lines += [f"Theorem G9_{site}_{k}_is_the_model : forall s z reps t tst d ar t', one_loop s z reps t = Ok (d, ar, t') ->",
                          f"  exists st', loop (value_of d) tst {nm} reps st_init = Some st' /\\ one_hits s z reps t tst = Ok (cnt st' 0, cnt st' 1, t').",
                          f"Proof. exact (shaped_loop_is_one_hits {nm} {nm}_shape (proj2 {nm}_meaning)). Qed."]
            lines.append("")
            detail.append({"site": f"{mod}.{fname}", "loop": k, "instructions": ins, "counters": counters})
    return "\n".join(lines), detail
