"""Source-to-Coq translator for the p-value tables of /repo/permute (obligations G3).

The tables are tiny arithmetic expressions (`thePvalue = {'greater': lambda pUp, pDn: pUp + plus1/(reps+plus1), ...}`
in core.py / stratified.py, and the `if alternative == ...: pvalue = ...` chains of core.corr, utils.hypergeometric and
utils.binomial_p).  They are re-read from the CURRENT source text on every run, translated expression by expression
into Gallina over Q, and a generated Coq file states that each equals the corresponding row of Lib/TailTables.v (which
is proved equal to the models' p-value functions by hand).  The translator is fail-closed: any construct it does not
know raises, and the check then reports the obligation as broken.

Supported expression grammar: names, numeric constants, + - * /, unary -, np.min([e1, ..., ek]), and the special
subexpression  plus1/(reps+plus1)  which is the atom E of the tables."""
import ast, os
from fractions import Fraction


class Unsupported(Exception):
    pass


def q_of_const(v):
    if isinstance(v, bool):
        raise Unsupported("bool constant")
    f = Fraction(str(v)) if isinstance(v, float) else Fraction(v)
    return f"({f.numerator} # {f.denominator})"


def is_E(node):
    return (isinstance(node, ast.BinOp) and isinstance(node.op, ast.Div) and isinstance(node.left, ast.Name) and node.left.id == "plus1"
            and isinstance(node.right, ast.BinOp) and isinstance(node.right.op, ast.Add)
            and {getattr(node.right.left, "id", None), getattr(node.right.right, "id", None)} == {"reps", "plus1"})


def tr(node, names):
    """Python expression -> Gallina Q expression (string); [names] = allowed free variables"""
    if is_E(node):
        return "E"
    if isinstance(node, ast.Name):
        if node.id not in names:
            raise Unsupported(f"free name {node.id}")
        return node.id
    if isinstance(node, ast.Constant) and isinstance(node.value, (int, float)):
        return q_of_const(node.value)
    if isinstance(node, ast.UnaryOp) and isinstance(node.op, ast.USub):
        return f"(- {tr(node.operand, names)})"
    if isinstance(node, ast.BinOp) and type(node.op) in (ast.Add, ast.Sub, ast.Mult, ast.Div):
        op = {ast.Add: "+", ast.Sub: "-", ast.Mult: "*", ast.Div: "/"}[type(node.op)]
        return f"({tr(node.left, names)} {op} {tr(node.right, names)})"
    if (isinstance(node, ast.Call) and isinstance(node.func, ast.Attribute) and node.func.attr == "min"
            and isinstance(node.func.value, ast.Name) and node.func.value.id == "np" and len(node.args) == 1
            and isinstance(node.args[0], (ast.List, ast.Tuple)) and node.args[0].elts and not node.keywords):
        parts = [tr(e, names) for e in node.args[0].elts]
        out = parts[-1]
        for p in reversed(parts[:-1]):
            out = f"(Qmin {p} {out})"
        return out
    if (isinstance(node, ast.Call) and not node.keywords and len(node.args) >= 2
            and ((isinstance(node.func, ast.Name) and node.func.id == "min")
                 or (isinstance(node.func, ast.Attribute) and node.func.attr == "minimum" and isinstance(node.func.value, ast.Name) and node.func.value.id == "np"))):
        parts = [tr(e, names) for e in node.args]     # builtin min(a, b, ...) / np.minimum(a, b)
        out = parts[-1]
        for p in reversed(parts[:-1]):
            out = f"(Qmin {p} {out})"
        return out
    raise Unsupported(ast.dump(node)[:120])


ALT = {"greater": "Greater", "less": "Less", "two-sided": "TwoSided"}


def find_function(tree, name):
    for n in ast.walk(tree):
        if isinstance(n, ast.FunctionDef) and n.name == name:
            return n
    raise Unsupported(f"function {name} not found")


def lambda_table(fn):
    """thePvalue = {'greater': lambda ...: expr, ...}  ->  (argnames, {alt: expr})"""
    for n in ast.walk(fn):
        if isinstance(n, ast.Assign) and len(n.targets) == 1 and isinstance(n.targets[0], ast.Name) and n.targets[0].id == "thePvalue":
            d = n.value
            if not isinstance(d, ast.Dict):
                raise Unsupported("thePvalue is not a dict literal")
            rows, args = {}, None
            for k, v in zip(d.keys, d.values):
                if not (isinstance(k, ast.Constant) and k.value in ALT and isinstance(v, ast.Lambda)):
                    raise Unsupported("unexpected thePvalue entry")
                a = [x.arg for x in v.args.args]
                if args is not None and a != args:
                    raise Unsupported("lambda arguments differ between rows")
                args = a
                rows[k.value] = v.body
            if set(rows) != set(ALT):
                raise Unsupported(f"thePvalue rows {sorted(rows)}")
            return args, rows
    raise Unsupported("no thePvalue table")


def if_chain_table(fn, target="pvalue"):
    """if alternative == 'a': pvalue = e1 / elif ...  ->  {alt: expr}"""
    rows = {}
    for n in ast.walk(fn):
        if isinstance(n, ast.If):
            t = n.test
            if (isinstance(t, ast.Compare) and isinstance(t.left, ast.Name) and t.left.id == "alternative" and len(t.ops) == 1
                    and isinstance(t.ops[0], ast.Eq) and isinstance(t.comparators[0], ast.Constant) and t.comparators[0].value in ALT):
                body = [s for s in n.body if not (isinstance(s, ast.Expr) and isinstance(s.value, ast.Constant))]
                if len(body) != 1 or not (isinstance(body[0], ast.Assign) and isinstance(body[0].targets[0], ast.Name) and body[0].targets[0].id == target):
                    raise Unsupported("branch of the alternative chain is not a single assignment to " + target)
                if t.comparators[0].value in rows:
                    raise Unsupported("alternative tested twice")
                rows[t.comparators[0].value] = body[0].value
    if set(rows) != set(ALT):
        raise Unsupported(f"alternative chain rows {sorted(rows)}")
    return rows


def defs_for(prefix, args, rows):
    out = []
    for alt, expr in sorted(rows.items()):
        body = tr(expr, set(args))
        out.append(f"Definition {prefix}_{ALT[alt]} ({' '.join(args)} : Q) : Q := {body}.")
    return out


SITES = [  # (module, function, kind, table, binder names passed to the TailTables row)
    ("core", "two_sample_core", "lambda", "core_table", ["pUp", "pDn", "E"]),
    ("core", "one_sample", "lambda", "core_table", ["pUp", "pDn", "E"]),
    ("stratified", "sim_corr", "lambda", "strat_table", ["p", "E"]),
    ("stratified", "stratified_permutationtest", "lambda", "strat_table", ["p", "E"]),
    ("stratified", "stratified_two_sample", "lambda", "strat_table", ["p", "E"]),
    ("core", "corr", "chain", "corr_table", ["left_pv", "right_pv"]),
    ("utils", "hypergeometric", "chain", "exact_table", ["plower", "pupper"]),
    ("utils", "binomial_p", "chain", "exact_table", ["plower", "pupper"]),
]


def generate(repo=None, only=None):
    """-> (coq_text, detail list); raises Unsupported when the source no longer has the expected shape"""
    repo = repo or os.environ.get("VERIF_REPO", "/repo")
    lines = ["From PV Require Import Lib.Base Lib.TailTables.", "From Coq Require Import Lqa.", "Open Scope Q_scope.", ""]
    detail = []
    for mod, fname, kind, table, binders in SITES:
        if only and (mod, fname) not in only:
            continue
        src = open(os.path.join(repo, "permute", mod + ".py")).read()
        fn = find_function(ast.parse(src), fname)
        prefix = f"src_{mod}_{fname}"
        if kind == "lambda":
            args, rows = lambda_table(fn)
            expect = binders[:-1]
            if args != expect and not (len(args) == len(expect)):
                raise Unsupported(f"{fname}: lambda arguments {args}")
            ren = dict(zip(args, expect))
            class Ren(ast.NodeTransformer):
                def visit_Name(self, node):
                    return ast.copy_location(ast.Name(id=ren.get(node.id, node.id), ctx=node.ctx), node)
            rows = {k: Ren().visit(v) for k, v in rows.items()}
            vars_ = binders
            free = set(expect) | {"plus1", "reps"}
            defs = []
            for alt, expr in sorted(rows.items()):
                defs.append(f"Definition {prefix}_{ALT[alt]} ({' '.join(vars_)} : Q) : Q := {tr(expr, free)}.")
        else:
            rows = if_chain_table(fn)
            vars_ = binders
            defs = [f"Definition {prefix}_{ALT[alt]} ({' '.join(vars_)} : Q) : Q := {tr(expr, set(vars_))}." for alt, expr in sorted(rows.items())]
        lines += defs
        app = " ".join(vars_)
        lines.append(f"Theorem G3_{mod}_{fname} : forall {app} : Q,")
        lines.append("  " + " /\\\n  ".join(f"{prefix}_{ALT[a]} {app} == {table} {ALT[a]} {app}" for a in sorted(ALT)) + ".")
        lines.append("Proof. intros. unfold " + ", ".join(f"{prefix}_{ALT[a]}" for a in sorted(ALT)) + ". repeat split; table_tac. Qed.")
        lines.append("")
        detail.append({"site": f"{mod}.{fname}", "rows": {a: ast.unparse(rows[a]) for a in rows}})
    return "\n".join(lines), detail


if __name__ == "__main__":
    t, d = generate()
    print(t)


# =========================================================================================================
# G4: scalar formulas.  Sub-expressions that are not arithmetic (np.sum(...), rankdata(...), ...) are opaque atoms;
# each site lists the atoms it expects (by their exact source text) and the variable that stands for them.
def tr_atoms(node, names, atoms):
    txt = ast.unparse(node)
    if txt in atoms:
        return atoms[txt]
    if isinstance(node, ast.Name):
        if node.id not in names:
            raise Unsupported(f"free name {node.id}")
        return names[node.id]
    if isinstance(node, ast.Constant) and isinstance(node.value, (int, float)) and not isinstance(node.value, bool):
        return q_of_const(node.value)
    if isinstance(node, ast.UnaryOp) and isinstance(node.op, ast.USub):
        return f"(- {tr_atoms(node.operand, names, atoms)})"
    if isinstance(node, ast.BinOp) and type(node.op) in (ast.Add, ast.Sub, ast.Mult, ast.Div):
        op = {ast.Add: "+", ast.Sub: "-", ast.Mult: "*", ast.Div: "/"}[type(node.op)]
        return f"({tr_atoms(node.left, names, atoms)} {op} {tr_atoms(node.right, names, atoms)})"
    if (isinstance(node, ast.Call) and not node.keywords and len(node.args) == 2 and isinstance(node.func, ast.Attribute)
            and node.func.attr == "minimum" and isinstance(node.func.value, ast.Name) and node.func.value.id == "np"):
        return f"(Qmin {tr_atoms(node.args[0], names, atoms)} {tr_atoms(node.args[1], names, atoms)})"
    raise Unsupported("opaque sub-expression not listed for this site: " + txt[:100])


def locate(fn, how):
    kind = how[0]
    hits = []
    for n in ast.walk(fn):
        if kind == "assign" and isinstance(n, ast.Assign) and len(n.targets) == 1 and ast.unparse(n.targets[0]) == how[1]:
            hits.append(n.value)
        elif kind == "return_elt0" and isinstance(n, ast.Return) and isinstance(n.value, ast.Tuple) and isinstance(n.value.elts[0], ast.BinOp):
            hits.append(n.value.elts[0])
        elif kind == "return" and isinstance(n, ast.Return) and isinstance(n.value, ast.BinOp):
            hits.append(n.value)
        elif kind == "dict_value" and isinstance(n, ast.Dict):
            for k, v in zip(n.keys, n.values):
                if isinstance(k, ast.Constant) and k.value == how[1]:
                    hits.append(v)
        elif kind == "tuple_assign" and isinstance(n, ast.Assign) and isinstance(n.targets[0], ast.Tuple) and [ast.unparse(t) for t in n.targets[0].elts] == how[1]:
            hits.append(n.value.elts[how[2]])
    hits.sort(key=lambda n: (getattr(n, "lineno", 0), getattr(n, "col_offset", 0)))
    if kind == "assign" and len(how) > 2 and how[2] == "all":
        return [h for h in hits if isinstance(h, ast.BinOp)]      # arithmetic assignments only (max(...) updates are the monotone pass)
    want = how[-1] if isinstance(how[-1], int) and kind not in ("tuple_assign",) else None
    if kind == "tuple_assign":
        want = None
    if not hits:
        raise Unsupported(f"site {how} not found")
    if want is None:
        if len(hits) != 1:
            raise Unsupported(f"site {how}: {len(hits)} candidates")
        return hits[0]
    return hits[want]


FORMULAS = {
    # property -> list of (name, module, function, locator, names, atoms, vars, model, premise)
    "C01": [
        ("k_sample_keep", "ksample", "k_sample", ("assign", "pvalue"), {"plus1": "c", "reps": "r"}, {"np.sum(dist >= observed_tst)": "H"}, "H c r", "mc_pvalue H c r", "~ r + c == 0"),
        ("k_sample_hits", "ksample", "k_sample", ("return_elt0",), {"plus1": "c", "reps": "r", "hits": "H"}, {}, "H c r", "mc_pvalue H c r", "~ r + c == 0"),
    ],
    "C02": [
        ("bivariate_keep", "ksample", "bivariate_k_sample", ("assign", "pvalue"), {"plus1": "c", "reps": "r"}, {"np.sum(dist >= observed_tst)": "H"}, "H c r", "mc_pvalue H c r", "~ r + c == 0"),
        ("bivariate_hits", "ksample", "bivariate_k_sample", ("return_elt0",), {"plus1": "c", "reps": "r", "hits": "H"}, {}, "H c r", "mc_pvalue H c r", "~ r + c == 0"),
    ],
    "C18": [
        ("simulate_ts_dist_pvalue", "irr", "simulate_ts_dist", ("dict_value", "pvalue"), {"plus1": "c", "num_perm": "r", "geq": "H"}, {}, "H c r", "mc_pvalue H c r", "~ r + c == 0"),
    ],
    "C07": [
        ("npc_row_pvalues", "npc", "npc", ("assign", "pvalues_from_distr[:, j]"), {"plus1": "c", "B": "B"}, {"rankdata(distr[:, j], method='min')": "Rk"}, "B Rk c", "npc_row B Rk c", "~ c + B == 0"),
        ("npc_final_count", "npc", "npc", ("return",), {"plus1": "c", "B": "B"}, {"np.sum(combined_stat_distr >= observed_combined_stat)": "hits"}, "c hits B", "npc_final c hits B", "~ c + B == 0"),
        ("sim_npc_partial", "npc", "sim_npc", ("assign", "ps[c]"), {"reps": "r"}, {"np.sum(np.array(tv[c]) >= ts[c])": "H"}, "H r", "mc_pvalue H 1 r", "~ r + 1 == 0"),
    ],
    "C15": [
        ("sprt_A", "sprt", "sprt", ("tuple_assign", ["A", "B"], 0), {"alpha": "alpha", "beta": "beta"}, {}, "alpha beta", "wald_A alpha beta", "~ 1 - alpha == 0"),
        ("sprt_B", "sprt", "sprt", ("tuple_assign", ["A", "B"], 1), {"alpha": "alpha", "beta": "beta"}, {}, "alpha beta", "wald_B alpha beta", "~ alpha == 0"),
    ],
    "C11": [
        ("adjust_holm_base", "npc", "adjust_p", ("assign", "adj_pvalues", 0), {"pvalues": "x", "n": "n", "order": "rk"}, {"np.ones(n)": "1"}, "x n rk", "adj_holm x n rk", None),
        ("adjust_bonferroni", "npc", "adjust_p", ("assign", "adj_pvalues", 1), {"pvalues": "x", "n": "n"}, {"np.ones(n)": "1"}, "x n", "adj_bonf x n", None),
        ("adjust_bh_base", "npc", "adjust_p", ("assign", "adj_pvalues", 2), {"pvalues": "x", "n": "n", "order": "rk"}, {"np.ones(n)": "1"}, "x n rk", "adj_bh x n rk", None),
    ],
    "C10": [
        ("wy_raw_p", "npc", "westfall_young", ("assign", "raw_p[c]", "all", 4), {"reps": "r"},
         {"np.sum(np.array(tv[c]) >= ts[c])": "H", "np.sum(np.array(np.abs(tv[c])) >= np.abs(ts[c]))": "H"}, "H r", "mc_pvalue H 1 r", "~ r + 1 == 0"),
        ("wy_perm_ps", "npc", "westfall_young", ("assign", "ps[c]", "all", 2), {"reps": "r"},
         {"len(tv[c])": "L", "rankdata(tv[c], method='min')": "Rk", "np.array(tv[c]) <= ts[c]": "I",
          "rankdata(np.abs(tv[c]), method='min')": "Rk", "np.abs(tv[c]) <= np.abs(ts[c])": "I"}, "L Rk I r", "wy_ps L Rk I r", "~ r + 1 == 0"),
        ("wy_adj_p", "npc", "westfall_young", ("assign", "adj_p[c]", "all", 3), {"reps": "r"},
         {"np.sum(np.array(ps[c]) <= raw_p[c])": "H", "np.sum(np.array(tv[c]) >= ts[c])": "H", "np.sum(np.array(tv[c]) >= np.abs(ts[c]))": "H"},
         "H r", "mc_pvalue H 1 r", "~ r + 1 == 0"),
    ],
    "C12": [("binom_ci_level_split", "utils", "binom_conf_interval", ("assign", "cl"), {"cl": "cl"}, {}, "cl", "split_level cl", None)],
    "C13": [("hypergeom_ci_level_split", "utils", "hypergeom_conf_interval", ("assign", "cl"), {"cl": "cl"}, {}, "cl", "split_level cl", None)],
}


def generate_formulas(prop, repo=None):
    repo = repo or os.environ.get("VERIF_REPO", "/repo")
    lines = ["From PV Require Import Lib.Base Lib.TailTables.", "From Coq Require Import Lqa.", "Open Scope Q_scope.", ""]
    detail = []
    for (name, mod, fname, how, names, atoms, vars_, model, premise) in FORMULAS[prop]:
        src = open(os.path.join(repo, "permute", mod + ".py")).read()
        fn = find_function(ast.parse(src), fname)
        exprs = locate(fn, how)
        multi = isinstance(exprs, list)
        if multi and len(exprs) != how[3]:
            raise Unsupported(f"{fname}: {len(exprs)} assignments to {how[1]}, expected {how[3]}")
        for k, expr in enumerate(exprs if multi else [exprs]):
            nm = f"{name}_{k}" if multi else name
            body = tr_atoms(expr, names, atoms)
            lines.append(f"Definition src_{nm} ({vars_} : Q) : Q := {body}.")
            prem = f"{premise} -> " if premise else ""
            lines.append(f"Theorem G4_{nm} : forall {vars_} : Q, {prem}src_{nm} {vars_} == {model}.")
            lines.append(f"Proof. unfold src_{nm}. formula_tac. Qed.")
            lines.append("")
            detail.append({"site": f"{mod}.{fname}", "formula": ast.unparse(expr)})
    return "\n".join(lines), detail


G3_SITES = {
    "C05": [("core", "two_sample_core"), ("core", "one_sample"), ("core", "corr"), ("stratified", "sim_corr"),
            ("stratified", "stratified_permutationtest"), ("stratified", "stratified_two_sample")],
    "C14": [("utils", "hypergeometric"), ("utils", "binomial_p")],
}


def obligations(prop):
    """all source-derived formula obligations of one property, as the list the orchestrator compiles"""
    out = []
    def wrap(tag, gen, cls):
        try:
            text, detail = gen()
        except Exception as e:      # fail closed
            text = ("(* translator could not read the source: " + repr(e)[:300].replace("*)", "* )") + " *)\n"
                    "Theorem source_translated : False.\nProof. Qed.\n")
            detail = [{"error": repr(e)[:300]}]
        out.append({"name": tag, "file": tag + ".v", "text": text, "detail": detail, "cls": cls})
    if prop in G3_SITES:
        wrap(f"{prop}_G3_tables", lambda: generate(only=G3_SITES[prop]), "source:pvalue-table")
    if prop in FORMULAS:
        wrap(f"{prop}_G4_formulas", lambda: generate_formulas(prop), "source:formula")
    if prop in GUARDS:
        wrap(f"{prop}_G5_guards", lambda: generate_guards(prop), "source:guards")
    if prop == "C18":
        wrap("C18_G4_item_count", generate_item_count, "source:formula")
    if prop == "C16":
        wrap("C16_G6_tables", generate_arrays, "source:outcome-table")
    if prop == "C15":
        wrap("C15_G7_control", generate_sprt, "source:control")
    if prop == "C13":
        wrap("C13_G8_bisection", generate_bisect, "source:control")
    from . import loops
    if prop in loops.BY_PROP:
        wrap(f"{prop}_G9_loops", lambda: loops.generate_loops(prop), "source:loop")
    return out


# =========================================================================================================
# G5: argument guards.  The statements of a function up to the first "real" computation are read in order; every
# `if <comparison of parameters>: raise ValueError(...)` contributes one disjunct; asserts on `alternative` and
# docstrings are skipped; anything else before the first computation fails closed.  The disjunction is compared with
# the model's guard (Lib/TailTables.v) for all natural-number arguments.
CMPOP = {ast.Lt: "<?", ast.Gt: ">?", ast.LtE: "<=?", ast.GtE: ">=?"}


def guard_conditions(fn, params, stop_at):
    conds = []
    for st in fn.body:
        if isinstance(st, ast.Expr) and isinstance(st.value, ast.Constant):
            continue                                    # docstring
        if isinstance(st, ast.Assert):
            continue                                    # assert alternative in (...)
        if isinstance(st, ast.Assign) and ast.unparse(st.targets[0]) == stop_at:
            return conds                                # first computation: the guards end here
        if (isinstance(st, ast.If) and not st.orelse and len(st.body) == 1 and isinstance(st.body[0], ast.Raise)
                and isinstance(st.body[0].exc, ast.Call) and getattr(st.body[0].exc.func, "id", None) == "ValueError"
                and isinstance(st.test, ast.Compare) and len(st.test.ops) == 1 and type(st.test.ops[0]) in CMPOP
                and isinstance(st.test.left, ast.Name) and isinstance(st.test.comparators[0], ast.Name)
                and st.test.left.id in params and st.test.comparators[0].id in params):
            a, b, op = st.test.left.id, st.test.comparators[0].id, type(st.test.ops[0])
            if op is ast.Gt: a, b, op = b, a, ast.Lt
            if op is ast.GtE: a, b, op = b, a, ast.LtE
            conds.append(f"({'Nat.ltb' if op is ast.Lt else 'Nat.leb'} {a} {b})")
            continue
        raise Unsupported("unexpected statement before the first computation: " + ast.unparse(st)[:80])
    raise Unsupported(f"no assignment to {stop_at}")


GUARDS = {"C14": [("hypergeometric", "utils", "hypergeometric", ["x", "N", "n", "G"], "plower", "hyper_guard x N n G"),
                  ("binomial_p", "utils", "binomial_p", ["x", "n"], "plower", "binom_guard x n")]}


def generate_guards(prop, repo=None):
    repo = repo or os.environ.get("VERIF_REPO", "/repo")
    lines = ["From Coq Require Import Arith Bool Lia.", "From PV Require Import Lib.Base Lib.TailTables.", ""]
    detail = []
    for name, mod, fname, params, stop, model in GUARDS[prop]:
        fn = find_function(ast.parse(open(os.path.join(repo, "permute", mod + ".py")).read()), fname)
        conds = guard_conditions(fn, set(params), stop)
        if not conds:
            raise Unsupported(f"{fname}: no guard left")
        body = " || ".join(conds)
        ps = " ".join(params)
        lines.append(f"Definition src_guard_{name} ({ps} : nat) : bool := {body}.")
        lines.append(f"Theorem G5_{name} : forall {ps} : nat, src_guard_{name} {ps} = {model}.")
        lines.append(f"Proof. intros. unfold src_guard_{name}. guard_tac. Qed.")
        lines.append("")
        detail.append({"site": f"{mod}.{fname}", "guards": conds})
    return "\n".join(lines), detail


# G4 over Z: the per-item agreement count of irr.compute_ts
def tr_z(node, names):
    if isinstance(node, ast.Name):
        if node.id not in names:
            raise Unsupported(f"free name {node.id}")
        return names[node.id]
    if isinstance(node, ast.Constant) and isinstance(node.value, int) and not isinstance(node.value, bool):
        return f"({node.value})"
    if isinstance(node, ast.BinOp) and type(node.op) in (ast.Add, ast.Sub, ast.Mult):
        op = {ast.Add: "+", ast.Sub: "-", ast.Mult: "*"}[type(node.op)]
        return f"({tr_z(node.left, names)} {op} {tr_z(node.right, names)})"
    raise Unsupported("not an integer polynomial: " + ast.unparse(node)[:80])


def generate_item_count(repo=None):
    repo = repo or os.environ.get("VERIF_REPO", "/repo")
    fn = find_function(ast.parse(open(os.path.join(repo, "permute", "irr.py")).read()), "compute_ts")
    expr = locate(fn, ("assign", "counts"))
    body = tr_z(expr, {"y": "y", "R": "R"})
    rho = locate(fn, ("assign", "rho_s"))
    rho_body = tr_atoms(rho, {"Ns": "Ns", "R": "R"}, {"counts.sum()": "S"})
    text = "\n".join([
        "From Coq Require Import ZArith QArith Lia Lqa.", "From PV Require Import Lib.Base Model.Irr Lib.TailTables.", "",
        "Open Scope Z_scope.",
        f"Definition src_item_count (y R : Z) : Z := {body}.",
        "Theorem G4_item_count : forall y R : Z, src_item_count y R = item_count R y.",
        "Proof. intros. unfold src_item_count, item_count. ring. Qed.", "",
        "Open Scope Q_scope.",
        f"Definition src_rho (S Ns R : Q) : Q := {rho_body}.",
        "Theorem G4_rho : forall S Ns R : Q, src_rho S Ns R == S / (Ns * R * (R - 1)).",
        "Proof. intros. unfold src_rho. reflexivity. Qed.", ""])
    return text, [{"site": "irr.compute_ts", "counts": ast.unparse(expr), "rho_s": ast.unparse(rho)}]


# =========================================================================================================
# G6: array constructions (the potential-outcome tables).  Expressions over 1-D arrays: a list variable, f(arr) for a
# function parameter f (elementwise), arr + s / arr - s for a scalar parameter s, np.concatenate([a, b]),
# np.column_stack([a, b]); local assignments are inlined.  The translated term must equal the model's table.
def tr_arr(node, env, lists, funcs, scalars):
    if isinstance(node, ast.Name):
        if node.id in env:
            return env[node.id]
        if node.id in lists:
            return node.id
        raise Unsupported(f"free array name {node.id}")
    if isinstance(node, ast.Call) and isinstance(node.func, ast.Name) and node.func.id in funcs and len(node.args) == 1 and not node.keywords:
        return f"(map {funcs[node.func.id]} {tr_arr(node.args[0], env, lists, funcs, scalars)})"
    if isinstance(node, ast.BinOp) and type(node.op) in (ast.Add, ast.Sub) and isinstance(node.right, ast.Name) and node.right.id in scalars:
        op = "+" if isinstance(node.op, ast.Add) else "-"
        return f"(map (fun v : Q => v {op} {scalars[node.right.id]}) {tr_arr(node.left, env, lists, funcs, scalars)})"
    if (isinstance(node, ast.Call) and isinstance(node.func, ast.Attribute) and isinstance(node.func.value, ast.Name) and node.func.value.id == "np"
            and node.func.attr in ("concatenate", "column_stack") and len(node.args) == 1 and isinstance(node.args[0], ast.List)
            and len(node.args[0].elts) == 2 and not node.keywords):
        a, b = (tr_arr(e, env, lists, funcs, scalars) for e in node.args[0].elts)
        return f"({a} ++ {b})" if node.func.attr == "concatenate" else f"(combine {a} {b})"
    raise Unsupported("array expression outside the grammar: " + ast.unparse(node)[:80])


def inline_block(stmts, final_target, lists, funcs, scalars):
    env = {}
    for st in stmts:
        if isinstance(st, ast.Expr) and isinstance(st.value, ast.Constant):
            continue
        if isinstance(st, ast.Assign) and len(st.targets) == 1 and isinstance(st.targets[0], ast.Name):
            env[st.targets[0].id] = tr_arr(st.value, env, lists, funcs, scalars)
            if st.targets[0].id == final_target:
                return env[final_target]
        elif isinstance(st, ast.Return) and final_target is None:
            return tr_arr(st.value, env, lists, funcs, scalars)
        else:
            raise Unsupported("statement outside the grammar: " + ast.unparse(st)[:80])
    raise Unsupported("target not reached")


def generate_arrays(repo=None):
    repo = repo or os.environ.get("VERIF_REPO", "/repo")
    out = ["From Coq Require Import QArith List.", "Import ListNotations.", "Open Scope Q_scope.", ""]
    detail = []
    utils = ast.parse(open(os.path.join(repo, "permute", "utils.py")).read())
    core = ast.parse(open(os.path.join(repo, "permute", "core.py")).read())
    # potential_outcomes: the two asserts (inverse check both ways on tester), then the table
    fn = find_function(utils, "potential_outcomes")
    body = [s for s in fn.body if not (isinstance(s, ast.Expr) and isinstance(s.value, ast.Constant))]
    asserts = [s for s in body if isinstance(s, ast.Assert)]
    shapes = sorted(ast.unparse(a.test) for a in asserts)
    if shapes != ["np.allclose(f(finverse(tester)), tester)", "np.allclose(finverse(f(tester)), tester)"]:
        raise Unsupported(f"inverse check changed: {shapes}")
    tester = [s for s in body if isinstance(s, ast.Assign) and ast.unparse(s.targets[0]) == "tester"]
    if len(tester) != 1 or ast.unparse(tester[0].value) != "np.array(range(5)) + 1":
        raise Unsupported("tester changed")
    rest = [s for s in body if not isinstance(s, ast.Assert) and s is not tester[0]]
    t = inline_block(rest, None, {"x", "y"}, {"f": "f", "finverse": "finv"}, {})
    out += [f"Definition src_potential_outcomes (x y : list Q) (f finv : Q -> Q) : list (Q * Q) := {t}.",
            "Theorem G6_potential_outcomes : forall x y f finv, src_potential_outcomes x y f finv = combine (x ++ map f y) (map finv x ++ y).",
            "Proof. reflexivity. Qed.", ""]
    detail.append({"site": "utils.potential_outcomes", "table": t})
    # two_sample: exchangeable table
    fn = find_function(core, "two_sample")
    st = [s for s in fn.body if isinstance(s, ast.Assign) and ast.unparse(s.targets[0]) == "pot_out_all"]
    if len(st) != 1:
        raise Unsupported("two_sample: pot_out_all")
    t = tr_arr(st[0].value, {}, {"x", "y"}, {}, {})
    out += [f"Definition src_two_sample_table (x y : list Q) : list (Q * Q) := {t}.",
            "Theorem G6_two_sample_table : forall x y, src_two_sample_table x y = combine (x ++ y) (x ++ y).", "Proof. reflexivity. Qed.", ""]
    detail.append({"site": "core.two_sample", "table": t})
    # two_sample_shift: the scalar branch
    fn = find_function(core, "two_sample_shift")
    branch = None
    for n in fn.body:
        if isinstance(n, ast.If) and "isinstance(shift, float)" in ast.unparse(n.test) and "isinstance(shift, int)" in ast.unparse(n.test):
            branch = n
    if branch is None:
        raise Unsupported("two_sample_shift: scalar branch not found")
    t = inline_block(branch.body, "pot_out_all", {"x", "y"}, {}, {"shift": "d"})
    out += [f"Definition src_shift_table (x y : list Q) (d : Q) : list (Q * Q) := {t}.",
            "Theorem G6_shift_table : forall x y d, src_shift_table x y d = combine (x ++ map (fun v => v + d) y) (map (fun v => v - d) x ++ y).",
            "Proof. reflexivity. Qed.", ""]
    detail.append({"site": "core.two_sample_shift", "table": t})
    return "\n".join(out), detail


# =========================================================================================================
# G7: the control conditions of sprt: the continuation test of the sequential loop and the decision chain.
def tr_cond(node, qnames, nat_atoms):
    """boolean Python expression over rational names -> Gallina bool"""
    if isinstance(node, ast.BoolOp):
        parts = [tr_cond(v, qnames, nat_atoms) for v in node.values]
        op = " && " if isinstance(node.op, ast.And) else " || "
        return "(" + op.join(parts) + ")"
    if isinstance(node, ast.Compare) and len(node.ops) == 1:
        txt = ast.unparse(node)
        if txt in nat_atoms:
            return nat_atoms[txt]
        l, r = node.left, node.comparators[0]
        if isinstance(l, ast.Name) and isinstance(r, ast.Name) and l.id in qnames and r.id in qnames:
            a, b = qnames[l.id], qnames[r.id]
            op = type(node.ops[0])
            if op is ast.LtE: return f"(Qle_bool {a} {b})"
            if op is ast.GtE: return f"(Qle_bool {b} {a})"
            if op is ast.Lt: return f"(negb (Qle_bool {b} {a}))"
            if op is ast.Gt: return f"(negb (Qle_bool {a} {b}))"
    raise Unsupported("condition outside the grammar: " + ast.unparse(node)[:80])


def generate_sprt(repo=None):
    repo = repo or os.environ.get("VERIF_REPO", "/repo")
    fn = find_function(ast.parse(open(os.path.join(repo, "permute", "sprt.py")).read()), "sprt")
    q = {"ts": "ts", "A": "A", "B": "B"}
    whiles = [n for n in ast.walk(fn) if isinstance(n, ast.While)]
    if len(whiles) != 1:
        raise Unsupported(f"sprt: {len(whiles)} while loops")
    w = tr_cond(whiles[0].test, q, {"index < len(x)": "(Nat.ltb index n)"})
    body = [ast.unparse(s) for s in whiles[0].body]
    if body != ["index += 1", "ts = likelihood_ratio(x[0:index])"]:
        raise Unsupported(f"sprt: loop body {body}")
    # decision chain: if c1: conclusion = [b, b] elif c2: ... else: ...
    chain = [n for n in fn.body if isinstance(n, ast.If) and any(isinstance(s, ast.Assign) and ast.unparse(s.targets[0]) == "conclusion" for s in n.body)]
    if len(chain) != 1:
        raise Unsupported("sprt: decision chain not found")
    def concl(stmts):
        if len(stmts) != 1 or not isinstance(stmts[0], ast.Assign) or ast.unparse(stmts[0].targets[0]) != "conclusion":
            raise Unsupported("sprt: branch is not a single assignment to conclusion")
        v = stmts[0].value
        if not (isinstance(v, ast.List) and len(v.elts) == 2 and all(isinstance(e, ast.Constant) and isinstance(e.value, bool) for e in v.elts)):
            raise Unsupported("sprt: conclusion is not a pair of booleans")
        return "(" + ", ".join("true" if e.value else "false" for e in v.elts) + ")"
    def dec(n):
        c = tr_cond(n.test, q, {})
        if len(n.orelse) == 1 and isinstance(n.orelse[0], ast.If):
            e = dec(n.orelse[0])
        else:
            e = concl(n.orelse)
        return f"(if {c} then {concl(n.body)} else {e})"
    d = dec(chain[0])
    text = "\n".join([
        "From Coq Require Import QArith Bool Arith Lqa.", "From PV Require Import Lib.Base Model.Sprt Lib.TailTables.", "Open Scope Q_scope.", "",
        f"Definition src_continue (ts A B : Q) (index n : nat) : bool := {w}.",
        "Theorem G7_sprt_continue : forall ts A B index n,",
        "  src_continue ts A B index n = (negb (Qle_bool ts A) && negb (Qle_bool B ts) && Nat.ltb index n).",
        "Proof. intros. unfold src_continue. cond_tac. Qed.", "",
        f"Definition src_conclude (ts A B : Q) : bool * bool := {d}.",
        "Theorem G7_sprt_conclude : forall ts A B, A < B -> src_conclude ts A B = conclude A B ts.",
        "Proof. intros. unfold src_conclude, conclude. cond_tac. Qed.", ""])
    return text, [{"site": "sprt.sprt", "while": ast.unparse(whiles[0].test), "decision": ast.unparse(chain[0]).replace("\n", " ; ")}]


# =========================================================================================================
# G8: the two integer bisection loops of hypergeom_conf_interval (initial bounds, mid-point, both updates).
def tr_nat(node, names):
    if isinstance(node, ast.Name) and node.id in names:
        return names[node.id]
    if isinstance(node, ast.Constant) and isinstance(node.value, int) and not isinstance(node.value, bool) and node.value >= 0:
        return str(node.value)
    if isinstance(node, ast.BinOp) and isinstance(node.op, ast.FloorDiv) and isinstance(node.right, ast.Constant) and node.right.value == 2:
        return f"(Nat.div2 {tr_nat(node.left, names)})"
    if isinstance(node, ast.BinOp) and type(node.op) in (ast.Add, ast.Sub):
        return f"({tr_nat(node.left, names)} {'+' if isinstance(node.op, ast.Add) else '-'} {tr_nat(node.right, names)})"
    raise Unsupported("integer expression outside the grammar: " + ast.unparse(node)[:80])


def generate_bisect(repo=None):
    repo = repo or os.environ.get("VERIF_REPO", "/repo")
    fn = find_function(ast.parse(open(os.path.join(repo, "permute", "utils.py")).read()), "hypergeom_conf_interval")
    loops = []
    for outer in fn.body:
        if isinstance(outer, ast.If):
            ws = [s for s in outer.body if isinstance(s, ast.While)]
            if ws:
                init = [s for s in outer.body if isinstance(s, ast.Assign) and isinstance(s.targets[0], ast.Tuple)
                        and [ast.unparse(t) for t in s.targets[0].elts] == ["lo", "hi"]]
                res = [s for s in outer.body if isinstance(s, ast.Assign) and ast.unparse(s.targets[0]) in ("ci_low", "ci_upp")]
                if len(ws) != 1 or len(init) != 1 or len(res) != 1 or ast.unparse(res[0].value) != "lo":
                    raise Unsupported("bisection block has an unexpected shape")
                loops.append((ast.unparse(res[0].targets[0]), init[0], ws[0]))
    if [l[0] for l in loops] != ["ci_low", "ci_upp"]:
        raise Unsupported(f"bisection loops found: {[l[0] for l in loops]}")
    out = ["From Coq Require Import Arith Lia.", "From PV Require Import Lib.Base Model.ConfInt Lib.TailTables.", "Local Open Scope nat_scope.", ""]
    detail = []
    for name, init, w in loops:
        if ast.unparse(w.test) != "lo < hi":
            raise Unsupported("loop test " + ast.unparse(w.test))
        if len(w.body) != 2 or not (isinstance(w.body[0], ast.Assign) and ast.unparse(w.body[0].targets[0]) == "mid") or not isinstance(w.body[1], ast.If):
            raise Unsupported("loop body shape")
        iff = w.body[1]
        if ast.unparse(iff.test) != "f(mid) >= 0" or len(iff.body) != 1 or len(iff.orelse) != 1:
            raise Unsupported("loop branch shape: " + ast.unparse(iff.test))
        names = {"lo": "lo", "hi": "hi", "mid": "mid"}
        mid = tr_nat(w.body[0].value, {"lo": "lo", "hi": "hi"})
        def upd(st):
            if not (isinstance(st, ast.Assign) and ast.unparse(st.targets[0]) in ("lo", "hi")):
                raise Unsupported("update " + ast.unparse(st))
            v = tr_nat(st.value, names)
            return f"({v}, hi)" if ast.unparse(st.targets[0]) == "lo" else f"(lo, {v})"
        a, b = upd(iff.body[0]), upd(iff.orelse[0])
        lo0, hi0 = (tr_nat(e, {"x": "x", "N": "N", "n": "n"}) for e in init.value.elts)
        kind = "min" if name == "ci_low" else "max"
        out += [f"Definition src_step_{kind} (ok : nat -> bool) (lo hi : nat) : nat * nat := let mid := {mid} in if ok mid then {a} else {b}.",
                f"Theorem G8_step_{kind} : forall ok lo hi, src_step_{kind} ok lo hi = bisect_{kind}_step ok lo hi.",
                f"Proof. intros. unfold src_step_{kind}, bisect_{kind}_step. cbv zeta. destruct (ok _); f_equal; lia. Qed.",
                f"Definition src_init_{kind} (x N n : nat) : nat * nat := ({lo0}, {hi0}).",
                f"Theorem G8_init_{kind} : forall x N n, src_init_{kind} x N n = (x, N - (n - x)).",
                f"Proof. intros. unfold src_init_{kind}. f_equal; lia. Qed.", ""]
        detail.append({"loop": name, "mid": ast.unparse(w.body[0].value), "then": ast.unparse(iff.body[0]), "else": ast.unparse(iff.orelse[0]), "init": ast.unparse(init.value)})
    return "\n".join(out), detail
