"""Union of the unstratified (core_runs) and stratified (strat_runs) scripted runs; used by C03 C04 C05 C06."""
from . import core_runs as CR, strat_runs as SR

COQ_HEADER = """From PV Require Import Lib.Base Model.Prng Model.Core Model.Stratified Corr.CoreCases Corr.C02 Corr.AllRand.
Open Scope Q_scope."""
SKIPPED = [0]


EXTRA = []      # names of further sources (oracle only, no Coq term): "exp" (C17 histories), "pifs" (C19), "npc" (C07 sim_npc), "wy" (C10)


def _extra_mod(name):
    import importlib
    return importlib.import_module("harness.props." + {"exp": "c17", "pifs": "c19", "npc": "c07", "wy": "c10"}[name])


def cases(tier, rng, dist, focus=None, extra=()):
    for c in CR.cases(tier, rng, dist, focus=focus):
        c["src"] = "core"; yield c
    for c in SR.cases(tier, rng, dist):
        c["src"] = "strat"; yield c
    for name in extra:
        m = _extra_mod(name)
        for c in m.cases(tier, rng, dist):
            if name == "npc" and c.get("f") != "sim":
                continue
            c["src"] = name; yield c


def mod(c):
    return CR if c["src"] == "core" else SR if c["src"] == "strat" else _extra_mod(c["src"])


def run(c):
    return mod(c).run(c)


def wrap(c, t):
    return None if t is None else f"({'CoreC' if c['src'] == 'core' else 'StratC'} ({t}))"


def to_coq(c, o):
    if c["src"] not in ("core", "strat"):
        return None
    return wrap(c, mod(c).to_coq(c, o))


def extra_terms(c, o):
    if c["src"] not in ("core", "strat"):
        return []
    return [wrap(c, t) for t in mod(c).extra_terms(c, o)]


def oracle(c, o):
    return mod(c).oracle(c, o)


def nontrivial(c, o):
    return mod(c).nontrivial(c, o)


def key(c):
    return c["src"] + ":" + mod(c).key({k: v for k, v in c.items() if k != "src"})


def filtered_oracle(allowed):
    from . import common
    def f(c, o):
        common.ALLOW[0] = list(allowed)      # violations of other classes do not end the oracle early (common.emit)
        try:
            r = oracle(c, o)
        finally:
            common.ALLOW[0] = None
        if r is None:
            return None
        suffix = r["cls"].split(":", 1)[1] if ":" in r["cls"] else r["cls"]
        if suffix in allowed or suffix.split(":")[0] in allowed or suffix in ("raises", "harness-exception"):
            return r
        return None
    return f
