"""Orchestrator shared by all properties (see ../check)."""
import sys, os, json, time, subprocess, hashlib, re, glob, fcntl, importlib, shutil
from concurrent.futures import ThreadPoolExecutor

PY = "/venv/bin/python"
REPO = os.environ.get("VERIF_REPO", "/repo")   # override used only by tools/try_patch.sh (scratch copy with a seeded change)
COQ_TIMEOUT = 1500
CASES_PER_FILE = 250

FORBIDDEN = re.compile(
    r"\bAdmitted\b|\badmit\b|\bAxiom\b|\bAxioms\b|\bParameter\b|\bParameters\b|\bConjecture\b|Guard Checking|bypass_check|"
    r"Admit Obligations|type-in-type|impredicative-set|Positivity Checking|Universe Checking|\bgive_up\b")

# axioms declared by Coq's standard library that a theorem may depend on (each is named in the
# trusted base of the evidence when it occurs); anything else fails the audit
ALLOWED_AXIOMS = [
    r"ClassicalDedekindReals\.sig_forall_dec", r"ClassicalDedekindReals\.sig_not_dec",
    r"FunctionalExtensionality\.functional_extensionality_dep", r"Classical_Prop\.classic",
    r"Eqdep\.Eq_rect_eq\.eq_rect_eq", r"ProofIrrelevance\.proof_irrelevance", r"JMeq\.JMeq_eq",
    r"PropExtensionality\.propositional_extensionality",
    # kernel primitives (not axioms of ours): binary64 and 63-bit integers
    r"PrimFloat\.\w+", r"Uint63\.\w+", r"PrimInt63\.\w+", r"FloatAxioms\.\w+", r"FloatOps\.\w+", r"float", r"int",
    r"Uint63Axioms\.\w+", r"FloatLemmas\.\w+", r"SpecFloat\.\w+",
]

TRUSTED_BASE_COMMON = [
    "Coq 8.16.1 kernel + vm_compute (no native_compute), coqc full .vo build",
    "Coq standard library (Lists, ZArith, QArith, Sorting, Lia/Lra/Nia), MathComp 1.15 ssreflect where imported",
    "hand-written Gallina model tied to /repo by the correspondence run of this check (Python harness harness/props/*.py, "
    "scripted cryptorandom.SHA256 subclass, case generators, Coq-term printer)",
    "NumPy/SciPy/cryptorandom/CPython primitives are modelled, not verified",
]


def sh(cmd, timeout=None, cwd=None, env=None):
    p = subprocess.run(cmd, shell=isinstance(cmd, str), cwd=cwd, env=env, timeout=timeout,
                       stdout=subprocess.PIPE, stderr=subprocess.STDOUT, text=True)
    out = "\n".join(l for l in p.stdout.splitlines() if not l.startswith("WARNING conda"))
    return p.returncode, out


def coq_sources(root):
    out = []
    for d in ["Lib", "Spec", "Model", "Proofs", "Properties", "Corr"]:
        out += sorted(glob.glob(os.path.join(root, "coq", d, "*.v")))
    return out


def build(root):
    """full .vo build of the hand-written development (incremental), under a lock"""
    coq = os.path.join(root, "coq")
    with open(os.path.join(coq, ".lock"), "w") as lk:
        fcntl.flock(lk, fcntl.LOCK_EX)
        files = " ".join(os.path.relpath(f, coq) for f in coq_sources(root))
        rc, out = sh(f"coq_makefile -f _CoqProject -o Makefile {files}", cwd=coq, timeout=120)
        if rc != 0:
            return False, out
        rc, out = sh("make -j16", cwd=coq, timeout=COQ_TIMEOUT)
        return rc == 0, out


def audit_sources(root):
    bad = []
    for f in coq_sources(root):
        txt = open(f).read()
        # strip comments (non-nested is enough for our sources)
        txt2 = re.sub(r"\(\*.*?\*\)", "", txt, flags=re.S)
        for m in FORBIDDEN.finditer(txt2):
            bad.append(f"{os.path.relpath(f, root)}: {m.group(0)}")
    return bad


def print_assumptions(root, prop):
    """re-run coqc on Properties/<prop>.v, return (ok, {theorem: [axioms]}, n_theorems, raw)"""
    coq = os.path.join(root, "coq")
    src = os.path.join(coq, "Properties", f"{prop}.v")
    if not os.path.exists(src):
        return False, {}, 0, "missing " + src
    txt = open(src).read()
    txt_nc = re.sub(r"\(\*.*?\*\)", "", txt, flags=re.S)
    theorems = re.findall(r"^\s*(?:Theorem|Lemma|Corollary)\s+(\w+)", txt_nc, flags=re.M)
    printed = re.findall(r"^\s*Print Assumptions\s+(\w+)\s*\.", txt_nc, flags=re.M)
    tmp = os.path.join(coq, "Generated", "audit", f"{prop}.vo")
    os.makedirs(os.path.dirname(tmp), exist_ok=True)
    rc, out = sh(["coqc", "-R", coq, "PV", "-w", "-notation-overridden,-deprecated-hint-without-locality,-deprecated-syntactic-definition,-ambiguous-paths",
                  "-o", tmp, src], timeout=COQ_TIMEOUT)
    for ext in (".vo", ".glob", ".vok", ".vos"):
        try: os.remove(tmp[:-3] + ext)
        except OSError: pass
    if rc != 0:
        return False, {}, len(theorems), out
    blocks, cur = [], None
    for line in out.splitlines():
        if line.startswith("Closed under the global context"):
            if cur is not None: blocks.append(cur)
            blocks.append([]); cur = None
        elif line.startswith("Axioms:"):
            if cur is not None: blocks.append(cur)
            cur = []
        elif cur is not None:
            m = re.match(r"^(\S+)\s*(:|$)", line)
            if m and not line.startswith(" "):
                cur.append(m.group(1))
    if cur is not None: blocks.append(cur)
    ass = {}
    ok = True
    if len(blocks) != len(printed):
        return False, {}, len(theorems), f"Print Assumptions blocks {len(blocks)} != commands {len(printed)}\n" + out
    for name, b in zip(printed, blocks):
        ass[name] = b
        for ax in b:
            if not any(re.fullmatch(p, ax) for p in ALLOWED_AXIOMS):
                ok = False
    missing = [t for t in theorems if t not in printed]
    if missing:
        return False, ass, len(theorems), "theorems without Print Assumptions: " + ", ".join(missing)
    return ok, ass, len(theorems), out


def run_coq_cases(root, prop, header, terms, tag="cases"):
    """evaluate check_case on every term inside Coq; return (failing_indices, error_text|None)"""
    coq = os.path.join(root, "coq")
    gen = os.path.join(coq, "Generated")
    os.makedirs(gen, exist_ok=True)
    for f in glob.glob(os.path.join(gen, f"{prop}_{tag}_*")):
        os.remove(f)
    files = []
    for k in range(0, len(terms), CASES_PER_FILE):
        chunk = terms[k:k + CASES_PER_FILE]
        fn = os.path.join(gen, f"{prop}_{tag}_{k // CASES_PER_FILE}.v")
        with open(fn, "w") as f:
            f.write(header + "\n")
            f.write("Definition cases : list case := [\n" + ";\n".join(chunk) + "\n].\n")
            f.write("Eval vm_compute in (failing check_case cases).\n")
        files.append((k, fn))

    def one(kf):
        k, fn = kf
        rc, out = sh(f"ulimit -s unlimited 2>/dev/null; coqc -R {coq} PV -w -notation-overridden,-deprecated-hint-without-locality,-deprecated-syntactic-definition,-ambiguous-paths {fn}",
                     timeout=COQ_TIMEOUT)
        if rc != 0:
            return k, None, out
        m = re.search(r"=\s*(\[.*?\])\s*(%nat)?\s*:\s*list nat", out, flags=re.S)
        if not m:
            return k, None, "unparsed coqc output:\n" + out
        idx = [int(x) for x in re.findall(r"\d+", m.group(1))]
        return k, idx, None

    failing, err = [], None
    with ThreadPoolExecutor(max_workers=12) as ex:
        for k, idx, e in ex.map(one, files):
            if e is not None:
                err = (err or "") + e[-3000:]
            else:
                failing += [k + i for i in idx]
    for f in glob.glob(os.path.join(gen, f"{prop}_{tag}_*")):
        if not f.endswith(".v"):
            os.remove(f)
    return sorted(failing), err


def run_harness(root, prop, tier, seed, out_json, replay=None, timeout=3000):
    env = dict(os.environ)
    env["PYTHONPATH"] = f"{REPO}:{root}"
    env["PYTHONHASHSEED"] = "0"
    env["PERMUTE_VERIF"] = "1"
    env["OMP_NUM_THREADS"] = "1"; env["OPENBLAS_NUM_THREADS"] = "1"; env["MKL_NUM_THREADS"] = "1"
    cmd = [PY, "-m", "harness.runner", prop, tier, str(seed), out_json]
    if replay:
        cmd += ["--replay", replay]
    try:
        rc, out = sh(cmd, cwd=root, env=env, timeout=timeout)
    except subprocess.TimeoutExpired:
        return 124, "harness timed out"
    return rc, out


def load_known(root):
    p = os.path.join(root, "KNOWN_FINDINGS.json")
    if not os.path.exists(p):
        return []
    return json.load(open(p))


def write_replay(root, prop, payload):
    os.makedirs(os.path.join(root, "replays"), exist_ok=True)
    h = hashlib.sha256(json.dumps(payload, sort_keys=True, default=str).encode()).hexdigest()[:12]
    path = os.path.join(root, "replays", f"{prop}-{h}.json")
    payload = dict(payload)
    payload["command"] = f"./check {prop} --replay {path}"
    with open(path, "w") as f:
        json.dump(payload, f, indent=1, default=str)
    return path


def main(root, prop, tier, seed, replay):
    t0 = time.time()
    os.chdir(root)
    violations = []          # (line_suffix, replay_payload)
    known_lines = []
    notes = []

    if replay:
        rp = json.load(open(replay))
        if rp.get("kind") == "failing-input":
            out_json = os.path.join(root, "coq", "Generated", f"{prop}_replay_out.json")
            os.makedirs(os.path.dirname(out_json), exist_ok=True)
            rc, out = run_harness(root, prop, tier, seed, out_json, replay=replay)
            if rc != 0:
                print(out); print(f"VIOLATION property={prop} replay={replay}"); return 1
            res = json.load(open(out_json))
            bad = [c for c in res["cases"] if c.get("oracle")]
            for c in bad:
                print("still failing:", c["oracle"]["why"])
            if bad:
                print(f"VIOLATION property={prop} replay={replay}")
                return 1
            print("replay: property predicate holds on the stored input now")
            return 0
        # broken obligation / correspondence: re-run the whole check
        print("replay of a broken obligation: re-running the full check")

    # 1. build + audit ---------------------------------------------------------------
    ok_build, build_out = build(root)
    forb = audit_sources(root)
    ok_pa, assumptions, n_thm, pa_out = (False, {}, 0, "not built")
    if ok_build:
        ok_pa, assumptions, n_thm, pa_out = print_assumptions(root, prop)
    obligations = n_thm
    discharged = n_thm if (ok_build and ok_pa and not forb) else 0
    if not ok_build:
        violations.append(("no-failing-input-found", {"kind": "broken-obligation", "what": "coq build failed", "log": build_out[-4000:]}))
    elif forb:
        violations.append(("no-failing-input-found", {"kind": "broken-obligation", "what": "forbidden constructs in Coq sources", "log": forb}))
    elif not ok_pa:
        violations.append(("no-failing-input-found", {"kind": "broken-obligation", "what": f"Properties/{prop}.v does not check or depends on a non-allowed axiom", "log": pa_out[-4000:], "assumptions": assumptions}))

    # 2+3+4. harness: generated obligations, implementation runs, oracle ------------------
    out_json = os.path.join(root, "coq", "Generated", f"{prop}_{tier}_out.json")
    os.makedirs(os.path.dirname(out_json), exist_ok=True)
    if os.path.exists(out_json):
        os.remove(out_json)
    rc, hout = run_harness(root, prop, tier, seed, out_json)
    res = None
    if rc != 0 or not os.path.exists(out_json):
        violations.append(("no-failing-input-found", {"kind": "broken-harness", "what": "harness crashed or timed out on the implementation", "log": hout[-6000:]}))
    else:
        res = json.load(open(out_json))

    known = [k for k in load_known(root) if k.get("property") == prop and k.get("status") == "known"]
    corr_fail = []
    gen_obl = []
    if res is not None:
        cases = res["cases"]
        # generated (source-derived) obligations
        for ob in res.get("generated", []):
            obligations += 1
            fn = os.path.join(root, "coq", "Generated", ob["file"])
            with open(fn, "w") as f:
                f.write(ob["text"])
            rc2, o2 = sh(["coqc", "-R", os.path.join(root, "coq"), "PV", "-w", "-notation-overridden,-deprecated-hint-without-locality,-deprecated-syntactic-definition,-ambiguous-paths", fn], timeout=COQ_TIMEOUT)
            okg = (rc2 == 0) and not ob.get("fail_closed")
            gen_obl.append({"name": ob["name"], "ok": okg})
            if okg:
                discharged += 1 if (ok_build and ok_pa and not forb) else 0
            else:
                # is there a concrete failing input from the run-time oracle for this obligation?
                violations.append((None if ob.get("witness") else "no-failing-input-found",
                                   {"kind": "broken-obligation", "what": f"generated obligation {ob['name']} no longer checks",
                                    "detail": ob.get("detail"), "witness": ob.get("witness"), "log": o2[-3000:],
                                    "cls": ob.get("cls")}))
        # correspondence
        idx_with_terms, all_terms = [], []
        for i, c in enumerate(cases):
            for t in ([c["coq"]] if c.get("coq") else []) + list(c.get("coq_extra") or []):
                idx_with_terms.append(i); all_terms.append(t)
        if ok_build and idx_with_terms:
            failing, err = run_coq_cases(root, prop, res["coq_header"], all_terms, tag=f"{tier}")
            if err:
                violations.append(("no-failing-input-found", {"kind": "broken-correspondence", "what": "coqc failed on generated cases", "log": err[-4000:]}))
            corr_fail = sorted({idx_with_terms[j] for j in failing})
        # oracle failures (property predicate evaluated on the implementation)
        seen_cls = {}
        for i, c in enumerate(cases):
            if c.get("oracle"):
                cls = c["oracle"].get("cls", "")
                seen_cls.setdefault(cls, []).append(i)
        for cls, idxs in seen_cls.items():
            kf = [k for k in known if k.get("class") == cls]
            c = cases[idxs[0]]
            if kf:
                known_lines.append(f"KNOWN-FINDING: property={prop} {kf[0].get('what', cls)} [{cls}; {len(idxs)} case(s) this run]")
            else:
                violations.append((None, {"kind": "failing-input", "property": prop, "cls": cls, "why": c["oracle"]["why"],
                                          "case": c["input"], "observed": c.get("obs"), "n_cases": len(idxs)}))
        # correspondence mismatches that are not explained by an oracle failure (a KNOWN finding explains nothing:
        # the model reproduces the recorded behaviour faithfully, so model and implementation must still agree there)
        known_cls = {k.get("class") for k in known}
        unexplained = [i for i in corr_fail if not cases[i].get("oracle") or cases[i]["oracle"].get("cls") in known_cls]
        if unexplained:
            c = cases[unexplained[0]]
            violations.append(("no-failing-input-found",
                               {"kind": "broken-correspondence", "what": f"model (Corr/{prop}.v check_case) and implementation disagree on {len(unexplained)} case(s); the property predicate holds on them",
                                "case": c["input"], "observed": c.get("obs"), "coq_term": c.get("coq")}))
        # mismatches on oracle-failing cases are reported with the failing input (already above)

    # evidence ----------------------------------------------------------------------------
    wall = time.time() - t0
    tb = list(TRUSTED_BASE_COMMON)
    used_axioms = sorted({a for v in assumptions.values() for a in v})
    if used_axioms:
        tb.append("axioms reported by Print Assumptions (all from the Coq standard library / kernel primitives): " + ", ".join(used_axioms))
    else:
        tb.append("Print Assumptions: every property theorem is closed under the global context")
    ev = {
        "property_id": prop, "tier": tier, "seed": seed, "level": "proof",
        "wall_s": round(wall, 2), "violations": len(violations),
        "coverage": {
            "obligations": max(obligations, 1), "discharged": discharged,
            "checker_cmd": f"make -C coq (coq_makefile, full .vo) && coqc -R coq PV coq/Properties/{prop}.v  # Print Assumptions audit",
            "trusted_base": tb + (res.get("trusted_base", []) if res else []),
            "theorems": sorted(assumptions.keys()),
            "assumptions_printed": {k: (v if v else "Closed under the global context") for k, v in assumptions.items()},
            "generated_obligations": gen_obl,
        },
        "assumptions": (res.get("assumptions", []) if res else []),
    }
    if res is not None:
        cases = res["cases"]
        keys = {c["key"] for c in cases if c.get("nontrivial")}
        ev["coverage"].update({
            "evaluations": len(cases),
            "distinct_nontrivial": len(keys),
            "rule": res.get("rule", ""),
            "samples": [{"input": c["input"], "impl": c.get("obs")} for c in cases[:: max(1, len(cases) // 3)][:3]],
            "model_evaluations": sum((1 if c.get("coq") else 0) + len(c.get("coq_extra") or []) for c in cases),
            "correspondence_mismatches": len(corr_fail),
            "oracle_failures": sum(1 for c in cases if c.get("oracle")),
            "distribution": res.get("distribution", {}),
            "exhaustive_domains": res.get("exhaustive", []),
            "exhaustive": bool(res.get("exhaustive_all", False)),
            "skipped_boundary": res.get("skipped", 0),
            "known_findings_hit": known_lines,
        })
    evdir = os.path.join(root, "evidence") if "VERIF_REPO" not in os.environ else "/tmp/verif_scratch_evidence"
    os.makedirs(evdir, exist_ok=True)
    with open(os.path.join(evdir, f"{prop}.json"), "w") as f:
        json.dump(ev, f, indent=1, default=str)

    for l in known_lines:
        print(l)
    if not violations:
        print(f"OK property={prop} tier={tier} theorems={n_thm} obligations={obligations} discharged={discharged} "
              f"cases={len(res['cases']) if res else 0} wall={wall:.1f}s")
        return 0
    for suffix, payload in violations:
        payload["property"] = prop
        path = write_replay(root, prop, payload)
        line = f"VIOLATION property={prop} replay={path}"
        if suffix:
            line += " " + suffix
        print(line)
        print("   ", payload.get("what") or payload.get("why"))
    return 1
