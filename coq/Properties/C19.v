From PV Require Import Lib.Base Model.Prng Model.Incidence.
Open Scope Z_scope.
Theorem C19_k0_returns_equal_copy : forall m t, (mmin m =? 0) && (mmax m =? 1) && is_binary m = true ->
  permute_incidence_fixed_sums m true 0 t = Ok (m, t).
Proof. intros m t H. unfold permute_incidence_fixed_sums. cbn [negb]. rewrite H. reflexivity. Qed.
Print Assumptions C19_k0_returns_equal_copy.
Theorem C19_validation : forall m two_d k t,
  two_d = false \/ (mmin m =? 0) && (mmax m =? 1) && is_binary m = false ->
  permute_incidence_fixed_sums m two_d k t = Err ValueError.
Proof.
  intros m two_d k t [->|H]; unfold permute_incidence_fixed_sums; [reflexivity|].
  destruct two_d; [|reflexivity]. cbn [negb]. rewrite H. reflexivity.
Qed.
Print Assumptions C19_validation.
