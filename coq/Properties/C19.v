From PV Require Import Lib.Base Model.Prng Model.Incidence.
Open Scope Z_scope.
Theorem C19_k0_returns_equal_copy : forall m t, (mmin m =? 0) && (mmax m =? 1) && is_binary m = true ->
  permute_incidence_fixed_sums m true 0 t = Ok (m, t).
Proof. intros m t H. unfold permute_incidence_fixed_sums. cbn [negb]. rewrite H. reflexivity. Qed.
Print Assumptions C19_k0_returns_equal_copy.
Theorem C19_validation : forall m two_d k t,
  two_d = false \/ (mmin m =? 0) && (mmax m =? 1) && is_binary m = false ->
  permute_incidence_fixed_sums m two_d k t = Err ValueError.
Proof.
  intros m two_d k t [->|H]; unfold permute_incidence_fixed_sums; [reflexivity|].
  destruct two_d; [|reflexivity]. cbn [negb]. rewrite H. reflexivity.
Qed.
Print Assumptions C19_validation.

From PV Require Import Proofs.IncidenceProofs.
(* the result is reachable from the input by exactly k checkerboard swaps (rows s0 <> s1, columns p0 <> p1,
   pattern 1 0 / 0 1 turned into 0 1 / 1 0); it has the same shape, the same row and column sums, is binary
   and differs from the input in at most 4k cells -- for every matrix, every k and every answer tape *)
Theorem C19_result_is_k_checkerboard_swaps : forall C m two_d k t m' t', rect m C ->
  permute_incidence_fixed_sums m two_d k t = Ok (m', t') ->
  reach C k m m' /\ rect m' C /\ length m' = length m /\ same_margins m m' /\ is_binary m' = true /\
  (diff_cells (length m) C m m' <= 4 * k)%nat.
Proof. exact pifs_spec. Qed.
Print Assumptions C19_result_is_k_checkerboard_swaps.
Theorem C19_one_swap_preserves_margins : forall m s0 s1 p0 p1,
  (s0 < length m)%nat -> (s1 < length m)%nat ->
  (p0 < length (nth s0 m []))%nat -> (p1 < length (nth s0 m []))%nat ->
  (p0 < length (nth s1 m []))%nat -> (p1 < length (nth s1 m []))%nat ->
  is_checkerboard m s0 s1 p0 p1 = true ->
  (forall r, row_sum (swap4 m s0 s1 p0 p1) r = row_sum m r) /\
  (forall c, col_sum (swap4 m s0 s1 p0 p1) c = col_sum m c) /\
  get (swap4 m s0 s1 p0 p1) s0 p0 = 0 /\ get (swap4 m s0 s1 p0 p1) s0 p1 = 1 /\
  get (swap4 m s0 s1 p0 p1) s1 p0 = 1 /\ get (swap4 m s0 s1 p0 p1) s1 p1 = 0 /\
  (forall r c, (r, c) <> (s0, p0) -> (r, c) <> (s0, p1) -> (r, c) <> (s1, p0) -> (r, c) <> (s1, p1) ->
     get (swap4 m s0 s1 p0 p1) r c = get m r c).
Proof. exact swap4_preserves_margins. Qed.
Print Assumptions C19_one_swap_preserves_margins.
(* The retry loop.  The property is stated for matrices that admit at least one checkerboard swap; that precondition is
   an invariant of the run (the swap just made can be undone on the same rows and columns) ... *)
From PV Require Import Proofs.IncidenceProgress.
Theorem C19_swappable_matrices_stay_swappable : forall C k m m', rect m C -> swappable C m -> reach C k m m' -> swappable C m'.
Proof. exact reach_swappable. Qed.
Print Assumptions C19_swappable_matrices_stay_swappable.

(* ... under it every attempt of the retry loop can succeed, and perform ANY prescribed checkerboard swap: there are four
   answers (two for the row pair, one for each column) on which the attempt returns exactly swap4 m s0 s1 p0 p1.  Each attempt
   therefore succeeds with probability >= 1/(n (n-1) C^2) under an ideal generator, so the loop ends almost surely
   (termination for every answer sequence does not hold and is not claimed: the model uses the tape length as fuel) ... *)
Theorem C19_every_attempt_can_succeed : forall C m s0 s1 p0 p1, rect m C ->
  (s0 < length m)%nat -> (s1 < length m)%nat -> (p0 < C)%nat -> (p1 < C)%nat ->
  is_checkerboard m s0 s1 p0 p1 = true ->
  exists a b i0 i1, forall fuel rest,
    attempts m (S fuel) (a :: b :: i0 :: i1 :: rest) = Ok (swap4 m s0 s1 p0 p1, rest).
Proof. exact attempt_can_succeed. Qed.
Print Assumptions C19_every_attempt_can_succeed.

(* ... and without any checkerboard no attempt ever succeeds (why the property excludes such matrices) *)
Theorem C19_no_checkerboard_no_result : forall C m, rect m C -> ~ swappable C m ->
  forall fuel t m' t', attempts m fuel t <> Ok (m', t').
Proof. exact no_checkerboard_no_result. Qed.
Print Assumptions C19_no_checkerboard_no_result.

(* non-vacuity: a 2x3 matrix, two swaps, a concrete answer tape *)
Example C19_nonvacuous :
  exists m' t', permute_incidence_fixed_sums [[1;0;1];[0;1;0]] true 2 [0;0;1;0;1;0;0;0]%nat = Ok (m', t')
    /\ m' <> [[1;0;1];[0;1;0]].
Proof. vm_compute. eexists. eexists. split; [reflexivity|discriminate]. Qed.
