From PV Require Import Lib.Base Model.Prng Model.Incidence.
Open Scope Z_scope.
Theorem C19_k0_returns_equal_copy : forall m t, (mmin m =? 0) && (mmax m =? 1) && is_binary m = true ->
  permute_incidence_fixed_sums m true 0 t = Ok (m, t).
Proof. intros m t H. unfold permute_incidence_fixed_sums. cbn [negb]. rewrite H. reflexivity. Qed.
Print Assumptions C19_k0_returns_equal_copy.
Theorem C19_validation : forall m two_d k t,
  two_d = false \/ (mmin m =? 0) && (mmax m =? 1) && is_binary m = false ->
  permute_incidence_fixed_sums m two_d k t = Err ValueError.
Proof.
  intros m two_d k t [->|H]; unfold permute_incidence_fixed_sums; [reflexivity|].
  destruct two_d; [|reflexivity]. cbn [negb]. rewrite H. reflexivity.
Qed.
Print Assumptions C19_validation.

From PV Require Import Proofs.IncidenceProofs.
(* the result is reachable from the input by exactly k checkerboard swaps (rows s0 <> s1, columns p0 <> p1,
   pattern 1 0 / 0 1 turned into 0 1 / 1 0); it has the same shape, the same row and column sums, is binary
   and differs from the input in at most 4k cells -- for every matrix, every k and every answer tape *)
Theorem C19_result_is_k_checkerboard_swaps : forall C m two_d k t m' t', rect m C ->
  permute_incidence_fixed_sums m two_d k t = Ok (m', t') ->
  reach C k m m' /\ rect m' C /\ length m' = length m /\ same_margins m m' /\ is_binary m' = true /\
  (diff_cells (length m) C m m' <= 4 * k)%nat.
Proof. exact pifs_spec. Qed.
Print Assumptions C19_result_is_k_checkerboard_swaps.
Theorem C19_one_swap_preserves_margins : forall m s0 s1 p0 p1,
  (s0 < length m)%nat -> (s1 < length m)%nat ->
  (p0 < length (nth s0 m []))%nat -> (p1 < length (nth s0 m []))%nat ->
  (p0 < length (nth s1 m []))%nat -> (p1 < length (nth s1 m []))%nat ->
  is_checkerboard m s0 s1 p0 p1 = true ->
  (forall r, row_sum (swap4 m s0 s1 p0 p1) r = row_sum m r) /\
  (forall c, col_sum (swap4 m s0 s1 p0 p1) c = col_sum m c) /\
  get (swap4 m s0 s1 p0 p1) s0 p0 = 0 /\ get (swap4 m s0 s1 p0 p1) s0 p1 = 1 /\
  get (swap4 m s0 s1 p0 p1) s1 p0 = 1 /\ get (swap4 m s0 s1 p0 p1) s1 p1 = 0 /\
  (forall r c, (r, c) <> (s0, p0) -> (r, c) <> (s0, p1) -> (r, c) <> (s1, p0) -> (r, c) <> (s1, p1) ->
     get (swap4 m s0 s1 p0 p1) r c = get m r c).
Proof. exact swap4_preserves_margins. Qed.
Print Assumptions C19_one_swap_preserves_margins.
(* non-vacuity: a 2x3 matrix, two swaps, a concrete answer tape *)
Example C19_nonvacuous :
  exists m' t', permute_incidence_fixed_sums [[1;0;1];[0;1;0]] true 2 [0;0;1;0;1;0;0;0]%nat = Ok (m', t')
    /\ m' <> [[1;0;1];[0;1;0]].
Proof. vm_compute. eexists. eexists. split; [reflexivity|discriminate]. Qed.
