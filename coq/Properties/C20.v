(* C20 -- duplicate-row finders report exactly the repeated rows.
   Only statements closed by [exact]; proofs live in Proofs/QaProofs.v. *)
From PV Require Import Lib.Base Lib.Sort Model.Qa Proofs.QaProofs.
Open Scope Z_scope.

(* every row occurring m times in x occurs max(m-1,0) times in the result: m-1 copies of
   each repeated row and nothing else *)
Theorem C20_dups_count : forall (x : list row) (r : row),
  count_occ row_eq_dec (find_duplicate_rows x) r = pred (count_occ row_eq_dec x r).
Proof. exact dups_count. Qed.
Print Assumptions C20_dups_count.

(* exactly one copy of row i+1 for every i with row i+1 = row i, in order of occurrence *)
Theorem C20_consecutive_spec : forall (a : row) (t : list row),
  find_consecutive_duplicate_rows (a :: t) =
  Ok (map snd (filter (fun p => row_eqb (snd p) (fst p)) (adjacent_pairs (a :: t)))).
Proof. intros a t. unfold find_consecutive_duplicate_rows. f_equal. exact (consec_spec a t). Qed.
Print Assumptions C20_consecutive_spec.

(* NumPy's fixed-width row differences wrap around; a wrapped difference is zero iff the
   entries are equal, so the model may compare rows by equality *)
Theorem C20_diff_wrap_zero_iff : forall a b : Z,
  - 2^63 <= a < 2^63 -> - 2^63 <= b < 2^63 -> ((a - b) mod 2^64 = 0 <-> a = b).
Proof. exact diff_wrap_zero_iff. Qed.
Print Assumptions C20_diff_wrap_zero_iff.

Example C20_nonvacuous :
  find_duplicate_rows [[1;2];[0;5];[1;2];[0;5];[1;2];[7;7]] = [[1;2];[1;2];[0;5]] /\
  find_consecutive_duplicate_rows [[1;2];[1;2];[1;2];[0;0];[1;2]] = Ok [[1;2];[1;2]].
Proof. vm_compute. split; reflexivity. Qed.
