(* C15 -- theorems are added in Proofs/SprtProofs.v; this file is extended below *)
From PV Require Import Lib.Base Model.Sprt.
Open Scope Q_scope.
Theorem C15_fixed_order_judges_whole_sample_once : forall lr al be xs,
  sprt lr al be xs false = (conclude (be / (1 - al)) ((1 - be) / al) (lr xs), lr xs, [xs]).
Proof. intros. reflexivity. Qed.
Print Assumptions C15_fixed_order_judges_whole_sample_once.
