(* C15 -- sprt applies Wald's rule to every prefix of the sample; error bounds hold.
   Statements only; proofs in Proofs/SprtProofs.v. *)
From PV Require Import Lib.Base Model.Sprt Proofs.SprtProofs.
Open Scope Q_scope.

(* random_order=True: the loop of the model is the prefix recursion loop2 started with no observation examined *)
Theorem C15_loop_is_prefix_recursion : forall lr A B xs,
  sprt_loop lr A B xs 0 (length xs) 1 = loop2 lr A B [] xs 1.
Proof. intros lr A B xs. exact (sprt_loop_loop2 lr A B xs [] 1). Qed.
Print Assumptions C15_loop_is_prefix_recursion.

(* ... which examines x[:1], x[:2], ... in turn (log), reports the ratio of the last prefix examined (t), found
   every earlier prefix strictly inside (A, B), and stopped because that last ratio left the open interval or
   the whole sample was used; with no observation at all it reports the initial value 1 *)
Theorem C15_examines_prefixes_in_turn_and_stops_at_first_exit : forall lr A B w ts t log,
  loop2 lr A B [] w ts = (t, log) ->
  log = map (fun k => firstn k w) (seq 1 (length log)) /\
  (length log <= length w)%nat /\
  t = match length log with O => ts | S _ => lr (firstn (length log) w) end /\
  (forall j, (1 <= j < length log)%nat -> inside A B (lr (firstn j w)) = true) /\
  ((length log = length w) \/ inside A B t = false).
Proof.
  intros lr A B w ts t log H. destruct (loop2_spec lr A B w [] ts t log H) as [H1 [H2 [H3 [H4 [_ H6]]]]].
  repeat split; assumption.
Qed.
Print Assumptions C15_examines_prefixes_in_turn_and_stops_at_first_exit.

(* decision: 'reject H0' iff ratio >= B, 'reject Ha' iff ratio <= A (and not >= B); otherwise no decision *)
Theorem C15_decision_rule : forall A B ts,
  fst (conclude A B ts) = Qle_bool B ts /\ snd (conclude A B ts) = negb (Qle_bool B ts) && Qle_bool ts A.
Proof. exact conclude_spec. Qed.
Print Assumptions C15_decision_rule.

(* random_order=False: the whole sample is judged once by the same thresholds *)
Theorem C15_fixed_order_judges_whole_sample_once : forall lr al be xs,
  sprt lr al be xs false = (conclude (be / (1 - al)) ((1 - be) / al) (lr xs), lr xs, [xs]).
Proof. intros. reflexivity. Qed.
Print Assumptions C15_fixed_order_judges_whole_sample_once.

(* bernoulli_lh_ratio is the product over observations of (pa/po)^x ((1-pa)/(1-po))^(1-x) *)
Theorem C15_bernoulli_lr_is_product : forall po pa w, 0 < po < 1 -> 0 < pa < 1 ->
  bernoulli_lh_ratio po pa (bits w) == prodP pa w / prodP po w.
Proof. exact bernoulli_lr_is_product. Qed.
Print Assumptions C15_bernoulli_lr_is_product.

(* Wald's bounds for every sample size n, all po, pa, alpha, beta in range: summing the H0-probability
   prodP po w of every 0/1 sequence w of length n on which the model function sprt rejects H0 gives at most
   alpha/(1-beta); likewise beta/(1-alpha) for rejecting Ha under Ha *)
Theorem C15_wald_type1 : forall po pa alpha beta n,
  0 < po < 1 -> 0 < pa < 1 -> 0 < alpha -> 0 < beta -> alpha + beta < 1 ->
  qsum (map (fun w => prodP po w *
                      ind (fst (fst (fst (sprt (bernoulli_lh_ratio po pa) alpha beta (bits w) true))))) (seqs n))
  <= alpha / (1 - beta).
Proof. exact wald_type1. Qed.
Print Assumptions C15_wald_type1.

Theorem C15_wald_type2 : forall po pa alpha beta n,
  0 < po < 1 -> 0 < pa < 1 -> 0 < alpha -> 0 < beta -> alpha + beta < 1 ->
  qsum (map (fun w => prodP pa w *
                      ind (snd (fst (fst (sprt (bernoulli_lh_ratio po pa) alpha beta (bits w) true))))) (seqs n))
  <= beta / (1 - alpha).
Proof. exact wald_type2. Qed.
Print Assumptions C15_wald_type2.

Example C15_nonvacuous :
  sprt (bernoulli_lh_ratio (1 # 2) (1 # 10)) (1 # 20) (1 # 20) [1; 1]%Z true
  = ((false, true), (1 # 10) * (1 # 10) * 1 / ((1 # 2) * (1 # 2) * 1), [[1%Z]; [1%Z; 1%Z]]).
Proof. vm_compute. reflexivity. Qed.
