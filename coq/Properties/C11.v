(* C11 -- placeholder until the theorems below are filled in (see Proofs/AdjustProofs.v) *)
From PV Require Import Lib.Base Model.Adjust.
Open Scope Q_scope.
Theorem C11_unknown_method_rejected : forall p ord, adjust_p p ord Unknown = Err ValueError.
Proof. intros p ord. reflexivity. Qed.
Print Assumptions C11_unknown_method_rejected.
