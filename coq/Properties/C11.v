(* C11 -- adjust_p equals the textbook Bonferroni, Holm and Benjamini-Hochberg adjustments.
   Statements only; proofs in Proofs/AdjustProofs.v.
   The textbook values are stated sort-free (no tie order to choose):
     holm_i = max over {j | p_j <= p_i} of min(1, #{k | p_k >= p_j} p_j)
     bh_i   = min over {j | p_j >= p_i} of min(1, n p_j / #{k | p_k <= p_j})
   which are the step-down / step-up formulas of the property text evaluated along ANY sorting order. *)
From PV Require Import Lib.Base Model.Adjust Proofs.AdjustProofs Proofs.RunningProofs Proofs.AdjustRelabel.
From Coq Require Import Permutation.
Open Scope Q_scope.

(* the model of the code -- min-rank / max-rank multipliers, running maximum along the argsort order (Holm),
   running minimum along its reverse (BH) -- returns exactly the textbook values, for EVERY sorting permutation
   [ord] of the p-values: ties may be ranked in any order without changing the result *)
Theorem C11_adjust_p_eq_textbook_for_every_sorting_order : forall p ord,
  is_sorting_perm p ord = true -> (forall y, In y p -> 0 <= y) ->
  forall j, (j < length p)%nat ->
  (exists l, adjust_p p ord Holm = Ok l /\ nth j l 0 == holm_val p (nth j p 0)) /\
  (exists l, adjust_p p ord BH = Ok l /\ nth j l 0 == bh_val p (nth j p 0)) /\
  (exists l, adjust_p p ord Bonferroni = Ok l /\ nth j l 0 == bonf_val p (nth j p 0)).
Proof. exact adjust_p_eq_textbook. Qed.
Print Assumptions C11_adjust_p_eq_textbook_for_every_sorting_order.

Theorem C11_spec_is_entrywise : forall p,
  holm_spec p = map (holm_val p) p /\ bh_spec p = map (bh_val p) p /\
  bonf_spec p = map (fun x => qcap (qn (length p) * x)) p.
Proof. intros p. repeat split. Qed.
Print Assumptions C11_spec_is_entrywise.

(* p <= BH <= Holm <= Bonferroni <= 1, componentwise, for every vector in [0,1]^n *)
Theorem C11_chain : forall (p : list Q) (x : Q), (forall y, In y p -> 0 <= y <= 1) -> In x p ->
  x <= bh_val p x /\ bh_val p x <= holm_val p x /\ holm_val p x <= bonf_val p x /\ bonf_val p x <= 1.
Proof. intros p x Hp Hx. exact (chain p Hp x Hx). Qed.
Print Assumptions C11_chain.

(* the order of the p-values is preserved; in particular equal raw p-values receive equal adjusted values *)
Theorem C11_order_preserved : forall p x y, (forall z, In z p -> 0 <= z) -> x <= y ->
  holm_val p x <= holm_val p y /\ bh_val p x <= bh_val p y.
Proof. intros p x y Hp H. split; [exact (holm_monotone p x y Hp H)|exact (bh_monotone p x y H)]. Qed.
Print Assumptions C11_order_preserved.

Theorem C11_ties_equal : forall p x y, (forall z, In z p -> 0 <= z) -> x == y ->
  holm_val p x == holm_val p y /\ bh_val p x == bh_val p y.
Proof.
  intros p x y Hp E. split; apply Qle_antisym;
  try (apply holm_monotone; [exact Hp|rewrite E; apply Qle_refl]);
  try (apply bh_monotone; rewrite E; apply Qle_refl).
Qed.
Print Assumptions C11_ties_equal.

(* relabelling the hypotheses permutes the result: if p' is any rearrangement of p (each argsorted in any
   admissible way), the same p-value receives the same adjusted value wherever it sits, for all three methods *)
Theorem C11_relabelling_permutes_the_result : forall p p' ord ord', Permutation p p' ->
  is_sorting_perm p ord = true -> is_sorting_perm p' ord' = true -> (forall y, In y p -> 0 <= y) ->
  forall j j', (j < length p)%nat -> (j' < length p')%nat -> nth j p 0 == nth j' p' 0 ->
  forall m, m <> Unknown ->
  exists l l', adjust_p p ord m = Ok l /\ adjust_p p' ord' m = Ok l' /\ nth j l 0 == nth j' l' 0.
Proof. exact adjust_p_relabel. Qed.
Print Assumptions C11_relabelling_permutes_the_result.

Theorem C11_unknown_method_rejected : forall p ord, adjust_p p ord Unknown = Err ValueError.
Proof. intros p ord. reflexivity. Qed.
Print Assumptions C11_unknown_method_rejected.

Example C11_nonvacuous :
  let p := [1 # 100; 1 # 100; 3 # 100; 1 # 2] in
  adjust_p p [1; 0; 2; 3]%nat Holm = Ok [4 # 100; 4 # 100; 6 # 100; 1 # 2] /\
  adjust_p p [0; 1; 2; 3]%nat Holm = Ok [4 # 100; 4 # 100; 6 # 100; 1 # 2] /\
  list_eqb Qeq_bool (holm_spec p) [4 # 100; 4 # 100; 6 # 100; 1 # 2] = true /\
  list_eqb Qeq_bool (bh_spec p) [2 # 100; 2 # 100; 4 # 100; 1 # 2] = true.
Proof. vm_compute. repeat split; reflexivity. Qed.
