(* C04 -- uniformity and independence of the randomizations.  Statements only; proofs in Lib/Shuffle.v,
   Lib/ShuffleTape.v, Lib/Counting.v, Proofs/BinomialLaw.v. *)
From PV Require Import Lib.Base Model.Prng Model.Core.
From mathcomp Require Import all_ssreflect.
From PV Require Import Lib.Shuffle Lib.ShuffleTape Lib.Counting Proofs.BinomialLaw Proofs.AllocUniform.
Local Open Scope nat_scope.

(* The answer space of one shuffle of n items, draws n = { (j_0..j_{n-1}) | j_i < n - i }, has n! elements, all
   equally likely under an ideal generator. *)
Theorem C04_answer_space_size : forall n, size (draws n) = n`! /\ uniq (draws n).
Proof. intros n. split; [exact (size_draws n)|exact (draws_uniq n)]. Qed.
Print Assumptions C04_answer_space_size.

(* Over it the forward Fisher-Yates shuffle (permute, permute_within_groups, permute_rows) produces every
   permutation of a duplicate-free input exactly once, for every size ... *)
Theorem C04_fisher_yates_uniform : forall (T : eqType) (l : seq T), uniq l ->
  perm_eq [seq shuf (@fy_pick T) l d | d <- draws (size l)] (permutations l).
Proof. exact fy_uniform. Qed.
Print Assumptions C04_fisher_yates_uniform.

(* ... and so does the "move the last element into the hole" step shared by random.shuffle (two_sample_core)
   and cryptorandom's sample_by_index (randomize_group / randomize_in_strata) *)
Theorem C04_last_pick_uniform : forall (T : eqType) (l : seq T), uniq l ->
  perm_eq [seq shuf (@last_pick T) l d | d <- draws (size l)] (permutations l).
Proof. exact last_uniform. Qed.
Print Assumptions C04_last_pick_uniform.

(* the same at the level of the model functions reading a tape *)
Theorem C04_model_functions_uniform : forall (T : eqType) (l : seq T), uniq l ->
  perm_eq [seq out (permute l d) | d <- draws (size l)] (permutations l) /\
  perm_eq [seq out (sample_all l d) | d <- draws (size l)] (permutations l).
Proof. intros T l U. split; [exact (permute_uniform U)|exact (sample_all_uniform U)]. Qed.
Print Assumptions C04_model_functions_uniform.

(* values with ties: a shuffle acts on positions (naturality), so the law on value arrangements is the image of
   the uniform law on position permutations *)
Theorem C04_shuffle_acts_on_positions : forall (T : Type) (x0 : T) (x : seq T) d, d \in draws (size x) ->
  shuf (@fy_pick T) x d = [seq nth x0 x i | i <- shuf (@fy_pick nat) (iota 0 (size x)) d] /\
  shuf (@last_pick T) x d = [seq nth x0 x i | i <- shuf (@last_pick nat) (iota 0 (size x)) d].
Proof.
  intros T x0 x d din. split; [exact (proj1 (shuf_fy_index x0 din))|exact (proj1 (shuf_last_index x0 din))].
Qed.
Print Assumptions C04_shuffle_acts_on_positions.

(* successive repetitions are independent and the hit count is binomial: over the product answer space of r
   repetitions (each answer sequence equally likely) the number of sequences with exactly h "extreme"
   rearrangements factorises as C(r,h) a^h (n!-a)^(r-h), also when each repetition starts from the order left by
   the previous one (two_sample_core) *)
Theorem C04_repetitions_independent_binomial : forall n (extreme : seq nat -> bool) r h rr, 0 < n ->
  perm_eq rr (iota 0 n) ->
  count (fun ds => count extreme (states rr ds) == h) (tuples (dom1 n) r)
  = 'C(r, h) * count extreme (permutations (iota 0 n)) ^ h
    * (n`! - count extreme (permutations (iota 0 n))) ^ (r - h).
Proof. intros n extreme r h rr npos prr. exact (chained_hits_binomial npos extreme r h prr). Qed.
Print Assumptions C04_repetitions_independent_binomial.

(* sign vectors of one_sample: n answers with bound 2 each, i.e. all 2^n vectors, one answer sequence each *)
Theorem C04_bits_bijective : forall n t b t', bits n t = Ok (b, t') -> b = take n t /\ t' = drop n t.
Proof.
  induction n as [|n IH]; intros t b t' H; cbn [bits] in H.
  - inversion H; subst. rewrite take0 drop0. split; reflexivity.
  - destruct t as [|a t]; [discriminate|]. cbn [draw] in H. destruct (a < 2); [|discriminate]. cbn [bind fst snd] in H.
    destruct (bits n t) as [[b1 t1]|] eqn:E; cbn [bind fst snd] in H; [|discriminate].
    inversion H; subst. destruct (IH _ _ _ E) as [-> ->]. split; reflexivity.
Qed.
Print Assumptions C04_bits_bijective.

(* allocations are equally likely: of the n! orders of the units exactly k!(n-k)! put a given k-subset A first --
   the same number for every A -- so the uniform order of C04_rearrangements/fisher_yates_uniform induces the uniform
   law on the C(n,k) treatment allocations of two_sample (any duplicate-free unit list, any subset, any k) *)
Theorem C04_allocations_equally_likely : forall (T : eqType) (l A : seq T) k,
  uniq l -> uniq A -> {subset A <= l} -> size A = k ->
  count (fun p => perm_eq (take k p) A) (permutations l) = k`! * (size l - k)`!.
Proof. exact alloc_count. Qed.
Print Assumptions C04_allocations_equally_likely.
Example C04_allocations_nonvacuous :
  count (fun p => perm_eq (take 2 p) [:: 3; 1]) (permutations [:: 0; 1; 2; 3; 4]) = 12.
Proof. vm_compute. reflexivity. Qed.

(* permute_rows (simulate_ts_dist's rearrangement of every rater's row): over the product answer space -- one block of
   Fisher-Yates answers per row -- it is total, injective and onto the row-wise rearrangements, hence uniform on them
   (duplicate-free rows, i.e. positions; size of the space prod_r (size r)!) *)
From PV Require Import Model.Stratified Proofs.StratUniform Proofs.RowsUniform.
Theorem C04_permute_rows_is_uniform_on_rowwise_rearrangements : forall (T : eqType) (m : seq (seq T)), all uniq m ->
  [/\ size (prod_draws (row_sizes m)) = \prod_(r <- m) (size r)`!,
      forall t rest, t \in prod_draws (row_sizes m) ->
        exists2 m', permute_rows m (t ++ rest) = Ok (m', rest) & rowwise_perm m m',
      forall t t' m', t \in prod_draws (row_sizes m) -> t' \in prod_draws (row_sizes m) ->
        permute_rows m t = Ok (m', [::]) -> permute_rows m t' = Ok (m', [::]) -> t = t' &
      forall m', rowwise_perm m m' -> exists2 t, t \in prod_draws (row_sizes m) & permute_rows m t = Ok (m', [::])].
Proof.
move=> T m U; split; [exact: size_rows_space | exact: rows_total | by move=> t t' m'; apply: rows_inj | by move=> m'; apply: rows_surj].
Qed.
Print Assumptions C04_permute_rows_is_uniform_on_rowwise_rearrangements.
