(* C04 -- uniformity of the randomizations.  Statements only; proofs in Lib/Shuffle.v. *)
From PV Require Import Lib.Base Model.Prng Lib.Shuffle.
From mathcomp Require Import all_ssreflect.

(* Over the answer space of one call (draws n: all j_0<n, j_1<n-1, ..., each equally likely under an
   ideal generator) the forward Fisher-Yates shuffle used by permute / permute_within_groups /
   permute_rows produces every permutation of a duplicate-free input exactly once ... *)
Theorem C04_fisher_yates_uniform : forall (T : eqType) (l : seq T), uniq l ->
  perm_eq [seq shuf (@fy_pick T) l d | d <- draws (size l)] (permutations l).
Proof. exact fy_uniform. Qed.
Print Assumptions C04_fisher_yates_uniform.

(* ... and so does the "move the last element into the hole" step shared by random.shuffle (two_sample_core)
   and cryptorandom's sample_by_index (randomize_group / randomize_in_strata) *)
Theorem C04_last_pick_uniform : forall (T : eqType) (l : seq T), uniq l ->
  perm_eq [seq shuf (@last_pick T) l d | d <- draws (size l)] (permutations l).
Proof. exact last_uniform. Qed.
Print Assumptions C04_last_pick_uniform.

Theorem C04_answer_space_size : forall n, size (draws n) = n`! /\ uniq (draws n).
Proof. intros n. split; [exact (size_draws n)|exact (draws_uniq n)]. Qed.
Print Assumptions C04_answer_space_size.
