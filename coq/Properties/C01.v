(* C01 -- unstratified tests: the p-value is (H+c)/(reps+c) with H a Binomial(reps, pstar) count.
   Statements only; proofs in Proofs/CoreProofs.v, Proofs/BinomialLaw.v, Lib/Shuffle*.v, Lib/Counting.v. *)
From PV Require Import Lib.Base Model.Prng Model.Core Proofs.CoreProofs.
From mathcomp Require Import all_ssreflect.
From PV Require Import Lib.Shuffle Lib.ShuffleTape Lib.Counting Proofs.BinomialLaw Proofs.AllocUniform.
Local Open Scope nat_scope.

(* (1) p-value formula: for every data set, statistic, alternative, plus1, reps and EVERY tape on which the
   model test completes, p = (H + c)/(reps + c) with H the number of simulated values at least as extreme as
   the observed one in the stated direction (ties count), 'two-sided' = min(1, 2 min(lower, upper)),
   and exactly reps values are simulated.  [pv_textbook] is that formula. *)
Theorem C01_two_sample_core_pvalue : forall s pot nx a reps plus1 t r,
  two_sample_core s pot nx a reps plus1 t = Ok r ->
  length (dist r) = reps /\ (pval r == pv_textbook a (cc plus1) (tstat r) (dist r))%Q.
Proof. exact two_sample_core_pvalue. Qed.
Print Assumptions C01_two_sample_core_pvalue.

Theorem C01_one_sample_pvalue : forall x y s a reps plus1 t r,
  one_sample x y s a reps plus1 t = Ok r ->
  length (dist r) = reps /\ (pval r == pv_textbook a (cc plus1) (tstat r) (dist r))%Q.
Proof. exact one_sample_pvalue. Qed.
Print Assumptions C01_one_sample_pvalue.

(* corr / spearman_corr and k_sample assemble their p-values from the tail counts by definition *)
Theorem C01_corr_ksample_pvalue_def : forall a tst sims plus1,
  (corr_pvalue a tst sims plus1 == pv_textbook a (cc plus1) tst sims)%Q /\
  ksample_pvalue tst sims plus1 = pv_textbook Greater (cc plus1) tst sims.
Proof. intros a tst sims plus1. split; [exact (corr_pvalue_textbook a tst sims plus1)|reflexivity]. Qed.
Print Assumptions C01_corr_ksample_pvalue_def.

(* (2) the reported statistic is the statistic of the data as given *)
Theorem C01_observed_is_stat_of_data : forall x y s a reps plus1 t r,
  (two_sample x y s a reps plus1 t = Ok r -> tstat r = eval2 s x y) /\
  (forall s1 r1, one_sample x None s1 a reps plus1 t = Ok r1 -> tstat r1 = eval1 s1 x).
Proof.
  intros x y s a reps plus1 t r. split; [exact (two_sample_observed x y s a reps plus1 t r)|].
  intros s1 r1. exact (one_sample_observed x s1 a reps plus1 t r1).
Qed.
Print Assumptions C01_observed_is_stat_of_data.

(* (3) rearrangements are uniform: over the answer space of one repetition (all answers within their bounds,
   equally likely under an ideal generator) each permutation of a duplicate-free vector arises exactly once,
   for the Fisher-Yates permute (corr, k_sample) and for random.shuffle's pick (two_sample_core) *)
Theorem C01_rearrangements_uniform : forall (T : eqType) (l : seq T), uniq l ->
  perm_eq [seq out (permute l d) | d <- draws (size l)] (permutations l) /\
  perm_eq [seq shuf (@last_pick T) l d | d <- draws (size l)] (permutations l).
Proof. intros T l U. split; [exact (permute_uniform U)|exact (last_uniform U)]. Qed.
Print Assumptions C01_rearrangements_uniform.

(* (4) H is binomial.  Tests that re-permute the original vector (corr, spearman_corr, k_sample):
   among the (n!)^reps equally likely answer sequences, the number on which exactly h of the reps simulated
   rearrangements are "extreme" is C(reps,h) a^h (n!-a)^(reps-h), a = #{permutations of x that are extreme},
   i.e. H ~ Binomial(reps, a/n!) with a/n! the exact permutation p-value; any x without ties, any predicate *)
Theorem C01_H_binomial_fresh : forall (T : eqType) (x : seq T) (extreme : seq T -> bool) r h, uniq x ->
  count (fun ds => count extreme (if perm_loop x r (flatten ds) is Ok at' then at'.1 else [::]) == h)
        (tuples (draws (size x)) r)
  = 'C(r, h) * count extreme (permutations x) ^ h * ((size x)`! - count extreme (permutations x)) ^ (r - h).
Proof. intros T x extreme r h U. exact (fresh_hits_binomial U extreme r h). Qed.
Print Assumptions C01_H_binomial_fresh.

(* two_sample_core keeps shuffling the index list left by the previous repetition; the law is the same
   for every starting order: states rr ds are the index lists evaluated, dom1 n the answers of one shuffle *)
Theorem C01_H_binomial_two_sample : forall n (extreme : seq nat -> bool) r h rr, 0 < n ->
  perm_eq rr (iota 0 n) ->
  count (fun ds => count extreme (states rr ds) == h) (tuples (dom1 n) r)
  = 'C(r, h) * count extreme (permutations (iota 0 n)) ^ h
    * (n`! - count extreme (permutations (iota 0 n))) ^ (r - h).
Proof. intros n extreme r h rr npos prr. exact (chained_hits_binomial npos extreme r h prr). Qed.
Print Assumptions C01_H_binomial_two_sample.

(* ... and [states] is what the model's loop evaluates on those answer sequences (whole tape consumed) *)
Theorem C01_two_sample_core_evaluates_states : forall n s pot nx r (rr : seq nat) ds, 0 < n ->
  size rr = n -> perm_eq rr (iota 0 n) -> ds \in tuples (dom1 n) r ->
  exists dv, core_loop s pot nx rr r (flatten ds) = Ok (dv, states rr ds, [::]).
Proof. intros n s pot nx r rr ds npos. exact (core_loop_states npos s pot nx (r:=r) (rr:=rr) (ds:=ds)). Qed.
Print Assumptions C01_two_sample_core_evaluates_states.

(* one_sample: every repetition draws n fair sign bits; the answer space of one repetition is the 2^n bit vectors
   [bitvecs n]; over r repetitions the number of answer sequences with exactly h extreme sign vectors is
   binomial with p* = #extreme sign vectors / 2^n ... *)
Theorem C01_H_binomial_one_sample : forall n (extreme : seq nat -> bool) r h,
  count (fun ds => count extreme ds == h) (tuples (bitvecs n) r)
  = 'C(r, h) * count extreme (bitvecs n) ^ h * (2 ^ n - count extreme (bitvecs n)) ^ (r - h).
Proof. intros n extreme r h. exact (one_sample_hits_binomial n extreme r h). Qed.
Print Assumptions C01_H_binomial_one_sample.

(* ... and those bit vectors are what the model's loop evaluates (one per repetition, whole tape consumed) *)
Theorem C01_one_sample_evaluates_sign_vectors : forall n s (z : seq Q) r ds,
  size z = n -> ds \in tuples (bitvecs n) r ->
  exists dv, one_loop s z r (flatten ds) = Ok (dv, ds, [::]) /\ size dv = r.
Proof. intros n s z r ds sz H. exact (@one_loop_bits n s z r sz ds H). Qed.
Print Assumptions C01_one_sample_evaluates_sign_vectors.

Example C01_nonvacuous :
  match two_sample [1;2;3]%Q [2;3]%Q MeanDiff TwoSided 2 true [2;0;1;0; 4;1;1;0]%nat with
  | Ok r => Qeq_bool (pval r) 1 && Nat.eqb (List.length (dist r)) 2
  | Err _ => false
  end = true.
Proof. vm_compute. reflexivity. Qed.

(* allocations are equally likely: of the n! orders of the units exactly k!(n-k)! put a given k-subset A first --
   the same number for every A -- so the uniform order of C01_rearrangements/fisher_yates_uniform induces the uniform
   law on the C(n,k) treatment allocations of two_sample (any duplicate-free unit list, any subset, any k) *)
Theorem C01_allocations_equally_likely : forall (T : eqType) (l A : seq T) k,
  uniq l -> uniq A -> {subset A <= l} -> size A = k ->
  count (fun p => perm_eq (take k p) A) (permutations l) = k`! * (size l - k)`!.
Proof. exact alloc_count. Qed.
Print Assumptions C01_allocations_equally_likely.
Example C01_allocations_nonvacuous :
  count (fun p => perm_eq (take 2 p) [:: 3; 1]) (permutations [:: 0; 1; 2; 3; 4]) = 12.
Proof. vm_compute. reflexivity. Qed.
