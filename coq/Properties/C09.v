From PV Require Import Lib.Base Model.Npc.
Open Scope Q_scope.
Theorem C09_fwer_rejects_single_pvalue : forall p distr ord c plus1, (length p < 2)%nat -> fwer_minp p distr ord c plus1 = Err ValueError.
Proof. intros p distr ord c plus1 H. unfold fwer_minp. apply Nat.ltb_lt in H. rewrite H. reflexivity. Qed.
Print Assumptions C09_fwer_rejects_single_pvalue.
