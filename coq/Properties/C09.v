(* C09 -- fwer_minp attaches the step-down values to the right hypotheses and is monotone.
   Statements only; proofs in Proofs/FwerProofs.v.  [ord] is the sorting permutation NumPy returned (an oracle
   input, checked per correspondence case to be a sorting permutation). *)
From PV Require Import Lib.Base Model.Npc Proofs.NpcProofs Proofs.FwerProofs Proofs.NpcRelabel Proofs.FwerRelabel.
From Coq Require Import Permutation.
Open Scope Q_scope.

(* restoring the caller's order: the hypothesis ord[k] (k-th smallest raw p-value) receives the k-th step-down
   value, for every duplicate-free ord within range *)
Theorem C09_kth_value_goes_to_kth_smallest : forall (ord : list nat) (vals out : list Q) k,
  NoDup ord -> (forall i, In i ord -> (i < length out)%nat) -> length vals = length ord ->
  (k < length ord)%nat -> nth (nth k ord 0%nat) (scatter ord vals out) 0 = nth k vals 0.
Proof. exact scatter_nth. Qed.
Print Assumptions C09_kth_value_goes_to_kth_smallest.

(* the step-down values are a running maximum: non-decreasing along the sorted order, each at least the
   previous one; with C09_kth_value_goes_to_kth_smallest: adjusted p-values are non-decreasing in the raw ones *)
Theorem C09_stepdown_is_running_maximum : forall k p_ord d_ord c plus1 prev vals,
  stepdown p_ord d_ord c plus1 prev k = Ok vals ->
  (forall v, In v vals -> prev <= v) /\
  (forall i j, (i <= j < length vals)%nat -> nth i vals 0 <= nth j vals 0).
Proof. exact stepdown_running. Qed.
Print Assumptions C09_stepdown_is_running_maximum.

(* the first value is the NPC global p-value of all hypotheses (in sorted order); the last is
   max(raw p of the largest, previous value) *)
Theorem C09_first_is_global_and_last_is_max : forall p d ord c plus1 out,
  fwer_minp p d ord c plus1 = Ok out ->
  exists first rest,
    npc (take_cols ord p) (map (take_cols ord) d) c plus1 = Ok first /\
    stepdown (tl (take_cols ord p)) (map (@tl Q) (map (take_cols ord) d)) c plus1 first (length p - 2) = Ok rest /\
    out = scatter ord (first :: rest) (repeat 0 (length p)).
Proof.
  intros p d ord c plus1 out. unfold fwer_minp.
  destruct (length p <? 2)%nat; [discriminate|]. destruct (negb _); [discriminate|].
  destruct (npc _ _ c plus1) as [first|] eqn:E1; cbn [bind]; [|discriminate].
  destruct (stepdown _ _ c plus1 first _) as [rest|] eqn:E2; cbn [bind]; [|discriminate].
  intros H. inversion H. exists first, rest. split; [reflexivity|split; [exact E2|reflexivity]].
Qed.
Print Assumptions C09_first_is_global_and_last_is_max.

(* relabelling: permute pvalues and the columns of distr by [sigma]; if [ord'] is the testing order used for
   the relabelled input, then [compose sigma ord'] reads the original p-values in exactly the same sequence
   (so it sorts p iff ord' sorts the relabelled vector -- for distinct p-values THE sorting order), and the
   outputs correspond: out'[k] = out[sigma k] *)
Theorem C09_relabelling_permutes_the_output : forall p distr sigma ord' c plus1 l',
  Permutation sigma (seq 0 (length p)) -> Permutation ord' (seq 0 (length p)) ->
  forallb (fun r => Nat.eqb (length r) (length p)) distr = true ->
  fwer_minp (take_cols sigma p) (map (take_cols sigma) distr) ord' c plus1 = Ok l' ->
  take_cols ord' (take_cols sigma p) = take_cols (compose sigma ord') p /\
  exists l, fwer_minp p distr (compose sigma ord') c plus1 = Ok l /\
            forall k, (k < length p)%nat -> nth k l' 0 = nth (nth k sigma 0%nat) l 0.
Proof.
  intros p distr sigma ord' c plus1 l' Hs Ho Hrows H. split.
  - apply take_cols_compose. intros i Hi. apply (Permutation_in _ Ho) in Hi. apply in_seq in Hi.
    rewrite (Permutation_length Hs), seq_length. lia.
  - exact (fwer_relabel p distr sigma ord' c plus1 l' Hs Ho Hrows H).
Qed.
Print Assumptions C09_relabelling_permutes_the_output.

Theorem C09_last_value : forall pl c plus1 prev, stepdown [pl] [] c plus1 prev 0 = Ok [Qmax pl prev].
Proof. reflexivity. Qed.
Print Assumptions C09_last_value.

Theorem C09_fwer_rejects_single_pvalue : forall p distr ord c plus1, (length p < 2)%nat -> fwer_minp p distr ord c plus1 = Err ValueError.
Proof. intros p distr ord c plus1 H. unfold fwer_minp. apply Nat.ltb_lt in H. rewrite H. reflexivity. Qed.
Print Assumptions C09_fwer_rejects_single_pvalue.

Example C09_nonvacuous :
  match fwer_minp [1 # 5; 3 # 10; 1 # 10] [[1; 2; 3]; [2; 1; 1]; [0; 0; 2]; [1; 1; 0]] [2; 0; 1]%nat Tippett false with
  | Ok l => list_eqb Qeq_bool l [0; 3 # 10; 0] | Err _ => false end = true /\
  scatter [2; 0; 1]%nat [5; 6; 7] [0; 0; 0] = [6; 7; 5].
Proof. vm_compute. split; reflexivity. Qed.
