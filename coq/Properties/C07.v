From PV Require Import Lib.Base Model.Npc.
Open Scope Q_scope.
Theorem C07_npc_rejects_single_pvalue : forall p distr c plus1, (length p < 2)%nat -> npc p distr c plus1 = Err ValueError.
Proof. intros p distr c plus1 H. unfold npc. apply Nat.ltb_lt in H. rewrite H. reflexivity. Qed.
Print Assumptions C07_npc_rejects_single_pvalue.
