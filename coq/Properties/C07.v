(* C07 -- the NPC global p-value is an exact rank p-value: never zero, exactly valid.
   Statements only; proofs in Proofs/NpcProofs.v, Lib/RankValid.v. *)
From PV Require Import Lib.Base Model.Npc Proofs.NpcProofs Proofs.LiptakProofs.
Open Scope Q_scope.

(* with plus1=False each row's partial p-value in a column is #{rows at least as large}/B *)
Theorem C07_row_pvalue_is_count : forall (col : list Q) (x : Q), (0 < length col)%nat ->
  (qn (length col) - qn (S (count_lt col x)) + 1 + 2 * qn 0) / (qn 0 + qn (length col))
  == qn (count_ge col x) / qn (length col).
Proof. exact row_pvalue_is_count. Qed.
Print Assumptions C07_row_pvalue_is_count.

(* sim_npc (observed statistics = row 0 of the table, appended as the last row of distr, plus1=False): the
   observed row's partial p-values coincide with the observed p-values, so the row counts itself and the
   global p-value is at least 1/(reps+1): never 0 -- for Fisher, Tippett and every callable combiner *)
Theorem C07_sim_npc_never_zero : forall (obs : list Q) (sims : list (list Q)) (c : comb) p ps,
  (match c with Liptak _ => False | _ => True end) ->
  sim_npc_table (obs :: sims) c = Ok (p, ps) -> 1 / (qn (length sims) + 1) <= p.
Proof. exact sim_npc_counts_itself. Qed.
Print Assumptions C07_sim_npc_never_zero.

(* ... and for Liptak as well, as soon as the quantile table is increasing (norm.ppf is): the observed row's clipped
   partial p-values are <= the observed p-values, so its combined statistic is >= the observed one *)
Theorem C07_sim_npc_never_zero_liptak : forall (obs : list Q) (sims : list (list Q)) tab p ps,
  (forall x y, x <= y -> lookup tab x <= lookup tab y) ->
  sim_npc_table (obs :: sims) (Liptak tab) = Ok (p, ps) -> 1 / (qn (length sims) + 1) <= p.
Proof. exact sim_npc_counts_itself_liptak. Qed.
Print Assumptions C07_sim_npc_never_zero_liptak.

(* exact finite-sample validity: whatever the matrix, the combiner and the ties, among the B rows' combined
   statistics at most k have at most k rows at least as large -- i.e. at most k rows would obtain a global
   p-value <= k/B if they were the observed one *)
Theorem C07_rank_pvalue_valid : forall (c : comb) (stats : list Q) (k : nat),
  (length (filter (fun s => Nat.leb (length (filter (fun r => stat_ge c r s) stats)) k) stats) <= k)%nat.
Proof. exact npc_rows_valid. Qed.
Print Assumptions C07_rank_pvalue_valid.

(* in general npc lies in [c/(B+c), 1] *)
Theorem C07_npc_range : forall p d c plus1 v, (0 < length d)%nat -> npc p d c plus1 = Ok v ->
  qn (if plus1 then 1 else 0)%nat / (qn (if plus1 then 1 else 0)%nat + qn (length d)) <= v <= 1.
Proof. exact npc_range. Qed.
Print Assumptions C07_npc_range.

Theorem C07_npc_rejects_single_pvalue : forall p distr c plus1, (length p < 2)%nat -> npc p distr c plus1 = Err ValueError.
Proof. intros p distr c plus1 H. unfold npc. apply Nat.ltb_lt in H. rewrite H. reflexivity. Qed.
Print Assumptions C07_npc_rejects_single_pvalue.

Example C07_nonvacuous :
  sim_npc_table [[1; 2]; [1; 0]; [3; 2]; [0; 5]] Tippett = Ok (4 # 4, [3 # 4; 3 # 4]).
Proof. vm_compute. reflexivity. Qed.
