(* C03 -- every randomization is an admissible rearrangement.  Statements only; proofs in
   Lib/ShuffleTape.v and Proofs/RearrangeProofs.v.  (That caller arrays are not modified is an effect
   property of the Python code: it is decided by bytewise snapshots in the correspondence run.) *)
From PV Require Import Lib.Base Model.Prng Model.Core.
From mathcomp Require Import all_ssreflect.
From Coq Require Import ZArith.
From PV Require Import Model.Stratified.
From PV Require Import Lib.Shuffle Lib.ShuffleTape Proofs.RearrangeProofs Proofs.StratProofs.
Local Open Scope nat_scope.

(* permute (cryptorandom Fisher-Yates), random.shuffle and random_sample(a, len(a)): for EVERY tape on which
   they return, the output is the input read through a permutation sigma of its positions -- so the multiset of
   values and the length are conserved, whatever the element type -- and the number of answers consumed
   depends on the length only *)
Theorem C03_permute_is_rearrangement : forall (T : Type) (x0 : T) (x : seq T) t y t',
  permute x t = Ok (y, t') ->
  exists sigma, [/\ perm_eq sigma (iota 0 (size x)), y = [seq nth x0 x i | i <- sigma] & size t = size x + size t'].
Proof. exact permute_is_rearrangement. Qed.
Print Assumptions C03_permute_is_rearrangement.

Theorem C03_shuffle_is_rearrangement : forall (T : Type) (x0 : T) (x : seq T) t y t',
  pyshuffle x t = Ok (y, t') ->
  exists sigma, [/\ perm_eq sigma (iota 0 (size x)), y = [seq nth x0 x i | i <- sigma] & size t = (size x).-1 + size t'].
Proof. exact pyshuffle_is_rearrangement. Qed.
Print Assumptions C03_shuffle_is_rearrangement.

Theorem C03_random_sample_is_rearrangement : forall (T : Type) (x0 : T) (x : seq T) t y t',
  sample_all x t = Ok (y, t') ->
  exists sigma, [/\ perm_eq sigma (iota 0 (size x)), y = [seq nth x0 x i | i <- sigma] & size t = size x + size t'].
Proof. exact sample_all_is_rearrangement. Qed.
Print Assumptions C03_random_sample_is_rearrangement.

(* two_sample_core: in every repetition the rows are taken in an order that is a permutation of 0..n-1, so the
   statistic always sees nx units in the first and n-nx in the second argument, each unit exactly once *)
Theorem C03_two_sample_core_orders_are_permutations : forall s pot nx n reps rr t dv ar t',
  perm_eq rr (iota 0 n) ->
  core_loop s pot nx rr reps t = Ok (dv, ar, t') -> all (fun a => perm_eq a (iota 0 n)) ar.
Proof. intros s pot nx n reps rr t dv ar t'. exact (@core_loop_arrs_perm s pot nx n reps rr t dv ar t'). Qed.
Print Assumptions C03_two_sample_core_orders_are_permutations.

(* one_sample: the multipliers 1 - 2*bit come from bits, so nothing but signs can change *)
Theorem C03_one_sample_sign_bits : forall n t b t', bits n t = Ok (b, t') -> all (fun v => v < 2) b /\ size b = n.
Proof. exact bits_are_bits. Qed.
Print Assumptions C03_one_sample_sign_bits.

(* permute_within_groups: values never move between strata (any element type, any tape) *)
Theorem C03_within_groups_never_leaves_stratum :
  forall (T : Type) (x0 : T) (x : seq T) (g : seq Z) t y t', size x = size g ->
  permute_within_groups x0 x g t = Ok (y, t') ->
  exists sigma, [/\ perm_eq sigma (iota 0 (size g)), stratum_ok g sigma & y = [seq nth x0 x i | i <- sigma]].
Proof. exact pwg_within_strata. Qed.
Print Assumptions C03_within_groups_never_leaves_stratum.
