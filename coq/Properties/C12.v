(* C12 -- binom_conf_interval returns Clopper-Pearson bounds with guaranteed coverage.
   The numerical root finder is not modelled: every output of the implementation is certified by the Gallina
   checker cp_check, whose soundness is proved here.  Statements only; proofs in Proofs/ConfIntProofs.v,
   Lib/BinomMono.v, Proofs/PvaluesProofs.v. *)
From Coq Require Import ZArith QArith List.
From PV Require Import Lib.Base Model.TailsZ Model.ConfInt.
From mathcomp Require Import all_ssreflect.
From PV Require Import Lib.Tails Lib.Binom Lib.BinomMono Proofs.PvaluesProofs Proofs.ConfIntProofs.
Local Open Scope nat_scope.

(* level split: a = (1-cl)/2 for two-sided, 1-cl for one-sided intervals *)
Theorem C12_tail_level : forall cl,
  (tail_level cl CITwoSided == (1 - cl) / 2)%Q /\ (tail_level cl CILower == 1 - cl)%Q /\ (tail_level cl CIUpper == 1 - cl)%Q.
Proof. intros cl. repeat split; reflexivity. Qed.
Print Assumptions C12_tail_level.

(* the exact tails are monotone in p, for every n and x (this is what makes test inversion an interval) *)
Theorem C12_tails_monotone_in_p : forall n x p q, (0 <= p)%Q -> (p <= q)%Q -> (q <= 1)%Q ->
  (binom_upper_q n x p <= binom_upper_q n x q)%Q /\ (binom_lower_q n x q <= binom_lower_q n x p)%Q.
Proof. intros n x p q h0 pq h1. split; [exact (@binom_upper_q_mono n x p q h0 pq h1)|exact (@binom_lower_q_anti n x p q h0 pq h1)]. Qed.
Print Assumptions C12_tails_monotone_in_p.

(* certificate soundness: if the checker accepts the returned lower limit L with bracket [p1,p2], then every p
   below the bracket has P_p(X >= x) <= a and every p above it has P_p(X >= x) >= a: the exact Clopper-Pearson
   limit lies in the bracket, hence within 3 delta of L.  Symmetrically for the upper limit. *)
Theorem C12_lower_limit_certified : forall n x (a L p1 p2 delta : Q),
  lower_cert n x a L p1 p2 delta = true ->
  [/\ (p1 <= L)%Q, (L <= p2)%Q, (p2 - p1 <= (3 # 1) * delta)%Q,
      (forall p, (0 <= p)%Q -> (p <= p1)%Q -> ~ (p1 == 0)%Q -> (binom_upper_q n x p <= a)%Q) &
      (forall p, (p2 <= p)%Q -> (p <= 1)%Q -> ~ (p2 == 1)%Q -> (a <= binom_upper_q n x p)%Q)].
Proof. intros n x a L p1 p2 delta. exact (@lower_cert_sound n x a L p1 p2 delta). Qed.
Print Assumptions C12_lower_limit_certified.

Theorem C12_upper_limit_certified : forall n x (a U q1 q2 delta : Q),
  upper_cert n x a U q1 q2 delta = true ->
  [/\ (q1 <= U)%Q, (U <= q2)%Q, (q2 - q1 <= (3 # 1) * delta)%Q,
      (forall p, (0 <= p)%Q -> (p <= q1)%Q -> ~ (q1 == 0)%Q -> (a <= binom_lower_q n x p)%Q) &
      (forall p, (q2 <= p)%Q -> (p <= 1)%Q -> ~ (q2 == 1)%Q -> (binom_lower_q n x p <= a)%Q)].
Proof. intros n x a U q1 q2 delta. exact (@upper_cert_sound n x a U q1 q2 delta). Qed.
Print Assumptions C12_upper_limit_certified.

(* the limits that are not solved are exactly 0 and 1: x = 0 or an upper-only interval gives lower limit 0,
   x = n or a lower-only interval gives upper limit 1 *)
Theorem C12_trivial_limits : forall n x cl alt L U p1 p2 q1 q2 delta,
  cp_check n x cl alt L U p1 p2 q1 q2 delta = true ->
  (wants_lower alt x = false -> (L == 0)%Q) /\ (wants_upper alt n x = false -> (U == 1)%Q).
Proof.
  intros n x cl alt L U p1 p2 q1 q2 delta. rewrite /cp_check => /andP [h1 h2]. split => e.
  - move: h1; rewrite e => /Qeq_bool_iff. by [].
  - move: h2; rewrite e => /Qeq_bool_iff. by [].
Qed.
Print Assumptions C12_trivial_limits.

(* coverage of the exact interval: for every true p = a/(a+b) and every level c/d, the total binomial weight of
   the outcomes x whose upper tail P_p(X >= x) is <= c/d -- these include every x whose lower limit exceeds p --
   is at most c/d of the total; likewise for the lower tail and the upper limit.  So each side misses with
   probability at most its tail level. *)
Theorem C12_exact_interval_covers : forall n a b c d,
  mass_up (accept c d ((a + b) ^ n)) (wbinom n a b) * d <= c * (a + b) ^ n /\
  mass_lo (accept c d ((a + b) ^ n)) (wbinom n a b) * d <= c * (a + b) ^ n.
Proof. intros n a b c d. split; [exact (binom_greater_valid n a b c d)|exact (binom_less_valid n a b c d)]. Qed.
Print Assumptions C12_exact_interval_covers.

Example C12_nonvacuous :
  cp_check 10 3 (39 # 40) CITwoSided (5154625578928545 # 100000000000000000) (6915018049393984 # 10000000000000000)
           (51546255 # 1000000000) (51546257 # 1000000000) (691501804 # 1000000000) (691501806 # 1000000000) (1 # 1000000000) = true.
Proof. vm_compute. reflexivity. Qed.
