From PV Require Import Lib.Base Model.ConfInt.
Open Scope Q_scope.
Theorem C12_two_sided_level_split : forall cl, tail_level cl CITwoSided == (1 - cl) / 2 /\ tail_level cl CILower == 1 - cl.
Proof. intros cl. split; reflexivity. Qed.
Print Assumptions C12_two_sided_level_split.
