(* C02 -- stratified tests: rearrangements stay within strata; tail table.  Statements only; proofs in
   Proofs/StratProofs.v.  The 'less' and 'two-sided' entries of the stratified tail table are a known finding
   (C05_stratified_less_two_sided_refuted, KNOWN_FINDINGS.json); the statistic options are decided by the
   correspondence run (each recomputed from its documented formula on the rearrangement selected by the draws). *)
From Coq Require Import ZArith QArith.
From PV Require Import Lib.Base Model.Prng Model.Core Model.Stratified.
From mathcomp Require Import all_ssreflect.
From PV Require Import Lib.Shuffle Lib.Counting Proofs.StratProofs Proofs.StratUniform Proofs.StratBinomial.
Local Open Scope nat_scope.

(* permute_within_groups (used by sim_corr, stratified_permutationtest, stratified_two_sample,
   bivariate_k_sample): for EVERY tape on which it returns, whatever the element type, the output is the input
   read through a permutation sigma of the positions with group[sigma i] = group[i] for every i: nothing ever
   moves between strata, singleton strata included *)
Theorem C02_within_group_permutation_stays_in_strata :
  forall (T : Type) (x0 : T) (x : seq T) (g : seq Z) t y t', size x = size g ->
  permute_within_groups x0 x g t = Ok (y, t') ->
  exists sigma, [/\ perm_eq sigma (iota 0 (size g)), stratum_ok g sigma & y = [seq nth x0 x i | i <- sigma]].
Proof. exact pwg_within_strata. Qed.
Print Assumptions C02_within_group_permutation_stays_in_strata.

(* it acts on positions: the same tape moves any two variables on the same units identically (shared draws) *)
Theorem C02_within_group_permutation_acts_on_positions :
  forall (T : Type) (x0 : T) (x : seq T) (g : seq Z) t, size x = size g ->
  permute_within_groups x0 x g t =
  match permute_within_groups 0%nat (iota 0 (size g)) g t with
  | Ok st => Ok ([seq nth x0 x i | i <- st.1], st.2)
  | Err e => Err e
  end.
Proof. exact pwg_acts_on_positions. Qed.
Print Assumptions C02_within_group_permutation_acts_on_positions.

(* Uniformity, independently in every stratum: the answers permute_within_groups consumes range over the product
   space [prod_draws] (one block of Fisher-Yates answers per stratum, strata in sorted label order); on that space
   the function is total, every output is an admissible position permutation (g[sigma i] = g[i]), different
   answers give different outputs, and every admissible permutation is produced.  Uniform independent answers
   therefore induce the uniform law on the admissible set, whose size is the product of the n_k!  -- i.e. the
   product of the per-stratum uniform laws.  (By C02_within_group_permutation_acts_on_positions the output for
   arbitrary values is the input read through that permutation.) *)
Theorem C02_within_group_permutation_is_uniform_on_the_product : forall g : seq Z,
  let n := size g in
  let space := prod_draws (sizes g (unique g)) in
  [/\ size space = \prod_(k <- unique g) (size (pos_of g k))`!,
      forall t, t \in space -> exists2 sg, permute_within_groups 0 (iota 0 n) g t = Ok (sg, [::]) & admissible g sg,
      forall t t' sg, t \in space -> t' \in space ->
        permute_within_groups 0 (iota 0 n) g t = Ok (sg, [::]) ->
        permute_within_groups 0 (iota 0 n) g t' = Ok (sg, [::]) -> t = t' &
      forall sg, admissible g sg -> exists2 t, t \in space & permute_within_groups 0 (iota 0 n) g t = Ok (sg, [::])].
Proof. exact pwg_uniform. Qed.
Print Assumptions C02_within_group_permutation_is_uniform_on_the_product.

(* The hit count of the stratified Monte-Carlo tests is Binomial(reps, pstar): every repetition permutes the
   ORIGINAL vector within strata with its own block of answers; over the (prod_k n_k!)^reps equally likely answer
   sequences exactly C(reps,h) a^h (prod_k n_k! - a)^(reps-h) give h arrangements at least as extreme as observed ... *)
Theorem C02_stratified_hit_count_is_binomial : forall (g : seq Z) (extreme : seq nat -> bool) (r h : nat),
  let n := size g in
  let space := prod_draws (sizes g (unique g)) in
  let a := count (fun t => extreme (pwg_out g t)) space in
  count (fun ds => count extreme (if pwg_reps 0 (iota 0 n) g r (flatten ds) is Ok rt then rt.1 else [::]) == h)
        (tuples space r)
  = 'C(r, h) * a ^ h * (size space - a) ^ (r - h).
Proof. exact strat_hits_binomial. Qed.
Print Assumptions C02_stratified_hit_count_is_binomial.

(* ... where a / |space| = pstar = (extreme admissible arrangements) / (admissible arrangements), for every
   duplicate-free enumeration L of the position permutations that keep every unit in its stratum *)
Theorem C02_stratified_pstar_counts_admissible_arrangements :
  forall (g : seq Z) (extreme : seq nat -> bool) (L : seq (seq nat)),
  uniq L -> (forall sg, sg \in L <-> admissible g sg) ->
  count (fun t => extreme (pwg_out g t)) (prod_draws (sizes g (unique g))) = count extreme L /\
  size (prod_draws (sizes g (unique g))) = size L.
Proof. exact strat_pstar. Qed.
Print Assumptions C02_stratified_pstar_counts_admissible_arrangements.

(* the count #{dist >= observed} the stratified tests turn into their p-value has that law, for data of any type
   and any statistic of the rearranged data *)
Theorem C02_stratified_tests_count_ge_is_binomial :
  forall (T : Type) (x0 : T) (x : seq T) (g : seq Z), size x = size g ->
  forall (stat : seq T -> Q) (tst : Q) (r h : nat),
  let space := prod_draws (sizes g (unique g)) in
  let ext := fun sg : seq nat => Qle_bool tst (stat [seq nth x0 x i | i <- sg]) in
  count (fun ds => (if pwg_reps x0 x g r (flatten ds) is Ok rt then count_ge tst [seq stat row | row <- rt.1] else 0) == h)
        (tuples space r)
  = 'C(r, h) * (count (fun t => ext (pwg_out g t)) space) ^ h
    * (size space - count (fun t => ext (pwg_out g t)) space) ^ (r - h).
Proof. intros; exact: strat_count_ge_binomial. Qed.
Print Assumptions C02_stratified_tests_count_ge_is_binomial.

(* bivariate_k_sample and stratified_two_sample on that answer space: all answers consumed, the p-value is the
   table entry of exactly that count over the arrangements selected by the answers *)
Theorem C02_bivariate_k_sample_on_the_answer_space : forall (x : seq Q) (g1 g2 : seq Z) r plus1 ds,
  size g2 = size g1 -> ds \in tuples (prod_draws (sizes g1 (unique g1))) r ->
  let rows := [seq [seq nth 0%Z g2 i | i <- pwg_out g1 t] | t <- ds] in
  let tst := two_way_anova x g2 (qmean x) in
  let d := [seq two_way_anova x gp (qmean x) | gp <- rows] in
  bivariate_k_sample x g1 g2 r plus1 (flatten ds) =
  Ok (perm_pvalue (cc plus1) (count_ge tst d) (length d), tst, d, rows, [::]).
Proof. exact bivariate_on_space. Qed.
Print Assumptions C02_bivariate_k_sample_on_the_answer_space.

Theorem C02_stratified_permutationtest_on_the_answer_space : forall (g c : seq Z) s a r plus1 ds,
  size c = size g -> (2 <= length (unique c))%coq_nat ->
  ds \in tuples (prod_draws (sizes g (unique g))) r ->
  let rows := [seq [seq nth 0%Z c i | i <- pwg_out g t] | t <- ds] in
  let tst := evalv s (List.map inject_Z c) in
  let d := [seq evalv s (List.map inject_Z cp) | cp <- rows] in
  spt_callable g c s a r plus1 (flatten ds) = Ok (Some (strat_pvalue a (count_ge tst d) r plus1, tst, d, rows), [::]).
Proof. exact spt_on_space. Qed.
Print Assumptions C02_stratified_permutationtest_on_the_answer_space.

Theorem C02_stratified_two_sample_on_the_answer_space : forall (g c : seq Z) (resp : seq Q) ord s a r plus1 ds,
  let resp' := List.map (fun i => List.nth i resp 0%Q) ord in
  let g' := List.map (fun i => List.nth i g 0%Z) ord in
  size resp' = size g' ->
  ds \in tuples (prod_draws (sizes g' (unique g'))) r ->
  let rows := [seq [seq nth 0%Q resp' i | i <- pwg_out g' t] | t <- ds] in
  let tst := evalv s resp' in
  s2s_callable g c resp ord s a r plus1 (flatten ds) =
  Ok (strat_pvalue a (count_ge tst [seq evalv s row | row <- rows]) r plus1, tst, [seq evalv s row | row <- rows], rows, [::]).
Proof. exact s2s_on_space. Qed.
Print Assumptions C02_stratified_two_sample_on_the_answer_space.

(* the 'greater' entry of the stratified tail table is the textbook (H+c)/(reps+c) *)
Theorem C02_greater_tail_is_textbook : forall hits reps plus1,
  (strat_pvalue Greater hits reps plus1 == perm_pvalue (cc plus1) hits reps)%Q.
Proof. intros. unfold strat_pvalue, perm_pvalue, Qdiv. ring. Qed.
Print Assumptions C02_greater_tail_is_textbook.

(* bivariate_k_sample and simulate_ts_dist are one-sided by design: (c + #{dist >= observed})/(c + reps) *)
Theorem C02_ksample_pvalue_is_textbook : forall tst d plus1,
  ksample_pvalue tst d plus1 = perm_pvalue (cc plus1) (count_ge tst d) (length d).
Proof. reflexivity. Qed.
Print Assumptions C02_ksample_pvalue_is_textbook.

Example C02_nonvacuous :
  permute_within_groups 0%Q [:: 1; 2; 3; 4; 5]%Q [:: 7; 8; 7; 8; 7]%Z [:: 2; 0; 0; 1; 0]%nat = Ok ([:: 5; 4; 3; 2; 1]%Q, [::]).
Proof. vm_compute. reflexivity. Qed.

(* the binomial law on a concrete design: strata {0,2} and {1,3}, 4 admissible arrangements, 2 of them keep unit 0
   in place; of the 4^2 answer sequences for two repetitions, C(2,1)*2*2 = 8 give exactly one hit *)
Example C02_binomial_nonvacuous :
  let g := [:: 7; 8; 7; 8]%Z in let extreme := fun sg : seq nat => nth 0 sg 0 == 0 in
  let space := prod_draws (sizes g (unique g)) in
  (size space, count (fun t => extreme (pwg_out g t)) space,
   count (fun ds => count extreme (if pwg_reps 0 (iota 0 4) g 2 (flatten ds) is Ok rt then rt.1 else [::]) == 1) (tuples space 2))
  = (4, 2, 8).
Proof. vm_compute. reflexivity. Qed.

(* permute_rows (simulate_ts_dist's rearrangement of every rater's row): over the product answer space -- one block of
   Fisher-Yates answers per row -- it is total, injective and onto the row-wise rearrangements, hence uniform on them
   (duplicate-free rows, i.e. positions; size of the space prod_r (size r)!) *)
From PV Require Import Model.Stratified Proofs.StratUniform Proofs.RowsUniform.
Theorem C02_permute_rows_is_uniform_on_rowwise_rearrangements : forall (T : eqType) (m : seq (seq T)), all uniq m ->
  [/\ size (prod_draws (row_sizes m)) = \prod_(r <- m) (size r)`!,
      forall t rest, t \in prod_draws (row_sizes m) ->
        exists2 m', permute_rows m (t ++ rest) = Ok (m', rest) & rowwise_perm m m',
      forall t t' m', t \in prod_draws (row_sizes m) -> t' \in prod_draws (row_sizes m) ->
        permute_rows m t = Ok (m', [::]) -> permute_rows m t' = Ok (m', [::]) -> t = t' &
      forall m', rowwise_perm m m' -> exists2 t, t \in prod_draws (row_sizes m) & permute_rows m t = Ok (m', [::])].
Proof.
move=> T m U; split; [exact: size_rows_space | exact: rows_total | by move=> t t' m'; apply: rows_inj | by move=> m'; apply: rows_surj].
Qed.
Print Assumptions C02_permute_rows_is_uniform_on_rowwise_rearrangements.

(* simulate_ts_dist's chain (each repetition permutes the rows of the matrix left by the previous one): the hit count is
   Binomial(reps, pstar) over the (prod_r (size r)!)^reps answer sequences, from whichever row-wise rearrangement the
   chain starts; a = number of answers whose rearrangement of the ORIGINAL matrix is extreme *)
From PV Require Import Proofs.RowsBinomial.
Close Scope Q_scope.
Local Open Scope nat_scope.
Theorem C02_row_permutation_chain_hit_count_is_binomial :
  forall (T : eqType) (m0 : seq (seq T)) (extreme : seq (seq T) -> bool) r h m, all uniq m0 -> rowwise_perm m0 m ->
  let space := prod_draws (row_sizes m0) in
  let a := count (fun t => extreme (rows_out m0 t)) space in
  count (fun ds => count extreme (if rows_chain m r (flatten ds) is Ok rt then rt.1 else [::]) == h) (tuples space r)
  = 'C(r, h) * a ^ h * (size space - a) ^ (r - h).
Proof. move=> T m0 extreme r h m U pm; exact: rows_chain_binomial. Qed.
Print Assumptions C02_row_permutation_chain_hit_count_is_binomial.
