(* C02 -- stratified tests: rearrangements stay within strata; tail table.  Statements only; proofs in
   Proofs/StratProofs.v.  The 'less' and 'two-sided' entries of the stratified tail table are a known finding
   (C05_stratified_less_two_sided_refuted, KNOWN_FINDINGS.json); the statistic options are decided by the
   correspondence run (each recomputed from its documented formula on the rearrangement selected by the draws). *)
From Coq Require Import ZArith QArith.
From PV Require Import Lib.Base Model.Prng Model.Core Model.Stratified.
From mathcomp Require Import all_ssreflect.
From PV Require Import Lib.Shuffle Proofs.StratProofs Proofs.StratUniform.
Local Open Scope nat_scope.

(* permute_within_groups (used by sim_corr, stratified_permutationtest, stratified_two_sample,
   bivariate_k_sample): for EVERY tape on which it returns, whatever the element type, the output is the input
   read through a permutation sigma of the positions with group[sigma i] = group[i] for every i: nothing ever
   moves between strata, singleton strata included *)
Theorem C02_within_group_permutation_stays_in_strata :
  forall (T : Type) (x0 : T) (x : seq T) (g : seq Z) t y t', size x = size g ->
  permute_within_groups x0 x g t = Ok (y, t') ->
  exists sigma, [/\ perm_eq sigma (iota 0 (size g)), stratum_ok g sigma & y = [seq nth x0 x i | i <- sigma]].
Proof. exact pwg_within_strata. Qed.
Print Assumptions C02_within_group_permutation_stays_in_strata.

(* it acts on positions: the same tape moves any two variables on the same units identically (shared draws) *)
Theorem C02_within_group_permutation_acts_on_positions :
  forall (T : Type) (x0 : T) (x : seq T) (g : seq Z) t, size x = size g ->
  permute_within_groups x0 x g t =
  match permute_within_groups 0%nat (iota 0 (size g)) g t with
  | Ok st => Ok ([seq nth x0 x i | i <- st.1], st.2)
  | Err e => Err e
  end.
Proof. exact pwg_acts_on_positions. Qed.
Print Assumptions C02_within_group_permutation_acts_on_positions.

(* Uniformity, independently in every stratum: the answers permute_within_groups consumes range over the product
   space [prod_draws] (one block of Fisher-Yates answers per stratum, strata in sorted label order); on that space
   the function is total, every output is an admissible position permutation (g[sigma i] = g[i]), different
   answers give different outputs, and every admissible permutation is produced.  Uniform independent answers
   therefore induce the uniform law on the admissible set, whose size is the product of the n_k!  -- i.e. the
   product of the per-stratum uniform laws.  (By C02_within_group_permutation_acts_on_positions the output for
   arbitrary values is the input read through that permutation.) *)
Theorem C02_within_group_permutation_is_uniform_on_the_product : forall g : seq Z,
  let n := size g in
  let space := prod_draws (sizes g (unique g)) in
  [/\ size space = \prod_(k <- unique g) (size (pos_of g k))`!,
      forall t, t \in space -> exists2 sg, permute_within_groups 0 (iota 0 n) g t = Ok (sg, [::]) & admissible g sg,
      forall t t' sg, t \in space -> t' \in space ->
        permute_within_groups 0 (iota 0 n) g t = Ok (sg, [::]) ->
        permute_within_groups 0 (iota 0 n) g t' = Ok (sg, [::]) -> t = t' &
      forall sg, admissible g sg -> exists2 t, t \in space & permute_within_groups 0 (iota 0 n) g t = Ok (sg, [::])].
Proof. exact pwg_uniform. Qed.
Print Assumptions C02_within_group_permutation_is_uniform_on_the_product.

(* the 'greater' entry of the stratified tail table is the textbook (H+c)/(reps+c) *)
Theorem C02_greater_tail_is_textbook : forall hits reps plus1,
  (strat_pvalue Greater hits reps plus1 == perm_pvalue (cc plus1) hits reps)%Q.
Proof. intros. unfold strat_pvalue, perm_pvalue, Qdiv. ring. Qed.
Print Assumptions C02_greater_tail_is_textbook.

(* bivariate_k_sample and simulate_ts_dist are one-sided by design: (c + #{dist >= observed})/(c + reps) *)
Theorem C02_ksample_pvalue_is_textbook : forall tst d plus1,
  ksample_pvalue tst d plus1 = perm_pvalue (cc plus1) (count_ge tst d) (length d).
Proof. reflexivity. Qed.
Print Assumptions C02_ksample_pvalue_is_textbook.

Example C02_nonvacuous :
  permute_within_groups 0%Q [:: 1; 2; 3; 4; 5]%Q [:: 7; 8; 7; 8; 7]%Z [:: 2; 0; 0; 1; 0]%nat = Ok ([:: 5; 4; 3; 2; 1]%Q, [::]).
Proof. vm_compute. reflexivity. Qed.
