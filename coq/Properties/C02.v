From PV Require Import Lib.Base Model.Prng Model.Core Model.Stratified.
Open Scope Q_scope.
Theorem C02_greater_tail_is_textbook : forall hits reps plus1,
  strat_pvalue Greater hits reps plus1 == perm_pvalue (cc plus1) hits reps.
Proof.
  intros. unfold strat_pvalue, perm_pvalue. unfold Qdiv. ring.
Qed.
Print Assumptions C02_greater_tail_is_textbook.
