(* C14 -- binomial_p / hypergeometric give exact valid tail p-values; bad inputs rejected.
   Statements only; proofs in Proofs/PvaluesProofs.v, Proofs/QLemmas.v, Lib/Tails.v, Lib/Binom.v. *)
From Coq Require Import ZArith List QArith.
From PV Require Import Lib.Base Model.TailsZ Model.Pvalues Proofs.QLemmas.
From mathcomp Require Import all_ssreflect.
From PV Require Import Lib.Tails Lib.Binom Lib.TwoSided Proofs.PvaluesProofs Proofs.TwoSidedProofs.
Local Open Scope nat_scope.

(* The model's tails are the textbook tails: weights C(G,k)C(N-G,n-k) with total C(N,n)
   (Vandermonde), resp. C(n,k) a^k b^(n-k) with total (a+b)^n (binomial theorem), p = a/(a+b). *)
Theorem C14_hyper_tails_are_textbook : forall N G n x,
  upperZ (hyper_w N G n) x = Z.of_nat (upper (whyper N G n) x) /\
  lowerZ (hyper_w N G n) x = Z.of_nat (lower (whyper N G n) x) /\
  (G <= N -> sumn (whyper N G n) = 'C(N, n)) /\ zbin N n = Z.of_nat 'C(N, n).
Proof.
  intros N G n x. split; [exact (hyper_upper_spec N G n x)|].
  split; [exact (hyper_lower_spec N G n x)|]. split; [exact (@whyper_total N G n)|exact (zbin_bin N n)].
Qed.
Print Assumptions C14_hyper_tails_are_textbook.

Theorem C14_binom_tails_are_textbook : forall n a b x,
  upperZ (binom_w n (Z.of_nat a) (Z.of_nat b)) x = Z.of_nat (upper (wbinom n a b) x) /\
  lowerZ (binom_w n (Z.of_nat a) (Z.of_nat b)) x = Z.of_nat (lower (wbinom n a b) x) /\
  sumn (wbinom n a b) = (a + b) ^ n.
Proof.
  intros n a b x. split; [exact (binom_upper_spec n a b x)|].
  split; [exact (binom_lower_spec n a b x)|exact (wbinom_total n a b)].
Qed.
Print Assumptions C14_binom_tails_are_textbook.

(* less(x) + greater(x+1) = 1, as numerators over the common denominator *)
Theorem C14_hyper_less_plus_greater_succ : forall N G n x, G <= N ->
  (lowerZ (hyper_w N G n) x + upperZ (hyper_w N G n) x.+1 = zbin N n)%Z.
Proof. exact hyper_less_greater. Qed.
Print Assumptions C14_hyper_less_plus_greater_succ.

Theorem C14_binom_less_plus_greater_succ : forall n a b x,
  (lowerZ (binom_w n (Z.of_nat a) (Z.of_nat b)) x + upperZ (binom_w n (Z.of_nat a) (Z.of_nat b)) x.+1
   = (Z.of_nat a + Z.of_nat b) ^ Z.of_nat n)%Z.
Proof. exact binom_less_greater. Qed.
Print Assumptions C14_binom_less_plus_greater_succ.

(* both one-sided values are monotone in x *)
Theorem C14_monotone_in_x : forall N G n a b x y, x <= y ->
  (upperZ (hyper_w N G n) y <= upperZ (hyper_w N G n) x)%Z /\
  (lowerZ (hyper_w N G n) x <= lowerZ (hyper_w N G n) y)%Z /\
  (upperZ (binom_w n (Z.of_nat a) (Z.of_nat b)) y <= upperZ (binom_w n (Z.of_nat a) (Z.of_nat b)) x)%Z /\
  (lowerZ (binom_w n (Z.of_nat a) (Z.of_nat b)) x <= lowerZ (binom_w n (Z.of_nat a) (Z.of_nat b)) y)%Z.
Proof.
  intros N G n a b x y xy. split; [exact (@hyper_greater_antitone N G n x y xy)|].
  split; [exact (@hyper_less_monotone N G n x y xy)|].
  split; [exact (@binom_greater_antitone n a b x y xy)|exact (@binom_less_monotone n a b x y xy)].
Qed.
Print Assumptions C14_monotone_in_x.

(* 'two-sided' = 2*min(lower, upper, 1/2) = min(1, 2*min(lower, upper)) *)
Theorem C14_two_sided_def : forall pl pu : Q,
  (two_sided pl pu == Qmin 1 ((2 # 1) * Qmin pl pu))%Q.
Proof. exact two_sided_def. Qed.
Print Assumptions C14_two_sided_def.

(* validity, for every null parameter and every level c/d: the total probability weight of the
   outcomes x whose one-sided p-value (tail/total) is <= c/d is at most c/d of the total.
   mass_up P w = sum of w_x over the x with P (upper tail at x)  (Lib/Tails.mass_up_spec) *)
Theorem C14_one_sided_pvalues_valid : forall N G n a b c d,
  (G <= N -> mass_up (accept c d 'C(N, n)) (whyper N G n) * d <= c * 'C(N, n)) /\
  (G <= N -> mass_lo (accept c d 'C(N, n)) (whyper N G n) * d <= c * 'C(N, n)) /\
  mass_up (accept c d ((a + b) ^ n)) (wbinom n a b) * d <= c * (a + b) ^ n /\
  mass_lo (accept c d ((a + b) ^ n)) (wbinom n a b) * d <= c * (a + b) ^ n.
Proof.
  intros N G n a b c d. split; [exact (@hyper_greater_valid N G n c d)|].
  split; [exact (@hyper_less_valid N G n c d)|].
  split; [exact (binom_greater_valid n a b c d)|exact (binom_less_valid n a b c d)].
Qed.
Print Assumptions C14_one_sided_pvalues_valid.

Theorem C14_mass_up_is_sum_over_accepted_outcomes : forall P (w : seq nat),
  mass_up P w = \sum_(0 <= x < size w) (if P (upper w x) then nth 0 w x else 0).
Proof. exact mass_up_spec. Qed.
Print Assumptions C14_mass_up_is_sum_over_accepted_outcomes.

(* two-sided validity, for every null parameter and every level c/d: the total probability weight of the
   outcomes x whose two-sided p-value min(1, 2 min(lower, upper)/total) is <= c/d is at most c/d of the total.
   mass2 c d w = sum of w_x over the x with two_accept c d total (lower w x) (upper w x), and two_accept is
   exactly "the model's two_sided value is <= c/d" *)
Theorem C14_two_sided_pvalues_valid : forall N G n a b c d,
  (G <= N -> mass2 c d (whyper N G n) * d <= c * 'C(N, n)) /\
  mass2 c d (wbinom n a b) * d <= c * (a + b) ^ n.
Proof. intros N G n a b c d. split; [exact (@hyper_two_sided_valid N G n c d)|exact (binom_two_sided_valid n a b c d)]. Qed.
Print Assumptions C14_two_sided_pvalues_valid.

Theorem C14_two_sided_acceptance_is_the_model_pvalue : forall lo up tot c d, 0 < tot -> 0 < d ->
  (two_sided (q_of (Z.of_nat lo) (Z.of_nat tot)) (q_of (Z.of_nat up) (Z.of_nat tot))
     <= inject_Z (Z.of_nat c) / inject_Z (Z.of_nat d))%Q <-> two_accept c d tot lo up.
Proof. exact two_accept_iff. Qed.
Print Assumptions C14_two_sided_acceptance_is_the_model_pvalue.

Theorem C14_mass2_is_sum_over_accepted_outcomes : forall c d (w : seq nat),
  mass2 c d w = \sum_(0 <= x < size w) (if two_accept c d (sumn w) (lower w x) (upper w x) then nth 0 w x else 0).
Proof. reflexivity. Qed.
Print Assumptions C14_mass2_is_sum_over_accepted_outcomes.

(* arguments that cannot occur raise ValueError, all others return a number *)
Theorem C14_hypergeometric_guards : forall x N n G a,
  (hypergeometric x N n G a = Err ValueError <-> (n < x \/ N < n \/ N < G \/ G < x)) /\
  ((exists q, hypergeometric x N n G a = Ok q) <-> (x <= n /\ n <= N /\ G <= N /\ x <= G)).
Proof. intros. split; [exact (hypergeometric_rejects x N n G a)|exact (hypergeometric_guards x N n G a)]. Qed.
Print Assumptions C14_hypergeometric_guards.

Theorem C14_binomial_guards : forall x n pa pb a,
  binomial_p x n pa pb a = Err ValueError <-> n < x.
Proof. exact binomial_p_rejects. Qed.
Print Assumptions C14_binomial_guards.

Example C14_nonvacuous :
  hypergeometric 4 10 5 6 Greater = Ok (11 # 42)%Q /\ hypergeometric 5 10 2 6 Greater = Err ValueError /\
  binomial_p 1 3 1 1 Less = Ok (1 # 2)%Q.
Proof. vm_compute. repeat split; reflexivity. Qed.
