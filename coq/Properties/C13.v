(* C13 -- hypergeom_conf_interval returns exact test-inversion bounds that cover.
   Statements only; proofs in Proofs/HgciProofs.v, Proofs/BisectProofs.v, Lib/HyperMono.v, Proofs/PvaluesProofs.v. *)
From Coq Require Import ZArith QArith List.
From PV Require Import Lib.Base Model.TailsZ Model.ConfInt.
From mathcomp Require Import all_ssreflect.
From PV Require Import Lib.Tails Lib.Binom Lib.HyperMono Proofs.PvaluesProofs Proofs.HgciProofs.
Local Open Scope nat_scope.

(* L6: P_G(X >= x) is nondecreasing and P_G(X <= x) nonincreasing in the number G of good items, all N, n, x *)
Theorem C13_tails_monotone_in_G : forall N n x G G', n <= N -> G <= G' -> G' <= N ->
  (hyper_upper_q N G n x <= hyper_upper_q N G' n x)%Q /\ (hyper_lower_q N G' n x <= hyper_lower_q N G n x)%Q.
Proof.
  intros N n x G G' nN GG G'N. split; [exact (@hyper_upper_q_mono_G N n x G G' nN GG G'N)|exact (@hyper_lower_q_anti_G N n x G G' nN GG G'N)].
Qed.
Print Assumptions C13_tails_monotone_in_G.

(* at the ends of the range compatible with the sample (x <= G <= N-(n-x)) the tails are 1, below x the upper
   tail is 0: so for any level a in (0,1] the searches below are over a non-empty monotone range *)
Theorem C13_tails_at_range_ends : forall N n x, x <= n -> n <= N ->
  (hyper_upper_q N (N - (n - x)) n x == 1)%Q /\ (hyper_lower_q N x n x == 1)%Q /\
  (forall G, G < x -> (hyper_upper_q N G n x == 0)%Q).
Proof.
  intros N n x xn nN. split; [exact (tail_top_is_one xn nN)|split; [exact (tail_bottom_is_one xn nN)|]].
  intros G Gx. exact (@tail_below_x_is_zero N G n x nN Gx).
Qed.
Print Assumptions C13_tails_at_range_ends.

(* lower limit: the smallest G with P_G(X >= x) >= a (a = tail level); integers by construction (nat) *)
Theorem C13_lower_limit_is_smallest : forall n x N (cl : Q) alt, n <= N -> x <= n ->
  wants_lower alt x = true -> (tail_level cl alt <= 1)%Q ->
  let lo := (hypergeom_conf_interval n x N cl alt).1 in
  [/\ x <= lo, lo <= N - (n - x), (tail_level cl alt <= hyper_upper_q N lo n x)%Q &
      forall G, x <= G -> G < lo -> ~ (tail_level cl alt <= hyper_upper_q N G n x)%Q].
Proof.
  intros n x N cl alt nN xn wl a1. apply (@hgci_lower_is_smallest n x N cl alt nN xn wl).
  rewrite (tail_top_is_one xn nN). exact a1.
Qed.
Print Assumptions C13_lower_limit_is_smallest.

(* upper limit: the largest G with P_G(X <= x) >= a *)
Theorem C13_upper_limit_is_largest : forall n x N (cl : Q) alt, n <= N -> x <= n ->
  wants_upper alt n x = true -> (tail_level cl alt <= 1)%Q ->
  let hi := (hypergeom_conf_interval n x N cl alt).2 in
  [/\ x <= hi, hi <= N - (n - x), (tail_level cl alt <= hyper_lower_q N hi n x)%Q &
      forall G, hi < G -> G <= N - (n - x) -> ~ (tail_level cl alt <= hyper_lower_q N G n x)%Q].
Proof.
  intros n x N cl alt nN xn wu a1. apply (@hgci_upper_is_largest n x N cl alt nN xn wu).
  rewrite (tail_bottom_is_one xn nN). exact a1.
Qed.
Print Assumptions C13_upper_limit_is_largest.

(* the limits that are not searched are 0 and N; the optional starting point G is not an input of the model *)
Theorem C13_trivial_limits : forall n x N cl alt,
  (wants_lower alt x = false -> (hypergeom_conf_interval n x N cl alt).1 = 0) /\
  (wants_upper alt n x = false -> (hypergeom_conf_interval n x N cl alt).2 = N).
Proof. intros n x N cl alt. rewrite /hypergeom_conf_interval. split => ->; reflexivity. Qed.
Print Assumptions C13_trivial_limits.

(* coverage: for every true G, the total weight of the outcomes x whose one-sided p-value is <= c/d is at most
   c/d of C(N,n): each limit misses the true G with probability at most its tail level *)
Theorem C13_test_inversion_covers : forall N G n c d, G <= N ->
  mass_up (accept c d 'C(N, n)) (whyper N G n) * d <= c * 'C(N, n) /\
  mass_lo (accept c d 'C(N, n)) (whyper N G n) * d <= c * 'C(N, n).
Proof. intros N G n c d le. split; [exact (@hyper_greater_valid N G n c d le)|exact (@hyper_less_valid N G n c d le)]. Qed.
Print Assumptions C13_test_inversion_covers.

Example C13_nonvacuous :
  hypergeom_conf_interval 10 5 20 (19 # 20) CITwoSided = (6, 14) /\ hypergeom_conf_interval 2 1 5 (19 # 20) CIUpper = (0, 4).
Proof. vm_compute. split; reflexivity. Qed.
