From PV Require Import Lib.Base Model.Npc.
Open Scope Q_scope.
Theorem C08_npc_rejects_bad_shapes : forall p distr c plus1,
  ((length p < 2)%nat \/ (exists r, In r distr /\ length r <> length p)) -> npc p distr c plus1 = Err ValueError.
Proof.
  intros p distr c plus1 [H|[r [Hin Hr]]]; unfold npc.
  - apply Nat.ltb_lt in H. rewrite H. reflexivity.
  - destruct (length p <? 2)%nat; [reflexivity|].
    assert (E : forallb (fun r0 => Nat.eqb (length r0) (length p)) distr = false).
    { apply Bool.not_true_is_false. intros F. rewrite forallb_forall in F. apply F in Hin. apply Nat.eqb_eq in Hin. contradiction. }
    rewrite E. reflexivity.
Qed.
Print Assumptions C08_npc_rejects_bad_shapes.
