(* C08 -- npc is monotone in the partial p-values and rank based; shapes are validated.
   Statements only; proofs in Proofs/NpcProofs.v and Proofs/NpcRelabel.v. *)
From PV Require Import Lib.Base Model.Npc Proofs.NpcProofs Proofs.NpcRelabel.
From Coq Require Import Permutation.
Open Scope Q_scope.

(* the global p-value never decreases when the observed combined statistic decreases, which is what raising
   any observed partial p-value does for a combiner that is non-increasing in each argument *)
Theorem C08_npc_monotone : forall c p p' d plus1 v v',
  length p = length p' -> is_callable c = false ->
  stat_ge c (psi c p) (psi c p') = true ->
  npc p d c plus1 = Ok v -> npc p' d c plus1 = Ok v' -> v <= v'.
Proof. exact npc_monotone. Qed.
Print Assumptions C08_npc_monotone.

(* Fisher (ordered through the product) and Tippett are non-increasing in every argument *)
Theorem C08_fisher_tippett_nonincreasing : forall p p',
  (Forall2 (fun a b => 0 <= a /\ a <= b) p p' -> stat_ge Fisher (psi Fisher p) (psi Fisher p') = true) /\
  (Forall2 Qle p p' -> stat_ge Tippett (psi Tippett p) (psi Tippett p') = true).
Proof.
  intros p p'. split; intros H; cbn [stat_ge]; apply Qle_bool_iff.
  - exact (proj2 (qprod_mono p p' H)).
  - exact (tippett_antitone p p' H).
Qed.
Print Assumptions C08_fisher_tippett_nonincreasing.

(* only within-column ranks matter: a strictly increasing transformation of a column changes no count *)
Theorem C08_rank_invariance : forall (f : Q -> Q) (col : list Q) (x : Q),
  (forall a b, Qle_bool a b = Qle_bool (f a) (f b)) ->
  count_lt (map f col) (f x) = count_lt col x /\ count_ge (map f col) (f x) = count_ge col x.
Proof. intros f col x H. split; [exact (count_lt_increasing f col x H)|exact (count_ge_increasing f col x H)]. Qed.
Print Assumptions C08_rank_invariance.

(* symmetry: relabelling the partial tests (any permutation [ord] of the columns, applied to the observed
   p-values and to every row of distr) leaves the global p-value unchanged, for Fisher, Liptak and Tippett *)
Theorem C08_npc_symmetric_under_relabelling : forall c p distr plus1 ord,
  symmetric c = true -> Permutation ord (seq 0 (length p)) ->
  forallb (fun r => Nat.eqb (length r) (length p)) distr = true ->
  npc (take_cols ord p) (map (take_cols ord) distr) c plus1 = npc p distr c plus1.
Proof. exact npc_relabel. Qed.
Print Assumptions C08_npc_symmetric_under_relabelling.

(* shapes that disagree, or fewer than two p-values, are rejected with ValueError *)
Theorem C08_npc_rejects_bad_shapes : forall p distr c plus1,
  ((length p < 2)%nat \/ (exists r, In r distr /\ length r <> length p)) -> npc p distr c plus1 = Err ValueError.
Proof.
  intros p distr c plus1 [H|[r [Hin Hr]]]; unfold npc.
  - apply Nat.ltb_lt in H. rewrite H. reflexivity.
  - destruct (length p <? 2)%nat; [reflexivity|].
    assert (E : forallb (fun r0 => Nat.eqb (length r0) (length p)) distr = false).
    { apply Bool.not_true_is_false. intros F. rewrite forallb_forall in F. apply F in Hin. apply Nat.eqb_eq in Hin. contradiction. }
    rewrite E. reflexivity.
Qed.
Print Assumptions C08_npc_rejects_bad_shapes.

(* a combining function that increases with a p-value fails the monotonicity guard *)
Example C08_increasing_combiner_rejected :
  npc [1 # 2; 1 # 4] [[1; 2]; [0; 1]] PosSum true = Err ValueError /\
  check_combfunc_monotonic (NegWSum [1; 1]) [1 # 2; 1 # 4] = true.
Proof. vm_compute. split; reflexivity. Qed.
