From PV Require Import Lib.Base Model.Prng Model.Core Model.Experiment.
Open Scope Q_scope.
(* in_place=False never changes the caller's Experiment beyond the optional reseed *)
Theorem C17_not_in_place_keeps_state : forall e rs fork e' out,
  step e (Randomize false rs fork) = Ok (e', out) -> e' = reseeded e rs.
Proof.
  intros e rs fork e' out H. unfold step in H. cbn [bind] in H.
  destruct (randomize_once _ _ _ _) as [gt|]; cbn [bind] in H; [|discriminate]. inversion H; reflexivity.
Qed.
Print Assumptions C17_not_in_place_keeps_state.
