(* C17 -- Experiment randomization histories conserve labels and respect in_place.
   Statements only; proofs in Proofs/ExperimentProofs.v. *)
From Coq Require Import ZArith.
From PV Require Import Lib.Base Model.Prng Model.Core Model.Experiment.
From mathcomp Require Import all_ssreflect.
From PV Require Import Proofs.ExperimentProofs Proofs.ExperimentStrataProofs.

(* Invariant of every reachable state: over ANY finite sequence of randomize / sim_npc / westfall_young
   operations with any mix of in_place, reseeding and forks, on any tapes, the responses, the strata and the
   randomizer kind never change and the group vector is a rearrangement of the original labels.
   [wf e0]: a stratified experiment has one stratum label per unit. *)
Theorem C17_reachable_states_conserve_everything_but_the_assignment :
  forall e0 ops e' outs, wf e0 -> run e0 ops = Ok (e', outs) ->
  [/\ response e' = response e0, strata e' = strata e0, kind e' = kind e0,
      perm_eq (group e') (group e0) & size (group e') = size (group e0)].
Proof. intros e0 ops e' outs w H. exact (@run_Inv e0 w ops e0 e' outs (Inv_refl e0) H). Qed.
Print Assumptions C17_reachable_states_conserve_everything_but_the_assignment.

(* one step: only the assignment (and the generator) can change *)
Theorem C17_step_changes_only_the_assignment : forall e o e' out, wfs (strata e) (group e) ->
  step e o = Ok (e', out) ->
  [/\ response e' = response e, strata e' = strata e, kind e' = kind e,
      perm_eq (group e') (group e) & size (group e') = size (group e)].
Proof. intros e o e' out w H. exact (step_fields w H). Qed.
Print Assumptions C17_step_changes_only_the_assignment.

(* in_place=False leaves the caller's Experiment exactly as it was (after the optional reseed): the
   randomizations happen on a copy whose generator is the fork *)
Theorem C17_not_in_place_leaves_state : forall e o e' out, step e o = Ok (e', out) ->
  match o with
  | Randomize false rs _ | SimNpc false rs _ _ _ _ | WestfallYoung false rs _ _ _ _ _ => e' = reseeded e rs
  | _ => True
  end.
Proof. exact step_not_in_place. Qed.
Print Assumptions C17_not_in_place_leaves_state.

(* the stratified randomizer conserves the labels stratum by stratum: each pass rewrites only the positions of
   one stratum with a rearrangement of the labels found there *)
Theorem C17_stratified_pass_conserves_labels : forall (s : seq Z) labels (g : seq Z) t g' t',
  size s = size g -> strata_loop g s labels t = Ok (g', t') -> perm_eq g' g /\ size g' = size g.
Proof. exact strata_loop_perm. Qed.
Print Assumptions C17_stratified_pass_conserves_labels.

(* ... and over ANY history: for the stratified randomizer every reachable state holds, in EACH stratum
   (first covariate value k), exactly the labels that stratum started with *)
Theorem C17_reachable_states_conserve_labels_within_each_stratum :
  forall e0 st ops e' outs, wf e0 -> strata e0 = Some st -> kind e0 = Strat ->
  run e0 ops = Ok (e', outs) ->
  forall k, perm_eq (stratum_labels st (group e') k) (stratum_labels st (group e0) k).
Proof.
  intros e0 st ops e' outs w s0 k0 H.
  exact (@run_within e0 st w s0 k0 ops e0 e' outs (Inv_refl e0) (fun k => perm_refl _) H).
Qed.
Print Assumptions C17_reachable_states_conserve_labels_within_each_stratum.

(* a seeded randomization from the same assignment is reproducible: step is a function of (state, op) *)
Theorem C17_seeded_reproducible : forall e o r1 r2, step e o = r1 -> step e o = r2 -> r1 = r2.
Proof. intros e o r1 r2 H1 H2. rewrite <- H1. exact H2. Qed.
Print Assumptions C17_seeded_reproducible.

(* the built-in test functions: an array of tests evaluates each test on the same data and assignment
   (make_test_array(func, indices)[i](data) = func(data, indices[i])), and raises exactly when one of them does *)
From PV Require Import Proofs.TestFuncProofs.
Theorem C17_test_array_is_pointwise : forall fs g resp vs, eval_tests fs g resp = Ok vs ->
  length vs = length fs /\ forall i d, (i < length fs)%coq_nat -> eval_test (List.nth i fs d) g resp = Ok (List.nth i vs 0%Q).
Proof. exact eval_tests_pointwise. Qed.
Print Assumptions C17_test_array_is_pointwise.

(* mean_diff is what it is named for: mean of the first group (sorted label order) minus mean of the second, on the
   requested column; with any other number of groups mean_diff and ttest raise ValueError *)
Theorem C17_mean_diff_is_difference_of_group_means : forall i g resp g0 g1, unique g = [:: g0; g1] ->
  eval_test (MeanDiffF i) g resp = Ok (qmean (select (column resp i) g g0) - qmean (select (column resp i) g g1))%Q.
Proof. exact mean_diff_value. Qed.
Print Assumptions C17_mean_diff_is_difference_of_group_means.
Theorem C17_two_sample_tests_need_two_groups : forall i g resp, length (unique g) <> 2%nat ->
  eval_test (MeanDiffF i) g resp = Err ValueError /\ eval_test (TtestSqF i) g resp = Err ValueError.
Proof. exact two_sample_tests_need_two_groups. Qed.
Print Assumptions C17_two_sample_tests_need_two_groups.

Example C17_nonvacuous :
  match run {| group := [:: 0; 1; 0; 1]%Z; response := [:: [:: 1%Q]; [:: 2%Q]; [:: 3%Q]; [:: 4%Q]]; strata := Some [:: 5; 5; 6; 6]%Z;
               kind := Strat; gen := [:: 1; 0; 0; 0]%nat |}
            [:: Randomize false None [:: 1; 0; 1; 0]%nat; Randomize true None [::]] with
  | Ok (e, outs) => (group e == [:: 1; 0; 0; 1]%Z) && (size outs == 2%nat)
  | Err _ => false
  end = true.
Proof. vm_compute. reflexivity. Qed.

(* FAILURE PATHS (Model/ExperimentAbort.v): operations aborted inside their repetition loop after any number of completed
   randomizations (a test function raises an exception or Ctrl-C), and operations rejected before they start, mixed freely
   with completed ones: every reachable state still has the original responses, strata and randomizer kind and an assignment
   that is a rearrangement of the original labels ... *)
From PV Require Import Model.ExperimentAbort Proofs.ExperimentAbortProofs.
Theorem C17_histories_with_aborted_and_rejected_calls_keep_the_invariant :
  forall e0, wf e0 -> forall hs e', hrun e0 hs = Ok e' ->
  response e' = response e0 /\ strata e' = strata e0 /\ kind e' = kind e0 /\
  perm_eq (group e') (group e0) /\ size (group e') = size (group e0).
Proof.
  intros e0 w hs e' H. destruct (@hrun_Inv e0 w hs e0 e' (Inv_refl e0) H) as [r s k p z]. repeat split; assumption.
Qed.
Print Assumptions C17_histories_with_aborted_and_rejected_calls_keep_the_invariant.

(* ... within EACH stratum for the stratified randomizer ... *)
Theorem C17_aborted_calls_conserve_labels_within_each_stratum :
  forall e0 st hs e', wf e0 -> strata e0 = Some st -> kind e0 = Strat -> hrun e0 hs = Ok e' ->
  forall k, perm_eq (stratum_labels st (group e') k) (stratum_labels st (group e0) k).
Proof.
  intros e0 st hs e' w s0 k0 H.
  exact (@hrun_within e0 st w s0 k0 hs e0 e' (Inv_refl e0) (fun k => perm_refl _) H).
Qed.
Print Assumptions C17_aborted_calls_conserve_labels_within_each_stratum.

(* ... and a call aborted with in_place=False, or rejected, leaves the caller's Experiment exactly as it was (re-seeded if a
   usable seed was given) *)
Theorem C17_failed_call_without_in_place_changes_nothing : forall e h e', hstep e h = Ok e' ->
  match h with
  | Aborted false rs _ _ => e' = reseeded e rs
  | Rejected => e' = e
  | _ => True
  end.
Proof. exact failed_not_in_place. Qed.
Print Assumptions C17_failed_call_without_in_place_changes_nothing.

(* non-vacuity: a concrete stratified Experiment on which an in-place call is aborted after two randomizations, a call is rejected,
   a call without in_place is aborted after one, and a randomization completes; the history runs and all answers are consumed *)
Example C17_failure_history_nonvacuous :
  match hrun {| group := [:: 0; 1; 0; 1]%Z; response := [:: [:: 1%Q]; [:: 2%Q]; [:: 3%Q]; [:: 4%Q]]; strata := Some [:: 5; 5; 6; 6]%Z;
                kind := Strat; gen := [:: 1; 0; 0; 0; 1; 0; 1; 0; 0; 0; 1; 0]%nat |}
             [:: Aborted true None [::] 2; Rejected; Aborted false None [:: 1; 0; 1; 0]%nat 1; Done (Randomize true None [::])] with
  | Ok e => (group e == [:: 0; 1; 0; 1]%Z) && (size (gen e) == 0%nat)
  | Err _ => false
  end = true.
Proof. vm_compute. reflexivity. Qed.
