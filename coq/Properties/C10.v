(* C10 -- Westfall-Young adjusted p-values dominate raw ones and control FWER exactly.
   Statements only; proofs in Proofs/WYProofs.v, Proofs/WYChain.v, Proofs/WYSpecProofs.v, Lib/RankValid.v.
   The model of the code (westfall_young_table: in-place loops over the table of statistics -- successive
   minima / maxima along the testing order, counts, running maximum) IS the textbook step-down procedure
   (wy_spec) for every table: C10_model_is_textbook_minp / _maxt.  Both are also evaluated against the
   implementation on every correspondence case. *)
From PV Require Import Lib.Base Model.WY Proofs.WYProofs Proofs.WYChain Proofs.WYSpecProofs.
From Coq Require Import Permutation Sorted.
Open Scope Q_scope.

(* raw p-values are the usual (count+1)/(reps+1): the observed row counts itself among reps+1 rows *)
Theorem C10_raw_pvalue_is_rank_over_all_rows : forall a tsc tvc,
  raw_p a tsc tvc == qn (count_if (fun v => Qle_bool (tr a tsc) (tr a v)) (tsc :: tvc)) / qn (length (tsc :: tvc)).
Proof. exact raw_p_is_rank_over_all_rows. Qed.
Print Assumptions C10_raw_pvalue_is_rank_over_all_rows.

(* ---- model of the code = textbook step-down procedure, for EVERY table of statistics ---- *)
(* whatever westfall_young_table returns for min-P equals (entrywise, as rationals) the textbook step-down
   min-P values wy_spec computes along the order Lasc in which the code tests the hypotheses; Lasc is a
   permutation of the hypotheses along which the raw p-values are non-decreasing (stable sort) *)
Theorem C10_model_is_textbook_minp : forall ts sims alts adj raw,
  westfall_young_table ts sims MinP alts = Ok (adj, raw) ->
  let Lasc := rev (minp_order ts sims alts) in
  Permutation Lasc (seq 0 (length ts)) /\
  Forall2 Qeq adj (fst (wy_spec ts sims MinP alts Lasc)) /\
  Forall2 Qeq raw (snd (wy_spec ts sims MinP alts Lasc)).
Proof. exact wy_minp_model_eq_spec. Qed.
Print Assumptions C10_model_is_textbook_minp.

Theorem C10_minp_order_is_sorted_by_raw_p : forall ts sims alts,
  StronglySorted (fun i j => nth j (rawl ts sims alts) 0 <= nth i (rawl ts sims alts) 0) (minp_order ts sims alts).
Proof. exact minp_order_sorted. Qed.
Print Assumptions C10_minp_order_is_sorted_by_raw_p.

(* the same for max-T along the order Ldesc used by the code *)
Theorem C10_model_is_textbook_maxt : forall ts sims alts adj raw,
  westfall_young_table ts sims MaxT alts = Ok (adj, raw) ->
  let Ldesc := rev (maxt_order ts alts) in
  Permutation Ldesc (seq 0 (length ts)) /\
  Forall2 Qeq adj (fst (wy_spec ts sims MaxT alts Ldesc)) /\
  Forall2 Qeq raw (snd (wy_spec ts sims MaxT alts Ldesc)).
Proof. exact wy_maxt_model_eq_spec. Qed.
Print Assumptions C10_model_is_textbook_maxt.

(* ... so the FWER theorem below applies to what the code returns: the smallest adjusted p-value of the model's
   min-P output is the value of the most significant hypothesis c0, and it equals the rank of the observed row's
   minimum permutation p-value among the row minima of all reps+1 rows -- the quantity C10_minp_fwer_exact bounds *)
Theorem C10_smallest_adjusted_pvalue_is_rank_of_row_minimum : forall ts sims alts adj raw,
  westfall_young_table ts sims MinP alts = Ok (adj, raw) -> (0 < length ts)%nat ->
  let Lasc := rev (minp_order ts sims alts) in
  let rows := all_rows ts sims in
  let m := fun r => qminl (map (P ts sims alts r) Lasc) in
  exists c0, hd_error Lasc = Some c0 /\
    nth c0 adj 0 == qn (count_if (fun x => Qle_bool x (m ts)) (map m rows)) / qn (length rows) /\
    forall c, (c < length ts)%nat -> nth c0 adj 0 <= nth c adj 0.
Proof. exact wy_minp_smallest_adjusted. Qed.
Print Assumptions C10_smallest_adjusted_pvalue_is_rank_of_row_minimum.

(* step-down min-P: the value attached to the most significant hypothesis is the rank of the row's smallest
   permutation p-value among all rows; later values take the minimum over the remaining hypotheses only and
   are made monotone (running maximum) *)
Theorem C10_stepdown_minp_unfolds : forall alt_of rows obs c rest prev,
  stepdown_minp alt_of rows obs (c :: rest) prev =
  let rawc := row_p (alt_of c) rows c obs in
  let cnt := count_if (fun x => Qle_bool x rawc)
               (map (fun r => qminl (map (fun l => row_p (alt_of l) rows l r) (c :: rest))) rows) in
  let a := Qmax (qn cnt / qn (length rows)) prev in
  (c, a) :: stepdown_minp alt_of rows obs rest a.
Proof. exact stepdown_minp_head. Qed.
Print Assumptions C10_stepdown_minp_unfolds.

Theorem C10_stepdown_values_monotone : forall alt_of rows obs L prev c a,
  In (c, a) (stepdown_minp alt_of rows obs L prev) -> prev <= a.
Proof. exact stepdown_minp_running. Qed.
Print Assumptions C10_stepdown_values_monotone.

(* exact family-wise error control under the complete null, for EVERY table with arbitrary ties: if any of the
   reps+1 rows may equally be the observed one, at most k of them lead to a smallest adjusted p-value
   <= k/(reps+1) -- min-P (rank of the row minimum of p-values) and max-T (rank of the row maximum) *)
Theorem C10_minp_fwer_exact : forall (alt_of : nat -> walt) (rows : list (list Q)) (L : list nat) (k : nat),
  let m := fun r => qminl (map (fun l => row_p (alt_of l) rows l r) L) in
  (length (filter (fun r => Nat.leb (length (filter (fun r' => Qle_bool (m r') (m r)) rows)) k) rows) <= k)%nat.
Proof. exact wy_minp_fwer. Qed.
Print Assumptions C10_minp_fwer_exact.

Theorem C10_maxt_fwer_exact : forall (alt_of : nat -> walt) (rows : list (list Q)) (L : list nat) (k : nat),
  let M := fun r => qmaxl (map (fun l => tr (alt_of l) (nth l r 0)) L) in
  (length (filter (fun r => Nat.leb (length (filter (fun r' => Qle_bool (M r) (M r')) rows)) k) rows) <= k)%nat.
Proof. exact wy_maxt_fwer. Qed.
Print Assumptions C10_maxt_fwer_exact.

(* argument validation *)
Theorem C10_invalid_arguments_rejected : forall ts sims alts m,
  (m = MBad \/ length alts <> length ts \/ (m <> MBad /\ existsb is_bad alts = true)) ->
  westfall_young_table ts sims m alts = Err ValueError.
Proof.
  intros ts sims alts m H. unfold westfall_young_table.
  destruct (Nat.eqb (length alts) (length ts)) eqn:E; cbn [negb]; [|reflexivity].
  destruct H as [->|[H|[Hm Hb]]]; [reflexivity| |].
  - apply Nat.eqb_eq in E. contradiction.
  - destruct m; [rewrite Hb; reflexivity|rewrite Hb; reflexivity|reflexivity].
Qed.
Print Assumptions C10_invalid_arguments_rejected.

Example C10_nonvacuous :
  westfall_young_table [0; 2] [[1; 0]; [-1; 3]; [0; 1]] MinP [WGreater; WGreater]
  = Ok ([3 # 4; 3 # 4], [3 # 4; 2 # 4]).
Proof. vm_compute. reflexivity. Qed.
