From PV Require Import Lib.Base Model.WY.
Open Scope Q_scope.
Theorem C10_invalid_method_rejected : forall ts sims alts, westfall_young_table ts sims MBad alts = Err ValueError.
Proof. intros. unfold westfall_young_table. destruct (negb _); reflexivity. Qed.
Print Assumptions C10_invalid_method_rejected.
