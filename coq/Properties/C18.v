(* C18 -- IRR concordance statistic equals the fraction of agreeing rater pairs.
   Statements only; proofs in Proofs/IrrProofs.v. *)
From PV Require Import Lib.Base Model.Irr Proofs.IrrProofs.
From Coq Require Import Sorting.Permutation.
Open Scope Z_scope.

(* per item: y(y-1) + (R-y)(R-y-1) is twice the number of unordered rater pairs that agree *)
Theorem C18_item_count_is_agreeing_pairs : forall c : list Z, binary c ->
  2 * agree_col c = item_count (Z.of_nat (length c)) (zsum c).
Proof. exact agree_col_formula. Qed.
Print Assumptions C18_item_count_is_agreeing_pairs.

(* compute_ts = (sum over items of that count) / (Ns * R * (R-1)) *)
Theorem C18_compute_ts_is_quotient : forall m : list (list Z),
  compute_ts m = Qred (Qmake (total_count (Z.of_nat (length m)) (colsums m))
                             (Z.to_pos (Z.of_nat (length (colsums m)) * Z.of_nat (length m) * (Z.of_nat (length m) - 1)))).
Proof. intros m. reflexivity. Qed.
Print Assumptions C18_compute_ts_is_quotient.

(* the column sums the code works with are the sums of the items, and the numerator of compute_ts is exactly
   twice the number of (item, unordered rater pair) agreements -- for every rectangular binary ratings matrix *)
Theorem C18_numerator_counts_agreeing_pairs : forall m ns, m <> [] -> Forall binary m -> rect m ns ->
  colsums m = map zsum (transpose m) /\
  total_count (Z.of_nat (length m)) (colsums m) = 2 * zsum (map agree_col (transpose m)).
Proof.
  intros m ns Hm Hb Hr. split; [exact (colsums_are_item_sums m ns Hm Hr)|exact (total_count_is_twice_agreements m ns Hm Hb Hr)].
Qed.
Print Assumptions C18_numerator_counts_agreeing_pairs.

(* it lies in [0,1] ... *)
Theorem C18_ts_numerator_range : forall R ys, Forall (fun y => 0 <= y <= R) ys ->
  0 <= total_count R ys <= Z.of_nat (length ys) * (R * (R - 1)).
Proof. exact total_count_range. Qed.
Print Assumptions C18_ts_numerator_range.

(* ... and equals 1 exactly when every item is unanimous *)
Theorem C18_ts_one_iff_unanimous : forall R ys, Forall (fun y => 0 <= y <= R) ys ->
  (total_count R ys = Z.of_nat (length ys) * (R * (R - 1)) <-> Forall (fun y => y = 0 \/ y = R) ys).
Proof. exact total_count_max_iff. Qed.
Print Assumptions C18_ts_one_iff_unanimous.

(* invariance: reordering items, reordering raters within an item, exchanging labels 0 and 1 *)
Theorem C18_invariant_items : forall R ys ys', Permutation ys ys' -> total_count R ys = total_count R ys'.
Proof. exact total_count_perm. Qed.
Print Assumptions C18_invariant_items.
Theorem C18_invariant_raters : forall c c', Permutation c c' -> zsum c = zsum c'.
Proof. exact zsum_perm. Qed.
Print Assumptions C18_invariant_raters.
Theorem C18_invariant_relabel : forall c, binary c ->
  item_count (Z.of_nat (length c)) (zsum (map (fun v => 1 - v) c)) = item_count (Z.of_nat (length c)) (zsum c).
Proof. intros c H. rewrite (zsum_flip c H). apply item_count_flip. Qed.
Print Assumptions C18_invariant_relabel.

(* simulate_ts_dist: the reference is the override when given, else the statistic of the ratings
   as passed; geq counts the simulated values >= the reference; p = (geq+c)/(num_perm+c) *)
Theorem C18_simulate_reference_and_geq : forall ratings ov sims plus1,
  let '(obs, geq, p, dist) := simulate_ts_summary ratings ov sims plus1 in
  obs = match ov with Some o => o | None => compute_ts ratings end /\
  dist = map compute_ts sims /\
  geq = length (filter (fun v => Qle_bool obs v) dist) /\
  p = Qmake (Z.of_nat geq + (if plus1 then 1 else 0)) (Z.to_pos (Z.of_nat (length sims) + (if plus1 then 1 else 0))).
Proof. intros. unfold simulate_ts_summary, count_geq. repeat split. Qed.
Print Assumptions C18_simulate_reference_and_geq.

Example C18_nonvacuous :
  compute_ts [[1;0;1];[1;1;0];[1;0;0]] == 5 # 9 /\ compute_ts [[1;0];[1;0]] == 1.
Proof. vm_compute. split; reflexivity. Qed.
