(* C05 -- p-value, observed statistic and returned distribution are mutually consistent.
   Statements only; proofs in Proofs/CoreProofs.v. *)
From PV Require Import Lib.Base Model.Prng Model.Core Model.NoDist Model.NoDistStrat Model.Stratified Proofs.CoreProofs Proofs.NoDistProofs Proofs.NoDistStratProofs.
From PV Require Lib.LoopShape.
From PV Require Import Proofs.LoopLink.
Open Scope Q_scope.

(* core.py's table pUp + plus1/(reps+plus1) ... is the textbook (H+c)/(reps+c); two-sided doubles and caps *)
Theorem C05_tail_table_is_textbook : forall hU hD reps plus1,
  the_pvalue Greater hU hD reps plus1 == perm_pvalue (cc plus1) hU reps /\
  the_pvalue Less hU hD reps plus1 == perm_pvalue (cc plus1) hD reps /\
  the_pvalue TwoSided hU hD reps plus1 ==
    Qmin 1 ((2 # 1) * Qmin (perm_pvalue (cc plus1) hU reps) (perm_pvalue (cc plus1) hD reps)).
Proof.
  intros. split; [apply the_pvalue_greater|split; [apply the_pvalue_less|apply the_pvalue_two_sided]].
Qed.
Print Assumptions C05_tail_table_is_textbook.

(* every completed run: len(dist) = reps and p is that formula evaluated on the returned dist and statistic.
   The model has a single code path for keep_dist True/False (the library's two branches compute the same
   counts); that the implementation's branches agree is checked on identical draws by the harness *)
Theorem C05_p_from_dist : forall s pot nx a reps plus1 t r,
  two_sample_core s pot nx a reps plus1 t = Ok r ->
  length (dist r) = reps /\ pval r == pv_textbook a (cc plus1) (tstat r) (dist r).
Proof. exact two_sample_core_pvalue. Qed.
Print Assumptions C05_p_from_dist.
Theorem C05_p_from_dist_one_sample : forall x y s a reps plus1 t r,
  one_sample x y s a reps plus1 t = Ok r ->
  length (dist r) = reps /\ pval r == pv_textbook a (cc plus1) (tstat r) (dist r).
Proof. exact one_sample_pvalue. Qed.
Print Assumptions C05_p_from_dist_one_sample.
Theorem C05_p_from_dist_corr_ksample : forall a tst sims plus1,
  corr_pvalue a tst sims plus1 == pv_textbook a (cc plus1) tst sims /\
  ksample_pvalue tst sims plus1 = pv_textbook Greater (cc plus1) tst sims.
Proof. intros. split; [apply corr_pvalue_textbook|reflexivity]. Qed.
Print Assumptions C05_p_from_dist_corr_ksample.

(* keep_dist changes neither the p-value nor the statistic (nor the generator state): the keep_dist=False code
   paths -- hit counters updated inside the loop, nothing stored (Model/NoDist.v) -- return exactly what the
   keep_dist=True paths return, for every table / data set, statistic, alternative, reps, plus1 and tape *)
Theorem C05_keep_dist_false_path_agrees : forall s pot nx a reps plus1 t x y s1,
  two_sample_core_nodist s pot nx a reps plus1 t =
    match two_sample_core s pot nx a reps plus1 t with Ok r => Ok (pval r, tstat r, rest r) | Err e => Err e end /\
  one_sample_nodist x y s1 a reps plus1 t =
    match one_sample x y s1 a reps plus1 t with Ok r => Ok (pval r, tstat r, rest r) | Err e => Err e end.
Proof. intros. split; [apply two_sample_core_nodist_eq|apply one_sample_nodist_eq]. Qed.
Print Assumptions C05_keep_dist_false_path_agrees.

(* the same for k_sample, bivariate_k_sample, stratified_two_sample (Model/NoDistStrat.v): the counter loops return the
   p-value, statistic and generator state of the keep_dist=True paths; and the counter along simulate_ts_dist's chain of
   row permutations is the tail count of the stored distribution *)
Theorem C05_keep_dist_false_path_agrees_ksample_stratified : forall x g sk reps plus1 t g1 g2 c resp ord sv a,
  k_sample_nodist x g sk reps plus1 t =
    match k_sample x g sk reps plus1 t with Ok (p, tst, _, _, t') => Ok (p, tst, t') | Err e => Err e end /\
  bivariate_k_sample_nodist x g1 g2 reps plus1 t =
    match bivariate_k_sample x g1 g2 reps plus1 t with Ok (p, tst, _, _, t') => Ok (p, tst, t') | Err e => Err e end /\
  s2s_callable_nodist g c resp ord sv a reps plus1 t =
    match s2s_callable g c resp ord sv a reps plus1 t with Ok (p, tst, _, _, t') => Ok (p, tst, t') | Err e => Err e end.
Proof. intros. split; [apply k_sample_nodist_eq|split; [apply bivariate_k_sample_nodist_eq|apply s2s_callable_nodist_eq]]. Qed.
Print Assumptions C05_keep_dist_false_path_agrees_ksample_stratified.
Theorem C05_simulate_ts_counter_is_tail_count : forall (f : list (list Z) -> Q) tst reps m t,
  rows_hits f m reps t tst =
    match rows_chain m reps t with Ok r => Ok (count_ge tst (map f (fst r)), snd r) | Err e => Err e end.
Proof. intros. apply rows_hits_eq. Qed.
Print Assumptions C05_simulate_ts_counter_is_tail_count.

(* c/(reps+c) <= p <= 1: never 0 with plus1 on; in [0,1] otherwise *)
Theorem C05_pvalue_bounds : forall a c tst d, (0 < length d + c)%nat ->
  qn c / (qn (length d) + qn c) <= pv_textbook a c tst d <= 1.
Proof. exact pv_textbook_bounds. Qed.
Print Assumptions C05_pvalue_bounds.

(* stratified tests: the 'greater' entry of their table is the textbook value ... *)
Theorem C05_stratified_greater_is_textbook : forall hits reps plus1,
  strat_pvalue Greater hits reps plus1 == perm_pvalue (cc plus1) hits reps.
Proof. intros. unfold strat_pvalue, perm_pvalue, Qdiv. ring. Qed.
Print Assumptions C05_stratified_greater_is_textbook.

(* ... but 'less' and 'two-sided' are built from the upper-tail count only (KNOWN FINDING, recorded in
   KNOWN_FINDINGS.json): with all simulated values tied with the observed one (hits = reps), plus1 on,
   the faithful model returns 0 where the property demands 1 *)
Theorem C05_stratified_less_two_sided_refuted :
  strat_pvalue Less 3 3 true == 0 /\ strat_pvalue TwoSided 3 3 true == 0 /\
  pv_textbook Less 1 0 [0; 0; 0] == 1 /\ pv_textbook TwoSided 1 0 [0; 0; 0] == 1.
Proof. vm_compute. repeat split; reflexivity. Qed.
Print Assumptions C05_stratified_less_two_sided_refuted.

(* G9: the repetition loops of the source, read as five-instruction programs (Lib/LoopShape.v).  A loop body accepted by the
   checker [shape_ok] -- for every number of repetitions, statistic (value d = statistic of the rearrangement after d draws),
   reference value and starting state -- takes exactly one rearrangement per repetition, stores the statistic of the i-th one
   at position i and adds to each counter the number of repetitions whose statistic compares as stated with the reference.
   The generated files Generated/Cxx_G9_loops.v apply it to the loops of the CURRENT source text. *)
Theorem C05_wellshaped_repetition_loop_stores_and_counts :
  forall (value : nat -> Q) (ref : Q) (b : list LoopShape.stmt), LoopShape.shape_ok b = true ->
  forall (n : nat) (s : LoopShape.st), exists s',
    LoopShape.loop value ref b n s = Some s' /\
    LoopShape.draws s' = (LoopShape.draws s + n)%nat /\
    LoopShape.dist s' = LoopShape.dist s ++
       (if Nat.eqb (LoopShape.stores (LoopShape.rest_of b)) 1 then LoopShape.vals value (LoopShape.draws s) n else []) /\
    (forall c o, In (c, o) (LoopShape.counts (LoopShape.rest_of b)) ->
       LoopShape.cnt s' c = (LoopShape.cnt s c + LoopShape.count_cmp ref o (LoopShape.vals value (LoopShape.draws s) n))%nat) /\
    (forall k, ~ In k (map fst (LoopShape.counts (LoopShape.rest_of b))) -> LoopShape.cnt s' k = LoopShape.cnt s k).
Proof. exact LoopShape.loop_spec. Qed.
Print Assumptions C05_wellshaped_repetition_loop_stores_and_counts.

(* the counters of such a loop are the tail counts the models use (count_ge / count_le of the list of simulated values) *)
Theorem C05_loop_counters_are_the_models_tail_counts : forall tst d,
  LoopShape.count_cmp tst LoopShape.CGe d = count_ge tst d /\ LoopShape.count_cmp tst LoopShape.CLe d = count_le tst d.
Proof. intros. split; reflexivity. Qed.
Print Assumptions C05_loop_counters_are_the_models_tail_counts.

(* ... and run on the statistics the MODEL's loop produces on a tape, an accepted loop body with the counters (0, >=), (1, <=)
   returns exactly the model's keep_dist=False counters, one that stores once per repetition the model's dist: the translated
   loops of the source and the hand-written model loops agree for every input, number of repetitions and tape *)
Theorem C05_translated_loop_computes_the_models_counters : forall body, LoopShape.shape_ok body = true ->
  LoopShape.counts (LoopShape.rest_of body) = [(0%nat, LoopShape.CGe); (1%nat, LoopShape.CLe)] ->
  (forall s pot nx rr reps t tst d ar t', core_loop s pot nx rr reps t = Ok (d, ar, t') ->
     exists st', LoopShape.loop (value_of d) tst body reps st_init = Some st' /\
       core_hits s pot nx rr reps t tst = Ok (LoopShape.cnt st' 0%nat, LoopShape.cnt st' 1%nat, t')) /\
  (forall s z reps t tst d ar t', one_loop s z reps t = Ok (d, ar, t') ->
     exists st', LoopShape.loop (value_of d) tst body reps st_init = Some st' /\
       one_hits s z reps t tst = Ok (LoopShape.cnt st' 0%nat, LoopShape.cnt st' 1%nat, t')).
Proof. intros body Hok Hc. split; intros; [eapply shaped_loop_is_core_hits | eapply shaped_loop_is_one_hits]; eassumption. Qed.
Print Assumptions C05_translated_loop_computes_the_models_counters.

Theorem C05_translated_loop_builds_the_models_dist : forall body, LoopShape.shape_ok body = true ->
  LoopShape.stores (LoopShape.rest_of body) = 1%nat ->
  forall s pot nx rr reps t tst d ar t', core_loop s pot nx rr reps t = Ok (d, ar, t') ->
  exists st', LoopShape.loop (value_of d) tst body reps st_init = Some st' /\ LoopShape.dist st' = d.
Proof. exact shaped_loop_is_core_dist. Qed.
Print Assumptions C05_translated_loop_builds_the_models_dist.
