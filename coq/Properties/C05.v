From PV Require Import Lib.Base Model.Prng Model.Core.
Open Scope Q_scope.
Theorem C05_placeholder_pvalue_def : forall c H reps, perm_pvalue c H reps = (qn H + qn c) / (qn reps + qn c).
Proof. reflexivity. Qed.
Print Assumptions C05_placeholder_pvalue_def.
