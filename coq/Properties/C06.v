(* C06 -- seeded runs share draws: the sequence of rearrangements depends on the tape (seed) and on the
   sizes only.  Statements only; proofs in Proofs/CoreProofs.v, Proofs/RearrangeProofs.v.
   (Reproducibility under equal seeds and isolation from numpy's global state are decided on the
   implementation by the correspondence run; in the model they hold by construction: the tape is the
   only source of randomness.) *)
From PV Require Import Lib.Base Model.Prng Model.Core Proofs.CoreProofs.
From mathcomp Require Import all_ssreflect.
From PV Require Import Proofs.RearrangeProofs.

(* two_sample / two_sample_shift: for any two statistics, any two potential-outcome tables and group sizes, the
   same tape yields the same index rearrangements in every repetition and leaves the same tape *)
Theorem C06_two_sample_draws_independent_of_data : forall s s' pot pot' nx nx' reps rr t,
  match core_loop s pot nx rr reps t, core_loop s' pot' nx' rr reps t with
  | Ok (_, a, t1), Ok (_, a', t2) => a = a' /\ t1 = t2
  | Err e, Err e' => e = e'
  | _, _ => False
  end.
Proof. intros. apply core_loop_data_independent. Qed.
Print Assumptions C06_two_sample_draws_independent_of_data.

Theorem C06_one_sample_draws_independent_of_data : forall s s' z z', length z = length z' -> forall reps t,
  match one_loop s z reps t, one_loop s' z' reps t with
  | Ok (_, a, t1), Ok (_, a', t2) => a = a' /\ t1 = t2
  | Err e, Err e' => e = e'
  | _, _ => False
  end.
Proof. exact one_loop_data_independent. Qed.
Print Assumptions C06_one_sample_draws_independent_of_data.

(* corr / spearman_corr / k_sample: relabelling the values (f) commutes with the rearrangements: two variables
   on the same units see the same re-pairings/relabellings under one tape, and use the tape equally *)
Theorem C06_permute_shares_draws : forall (T U : Type) (f : T -> U) (x : seq T) reps t,
  perm_loop (map f x) reps t =
  match perm_loop x reps t with Ok at' => Ok (map (map f) at'.1, at'.2) | Err e => Err e end.
Proof. exact perm_loop_map. Qed.
Print Assumptions C06_permute_shares_draws.
