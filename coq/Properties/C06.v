(* C06 -- seeded runs share draws: the sequence of rearrangements depends on the tape (seed) and on the
   sizes only.  Statements only; proofs in Proofs/CoreProofs.v, Proofs/RearrangeProofs.v.
   (Reproducibility under equal seeds and isolation from numpy's global state are decided on the
   implementation by the correspondence run; in the model they hold by construction: the tape is the
   only source of randomness.) *)
From PV Require Import Lib.Base Model.Prng Model.Core Proofs.CoreProofs.
From mathcomp Require Import all_ssreflect.
From PV Require Import Proofs.RearrangeProofs.

(* two_sample / two_sample_shift: for any two statistics, any two potential-outcome tables and group sizes, the
   same tape yields the same index rearrangements in every repetition and leaves the same tape *)
Theorem C06_two_sample_draws_independent_of_data : forall s s' pot pot' nx nx' reps rr t,
  match core_loop s pot nx rr reps t, core_loop s' pot' nx' rr reps t with
  | Ok (_, a, t1), Ok (_, a', t2) => a = a' /\ t1 = t2
  | Err e, Err e' => e = e'
  | _, _ => False
  end.
Proof. intros. apply core_loop_data_independent. Qed.
Print Assumptions C06_two_sample_draws_independent_of_data.

Theorem C06_one_sample_draws_independent_of_data : forall s s' z z', length z = length z' -> forall reps t,
  match one_loop s z reps t, one_loop s' z' reps t with
  | Ok (_, a, t1), Ok (_, a', t2) => a = a' /\ t1 = t2
  | Err e, Err e' => e = e'
  | _, _ => False
  end.
Proof. exact one_loop_data_independent. Qed.
Print Assumptions C06_one_sample_draws_independent_of_data.

(* corr / spearman_corr / k_sample: relabelling the values (f) commutes with the rearrangements: two variables
   on the same units see the same re-pairings/relabellings under one tape, and use the tape equally *)
Theorem C06_permute_shares_draws : forall (T U : Type) (f : T -> U) (x : seq T) reps t,
  perm_loop (map f x) reps t =
  match perm_loop x reps t with Ok at' => Ok (map (map f) at'.1, at'.2) | Err e => Err e end.
Proof. exact perm_loop_map. Qed.
Print Assumptions C06_permute_shares_draws.

(* Calls compose on a shared generator ("any prior history of calls"): every randomized function consumes a prefix of the
   answers and leaves the rest as it found them -- f t = Ok (r, t') implies f (t ++ more) = Ok (r, t' ++ more) -- so a call
   that follows another on the same generator instance starts exactly where the first stopped and returns what it returns
   alone on the answers it consumes.  Stated for the tests and for the helpers. *)
From PV Require Import Model.Stratified Proofs.Frame.
Theorem C06_tests_consume_a_prefix_of_the_stream :
  (forall s pot nx a reps plus1 t r more, two_sample_core s pot nx a reps plus1 t = Ok r ->
     two_sample_core s pot nx a reps plus1 (t ++ more)%list = Ok (with_rest r (rest r ++ more)%list)) /\
  (forall x y s a reps plus1 t r more, one_sample x y s a reps plus1 t = Ok r ->
     one_sample x y s a reps plus1 (t ++ more)%list = Ok (with_rest r (rest r ++ more)%list)) /\
  (forall x g s reps plus1 t p tst d ar t' more, k_sample x g s reps plus1 t = Ok (p, tst, d, ar, t') ->
     k_sample x g s reps plus1 (t ++ more)%list = Ok (p, tst, d, ar, (t' ++ more)%list)) /\
  (forall x g1 g2 reps plus1 t p tst d ar t' more, bivariate_k_sample x g1 g2 reps plus1 t = Ok (p, tst, d, ar, t') ->
     bivariate_k_sample x g1 g2 reps plus1 (t ++ more)%list = Ok (p, tst, d, ar, (t' ++ more)%list)) /\
  (forall g c resp ord s a reps plus1 t p tst d ar t' more, s2s_callable g c resp ord s a reps plus1 t = Ok (p, tst, d, ar, t') ->
     s2s_callable g c resp ord s a reps plus1 (t ++ more)%list = Ok (p, tst, d, ar, (t' ++ more)%list)).
Proof.
  split; [exact two_sample_core_frame|]. split; [exact one_sample_frame|]. split; [exact k_sample_frame|].
  split; [exact bivariate_k_sample_frame|exact s2s_callable_frame].
Qed.
Print Assumptions C06_tests_consume_a_prefix_of_the_stream.

Theorem C06_helpers_consume_a_prefix_of_the_stream : forall (T : Type) (d : T) (x : list T) (g : list Z) (m : list (list T)) reps,
  frames (permute x) /\ frames (pyshuffle x) /\ frames (sample_all x) /\ frames (permute_within_groups d x g) /\
  frames (permute_rows m) /\ frames (perm_loop x reps) /\ frames (pwg_reps d x g reps) /\ frames (rows_chain m reps).
Proof.
  intros. repeat split; [apply frames_permute|apply frames_pyshuffle|apply frames_sample_all|apply frames_pwg|
    apply frames_permute_rows|apply frames_perm_loop|apply frames_pwg_reps|apply frames_rows_chain].
Qed.
Print Assumptions C06_helpers_consume_a_prefix_of_the_stream.

Theorem C06_calls_compose_on_a_shared_generator :
  forall (A B : Type) (f : tape -> result (A * tape)) (g : tape -> result (B * tape)) t1 t2 a b t3,
  frames f -> f t1 = Ok (a, nil) -> g t2 = Ok (b, t3) ->
  bind (f (t1 ++ t2)%list) (fun at' => bind (g (snd at')) (fun bt => Ok (fst at', fst bt, snd bt))) = Ok (a, b, t3).
Proof. exact (@calls_compose). Qed.
Print Assumptions C06_calls_compose_on_a_shared_generator.

(* the same for the Experiment randomizers (randomize_group, randomize_in_strata) and the repetition chain of
   sim_npc / westfall_young *)
From PV Require Import Model.Experiment Proofs.FrameExperiment.
Theorem C06_experiment_randomizers_consume_a_prefix : forall k g s resp fs reps,
  frames (randomize_once k g s) /\
  (forall t rows g' t' more, rand_chain k g s resp fs reps t = Ok (rows, g', t') ->
     rand_chain k g s resp fs reps (t ++ more)%list = Ok (rows, g', (t' ++ more)%list)).
Proof. intros. split; [apply frames_randomize_once|apply rand_chain_frame]. Qed.
Print Assumptions C06_experiment_randomizers_consume_a_prefix.
