(* C16 -- shift-null tests impute potential outcomes; statements only (proofs in Proofs/CoreProofs.v). *)
From PV Require Import Lib.Base Model.Prng Model.Core Proofs.CoreProofs Proofs.ShiftProofs.
Open Scope Q_scope.

(* potential_outcomes: first column (x, f(y)), second column (finv(x), y), treated units first;
   pairs that are not inverse to each other on 1..5 are rejected *)
Theorem C16_potential_outcomes_columns : forall x y f finv pot,
  potential_outcomes x y f finv = Ok pot ->
  pot = combine (x ++ map (apply_fn f) y) (map (apply_fn finv) x ++ y).
Proof. intros x y f finv pot H. exact (proj2 (potential_outcomes_columns x y f finv pot H)). Qed.
Print Assumptions C16_potential_outcomes_columns.

Theorem C16_potential_outcomes_rejects_non_inverse : forall x y f finv,
  inverse_ok f finv = false -> potential_outcomes x y f finv = Err AssertionError.
Proof. exact potential_outcomes_rejects. Qed.
Print Assumptions C16_potential_outcomes_rejects_non_inverse.

(* the constant d and the pair (u -> u+d, u -> u-d) give identical results (same tape) *)
Theorem C16_scalar_eq_pair : forall x y s a reps plus1 d t,
  two_sample_shift x y s a reps plus1 (Scalar d) t =
  two_sample_shift x y s a reps plus1 (Pair (AddC d) (AddC (- d))) t.
Proof. exact shift_scalar_eq_pair. Qed.
Print Assumptions C16_scalar_eq_pair.

(* with a constant shift d the test reports the statistic of the data as given and -- on the same tape -- the
   p-value, the rearrangements and the final generator state of two_sample(x, y + d); the simulated values and the
   observed one are those of two_sample(x, y + d) moved by d.  Holds for every statistic that moves by -d when d
   is added to its second sample (stated here for the mean difference; the general form is
   ShiftProofs.shift_is_two_sample_of_shifted) *)
Theorem C16_constant_shift_is_two_sample_of_shifted_data : forall d x y a reps plus1 t r, (0 < length y)%nat ->
  two_sample_shift x y MeanDiff a reps plus1 (Scalar d) t = Ok r ->
  tstat r = eval2 MeanDiff x y /\
  exists r', two_sample x (map (fun v => v + d) y) MeanDiff a reps plus1 t = Ok r' /\
             pval r' = pval r /\ arrs r' = arrs r /\ rest r' = rest r /\
             tstat r' == tstat r - d /\ Forall2 (fun v v' => v' == v - d) (dist r) (dist r').
Proof. exact meandiff_shift_is_two_sample_of_shifted. Qed.
Print Assumptions C16_constant_shift_is_two_sample_of_shifted_data.

Theorem C16_constant_shift_general : forall d x y s,
  (forall u w w', w <> [] -> Forall2 (fun a b => b == a + d) w w' -> eval2 s u w' == eval2 s u w - d) ->
  (0 < length y)%nat -> forall a reps plus1 t r,
  two_sample_shift x y s a reps plus1 (Scalar d) t = Ok r ->
  tstat r = eval2 s x y /\
  exists r', two_sample x (map (fun v => v + d) y) s a reps plus1 t = Ok r' /\
             pval r' = pval r /\ arrs r' = arrs r /\ rest r' = rest r /\
             tstat r' == tstat r - d /\ Forall2 (fun v v' => v' == v - d) (dist r) (dist r').
Proof. exact shift_is_two_sample_of_shifted. Qed.
Print Assumptions C16_constant_shift_general.

(* a missing shift or a single callable raises ValueError *)
Theorem C16_bad_shift_rejected : forall x y s a reps plus1 t,
  two_sample_shift x y s a reps plus1 NoShift t = Err ValueError /\
  two_sample_shift x y s a reps plus1 SingleCallable t = Err ValueError.
Proof. exact shift_bad_input. Qed.
Print Assumptions C16_bad_shift_rejected.

(* the shift test is two_sample_core on the potential-outcome table: its p-value obeys the same formula
   and it draws exactly like two_sample (rearrangements and tape use do not depend on the table) *)
Theorem C16_shift_pvalue_formula : forall x y s a reps plus1 d t r,
  two_sample_shift x y s a reps plus1 (Scalar d) t = Ok r ->
  length (dist r) = reps /\ pval r == pv_textbook a (cc plus1) (tstat r) (dist r).
Proof. intros x y s a reps plus1 d t r H. exact (two_sample_core_pvalue _ _ _ _ _ _ _ _ H). Qed.
Print Assumptions C16_shift_pvalue_formula.

Theorem C16_shift_draws_like_two_sample : forall s s' pot pot' nx nx' reps rr t,
  match core_loop s pot nx rr reps t, core_loop s' pot' nx' rr reps t with
  | Ok (_, a, t1), Ok (_, a', t2) => a = a' /\ t1 = t2
  | Err e, Err e' => e = e'
  | _, _ => False
  end.
Proof. intros. apply core_loop_data_independent. Qed.
Print Assumptions C16_shift_draws_like_two_sample.

Example C16_nonvacuous :
  potential_outcomes [1; 2] [5] (AddC (7 # 2)) (AddC (- (7 # 2))) = Ok [(1, 1 + - (7 # 2)); (2, 2 + - (7 # 2)); (5 + (7 # 2), 5)]
  /\ inverse_ok (AddC 1) (AddC 1) = false.
Proof. vm_compute. split; reflexivity. Qed.
