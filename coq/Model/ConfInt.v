(* Model of permute/utils.py binom_conf_interval (argument handling + certificate checker for the
   numerically solved limits) and hypergeom_conf_interval (integer bisection, after the fix). *)
From PV Require Import Lib.Base Model.TailsZ.
Open Scope Q_scope.

Inductive cialt := CITwoSided | CILower | CIUpper.

(* exact binomial tails at a rational p = num/den *)
Definition binom_upper_q (n x : nat) (p : Q) : Q :=
  let pa := Qnum p in let pb := (Zpos (Qden p) - Qnum p)%Z in
  q_of (upperZ (binom_w n pa pb) x) ((pa + pb) ^ Z.of_nat n).
Definition binom_lower_q (n x : nat) (p : Q) : Q :=
  let pa := Qnum p in let pb := (Zpos (Qden p) - Qnum p)%Z in
  q_of (lowerZ (binom_w n pa pb) x) ((pa + pb) ^ Z.of_nat n).

(* if alternative == 'two-sided': cl = 1 - (1 - cl)/2 ;  tail level a = 1 - cl *)
Definition tail_level (cl : Q) (alt : cialt) : Q :=
  match alt with CITwoSided => (1 - cl) / 2 | _ => 1 - cl end.
Definition wants_lower (alt : cialt) (x : nat) : bool :=
  match alt with CIUpper => false | _ => negb (Nat.eqb x 0) end.
Definition wants_upper (alt : cialt) (n x : nat) : bool :=
  match alt with CILower => false | _ => Nat.ltb x n end.

(* Certificate for a numerically solved lower limit L: a bracket p1 <= L <= p2 of width <= 3*delta
   with  P_{p1}(X >= x) <= a <= P_{p2}(X >= x).  Since the upper tail is nondecreasing in p, the
   exact Clopper-Pearson limit (the p at which the tail equals a) lies in [p1, p2]. *)
Definition in01 (p : Q) : bool := Qle_bool 0 p && Qle_bool p 1.
Definition bracket_ok (v p1 p2 delta : Q) : bool :=
  in01 p1 && in01 p2 && Qle_bool p1 v && Qle_bool v p2 && Qle_bool (p2 - p1) ((3 # 1) * delta).
Definition lower_cert (n x : nat) (a L p1 p2 delta : Q) : bool :=
  bracket_ok L p1 p2 delta
  && (Qle_bool (binom_upper_q n x p1) a || Qeq_bool p1 0)
  && (Qle_bool a (binom_upper_q n x p2) || Qeq_bool p2 1).
(* upper limit U: P_{q2}(X <= x) <= a <= P_{q1}(X <= x), the lower tail being nonincreasing in p *)
Definition upper_cert (n x : nat) (a U q1 q2 delta : Q) : bool :=
  bracket_ok U q1 q2 delta
  && (Qle_bool (binom_lower_q n x q2) a || Qeq_bool q2 1)
  && (Qle_bool a (binom_lower_q n x q1) || Qeq_bool q1 0).

Definition cp_check (n x : nat) (cl : Q) (alt : cialt) (L U : Q) (p1 p2 q1 q2 delta : Q) : bool :=
  let a := tail_level cl alt in
  (if wants_lower alt x then lower_cert n x a L p1 p2 delta else Qeq_bool L 0)
  && (if wants_upper alt n x then upper_cert n x a U q1 q2 delta else Qeq_bool U 1).

(* ---------------- hypergeometric ---------------- *)
Definition hyper_upper_q (N G n x : nat) : Q := q_of (upperZ (hyper_w N G n) x) (zbin N n).
Definition hyper_lower_q (N G n x : nat) : Q := q_of (lowerZ (hyper_w N G n) x) (zbin N n).

(* while lo < hi: mid = (lo+hi)//2; if f(mid) >= 0: hi = mid else lo = mid+1   -> smallest G with ok G *)
Fixpoint bisect_min (ok : nat -> bool) (lo hi fuel : nat) : nat :=
  match fuel with
  | O => lo
  | S f => if Nat.ltb lo hi then
             let mid := Nat.div2 (lo + hi) in
             if ok mid then bisect_min ok lo mid f else bisect_min ok (S mid) hi f
           else lo
  end.
(* while lo < hi: mid = (lo+hi+1)//2; if f(mid) >= 0: lo = mid else hi = mid-1   -> largest G with ok G *)
Fixpoint bisect_max (ok : nat -> bool) (lo hi fuel : nat) : nat :=
  match fuel with
  | O => lo
  | S f => if Nat.ltb lo hi then
             let mid := Nat.div2 (lo + hi + 1) in
             if ok mid then bisect_max ok mid hi f else bisect_max ok lo (mid - 1) f
           else lo
  end.

Definition hypergeom_conf_interval (n x N : nat) (cl : Q) (alt : cialt) : nat * nat :=
  let a := tail_level cl alt in
  let lo := x in let hi := (N - (n - x))%nat in
  let low := if wants_lower alt x
             then bisect_min (fun G => Qle_bool a (hyper_upper_q N G n x)) lo hi (S N) else 0%nat in
  let upp := if wants_upper alt n x
             then bisect_max (fun G => Qle_bool a (hyper_lower_q N G n x)) lo hi (S N) else N in
  (low, upp).

(* textbook test inversion by exhaustive search *)
Definition first_such (ok : nat -> bool) (cands : list nat) (d : nat) : nat :=
  match filter ok cands with [] => d | g :: _ => g end.
Definition hgci_spec (n x N : nat) (cl : Q) (alt : cialt) : nat * nat :=
  let a := tail_level cl alt in
  let all := seq 0 (S N) in
  ((if wants_lower alt x then first_such (fun G => Qle_bool a (hyper_upper_q N G n x)) all N else 0%nat),
   (if wants_upper alt n x then first_such (fun G => Qle_bool a (hyper_lower_q N G n x)) (rev all) 0%nat else N)).
