(* Model of permute/npc.py westfall_young after the randomizations have been made
   (table: observed statistics ts, then reps rows of simulated statistics), after the two fixes. *)
From PV Require Import Lib.Base.
Open Scope Q_scope.

Inductive walt := WGreater | WTwoSided | WBad.
Inductive wmethod := MinP | MaxT | MBad.

Definition qn (n : nat) : Q := inject_Z (Z.of_nat n).
Definition count_if (f : Q -> bool) (l : list Q) : nat := length (filter f l).
Definition col (sims : list (list Q)) (c : nat) : list Q := map (fun r => nth c r 0) sims.
Definition tr (a : walt) (x : Q) : Q := match a with WTwoSided => Qabs x | _ => x end.

(* raw_p[c] = (#{tv[c] >= ts[c]} + 1)/(reps+1), absolute values for two-sided *)
Definition raw_p (a : walt) (tsc : Q) (tvc : list Q) : Q :=
  (qn (count_if (fun v => Qle_bool (tr a tsc) (tr a v)) tvc) + 1) / (qn (length tvc) + 1).
(* ps[c][b] = (#{tv[c] >= tv[c][b]} + [tv[c][b] <= ts[c]])/(reps+1)  (rankdata 'min') *)
Definition perm_ps (a : walt) (tsc : Q) (tvc : list Q) : list Q :=
  map (fun vb => (qn (count_if (fun v => Qle_bool (tr a vb) (tr a v)) tvc)
                  + (if Qle_bool (tr a vb) (tr a tsc) then 1 else 0)) / (qn (length tvc) + 1)) tvc.

(* stable insertion sort of hypothesis indices by a key *)
Fixpoint ins_by (le : Q -> Q -> bool) (key : nat -> Q) (i : nat) (l : list nat) : list nat :=
  match l with
  | [] => [i]
  | j :: t => if le (key j) (key i) then j :: ins_by le key i t else i :: l
  end.
(* sorted(items, key) is stable: an element is placed after every earlier element with key <= its own *)
Definition sort_by (le : Q -> Q -> bool) (key : nat -> Q) (idx : list nat) : list nat :=
  fold_left (fun acc i => ins_by le key i acc) idx [].

Fixpoint set_nth {A} (l : list A) (i : nat) (v : A) : list A :=
  match l, i with [], _ => [] | _ :: t, O => v :: t | a :: t, S i' => a :: set_nth t i' v end.

(* for i in L: x[i][b] = op i (x[i][b]) (x[prev][b]); prev = i   (column-wise, all b at once; prev starts at L[0],
   so the first hypothesis is combined with its own, not yet updated, column) *)
Definition chain (op : nat -> Q -> Q -> Q) (L : list nat) (cols : list (list Q)) : list (list Q) :=
  match L with
  | [] => cols
  | i0 :: _ =>
      snd (fold_left (fun (st : nat * list (list Q)) i =>
             let '(prev, cs) := st in
             (i, set_nth cs i (map (fun ab => op i (fst ab) (snd ab)) (combine (nth i cs []) (nth prev cs [])))))
           L (i0, cols))
  end.
(* for c in L: adj[c] = max(adj[c], adj[prev]); prev = c *)
Definition monotone_pass (L : list nat) (adj : list Q) : list Q :=
  match L with
  | [] => adj
  | i0 :: _ =>
      snd (fold_left (fun (st : nat * list Q) c =>
             let '(prev, a) := st in (c, set_nth a c (Qmax (nth c a 0) (nth prev a 0)))) L (i0, adj))
  end.

Definition is_bad (a : walt) : bool := match a with WBad => true | _ => false end.

Definition westfall_young_table (ts : list Q) (sims : list (list Q)) (m : wmethod) (alts : list walt)
  : result (list Q * list Q) :=
  let k := length ts in
  let reps := length sims in
  let idx := seq 0 k in
  let alt_of := fun c => nth c alts WBad in
  if negb (Nat.eqb (length alts) k) then Err ValueError else
  match m with
  | MinP =>
      if existsb is_bad alts then Err ValueError else
      let raw := map (fun c => raw_p (alt_of c) (nth c ts 0) (col sims c)) idx in
      let ps := map (fun c => perm_ps (alt_of c) (nth c ts 0) (col sims c)) idx in
      (* sorted by raw p from largest to smallest, stable *)
      let L := sort_by (fun a b => Qle_bool b a) (fun c => nth c raw 0) idx in
      let ps' := chain (fun _ => Qmin) L ps in
      let adj0 := map (fun c => (qn (count_if (fun v => Qle_bool v (nth c raw 0)) (nth c ps' [])) + 1) / (qn reps + 1)) idx in
      Ok (monotone_pass (rev L) adj0, raw)
  | MaxT =>
      if existsb is_bad alts then Err ValueError else
      let raw := map (fun c => raw_p (alt_of c) (nth c ts 0) (col sims c)) idx in
      (* sorted_t is rebuilt in every pass of the loop over hypotheses: the LAST alternative decides
         whether the observed statistics are ordered by value or by absolute value *)
      let la := last alts WBad in
      let L := sort_by Qle_bool (fun c => tr la (nth c ts 0)) idx in
      let tv' := chain (fun i x p => Qmax (tr (alt_of i) x) p) L (map (fun c => col sims c) idx) in
      let adj0 := map (fun c => (qn (count_if (fun v => Qle_bool (tr (alt_of c) (nth c ts 0)) v) (nth c tv' [])) + 1)
                                / (qn reps + 1)) idx in
      Ok (monotone_pass (rev L) adj0, raw)
  | MBad => Err ValueError
  end.

(* ---------------- textbook step-down procedures on the full table (row 0 = observed) ---------------- *)
(* P(r, c) = #{rows r' (observed included) : s(r', c) >= s(r, c)} / (reps + 1) *)
Definition all_rows (ts : list Q) (sims : list (list Q)) : list (list Q) := ts :: sims.
Definition row_p (a : walt) (rows : list (list Q)) (c : nat) (r : list Q) : Q :=
  qn (count_if (fun v => Qle_bool (tr a (nth c r 0)) (tr a v)) (col rows c)) / qn (length rows).
Definition qminl (l : list Q) : Q := match l with [] => 1 | a :: t => fold_left Qmin t a end.
Definition qmaxl (l : list Q) : Q := match l with [] => 0 | a :: t => fold_left Qmax t a end.

(* given the testing order Lasc (most significant first): adj_(k) = max_{j<=k} #{rows: min_{l>=j} P(r,c_l) <= raw_(j)}/(reps+1) *)
Fixpoint stepdown_minp (alt_of : nat -> walt) (rows : list (list Q)) (obs : list Q) (Lasc : list nat) (prev : Q)
  : list (nat * Q) :=
  match Lasc with
  | [] => []
  | c :: rest =>
      let rawc := row_p (alt_of c) rows c obs in
      let cnt := count_if (fun x => Qle_bool x rawc)
                   (map (fun r => qminl (map (fun l => row_p (alt_of l) rows l r) Lasc)) rows) in
      let a := Qmax (qn cnt / qn (length rows)) prev in
      (c, a) :: stepdown_minp alt_of rows obs rest a
  end.
Fixpoint stepdown_maxt (alt_of : nat -> walt) (rows : list (list Q)) (obs : list Q) (Ldesc : list nat) (prev : Q)
  : list (nat * Q) :=
  match Ldesc with
  | [] => []
  | c :: rest =>
      let sc := tr (alt_of c) (nth c obs 0) in
      let cnt := count_if (fun x => Qle_bool sc x)
                   (map (fun r => qmaxl (map (fun l => tr (alt_of l) (nth l r 0)) Ldesc)) rows) in
      let a := Qmax (qn cnt / qn (length rows)) prev in
      (c, a) :: stepdown_maxt alt_of rows obs rest a
  end.
Fixpoint assoc_get (l : list (nat * Q)) (c : nat) : Q :=
  match l with [] => 0 | (k, v) :: t => if Nat.eqb k c then v else assoc_get t c end.

Definition wy_spec (ts : list Q) (sims : list (list Q)) (m : wmethod) (alts : list walt) (L : list nat)
  : list Q * list Q :=
  let rows := all_rows ts sims in
  let alt_of := fun c => nth c alts WBad in
  let idx := seq 0 (length ts) in
  let raw := map (fun c => row_p (alt_of c) rows c ts) idx in
  let sd := match m with
            | MinP => stepdown_minp alt_of rows ts L 0
            | _ => stepdown_maxt alt_of rows ts L 0
            end in
  (map (assoc_get sd) idx, raw).
