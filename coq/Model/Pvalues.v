(* Model of permute/utils.py: hypergeometric, binomial_p (exact arithmetic over Q). *)
From PV Require Import Lib.Base Model.TailsZ.
Open Scope Z_scope.

(* 2*np.min([plower, pupper, 0.5]) *)
Definition two_sided (pl pu : Q) : Q := (2 # 1) * Qmin (Qmin pl pu) (1 # 2).

Definition pick_alt (a : alt) (pl pu : Q) : Q :=
  match a with TwoSided => two_sided pl pu | Greater => pu | Less => pl end.

(* hypergeometric(x, N, n, G, alternative): the four guards in source order, then
   plower = hypergeom.cdf(x, N, G, n), pupper = hypergeom.sf(x-1, N, G, n) *)
Definition hypergeometric (x N n G : nat) (a : alt) : result Q :=
  if (n <? x)%nat then Err ValueError
  else if (N <? n)%nat then Err ValueError
  else if (N <? G)%nat then Err ValueError
  else if (G <? x)%nat then Err ValueError
  else
    let w := hyper_w N G n in
    let tot := zbin N n in
    Ok (pick_alt a (q_of (lowerZ w x) tot) (q_of (upperZ w x) tot)).

(* binomial_p(x, n, p, alternative) with p = pa/(pa+pb), pa, pb >= 0, pa+pb > 0 *)
Definition binomial_p (x n : nat) (pa pb : Z) (a : alt) : result Q :=
  if (n <? x)%nat then Err ValueError
  else
    let w := binom_w n pa pb in
    let tot := (pa + pb) ^ Z.of_nat n in
    Ok (pick_alt a (q_of (lowerZ w x) tot) (q_of (upperZ w x) tot)).
