(* Executable exact tails over Z/Q: binomial coefficients by Pascal rows, hypergeometric and
   binomial weights, upper/lower tails.  Used by the models of C12, C13, C14. *)
From PV Require Import Lib.Base.
Open Scope Z_scope.

Fixpoint next_row (prev : Z) (r : list Z) : list Z :=
  match r with [] => [prev] | a :: t => (prev + a) :: next_row a t end.
Fixpoint pascal_row (n : nat) : list Z :=
  match n with O => [1] | S n' => next_row 0 (pascal_row n') end.
Definition zbin (n k : nat) : Z := nth k (pascal_row n) 0.

Definition zsum (l : list Z) : Z := fold_right Z.add 0 l.
Definition upperZ (w : list Z) (x : nat) : Z := zsum (skipn x w).
Definition lowerZ (w : list Z) (x : nat) : Z := zsum (firstn (S x) w).

(* hypergeometric(N, G, n): weight of k good items in the sample, k = 0..n; total C(N,n) *)
Definition hyper_w (N G n : nat) : list Z :=
  let rg := pascal_row G in let rb := pascal_row (N - G) in
  map (fun k => nth k rg 0 * nth (n - k) rb 0) (seq 0 (S n)).
(* binomial(n, a/(a+b)): weight of k successes, k = 0..n; total (a+b)^n *)
Definition binom_w (n : nat) (a b : Z) : list Z :=
  let r := pascal_row n in
  map (fun k => nth k r 0 * a ^ Z.of_nat k * b ^ Z.of_nat (n - k)) (seq 0 (S n)).

Definition q_of (num den : Z) : Q := Qred (Qmake num (Z.to_pos den)).
