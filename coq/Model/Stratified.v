(* Model of permute/utils.py permute_within_groups / permute_rows, permute/stratified.py,
   permute/ksample.py bivariate_k_sample, and the rearrangement chain of irr.simulate_ts_dist.
   The tail table of the stratified tests is modelled as written (1 - upper tail for 'less'),
   which is the known finding recorded for C02/C05. *)
From PV Require Import Lib.Base Model.Prng Model.Core.
Open Scope Q_scope.

(* ---------- helpers ---------- *)
Definition mask_of (g : list Z) (k : Z) : list bool := map (fun v => (v =? k)%Z) g.

(* permuted = x.copy(); for g in np.unique(group): permuted[group==g] = random_permutation(permuted[group==g]) *)
Fixpoint pwg_loop {A} (d : A) (x : list A) (g : list Z) (labels : list Z) (t : tape) : result (list A * tape) :=
  match labels with
  | [] => Ok (x, t)
  | k :: ks =>
      let pos := positions (mask_of g k) in
      bind (permute (gather d x pos) t) (fun vt =>
        pwg_loop d (scatter d x pos (fst vt)) g ks (snd vt))
  end.
Definition permute_within_groups {A} (d : A) (x : list A) (g : list Z) (t : tape) : result (list A * tape) :=
  pwg_loop d x g (unique g) t.

(* mprime = [random_permutation(row) for row in m] *)
Fixpoint permute_rows {A} (m : list (list A)) (t : tape) : result (list (list A) * tape) :=
  match m with
  | [] => Ok ([], t)
  | r :: rs => bind (permute r t) (fun rt =>
               bind (permute_rows rs (snd rt)) (fun mt => Ok (fst rt :: fst mt, snd mt)))
  end.

(* reps successive within-group permutations, each starting from the ORIGINAL x *)
Fixpoint pwg_reps {A} (d : A) (x : list A) (g : list Z) (reps : nat) (t : tape) : result (list (list A) * tape) :=
  match reps with
  | O => Ok ([], t)
  | S r => bind (permute_within_groups d x g t) (fun xt =>
           bind (pwg_reps d x g r (snd xt)) (fun rt => Ok (fst xt :: fst rt, snd rt)))
  end.
(* simulate_ts_dist: r = permute_rows(r, prng) repeatedly: each repetition starts from the previous matrix *)
Fixpoint rows_chain {A} (m : list (list A)) (reps : nat) (t : tape) : result (list (list (list A)) * tape) :=
  match reps with
  | O => Ok ([], t)
  | S r => bind (permute_rows m t) (fun mt =>
           bind (rows_chain (fst mt) r (snd mt)) (fun rt => Ok (fst mt :: fst rt, snd rt)))
  end.

(* ---------- the stratified tail table, as written ---------- *)
Definition strat_pvalue (a : alt) (hits reps : nat) (plus1 : bool) : Q :=
  let c := qn (cc plus1) in
  let p := qn hits / (qn reps + c) + c / (qn reps + c) in
  match a with
  | Greater => p
  | Less => 1 - p
  | TwoSided => (2 # 1) * Qmin p (1 - p)
  end.

(* ---------- stratified_permutationtest_mean for two conditions ---------- *)
(* sum over groups of | mean(response[g & c0]) - mean(response[g & c1]) |; conditions sorted *)
Definition sel2 (resp : list Q) (g c : list Z) (gk ck : Z) : list Q :=
  map fst (filter (fun p => ((fst (snd p) =? gk) && (snd (snd p) =? ck))%Z) (combine resp (combine g c))).
Definition sptm2 (g c : list Z) (resp : list Q) (groups conds : list Z) : result Q :=
  match conds with
  | [c0; c1] => Ok (qsum (map (fun gk => Qabs (qmean (sel2 resp g c gk c0) - qmean (sel2 resp g c gk c1))) groups))
  | [] | [_] => Err ValueError
  | _ => Err OutOfTape      (* more than two conditions: standard deviations, not rational: not evaluated by the model *)
  end.

(* ---------- statistics of the callable families ---------- *)
Inductive statv := SumFirstHalf | WeightedV | ConstV | CountMatch.   (* on a relabelled/permuted vector *)
Definition evalv (s : statv) (v : list Q) : Q :=
  match s with
  | SumFirstHalf => qsum (firstn (Nat.div2 (length v)) v)
  | WeightedV => wsum 1 v
  | ConstV => 0
  | CountMatch => qn (length (filter (fun p => Qeq_bool (fst p) (snd p)) (combine v (tl v))))
  end.

(* stratified_permutationtest with a callable testStatistic applied to the (permuted) condition vector *)
Definition spt_callable (g c : list Z) (s : statv) (a : alt) (reps : nat) (plus1 : bool) (t : tape)
  : result (option (Q * Q * list Q * list (list Z)) * tape) :=
  if (length (unique c) <? 2)%nat then Ok (None, t)        (* returns (1.0, nan, None) without drawing *)
  else
    let cq := map inject_Z c in
    let tst := evalv s cq in
    bind (pwg_reps 0%Z c g reps t) (fun rt =>
      let d := map (fun cp => evalv s (map inject_Z cp)) (fst rt) in
      Ok (Some (strat_pvalue a (count_ge tst d) reps plus1, tst, d, fst rt), snd rt)).

(* stratified_two_sample: sort by condition (oracle order), then permute response within group *)
Definition s2s_callable (g c : list Z) (resp : list Q) (ord : list nat) (s : statv) (a : alt) (reps : nat)
           (plus1 : bool) (t : tape) : result (Q * Q * list Q * list (list Q) * tape) :=
  let resp' := map (fun i => nth i resp 0) ord in
  let g' := map (fun i => nth i g 0%Z) ord in
  let tst := evalv s resp' in
  bind (pwg_reps 0 resp' g' reps t) (fun rt =>
    let d := map (evalv s) (fst rt) in
    Ok (strat_pvalue a (count_ge tst d) reps plus1, tst, d, fst rt, snd rt)).
(* 'mean': nanmean(u[:ntreat]) - nanmean(u[ntreat:]) without NaNs *)
Definition s2s_mean (g c : list Z) (resp : list Q) (ord : list nat) (a : alt) (reps : nat)
           (plus1 : bool) (t : tape) : result (Q * Q * list Q * list (list Q) * tape) :=
  let resp' := map (fun i => nth i resp 0) ord in
  let g' := map (fun i => nth i g 0%Z) ord in
  let c' := map (fun i => nth i c 0%Z) ord in
  let ntreat := length (filter (fun v => (v =? hd 0%Z c')%Z) c') in
  let st := fun u => qmean (firstn ntreat u) - qmean (skipn ntreat u) in
  let tst := st resp' in
  bind (pwg_reps 0 resp' g' reps t) (fun rt =>
    let d := map st (fst rt) in
    Ok (strat_pvalue a (count_ge tst d) reps plus1, tst, d, fst rt, snd rt)).

(* ---------- bivariate_k_sample / two_way_anova ---------- *)
(* sst = sum((x-m)^2); ss2 = sum over labels of group2 of (mean(x[group2==g]) - m)^2; ss2/(sst-ss2) *)
Definition two_way_anova (x : list Q) (g2 : list Z) (m : Q) : Q :=
  let sst := qsum (map (fun v => (v - m) * (v - m)) x) in
  let ss2 := qsum (map (fun k => let xx := select x g2 k in (qmean xx - m) * (qmean xx - m)) (unique g2)) in
  ss2 / (sst - ss2).
Definition bivariate_k_sample (x : list Q) (g1 g2 : list Z) (reps : nat) (plus1 : bool) (t : tape)
  : result (Q * Q * list Q * list (list Z) * tape) :=
  let m := qmean x in
  let tst := two_way_anova x g2 m in
  bind (pwg_reps 0%Z g2 g1 reps t) (fun rt =>
    let d := map (fun gp => two_way_anova x gp m) (fst rt) in
    Ok (ksample_pvalue tst d plus1, tst, d, fst rt, snd rt)).
