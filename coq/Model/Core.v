(* Model of permute/core.py and permute/ksample.py::k_sample, permute/utils.py::potential_outcomes.
   Data values are rationals; every randomized function threads the tape of Model/Prng.v and
   returns, besides the p-value, the statistic values and the rearrangements it evaluated. *)
From PV Require Import Lib.Base Model.Prng.
Open Scope Q_scope.

Definition qn (n : nat) : Q := inject_Z (Z.of_nat n).
Definition qsum (l : list Q) : Q := fold_right Qplus 0 l.
Definition qmean (l : list Q) : Q := qsum l / qn (length l).
Definition count_ge (tst : Q) (d : list Q) : nat := length (filter (fun v => Qle_bool tst v) d).
Definition count_le (tst : Q) (d : list Q) : nat := length (filter (fun v => Qle_bool v tst) d).
Definition cc (plus1 : bool) : nat := if plus1 then 1%nat else 0%nat.

(* Spec: the textbook Monte-Carlo permutation p-value *)
Definition perm_pvalue (c H reps : nat) : Q := (qn H + qn c) / (qn reps + qn c).

(* core.py thePvalue table: pUp + plus1/(reps+plus1) etc., 2*np.min([0.5, ., .]) *)
Definition the_pvalue (a : alt) (hitsUp hitsDn reps : nat) (plus1 : bool) : Q :=
  let c := qn (cc plus1) in
  let pUp := qn hitsUp / (qn reps + c) + c / (qn reps + c) in
  let pDn := qn hitsDn / (qn reps + c) + c / (qn reps + c) in
  match a with
  | Greater => pUp
  | Less => pDn
  | TwoSided => (2 # 1) * Qmin (1 # 2) (Qmin pUp pDn)
  end.

(* ---------------- statistics (families defined identically in the harness) ---------------- *)
Inductive stat2 := MeanDiff | SumU | MaxDiff | Const2 | FirstDiff | Weighted2.
Definition qmaxl0 (l : list Q) : Q := match l with [] => 0 | a :: t => fold_left Qmax t a end.
Fixpoint wsum (i : nat) (l : list Q) : Q :=
  match l with [] => 0 | a :: t => qn i * a + wsum (S i) t end.
Definition eval2 (s : stat2) (u v : list Q) : Q :=
  match s with
  | MeanDiff => qmean u - qmean v
  | SumU => qsum u
  | MaxDiff => qmaxl0 u - qmaxl0 v
  | Const2 => 0
  | FirstDiff => hd 0 u - hd 0 v
  | Weighted2 => wsum 1 u - wsum 1 v
  end.

Inductive stat1 := Mean1 | Sum1 | MaxAbs1 | Const1 | Weighted1.
Definition eval1 (s : stat1) (z : list Q) : Q :=
  match s with
  | Mean1 => qmean z
  | Sum1 => qsum z
  | MaxAbs1 => qmaxl0 (map Qabs z)
  | Const1 => 0
  | Weighted1 => wsum 1 z
  end.

(* ---------------- two_sample_core ---------------- *)
Definition take_rows {A} (d : A) (rows : list A) (rr : list nat) : list A := map (fun i => nth i rows d) rr.

(* one repetition: prng.shuffle(rr); pp = np.take(pot, rr, axis=0); tst_stat(pp[:nx,0], pp[nx:,1]) *)
Fixpoint core_loop (s : stat2) (pot : list (Q * Q)) (nx : nat) (rr : list nat) (reps : nat) (t : tape)
  : result (list Q * list (list nat) * tape) :=
  match reps with
  | O => Ok ([], [], t)
  | S reps' =>
      bind (pyshuffle rr t) (fun st =>
        let rr' := fst st in
        let pp := take_rows (0, 0) pot rr' in
        let v := eval2 s (map fst (firstn nx pp)) (map snd (skipn nx pp)) in
        bind (core_loop s pot nx rr' reps' (snd st)) (fun r =>
          Ok (v :: fst (fst r), rr' :: snd (fst r), snd r)))
  end.

Record test_out := { pval : Q; tstat : Q; dist : list Q; arrs : list (list nat); rest : tape }.

Definition two_sample_core (s : stat2) (pot : list (Q * Q)) (nx : nat) (a : alt) (reps : nat)
           (plus1 : bool) (t : tape) : result test_out :=
  let tst := eval2 s (map fst (firstn nx pot)) (map snd (skipn nx pot)) in
  bind (core_loop s pot nx (seq 0 (length pot)) reps t) (fun r =>
    let d := fst (fst r) in
    Ok {| pval := the_pvalue a (count_ge tst d) (count_le tst d) reps plus1;
          tstat := tst; dist := d; arrs := snd (fst r); rest := snd r |}).

Definition two_sample (x y : list Q) (s : stat2) (a : alt) (reps : nat) (plus1 : bool) (t : tape) :=
  two_sample_core s (combine (x ++ y) (x ++ y)) (length x) a reps plus1 t.

(* ---------------- potential outcomes and shifts ---------------- *)
Inductive fn := AddC (d : Q) | MulC (k : Q) | Cube.
Definition apply_fn (f : fn) (u : Q) : Q :=
  match f with AddC d => u + d | MulC k => u * k | Cube => u * u * u end.
Definition tester : list Q := [1; 2; 3; 4; 5].
(* np.allclose(finverse(f(tester)), tester) and np.allclose(f(finverse(tester)), tester), exact here *)
Definition inverse_ok (f finv : fn) : bool :=
  forallb (fun u => Qeq_bool (apply_fn finv (apply_fn f u)) u && Qeq_bool (apply_fn f (apply_fn finv u)) u) tester.
Definition potential_outcomes (x y : list Q) (f finv : fn) : result (list (Q * Q)) :=
  if inverse_ok f finv
  then Ok (combine (x ++ map (apply_fn f) y) (map (apply_fn finv) x ++ y))
  else Err AssertionError.

Inductive shift := NoShift | Scalar (d : Q) | Pair (f finv : fn) | SingleCallable.
Definition two_sample_shift (x y : list Q) (s : stat2) (a : alt) (reps : nat) (plus1 : bool)
           (sh : shift) (t : tape) : result test_out :=
  match sh with
  | Scalar d =>
      two_sample_core s (combine (x ++ map (fun v => v + d) y) (map (fun v => v - d) x ++ y))
                      (length x) a reps plus1 t
  | Pair f finv =>
      bind (potential_outcomes x y f finv) (fun pot => two_sample_core s pot (length x) a reps plus1 t)
  | NoShift | SingleCallable => Err ValueError
  end.

(* ---------------- one_sample ---------------- *)
Fixpoint one_loop (s : stat1) (z : list Q) (reps : nat) (t : tape)
  : result (list Q * list (list nat) * tape) :=
  match reps with
  | O => Ok ([], [], t)
  | S reps' =>
      bind (bits (length z) t) (fun bt =>
        let zz := map (fun zb => fst zb * (1 - (2 # 1) * qn (snd zb))) (combine z (fst bt)) in
        bind (one_loop s z reps' (snd bt)) (fun r =>
          Ok (eval1 s zz :: fst (fst r), fst bt :: snd (fst r), snd r)))
  end.

Definition one_sample (x : list Q) (y : option (list Q)) (s : stat1) (a : alt) (reps : nat)
           (plus1 : bool) (t : tape) : result test_out :=
  let zr := match y with
            | None => Ok x
            | Some yy => if Nat.eqb (length x) (length yy)
                         then Ok (map (fun p => fst p - snd p) (combine x yy))
                         else Err ValueError
            end in
  bind zr (fun z =>
    let tst := eval1 s z in
    bind (one_loop s z reps t) (fun r =>
      let d := fst (fst r) in
      Ok {| pval := the_pvalue a (count_ge tst d) (count_le tst d) reps plus1;
            tstat := tst; dist := d; arrs := snd (fst r); rest := snd r |})).

(* ---------------- corr / spearman_corr: re-pairing of x ---------------- *)
(* the rearrangements: x permuted by Fisher-Yates, afresh from the original x in every repetition *)
Fixpoint perm_loop {A} (x : list A) (reps : nat) (t : tape) : result (list (list A) * tape) :=
  match reps with
  | O => Ok ([], t)
  | S reps' =>
      bind (permute x t) (fun xt =>
        bind (perm_loop x reps' (snd xt)) (fun r => Ok (fst xt :: fst r, snd r)))
  end.

(* p-value assembly of corr: left = (#{sims <= tst}+c)/(reps+c), right likewise,
   two-sided = min(1, 2*min(left, right)) *)
Definition corr_pvalue (a : alt) (tst : Q) (sims : list Q) (plus1 : bool) : Q :=
  let reps := length sims in
  let left := perm_pvalue (cc plus1) (count_le tst sims) reps in
  let right := perm_pvalue (cc plus1) (count_ge tst sims) reps in
  match a with
  | Greater => right
  | Less => left
  | TwoSided => Qmin 1 ((2 # 1) * Qmin left right)
  end.

(* ---------------- k_sample: relabelling of units ---------------- *)
(* p = (plus1 + #{dist >= observed})/(plus1 + reps) *)
Definition ksample_pvalue (tst : Q) (d : list Q) (plus1 : bool) : Q :=
  perm_pvalue (cc plus1) (count_ge tst d) (length d).

(* one_way_anova(x, group, overall_mean): sum over the distinct labels k (np.unique: sorted) of
   (mean(x[group==k]) - overall_mean)^2 * n_k *)
Fixpoint insert_nodup (k : Z) (l : list Z) : list Z :=
  match l with
  | [] => [k]
  | a :: t => if (k <? a)%Z then k :: l else if (k =? a)%Z then l else a :: insert_nodup k t
  end.
Definition unique (g : list Z) : list Z := fold_right insert_nodup [] g.
Definition select {A} (x : list A) (g : list Z) (k : Z) : list A :=
  map fst (filter (fun p => (snd p =? k)%Z) (combine x g)).
Definition one_way_anova (x : list Q) (g : list Z) (overall : Q) : Q :=
  qsum (map (fun k => let xk := select x g k in
                      (qmean xk - overall) * (qmean xk - overall) * qn (length xk)) (unique g)).

Inductive statk := Anova | FirstLabelSum | ConstK.
Definition evalk (s : statk) (x : list Q) (g : list Z) (xbar : Q) : Q :=
  match s with
  | Anova => one_way_anova x g xbar
  | FirstLabelSum => qsum (select x g (hd 0%Z (unique g)))
  | ConstK => 0
  end.

Definition k_sample (x : list Q) (g : list Z) (s : statk) (reps : nat) (plus1 : bool) (t : tape)
  : result (Q * Q * list Q * list (list Z) * tape) :=
  let xbar := qmean x in
  let tst := evalk s x g xbar in
  bind (perm_loop g reps t) (fun r =>
    let d := map (fun gp => evalk s x gp xbar) (fst r) in
    Ok (ksample_pvalue tst d plus1, tst, d, fst r, snd r)).
