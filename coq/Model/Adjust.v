(* Model of permute/npc.py adjust_p (after the rank fix): exact arithmetic over Q.
   [ord] is the sorting permutation returned by np.argsort (an oracle: its tie order is
   machine dependent); the theorems quantify over every sorting permutation. *)
From PV Require Import Lib.Base.
Open Scope Q_scope.

Inductive method := Holm | Bonferroni | BH | Unknown.

Definition qcap (x : Q) : Q := Qmin x 1.                  (* np.minimum(x, 1) *)
Definition qn (n : nat) : Q := inject_Z (Z.of_nat n).
Definition count (f : Q -> bool) (p : list Q) : nat := length (filter f p).
(* rankdata(p, 'min')[i] = 1 + #{k | p_k < p_i};  rankdata(p, 'max')[i] = #{k | p_k <= p_i} *)
Definition rank_min (p : list Q) (x : Q) : nat := S (count (fun y => negb (Qle_bool x y)) p).
Definition rank_max (p : list Q) (x : Q) : nat := count (fun y => Qle_bool y x) p.

Fixpoint set_nth {A} (l : list A) (i : nat) (v : A) : list A :=
  match l, i with
  | [], _ => []
  | _ :: t, O => v :: t
  | a :: t, S i' => a :: set_nth t i' v
  end.

(* for i in order: adj[i] = op(adj[prev], adj[i]); prev = i   (prev starts at order[0]) *)
Definition running (op : Q -> Q -> Q) (ord : list nat) (a : list Q) : list Q :=
  match ord with
  | [] => a
  | i0 :: _ =>
      snd (fold_left (fun (st : nat * list Q) i =>
                        let '(prev, arr) := st in
                        (i, set_nth arr i (op (nth prev arr 0) (nth i arr 0)))) ord (i0, a))
  end.

Definition adjust_p (p : list Q) (ord : list nat) (m : method) : result (list Q) :=
  let n := length p in
  match m with
  | Holm =>
      let base := map (fun x => qcap (x * (qn n - qn (rank_min p x) + 1))) p in
      Ok (running Qmax ord base)
  | Bonferroni => Ok (map (fun x => qcap (x * qn n)) p)
  | BH =>
      let base := map (fun x => qcap (x * (qn n / qn (rank_max p x)))) p in
      Ok (running Qmin (rev ord) base)
  | Unknown => Err ValueError
  end.

(* ---- textbook, sort-free forms ---- *)
Definition qmaxl (l : list Q) : Q := fold_right Qmax 0 l.
Definition qminl (l : list Q) : Q := fold_right Qmin 1 l.
Definition holm_term (p : list Q) (x : Q) : Q := qcap (qn (count (fun y => Qle_bool x y) p) * x).
Definition bh_term (p : list Q) (x : Q) : Q := qcap (qn (length p) * x / qn (count (fun y => Qle_bool y x) p)).
(* holm_i = max over {j | p_j <= p_i} of min(1, #{k | p_k >= p_j} p_j) *)
Definition holm_spec (p : list Q) : list Q :=
  map (fun x => qmaxl (map (holm_term p) (filter (fun y => Qle_bool y x) p))) p.
(* bh_i = min over {j | p_j >= p_i} of min(1, n p_j / #{k | p_k <= p_j}) *)
Definition bh_spec (p : list Q) : list Q :=
  map (fun x => qminl (map (bh_term p) (filter (fun y => Qle_bool x y) p))) p.
Definition bonf_spec (p : list Q) : list Q := map (fun x => qcap (qn (length p) * x)) p.

(* [ord] is a sorting permutation of p: a permutation of 0..n-1 along which p is non-decreasing *)
Fixpoint sorted_along (p : list Q) (ord : list nat) : bool :=
  match ord with
  | i :: ((j :: _) as t) => Qle_bool (nth i p 0) (nth j p 0) && sorted_along p t
  | _ => true
  end.
Fixpoint mem_nat (i : nat) (l : list nat) : bool :=
  match l with [] => false | j :: t => Nat.eqb i j || mem_nat i t end.
Fixpoint nodup_nat (l : list nat) : bool :=
  match l with [] => true | i :: t => negb (mem_nat i t) && nodup_nat t end.
Definition is_sorting_perm (p : list Q) (ord : list nat) : bool :=
  Nat.eqb (length ord) (length p) && forallb (fun i => Nat.ltb i (length p)) ord
  && nodup_nat ord && sorted_along p ord.
