(* Model of the random-number consumption of permute: the generator is a tape of answers.
   Every request has a bound m and is answered by a number < m:
     - Random._randbelow(m) / SHA256.randint(a, a+m)           -> the integer drawn (minus a)
     - step i of cryptorandom's fykd_sample(n, n) (u = prng.random(n)[i], J = int(i + u*(n-i)))
                                                               -> J - i, bound n - i
   Definitions only (MathComp seq functions nth/set_nth/take/rev are used as plain list code). *)
From PV Require Import Lib.Base.
From mathcomp Require Import ssreflect ssrbool ssrfun eqtype ssrnat seq.
Local Open Scope nat_scope.
Set Implicit Arguments. Unset Strict Implicit. Unset Printing Implicit Defensive.

Definition tape := seq nat.

Definition draw (m : nat) (t : tape) : result (nat * tape) :=
  match t with
  | [::] => Err OutOfTape
  | a :: t' => if a < m then Ok (a, t') else Err OutOfTape
  end.

(* k answers with bounds n, n-1, ..., n-k+1 *)
Fixpoint draws_from (n k : nat) (t : tape) : result (seq nat * tape) :=
  match k with
  | 0 => Ok ([::], t)
  | k'.+1 => bind (draw n t) (fun at' =>
             bind (draws_from n.-1 k' at'.2) (fun dt => Ok (at'.1 :: dt.1, dt.2)))
  end.

Section Pick.
Variable T : Type.
(* forward Fisher-Yates step: a[i], a[J] = a[J], a[i] on the remaining list l = a[i:], d = J - i.
   picked = l[d]; the old head goes into the hole; the head position is finished *)
Definition fy_pick (x0 : T) (l : seq T) (d : nat) : T * seq T :=
  match l with
  | [::] => (x0, [::])
  | x :: xs => if d is d'.+1 then (nth x0 xs d', set_nth x0 xs d' x) else (x, xs)
  end.
(* "last" step (random.shuffle from the end; cryptorandom sample_by_index): picked = l[d];
   the last element goes into the hole; the last position is dropped *)
Definition last_pick (x0 : T) (l : seq T) (d : nat) : T * seq T :=
  let body := take (size l).-1 l in
  let lst := last x0 l in
  if d < size body then (nth x0 body d, set_nth x0 body d lst) else (lst, body).

(* selection shuffle: repeatedly pick from what remains *)
Fixpoint shuf (pick : T -> seq T -> nat -> T * seq T) (l : seq T) (ds : seq nat) : seq T :=
  match ds, l with
  | d :: ds', x :: _ => let pr := pick x l d in pr.1 :: shuf pick pr.2 ds'
  | _, _ => [::]
  end.

(* cryptorandom.random_permutation(a, prng) (method Fisher-Yates): consumes n answers *)
Definition permute (x : seq T) (t : tape) : result (seq T * tape) :=
  bind (draws_from (size x) (size x) t) (fun dt => Ok (shuf fy_pick x dt.1, dt.2)).

(* random.Random.shuffle(x): for i = n-1 .. 1: j = randbelow(i+1); x[i], x[j] = x[j], x[i]
   consumes n-1 answers with bounds n, ..., 2; position 0 keeps what is left *)
Definition pyshuffle (x : seq T) (t : tape) : result (seq T * tape) :=
  bind (draws_from (size x) (size x).-1 t) (fun dt =>
    Ok (rev (shuf last_pick x (rcons dt.1 0)), dt.2)).

(* cryptorandom.random_sample(a, len(a), prng) (sample_by_index): n answers, bounds n..1 *)
Definition sample_all (x : seq T) (t : tape) : result (seq T * tape) :=
  bind (draws_from (size x) (size x) t) (fun dt => Ok (shuf last_pick x dt.1, dt.2)).

(* Random.choice(seq) *)
Definition choice (x0 : T) (l : seq T) (t : tape) : result (T * tape) :=
  if l is [::] then Err IndexError
  else bind (draw (size l) t) (fun at' => Ok (nth x0 l at'.1, at'.2)).
End Pick.

(* prng.randint(0, 2, n): n answers with bound 2 *)
Fixpoint bits (n : nat) (t : tape) : result (seq nat * tape) :=
  match n with
  | 0 => Ok ([::], t)
  | n'.+1 => bind (draw 2 t) (fun at' => bind (bits n' at'.2) (fun bt => Ok (at'.1 :: bt.1, bt.2)))
  end.

(* positions of a boolean mask, gather / scatter (x[mask], x[mask] = v) *)
Definition positions (mask : seq bool) : seq nat :=
  [seq i <- iota 0 (size mask) | nth false mask i].
Definition gather (T : Type) (x0 : T) (x : seq T) (pos : seq nat) : seq T := [seq nth x0 x i | i <- pos].
Fixpoint scatter (T : Type) (x0 : T) (x : seq T) (pos : seq nat) (v : seq T) : seq T :=
  match pos, v with
  | i :: pos', a :: v' => scatter x0 (set_nth x0 x i a) pos' v'
  | _, _ => x
  end.
