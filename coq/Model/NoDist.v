(* The keep_dist=False code paths of two_sample_core, one_sample and k_sample: the hit counters are updated
   inside the loop and no distribution is stored.  (The keep_dist=True paths are in Model/Core.v.) *)
From PV Require Import Lib.Base Model.Prng Model.Core.
Open Scope Q_scope.

Definition b2n (b : bool) : nat := if b then 1%nat else 0%nat.

(* hitsUp += tst_stat(...) >= tst ; hitsDn += tst_stat(...) <= tst   (same draws as core_loop) *)
Fixpoint core_hits (s : stat2) (pot : list (Q * Q)) (nx : nat) (rr : list nat) (reps : nat) (t : tape) (tst : Q)
  : result (nat * nat * tape) :=
  match reps with
  | O => Ok (0%nat, 0%nat, t)
  | S reps' =>
      bind (pyshuffle rr t) (fun st =>
        let rr' := fst st in
        let pp := take_rows (0, 0) pot rr' in
        let v := eval2 s (map fst (firstn nx pp)) (map snd (skipn nx pp)) in
        bind (core_hits s pot nx rr' reps' (snd st) tst) (fun h =>
          Ok ((b2n (Qle_bool tst v) + fst (fst h))%nat, (b2n (Qle_bool v tst) + snd (fst h))%nat, snd h)))
  end.

Definition two_sample_core_nodist (s : stat2) (pot : list (Q * Q)) (nx : nat) (a : alt) (reps : nat)
           (plus1 : bool) (t : tape) : result (Q * Q * tape) :=
  let tst := eval2 s (map fst (firstn nx pot)) (map snd (skipn nx pot)) in
  bind (core_hits s pot nx (seq 0 (length pot)) reps t tst) (fun h =>
    Ok (the_pvalue a (fst (fst h)) (snd (fst h)) reps plus1, tst, snd h)).

Fixpoint one_hits (s : stat1) (z : list Q) (reps : nat) (t : tape) (tst : Q) : result (nat * nat * tape) :=
  match reps with
  | O => Ok (0%nat, 0%nat, t)
  | S reps' =>
      bind (bits (length z) t) (fun bt =>
        let zz := map (fun zb => fst zb * (1 - (2 # 1) * qn (snd zb))) (combine z (fst bt)) in
        let tv := eval1 s zz in
        bind (one_hits s z reps' (snd bt) tst) (fun h =>
          Ok ((b2n (Qle_bool tst tv) + fst (fst h))%nat, (b2n (Qle_bool tv tst) + snd (fst h))%nat, snd h)))
  end.

Definition one_sample_nodist (x : list Q) (y : option (list Q)) (s : stat1) (a : alt) (reps : nat)
           (plus1 : bool) (t : tape) : result (Q * Q * tape) :=
  let zr := match y with
            | None => Ok x
            | Some yy => if Nat.eqb (length x) (length yy)
                         then Ok (map (fun p => fst p - snd p) (combine x yy))
                         else Err ValueError
            end in
  bind zr (fun z =>
    let tst := eval1 s z in
    bind (one_hits s z reps t tst) (fun h =>
      Ok (the_pvalue a (fst (fst h)) (snd (fst h)) reps plus1, tst, snd h))).
