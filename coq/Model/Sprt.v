(* Model of permute/sprt.py (after the prefix fix). *)
From PV Require Import Lib.Base.
Open Scope Q_scope.

(* while (ts > A and ts < B and index < len(x)): index += 1; ts = lr(x[0:index])
   fuel = len(x) - index *)
Fixpoint sprt_loop (lr : list Z -> Q) (A B : Q) (xs : list Z) (index fuel : nat) (ts : Q)
  : Q * list (list Z) :=
  match fuel with
  | O => (ts, [])
  | S f =>
      if negb (Qle_bool ts A) && negb (Qle_bool B ts) then
        let pre := firstn (S index) xs in
        let '(t, log) := sprt_loop lr A B xs (S index) f (lr pre) in (t, pre :: log)
      else (ts, [])
  end.

Definition conclude (A B ts : Q) : bool * bool :=
  if Qle_bool B ts then (true, false)
  else if Qle_bool ts A then (false, true)
  else (false, false).

(* returns (conclusion, ts) and, for the correspondence, the arguments lr was called with *)
Definition sprt (lr : list Z -> Q) (alpha beta : Q) (xs : list Z) (random_order : bool)
  : (bool * bool) * Q * list (list Z) :=
  let A := beta / (1 - alpha) in
  let B := (1 - beta) / alpha in
  let '(ts, log) := if random_order then sprt_loop lr A B xs 0 (length xs) 1
                    else (lr xs, [xs]) in
  (conclude A B ts, ts, log).

(* (pa ** sum(x)) * (1-pa)**(len(x)-sum(x)) / ((po ** sum(x)) * (1-po)**(len(x)-sum(x))) *)
Definition zsum (l : list Z) : Z := fold_right Z.add 0%Z l.
Definition bernoulli_lh_ratio (po pa : Q) (x : list Z) : Q :=
  let s := zsum x in
  let f := (Z.of_nat (length x) - s)%Z in
  (Qpower pa s * Qpower (1 - pa) f) / (Qpower po s * Qpower (1 - po) f).
