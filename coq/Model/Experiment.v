(* Model of permute/npc.py Experiment / Randomizer / randomize_group / randomize_in_strata /
   TestFunc / make_test_array and of the state effects of randomize, sim_npc, westfall_young. *)
From PV Require Import Lib.Base Model.Prng Model.Core Model.Stratified.
From PV Require Model.Npc Model.WY.
Open Scope Q_scope.

Inductive rkind := Unstrat | Strat.

Record exp := { group : list Z; response : list (list Q); strata : option (list Z); kind : rkind; gen : tape }.

(* randomize_group: data.group = random_sample(data.group, len(data.group), prng) *)
(* randomize_in_strata: for value in np.unique(covariate[:,0]): data.group[mask] = random_sample(data.group[mask], ...) *)
Fixpoint strata_loop (g : list Z) (s : list Z) (labels : list Z) (t : tape) : result (list Z * tape) :=
  match labels with
  | [] => Ok (g, t)
  | k :: ks =>
      let pos := positions (mask_of s k) in
      bind (sample_all (gather 0%Z g pos) t) (fun vt =>
        strata_loop (scatter 0%Z g pos (fst vt)) s ks (snd vt))
  end.
Definition randomize_once (k : rkind) (g : list Z) (s : option (list Z)) (t : tape) : result (list Z * tape) :=
  match k, s with
  | Unstrat, _ => sample_all g t
  | Strat, Some st => strata_loop g st (unique st) t
  | Strat, None => Err TypeError
  end.

(* ---- built-in test functions on the requested response column ---- *)
Inductive testfn := MeanDiffF (idx : nat) | AnovaF (idx : nat) | TtestSqF (idx : nat).
(* Student's t with the pooled variance is irrational; its signed square sign(t) t^2 = d |d| / (sp2 (1/na + 1/nb)) is
   rational and determines t: that is what the model computes for TestFunc.ttest (zero pooled variance: no value) *)
Definition ssq (l : list Q) : Q := let m := qmean l in qsum (map (fun v => (v - m) * (v - m)) l).
Definition ttest_signed_square (a b : list Q) : result Q :=
  let na := qn (length a) in let nb := qn (length b) in
  let sp2 := (ssq a + ssq b) / (na + nb - 2) in
  let d := qmean a - qmean b in
  let den := sp2 * (1 / na + 1 / nb) in
  if Qeq_bool den 0 then Err ValueError else Ok (d * Qabs d / den).
Definition column (e : list (list Q)) (i : nat) : list Q := map (fun r => nth i r 0) e.
Definition eval_test (f : testfn) (g : list Z) (resp : list (list Q)) : result Q :=
  match f with
  | MeanDiffF i =>
      match unique g with
      | [g0; g1] => Ok (qmean (select (column resp i) g g0) - qmean (select (column resp i) g g1))
      | _ => Err ValueError
      end
  | AnovaF i => let x := column resp i in Ok (one_way_anova x g (qmean x))
  | TtestSqF i =>
      match unique g with
      | [g0; g1] => ttest_signed_square (select (column resp i) g g0) (select (column resp i) g g1)
      | _ => Err ValueError
      end
  end.
Fixpoint eval_tests (fs : list testfn) (g : list Z) (resp : list (list Q)) : result (list Q) :=
  match fs with
  | [] => Ok []
  | f :: r => bind (eval_test f g resp) (fun v => bind (eval_tests r g resp) (fun vs => Ok (v :: vs)))
  end.

(* reps successive randomizations of the working copy (each starts from the previous assignment) *)
Fixpoint rand_chain (k : rkind) (g : list Z) (s : option (list Z)) (resp : list (list Q)) (fs : list testfn)
         (reps : nat) (t : tape) : result (list (list Q) * list Z * tape) :=
  match reps with
  | O => Ok ([], g, t)
  | S r =>
      bind (randomize_once k g s t) (fun gt =>
        bind (eval_tests fs (fst gt) resp) (fun row =>
          bind (rand_chain k (fst gt) s resp fs r (snd gt)) (fun rest =>
            Ok (row :: fst (fst rest), snd (fst rest), snd rest))))
  end.

Inductive op :=
  | Randomize (in_place : bool) (reseed : option tape) (fork : tape)
  | SimNpc (in_place : bool) (reseed : option tape) (fork : tape) (reps : nat) (fs : list testfn) (c : Npc.comb)
  | WestfallYoung (in_place : bool) (reseed : option tape) (fork : tape) (reps : nat) (fs : list testfn)
                  (m : WY.wmethod) (alts : list WY.walt).

Inductive output :=
  | OGroup (g : list Z)
  | ONpc (p : Q) (ts ps : list Q)
  | OWY (adj raw : list Q).

Definition reseeded (e : exp) (r : option tape) : exp :=
  match r with
  | None => e
  | Some t => {| group := group e; response := response e; strata := strata e; kind := kind e; gen := t |}
  end.
Definition with_group_gen (e : exp) (g : list Z) (t : tape) : exp :=
  {| group := g; response := response e; strata := strata e; kind := kind e; gen := t |}.

(* one operation: new state of the caller's Experiment, and what the call returned.
   in_place=False works on a deep copy whose generator is the [fork] tape; the caller's object,
   its generator included, stays as it is (after the optional reseed) *)
Definition step (e0 : exp) (o : op) : result (exp * output) :=
  match o with
  | Randomize ip rs fork =>
      let e := reseeded e0 rs in
      bind (randomize_once (kind e) (group e) (strata e) (if ip then gen e else fork)) (fun gt =>
        Ok (if ip then with_group_gen e (fst gt) (snd gt) else e, OGroup (fst gt)))
  | SimNpc ip rs fork reps fs c =>
      let e := reseeded e0 rs in
      bind (eval_tests fs (group e) (response e)) (fun ts =>
        bind (rand_chain (kind e) (group e) (strata e) (response e) fs reps (if ip then gen e else fork)) (fun r =>
          bind (Npc.sim_npc_table (ts :: fst (fst r)) c) (fun pp =>
            Ok (if ip then with_group_gen e (snd (fst r)) (snd r) else e, ONpc (fst pp) ts (snd pp)))))
  | WestfallYoung ip rs fork reps fs m alts =>
      let e := reseeded e0 rs in
      if negb (Nat.eqb (length alts) (length fs)) then Err ValueError else
      bind (eval_tests fs (group e) (response e)) (fun ts =>
        bind (rand_chain (kind e) (group e) (strata e) (response e) fs reps (if ip then gen e else fork)) (fun r =>
          bind (WY.westfall_young_table ts (fst (fst r)) m alts) (fun aw =>
            Ok (if ip then with_group_gen e (snd (fst r)) (snd r) else e, OWY (fst aw) (snd aw)))))
  end.

Fixpoint run (e : exp) (ops : list op) : result (exp * list output) :=
  match ops with
  | [] => Ok (e, [])
  | o :: os => bind (step e o) (fun eo => bind (run (fst eo) os) (fun r => Ok (fst r, snd eo :: snd r)))
  end.
