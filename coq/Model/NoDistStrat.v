(* The keep_dist=False code paths of k_sample, bivariate_k_sample, stratified_two_sample and simulate_ts_dist:
   a hit counter is updated inside the loop and no distribution is stored.  (keep_dist=True: Model/Core.v,
   Model/Stratified.v.) *)
From PV Require Import Lib.Base Model.Prng Model.Core Model.Stratified Model.NoDist.
Open Scope Q_scope.

(* hits += tst_fun(x, permute(group, prng), xbar) >= observed   (k_sample) *)
Fixpoint perm_hits {A} (f : list A -> Q) (x : list A) (reps : nat) (t : tape) (tst : Q) : result (nat * tape) :=
  match reps with
  | O => Ok (0%nat, t)
  | S reps' =>
      bind (permute x t) (fun xt =>
        bind (perm_hits f x reps' (snd xt) tst) (fun h =>
          Ok ((b2n (Qle_bool tst (f (fst xt))) + fst h)%nat, snd h)))
  end.
Definition k_sample_nodist (x : list Q) (g : list Z) (s : statk) (reps : nat) (plus1 : bool) (t : tape)
  : result (Q * Q * tape) :=
  let xbar := qmean x in
  let tst := evalk s x g xbar in
  bind (perm_hits (fun gp => evalk s x gp xbar) g reps t tst) (fun h =>
    Ok (perm_pvalue (cc plus1) (fst h) reps, tst, snd h)).

(* hits += tst_fun(permute_within_groups(u, group, prng)) >= observed   (bivariate_k_sample, stratified_two_sample) *)
Fixpoint pwg_hits {A} (f : list A -> Q) (d : A) (x : list A) (g : list Z) (reps : nat) (t : tape) (tst : Q)
  : result (nat * tape) :=
  match reps with
  | O => Ok (0%nat, t)
  | S r =>
      bind (permute_within_groups d x g t) (fun xt =>
        bind (pwg_hits f d x g r (snd xt) tst) (fun h =>
          Ok ((b2n (Qle_bool tst (f (fst xt))) + fst h)%nat, snd h)))
  end.
Definition bivariate_k_sample_nodist (x : list Q) (g1 g2 : list Z) (reps : nat) (plus1 : bool) (t : tape)
  : result (Q * Q * tape) :=
  let m := qmean x in
  let tst := two_way_anova x g2 m in
  bind (pwg_hits (fun gp => two_way_anova x gp m) 0%Z g2 g1 reps t tst) (fun h =>
    Ok (perm_pvalue (cc plus1) (fst h) reps, tst, snd h)).
Definition s2s_callable_nodist (g c : list Z) (resp : list Q) (ord : list nat) (s : statv) (a : alt) (reps : nat)
           (plus1 : bool) (t : tape) : result (Q * Q * tape) :=
  let resp' := map (fun i => nth i resp 0) ord in
  let g' := map (fun i => nth i g 0%Z) ord in
  let tst := evalv s resp' in
  bind (pwg_hits (evalv s) 0 resp' g' reps t tst) (fun h =>
    Ok (strat_pvalue a (fst h) reps plus1, tst, snd h)).

(* geq += compute_ts(r) >= obs_ts along the chain r = permute_rows(r)   (simulate_ts_dist) *)
Fixpoint rows_hits {A} (f : list (list A) -> Q) (m : list (list A)) (reps : nat) (t : tape) (tst : Q)
  : result (nat * tape) :=
  match reps with
  | O => Ok (0%nat, t)
  | S r =>
      bind (permute_rows m t) (fun mt =>
        bind (rows_hits f (fst mt) r (snd mt) tst) (fun h =>
          Ok ((b2n (Qle_bool tst (f (fst mt))) + fst h)%nat, snd h)))
  end.
