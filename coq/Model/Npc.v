(* Model of permute/npc.py: combining functions, check_combfunc_monotonic, npc, fwer_minp
   (exact arithmetic over Q; after the single-division and un-sorting fixes). *)
From PV Require Import Lib.Base.
Open Scope Q_scope.

(* Combining functions.  Every combiner is represented by a statistic in Q together with the
   direction in which "at least as large" is to be read:
   - Fisher   -2*log(prod p): order-equivalent to the product, reversed (log is increasing);
   - Liptak   sum(norm.ppf(1-p)): the quantile function is supplied as a finite table (oracle:
              the values SciPy returns for the arguments that occur), assumed increasing;
   - Tippett  max(1-p);
   - user callables of the families below (defined identically in the harness):
       NegWSum w = -sum(w_i p_i)  (w >= 0: valid),  PosSum = sum(p) (invalid: increasing),
       NegMax = -max(p),
       Logit = sum(log((1 - min(p,1))/p)): order-equivalent to prod((1 - min(p,1))/p); it is -inf (here: 0) as soon as
       one p-value is >= 1, so whole groups of rows tie with an infinite statistic *)
Inductive comb :=
  | Fisher | Liptak (tab : list (Q * Q)) | Tippett
  | NegWSum (w : list Q) | PosSum | NegMax | Logit.

Definition qsum (l : list Q) : Q := fold_right Qplus 0 l.
Definition qprod (l : list Q) : Q := fold_right Qmult 1 l.
Definition qmaxl1 (l : list Q) : Q := match l with [] => 0 | a :: t => fold_left Qmax t a end.

Fixpoint lookup (tab : list (Q * Q)) (x : Q) : Q :=
  match tab with
  | [] => 0
  | (k, v) :: t => if Qeq_bool k x then v else lookup t x
  end.

Definition psi (c : comb) (p : list Q) : Q :=
  match c with
  | Fisher => qprod p
  | Liptak tab => qsum (map (fun x => lookup tab (1 - x)) p)
  | Tippett => qmaxl1 (map (fun x => 1 - x) p)
  | NegWSum w => - qsum (map (fun xw => fst xw * snd xw) (combine p w))
  | PosSum => qsum p
  | NegMax => - qmaxl1 p
  | Logit => qprod (map (fun x => (1 - Qmin x 1) / x) p)
  end.
(* stat_ge c s t  <->  "combined statistic s >= combined statistic t" *)
Definition stat_ge (c : comb) (s t : Q) : bool :=
  match c with Fisher => Qle_bool s t | _ => Qle_bool t s end.
Definition is_callable (c : comb) : bool :=
  match c with Fisher | Liptak _ | Tippett => false | _ => true end.

Fixpoint set_nth {A} (l : list A) (i : nat) (v : A) : list A :=
  match l, i with
  | [], _ => []
  | _ :: t, O => v :: t
  | a :: t, S i' => a :: set_nth t i' v
  end.

(* obs_ts = f(p); for i: q = p.copy(); q[i] += 0.1; if obs_ts < f(q): return False *)
Definition check_combfunc_monotonic (c : comb) (p : list Q) : bool :=
  let obs := psi c p in
  forallb (fun i => negb (negb (stat_ge c obs (psi c (set_nth p i (nth i p 0 + (1 # 10)))))))
          (seq 0 (length p)).

(* rankdata(col, 'min')[i] = 1 + #{k | col_k < col_i} *)
Definition count_lt (col : list Q) (x : Q) : nat := length (filter (fun y => negb (Qle_bool x y)) col).
Definition count_ge (col : list Q) (x : Q) : nat := length (filter (fun y => Qle_bool x y) col).
Definition qn (n : nat) : Q := inject_Z (Z.of_nat n).
Definition eps : Q := 1 # 4503599627370496.       (* np.finfo(float).eps = 2^-52 *)

Definition column (distr : list (list Q)) (j : nat) : list Q := map (fun r => nth j r 0) distr.

(* pvalues_from_distr[i, j] = (B - rank_min + 1 + 2*plus1)/(plus1 + B) *)
Definition row_pvalues (distr : list (list Q)) (n : nat) (cc : nat) : list (list Q) :=
  let B := length distr in
  map (fun r => map (fun j => let x := nth j r 0 in
                      (qn B - qn (S (count_lt (column distr j) x)) + 1 + 2 * qn cc) / (qn cc + qn B))
                    (seq 0 n)) distr.

Definition clip_liptak (c : comb) (rows : list (list Q)) : list (list Q) :=
  match c with
  | Liptak _ => map (map (fun p => if Qle_bool 1 p then 1 - eps else p)) rows
  | _ => rows
  end.

Definition npc (pvalues : list Q) (distr : list (list Q)) (c : comb) (plus1 : bool) : result Q :=
  let n := length pvalues in
  let B := length distr in
  if (n <? 2)%nat then Err ValueError
  else if negb (forallb (fun r => Nat.eqb (length r) n) distr) then Err ValueError
  else if is_callable c && negb (check_combfunc_monotonic c pvalues) then Err ValueError
  else
    let cc := if plus1 then 1%nat else 0%nat in
    let rows := clip_liptak c (row_pvalues distr n cc) in
    let obs := psi c pvalues in
    let hits := length (filter (fun r => stat_ge c (psi c r) obs) rows) in
    Ok ((qn cc + qn hits) / (qn cc + qn B)).

(* ---- fwer_minp ---- *)
Definition take_cols (ord : list nat) (r : list Q) : list Q := map (fun j => nth j r 0) ord.

Fixpoint stepdown (p_ord : list Q) (distr_ord : list (list Q)) (c : comb) (plus1 : bool)
         (prev : Q) (k : nat) {struct k} : result (list Q) :=
  (* p_ord / distr_ord already restricted to the remaining hypotheses; k = how many npc calls remain *)
  match k with
  | O => match p_ord with
         | [plast] => Ok [Qmax plast prev]
         | _ => Ok []
         end
  | S k' =>
      bind (npc p_ord distr_ord c plus1) (fun nxt =>
        let cur := Qmax nxt prev in
        bind (stepdown (tl p_ord) (map (@tl Q) distr_ord) c plus1 cur k') (fun rest => Ok (cur :: rest)))
  end.

Fixpoint scatter (ord : list nat) (vals : list Q) (out : list Q) : list Q :=
  match ord, vals with
  | i :: ord', v :: vals' => scatter ord' vals' (set_nth out i v)
  | _, _ => out
  end.

Definition fwer_minp (pvalues : list Q) (distr : list (list Q)) (ord : list nat) (c : comb) (plus1 : bool)
  : result (list Q) :=
  let j := length pvalues in
  if (j <? 2)%nat then Err ValueError
  else if negb (forallb (fun r => Nat.eqb (length r) j) distr) then Err ValueError
  else
    let p_ord := take_cols ord pvalues in
    let d_ord := map (take_cols ord) distr in
    (* adj[0] = npc(all); adj[jj] = max(npc(tail jj), adj[jj-1]) for jj = 1..j-2; adj[j-1] = max(p_last, adj[j-2]) *)
    bind (npc p_ord d_ord c plus1) (fun first =>
      bind (stepdown (tl p_ord) (map (@tl Q) d_ord) c plus1 first (j - 2)) (fun rest =>
        Ok (scatter ord (first :: rest) (repeat 0 j)))).

(* ---- sim_npc, after the randomizations: table = observed statistics (row 0) followed by the
   reps simulated rows.  ps[c] = (#{tv[c] >= ts[c]} + 1)/(reps + 1); dist = simulated rows with the
   observed row appended last; p = npc(ps, dist, combine, plus1=False) ---- *)
Definition sim_npc_table (table : list (list Q)) (c : comb) : result (Q * list Q) :=
  match table with
  | [] => Err IndexError
  | obs :: sims =>
      let reps := length sims in
      let ps := map (fun j => (qn (count_ge (column sims j) (nth j obs 0)) + 1) / (qn reps + 1))
                    (seq 0 (length obs)) in
      bind (npc ps (sims ++ [obs]) c false) (fun p => Ok (p, ps))
  end.
