(* Failure paths of Experiment histories (C17, C03, C05): an operation that is ABORTED inside its repetition loop -- a test
   function raises (an exception or Ctrl-C) after j randomizations were completed -- or REJECTED before it starts (unusable
   seed object, wrong argument types).  What the code leaves behind, as a model:
     aborted, in_place=True : the assignment and generator reached after j randomizations of the chain (reseeded first if a
                              seed was given);
     aborted, in_place=False: the caller's Experiment as it was (the copy is dropped; a given seed has re-seeded it);
     rejected               : the caller's Experiment as it was.
   Histories mixing completed, aborted and rejected operations keep every invariant of completed histories. *)
From PV Require Import Lib.Base Model.Prng Model.Core Model.Stratified Model.Experiment.

Definition abort_step (e0 : exp) (ip : bool) (rs : option tape) (fork : tape) (j : nat) : result exp :=
  let e := reseeded e0 rs in
  bind (rand_chain (kind e) (group e) (strata e) (response e) nil j (if ip then gen e else fork)) (fun r =>
    Ok (if ip then with_group_gen e (snd (fst r)) (snd r) else e)).

Inductive hop :=
  | Done (o : op)
  | Aborted (in_place : bool) (reseed : option tape) (fork : tape) (completed : nat)
  | Rejected.

Definition hstep (e : exp) (h : hop) : result exp :=
  match h with
  | Done o => bind (step e o) (fun eo => Ok (fst eo))
  | Aborted ip rs fork j => abort_step e ip rs fork j
  | Rejected => Ok e
  end.

Fixpoint hrun (e : exp) (hs : list hop) : result exp :=
  match hs with
  | nil => Ok e
  | h :: r => bind (hstep e h) (fun e1 => hrun e1 r)
  end.

