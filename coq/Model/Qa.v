(* Model of permute/qa.py: find_duplicate_rows, find_consecutive_duplicate_rows.
   A 2-D integer array is a list of rows, a row a list of Z. *)
From PV Require Import Lib.Base Lib.Sort.
From Coq Require Import String DecimalString.
Open Scope Z_scope.

Definition row := list Z.

(* np.lexsort(x.T): the LAST column is the primary key, the first column the least
   significant one: lexicographic order on the reversed rows. *)
Fixpoint lexle (a b : list Z) : bool :=
  match a, b with
  | [], _ => true
  | _ :: _, [] => false
  | x :: a', y :: b' => if x <? y then true else if y <? x then false else lexle a' b'
  end.
Definition row_le (a b : row) : bool := lexle (rev a) (rev b).
Definition row_eqb (a b : row) : bool := list_eqb Z.eqb a b.

(* x = x[indx]; diff = np.diff(x, axis=0); indx = np.any(diff, axis=1);
   dups = x[1:, :][~indx, ]  : every row (from the second on) equal to its predecessor *)
Fixpoint adjdups (l : list row) : list row :=
  match l with
  | [] => []
  | a :: t => match t with
              | [] => []
              | b :: _ => if row_eqb a b then b :: adjdups t else adjdups t
              end
  end.

Definition find_duplicate_rows (x : list row) : list row := adjdups (isort row_le x).

(* indx = []; prev = x[0]; for i, r in enumerate(x[1:]): if (r == prev).all(): indx.append(i);
   prev = r ; dups = x[indx]   -- x[0] on an empty array raises IndexError *)
Fixpoint consec_from (prev : row) (t : list row) : list row :=
  match t with
  | [] => []
  | r :: t' => if row_eqb r prev then prev :: consec_from r t' else consec_from r t'
  end.
Definition find_consecutive_duplicate_rows (x : list row) : result (list row) :=
  match x with
  | [] => Err IndexError
  | a :: t => Ok (consec_from a t)
  end.

(* as_string=True:  ",".join(str(c) for c in r.tolist()) *)
Definition Z_to_string (z : Z) : string := NilZero.string_of_int (Z.to_int z).
Definition row_to_string (r : row) : string := String.concat "," (map Z_to_string r).
Definition rows_to_strings (l : list row) : list string := map row_to_string l.
