(* Model of permute/irr.py: compute_ts (concordance statistic), the reference/geq/p-value logic of
   simulate_ts_dist, and simulate_npc_dist's per-stratum p-values. *)
From PV Require Import Lib.Base.
Open Scope Z_scope.

(* ratings: R x Ns matrix given as the list of its R rows (raters) *)
Definition zsum (l : list Z) : Z := fold_right Z.add 0 l.
Fixpoint zip_add (a b : list Z) : list Z :=
  match a, b with x :: a', y :: b' => (x + y) :: zip_add a' b' | _, _ => [] end.
(* y = ratings.sum(0) *)
Definition colsums (m : list (list Z)) : list Z :=
  match m with
  | [] => []
  | r :: rs => fold_left zip_add rs r
  end.
(* counts = y*(y-1) + (R-y)*(R-y-1) *)
Definition item_count (R y : Z) : Z := y * (y - 1) + (R - y) * (R - y - 1).
(* rho_s = counts.sum() / (Ns * R * (R - 1)) *)
Definition compute_ts (m : list (list Z)) : Q :=
  let R := Z.of_nat (length m) in
  let ys := colsums m in
  let Ns := Z.of_nat (length ys) in
  Qred (Qmake (zsum (map (item_count R) ys)) (Z.to_pos (Ns * R * (R - 1)))).

(* transposition: the list of items (columns), each a list of R ratings *)
Fixpoint transpose_aux (ncols : nat) (m : list (list Z)) : list (list Z) :=
  match ncols with
  | O => []
  | S k => map (fun r => hd 0 r) m :: transpose_aux k (map (@tl Z) m)
  end.
Definition transpose (m : list (list Z)) : list (list Z) :=
  match m with [] => [] | r :: _ => transpose_aux (length r) m end.

(* simulate_ts_dist, after the permutations have been drawn: obs_ts defaults to the statistic of
   the ratings as passed; geq = #{simulated >= obs}; pvalue = (geq+plus1)/(num_perm+plus1) *)
Definition count_geq (obs : Q) (dist : list Q) : nat :=
  length (filter (fun v => Qle_bool obs v) dist).
Definition simulate_ts_summary (ratings : list (list Z)) (obs_override : option Q)
           (sims : list (list (list Z))) (plus1 : bool) : Q * nat * Q * list Q :=
  let obs := match obs_override with Some o => o | None => compute_ts ratings end in
  let dist := map compute_ts sims in
  let geq := count_geq obs dist in
  let c := if plus1 then 1 else 0 in
  (obs, geq, Qmake (Z.of_nat geq + c) (Z.to_pos (Z.of_nat (length sims) + c)), dist).

(* simulate_npc_dist: pvalues[j] = (#{perm_distr[:,j] >= obs_ts[j]} + plus1)/(B + plus1) *)
Definition npc_dist_pvalues (cols : list (list Q)) (obs : list Q) (plus1 : bool) : list Q :=
  let c := if plus1 then 1 else 0 in
  map (fun co => Qmake (Z.of_nat (count_geq (snd co) (fst co)) + c)
                       (Z.to_pos (Z.of_nat (length (fst co)) + c))) (combine cols obs).
