(* Model of permute/utils.py permute_incidence_fixed_sums (after the row-pair and validation fixes). *)
From PV Require Import Lib.Base Model.Prng.
Open Scope Z_scope.

Definition matrix := list (list Z).
Definition is_binary (m : matrix) : bool := forallb (forallb (fun v => (v =? 0) || (v =? 1))) m.
Definition mmin (m : matrix) : Z := fold_right Z.min 1 (concat m).
Definition mmax (m : matrix) : Z := fold_right Z.max 0 (concat m).

Fixpoint set_nth {A} (l : list A) (i : nat) (v : A) : list A :=
  match l, i with [], _ => [] | _ :: t, O => v :: t | a :: t, S i' => a :: set_nth t i' v end.
Definition get (m : matrix) (r c : nat) : Z := nth c (nth r m []) 0.
Definition put (m : matrix) (r c : nat) (v : Z) : matrix := set_nth m r (set_nth (nth r m []) c v).

(* np.where((incidence[s0,:]==a) & (incidence[s1,:]==b)) *)
Definition cols_where (m : matrix) (s0 s1 : nat) (a b : Z) : list nat :=
  filter (fun c => (get m s0 c =? a) && (get m s1 c =? b)) (seq 0 (length (nth s0 m []))).

(* incidence[[s0,s0,s1,s1],[p0,p1,p0,p1]] = [0,1,1,0] *)
Definition swap4 (m : matrix) (s0 s1 p0 p1 : nat) : matrix :=
  put (put (put (put m s0 p0 0) s0 p1 1) s1 p0 1) s1 p1 0.

(* one attempt: chosen_rows = random_sample(rows, 2, prng)  (two answers, bounds n and n-1);
   if a 1/0 column and a 0/1 column exist: p0 = prng.choice(cols0); p1 = prng.choice(cols1) and swap;
   otherwise try again.  [fuel] bounds the number of attempts by the length of the tape. *)
Fixpoint attempts (m : matrix) (fuel : nat) (t : tape) : result (matrix * tape) :=
  match fuel with
  | O => Err OutOfTape
  | S f =>
      let n := length m in
      bind (draws_from n 2 t) (fun dt =>
        match shuf (@last_pick nat) (seq 0 n) (fst dt) with
        | [s0; s1] =>
            let c0 := cols_where m s0 s1 1 0 in
            let c1 := cols_where m s0 s1 0 1 in
            match c0, c1 with
            | [], _ | _, [] => attempts m f (snd dt)
            | _, _ =>
                bind (choice 0%nat c0 (snd dt)) (fun p0t =>
                  bind (choice 0%nat c1 (snd p0t)) (fun p1t =>
                    Ok (swap4 m s0 s1 (fst p0t) (fst p1t), snd p1t)))
            end
        | _ => Err IndexError
        end)
  end.

Fixpoint swaps (m : matrix) (k : nat) (t : tape) : result (matrix * tape) :=
  match k with
  | O => Ok (m, t)
  | S k' => bind (attempts m (length t) t) (fun mt => swaps (fst mt) k' (snd mt))
  end.

Definition permute_incidence_fixed_sums (m : matrix) (two_d : bool) (k : nat) (t : tape) : result (matrix * tape) :=
  if negb two_d then Err ValueError
  else if negb ((mmin m =? 0) && (mmax m =? 1) && is_binary m) then Err ValueError
  else swaps m k t.

(* ---- specification vocabulary ---- *)
Definition row_sums (m : matrix) : list Z := map (fun r => fold_right Z.add 0 r) m.
Fixpoint zip_add (a b : list Z) : list Z :=
  match a, b with x :: a', y :: b' => (x + y) :: zip_add a' b' | _, _ => [] end.
Definition col_sums (m : matrix) : list Z :=
  match m with [] => [] | r :: rs => fold_left zip_add rs r end.
(* a checkerboard swap: rows s0 <> s1, columns p0 <> p1 with pattern (1 0 / 0 1) turned into (0 1 / 1 0) *)
Definition is_checkerboard (m : matrix) (s0 s1 p0 p1 : nat) : bool :=
  (get m s0 p0 =? 1) && (get m s0 p1 =? 0) && (get m s1 p0 =? 0) && (get m s1 p1 =? 1)
  && negb (Nat.eqb s0 s1) && negb (Nat.eqb p0 p1).
Definition hamming (a b : matrix) : nat :=
  length (filter (fun p => negb (fst p =? snd p)) (combine (concat a) (concat b))).
