(* C05: keep_dist changes neither the p-value nor the statistic nor the draws, also for k_sample,
   bivariate_k_sample, stratified_two_sample and the chain of simulate_ts_dist. *)
From PV Require Import Lib.Base Model.Prng Model.Core Model.Stratified Model.NoDist Model.NoDistStrat Proofs.NoDistProofs.
From Coq Require Import Lia.
Open Scope Q_scope.

Lemma count_ge_map_cons {A} (f : A -> Q) tst a l :
  count_ge tst (map f (a :: l)) = (b2n (Qle_bool tst (f a)) + count_ge tst (map f l))%nat.
Proof. cbn [map]. apply count_cons_ge. Qed.

Lemma perm_hits_eq {A} (f : list A -> Q) (x : list A) tst : forall reps t,
  perm_hits f x reps t tst =
  match perm_loop x reps t with
  | Ok r => Ok (count_ge tst (map f (fst r)), snd r)
  | Err e => Err e
  end.
Proof.
  induction reps as [|reps IH]; intros t; cbn [perm_hits perm_loop]; [reflexivity|].
  destruct (permute x t) as [[y t1]|e]; cbn [bind fst snd]; [|reflexivity].
  rewrite IH. destruct (perm_loop x reps t1) as [[ys t2]|e]; cbn [bind fst snd]; [|reflexivity].
  rewrite count_ge_map_cons. reflexivity.
Qed.

Lemma perm_loop_length {A} (x : list A) : forall reps t r, perm_loop x reps t = Ok r -> length (fst r) = reps.
Proof.
  induction reps as [|reps IH]; intros t r H; cbn [perm_loop] in H.
  - inversion H; reflexivity.
  - destruct (permute x t) as [[y t1]|e]; cbn [bind fst snd] in H; [|discriminate].
    destruct (perm_loop x reps t1) as [[ys t2]|e] eqn:E; cbn [bind fst snd] in H; [|discriminate].
    inversion H; subst; cbn. f_equal. apply (IH _ _ E).
Qed.

Theorem k_sample_nodist_eq x g s reps plus1 t :
  k_sample_nodist x g s reps plus1 t =
  match k_sample x g s reps plus1 t with
  | Ok (p, tst, _, _, t') => Ok (p, tst, t')
  | Err e => Err e
  end.
Proof.
  unfold k_sample_nodist, k_sample. rewrite perm_hits_eq.
  destruct (perm_loop g reps t) as [[ys t2]|e] eqn:E; cbn [bind fst snd]; [|reflexivity].
  unfold ksample_pvalue. rewrite map_length. pose proof (perm_loop_length _ _ _ _ E) as L. cbn [fst] in L. rewrite L. reflexivity.
Qed.

Lemma pwg_hits_eq {A} (f : list A -> Q) (d : A) (x : list A) g tst : forall reps t,
  pwg_hits f d x g reps t tst =
  match pwg_reps d x g reps t with
  | Ok r => Ok (count_ge tst (map f (fst r)), snd r)
  | Err e => Err e
  end.
Proof.
  induction reps as [|reps IH]; intros t; cbn [pwg_hits pwg_reps]; [reflexivity|].
  destruct (permute_within_groups d x g t) as [[y t1]|e]; cbn [bind fst snd]; [|reflexivity].
  rewrite IH. destruct (pwg_reps d x g reps t1) as [[ys t2]|e]; cbn [bind fst snd]; [|reflexivity].
  rewrite count_ge_map_cons. reflexivity.
Qed.

Lemma pwg_reps_length {A} (d : A) (x : list A) g : forall reps t r, pwg_reps d x g reps t = Ok r -> length (fst r) = reps.
Proof.
  induction reps as [|reps IH]; intros t r H; cbn [pwg_reps] in H.
  - inversion H; reflexivity.
  - destruct (permute_within_groups d x g t) as [[y t1]|e]; cbn [bind fst snd] in H; [|discriminate].
    destruct (pwg_reps d x g reps t1) as [[ys t2]|e] eqn:E; cbn [bind fst snd] in H; [|discriminate].
    inversion H; subst; cbn. f_equal. apply (IH _ _ E).
Qed.

Theorem bivariate_k_sample_nodist_eq x g1 g2 reps plus1 t :
  bivariate_k_sample_nodist x g1 g2 reps plus1 t =
  match bivariate_k_sample x g1 g2 reps plus1 t with
  | Ok (p, tst, _, _, t') => Ok (p, tst, t')
  | Err e => Err e
  end.
Proof.
  unfold bivariate_k_sample_nodist, bivariate_k_sample. rewrite pwg_hits_eq.
  destruct (pwg_reps 0%Z g2 g1 reps t) as [[ys t2]|e] eqn:E; cbn [bind fst snd]; [|reflexivity].
  unfold ksample_pvalue. rewrite map_length. pose proof (pwg_reps_length _ _ _ _ _ _ E) as L. cbn [fst] in L. rewrite L. reflexivity.
Qed.

Theorem s2s_callable_nodist_eq g c resp ord s a reps plus1 t :
  s2s_callable_nodist g c resp ord s a reps plus1 t =
  match s2s_callable g c resp ord s a reps plus1 t with
  | Ok (p, tst, _, _, t') => Ok (p, tst, t')
  | Err e => Err e
  end.
Proof.
  unfold s2s_callable_nodist, s2s_callable. rewrite pwg_hits_eq.
  destruct (pwg_reps _ _ _ reps t) as [[ys t2]|e]; cbn [bind fst snd]; reflexivity.
Qed.

Theorem rows_hits_eq {A} (f : list (list A) -> Q) tst : forall reps (m : list (list A)) t,
  rows_hits f m reps t tst =
  match rows_chain m reps t with
  | Ok r => Ok (count_ge tst (map f (fst r)), snd r)
  | Err e => Err e
  end.
Proof.
  induction reps as [|reps IH]; intros m t; cbn [rows_hits rows_chain]; [reflexivity|].
  destruct (permute_rows m t) as [[y t1]|e]; cbn [bind fst snd]; [|reflexivity].
  rewrite IH. destruct (rows_chain y reps t1) as [[ys t2]|e]; cbn [bind fst snd]; [|reflexivity].
  rewrite count_ge_map_cons. reflexivity.
Qed.
