(* C06: calls compose on a shared generator.  Every randomized model function consumes a PREFIX of the tape and leaves
   the rest untouched: if f t = Ok (r, t') then f (t ++ more) = Ok (r, t' ++ more).  Hence a call that follows another on
   the same generator instance starts exactly where the first one stopped, and behaves as it does alone on the answers
   it consumes -- whatever came before and whatever follows (what the call-sequence runs of the harness check on the
   implementation). *)
From PV Require Import Lib.Base Model.Prng Model.Core Model.Stratified.
From Coq Require Import Lia.

Definition frames {A} (f : tape -> result (A * tape)) : Prop :=
  forall t r t' more, f t = Ok (r, t') -> f (t ++ more) = Ok (r, t' ++ more).

Lemma frames_draw m : frames (draw m).
Proof.
  intros [|a t] r t' more H; unfold draw in *; cbn [app] in *; [discriminate|].
  destruct (ssrnat.leq (S a) m); [|discriminate]. inversion H; subst. reflexivity.
Qed.

Lemma frames_draws_from : forall k n, frames (draws_from n k).
Proof.
  induction k as [|k IH]; intros n t r t' more H; cbn [draws_from] in *.
  - inversion H; subst. reflexivity.
  - destruct (draw n t) as [[a t1]|] eqn:E; cbn [bind fst snd] in H; [|discriminate].
    rewrite (frames_draw n _ _ _ more E). cbn [bind fst snd].
    destruct (draws_from (Nat.pred n) k t1) as [[d t2]|] eqn:E2; cbn [bind fst snd] in H; [|discriminate].
    rewrite (IH _ _ _ _ more E2). cbn [bind fst snd]. inversion H; subst. reflexivity.
Qed.

Lemma frames_permute {T} (x : list T) : frames (permute x).
Proof.
  intros t r t' more H. unfold permute in *.
  destruct (draws_from _ _ t) as [[d t1]|] eqn:E; cbn [bind fst snd] in H; [|discriminate].
  rewrite (frames_draws_from _ _ _ _ _ more E). cbn [bind fst snd]. inversion H; subst. reflexivity.
Qed.
Lemma frames_pyshuffle {T} (x : list T) : frames (pyshuffle x).
Proof.
  intros t r t' more H. unfold pyshuffle in *.
  destruct (draws_from _ _ t) as [[d t1]|] eqn:E; cbn [bind fst snd] in H; [|discriminate].
  rewrite (frames_draws_from _ _ _ _ _ more E). cbn [bind fst snd]. inversion H; subst. reflexivity.
Qed.
Lemma frames_sample_all {T} (x : list T) : frames (sample_all x).
Proof.
  intros t r t' more H. unfold sample_all in *.
  destruct (draws_from _ _ t) as [[d t1]|] eqn:E; cbn [bind fst snd] in H; [|discriminate].
  rewrite (frames_draws_from _ _ _ _ _ more E). cbn [bind fst snd]. inversion H; subst. reflexivity.
Qed.
Lemma frames_choice {T} (x0 : T) (l : list T) : frames (choice x0 l).
Proof.
  intros t r t' more H. unfold choice in *. destruct l as [|a l]; [discriminate|].
  destruct (draw _ t) as [[i t1]|] eqn:E; cbn [bind fst snd] in H; [|discriminate].
  rewrite (frames_draw _ _ _ _ more E). cbn [bind fst snd]. inversion H; subst. reflexivity.
Qed.
Lemma frames_bits : forall n, frames (bits n).
Proof.
  induction n as [|n IH]; intros t r t' more H; cbn [bits] in *.
  - inversion H; subst. reflexivity.
  - destruct (draw 2 t) as [[a t1]|] eqn:E; cbn [bind fst snd] in H; [|discriminate].
    rewrite (frames_draw 2 _ _ _ more E). cbn [bind fst snd].
    destruct (bits n t1) as [[d t2]|] eqn:E2; cbn [bind fst snd] in H; [|discriminate].
    rewrite (IH _ _ _ more E2). cbn [bind fst snd]. inversion H; subst. reflexivity.
Qed.

(* ---- repetition loops ---- *)
Lemma frames_perm_loop {T} (x : list T) : forall reps, frames (perm_loop x reps).
Proof.
  induction reps as [|reps IH]; intros t r t' more H; cbn [perm_loop] in *.
  - inversion H; subst. reflexivity.
  - destruct (permute x t) as [[y t1]|] eqn:E; cbn [bind fst snd] in H; [|discriminate].
    rewrite (frames_permute x _ _ _ more E). cbn [bind fst snd].
    destruct (perm_loop x reps t1) as [[ys t2]|] eqn:E2; cbn [bind fst snd] in H; [|discriminate].
    rewrite (IH _ _ _ more E2). cbn [bind fst snd]. inversion H; subst. reflexivity.
Qed.

Lemma core_loop_frame s pot nx : forall reps rr t d ar t' more,
  core_loop s pot nx rr reps t = Ok (d, ar, t') -> core_loop s pot nx rr reps (t ++ more) = Ok (d, ar, t' ++ more).
Proof.
  induction reps as [|reps IH]; intros rr t d ar t' more H; cbn [core_loop] in *.
  - inversion H; subst. reflexivity.
  - destruct (pyshuffle rr t) as [[rr1 t1]|] eqn:E; cbn [bind fst snd] in H; [|discriminate].
    rewrite (frames_pyshuffle rr _ _ _ more E). cbn [bind fst snd].
    destruct (core_loop s pot nx rr1 reps t1) as [[[d1 a1] t2]|] eqn:E2; cbn [bind fst snd] in H; [|discriminate].
    rewrite (IH _ _ _ _ _ more E2). cbn [bind fst snd]. inversion H; subst. reflexivity.
Qed.

Lemma one_loop_frame s z : forall reps t d ar t' more,
  one_loop s z reps t = Ok (d, ar, t') -> one_loop s z reps (t ++ more) = Ok (d, ar, t' ++ more).
Proof.
  induction reps as [|reps IH]; intros t d ar t' more H; cbn [one_loop] in *.
  - inversion H; subst. reflexivity.
  - destruct (bits (length z) t) as [[b t1]|] eqn:E; cbn [bind fst snd] in H; [|discriminate].
    rewrite (frames_bits _ _ _ _ more E). cbn [bind fst snd].
    destruct (one_loop s z reps t1) as [[[d1 a1] t2]|] eqn:E2; cbn [bind fst snd] in H; [|discriminate].
    rewrite (IH _ _ _ _ more E2). cbn [bind fst snd]. inversion H; subst. reflexivity.
Qed.

(* ---- the tests: same p-value, statistic, distribution and rearrangements; the rest of the tape is carried along ---- *)
Definition with_rest (r : test_out) (t : tape) : test_out :=
  {| pval := pval r; tstat := tstat r; dist := dist r; arrs := arrs r; rest := t |}.

Theorem two_sample_core_frame s pot nx a reps plus1 t r more :
  two_sample_core s pot nx a reps plus1 t = Ok r ->
  two_sample_core s pot nx a reps plus1 (t ++ more) = Ok (with_rest r (rest r ++ more)).
Proof.
  unfold two_sample_core. intros H.
  destruct (core_loop _ _ _ _ _ t) as [[[d ar] t1]|] eqn:E; cbn [bind fst snd] in H; [|discriminate].
  rewrite (core_loop_frame _ _ _ _ _ _ _ _ _ more E). cbn [bind fst snd]. inversion H; subst. reflexivity.
Qed.

Theorem one_sample_frame x y s a reps plus1 t r more :
  one_sample x y s a reps plus1 t = Ok r ->
  one_sample x y s a reps plus1 (t ++ more) = Ok (with_rest r (rest r ++ more)).
Proof.
  unfold one_sample. intros H.
  destruct (match y with None => Ok x | Some yy => _ end) as [z|]; cbn [bind] in *; [|discriminate].
  destruct (one_loop _ _ _ t) as [[[d ar] t1]|] eqn:E; cbn [bind fst snd] in H; [|discriminate].
  rewrite (one_loop_frame _ _ _ _ _ _ _ more E). cbn [bind fst snd]. inversion H; subst. reflexivity.
Qed.

Theorem k_sample_frame x g s reps plus1 t p tst d ar t' more :
  k_sample x g s reps plus1 t = Ok (p, tst, d, ar, t') ->
  k_sample x g s reps plus1 (t ++ more) = Ok (p, tst, d, ar, t' ++ more).
Proof.
  unfold k_sample. intros H.
  destruct (perm_loop g reps t) as [[ys t1]|] eqn:E; cbn [bind fst snd] in H; [|discriminate].
  rewrite (frames_perm_loop g reps _ _ _ more E). cbn [bind fst snd]. inversion H; subst. reflexivity.
Qed.

(* ---- stratified helpers and tests ---- *)
Lemma pwg_loop_frame {T} (d : T) g : forall labels x t y t' more,
  pwg_loop d x g labels t = Ok (y, t') -> pwg_loop d x g labels (t ++ more) = Ok (y, t' ++ more).
Proof.
  induction labels as [|k ks IH]; intros x t y t' more H; cbn [pwg_loop] in *.
  - inversion H; subst. reflexivity.
  - destruct (permute _ t) as [[v t1]|] eqn:E; cbn [bind fst snd] in H; [|discriminate].
    rewrite (frames_permute _ _ _ _ more E). cbn [bind fst snd]. apply IH. exact H.
Qed.
Lemma frames_pwg {T} (d : T) x g : frames (permute_within_groups d x g).
Proof. intros t r t' more H. unfold permute_within_groups in *. apply pwg_loop_frame. exact H. Qed.

Lemma frames_pwg_reps {T} (d : T) x g : forall reps, frames (pwg_reps d x g reps).
Proof.
  induction reps as [|reps IH]; intros t r t' more H; cbn [pwg_reps] in *.
  - inversion H; subst. reflexivity.
  - destruct (permute_within_groups d x g t) as [[y t1]|] eqn:E; cbn [bind fst snd] in H; [|discriminate].
    rewrite (frames_pwg d x g _ _ _ more E). cbn [bind fst snd].
    destruct (pwg_reps d x g reps t1) as [[ys t2]|] eqn:E2; cbn [bind fst snd] in H; [|discriminate].
    rewrite (IH _ _ _ more E2). cbn [bind fst snd]. inversion H; subst. reflexivity.
Qed.

Lemma frames_permute_rows {T} : forall (m : list (list T)), frames (permute_rows m).
Proof.
  induction m as [|row rows IH]; intros t r t' more H; cbn [permute_rows] in *.
  - inversion H; subst. reflexivity.
  - destruct (permute row t) as [[y t1]|] eqn:E; cbn [bind fst snd] in H; [|discriminate].
    rewrite (frames_permute row _ _ _ more E). cbn [bind fst snd].
    destruct (permute_rows rows t1) as [[ys t2]|] eqn:E2; cbn [bind fst snd] in H; [|discriminate].
    rewrite (IH _ _ _ more E2). cbn [bind fst snd]. inversion H; subst. reflexivity.
Qed.

Lemma frames_rows_chain {T} : forall reps (m : list (list T)), frames (rows_chain m reps).
Proof.
  induction reps as [|reps IH]; intros m t r t' more H; cbn [rows_chain] in *.
  - inversion H; subst. reflexivity.
  - destruct (permute_rows m t) as [[y t1]|] eqn:E; cbn [bind fst snd] in H; [|discriminate].
    rewrite (frames_permute_rows m _ _ _ more E). cbn [bind fst snd].
    destruct (rows_chain y reps t1) as [[ys t2]|] eqn:E2; cbn [bind fst snd] in H; [|discriminate].
    rewrite (IH _ _ _ _ more E2). cbn [bind fst snd]. inversion H; subst. reflexivity.
Qed.

Theorem bivariate_k_sample_frame x g1 g2 reps plus1 t p tst d ar t' more :
  bivariate_k_sample x g1 g2 reps plus1 t = Ok (p, tst, d, ar, t') ->
  bivariate_k_sample x g1 g2 reps plus1 (t ++ more) = Ok (p, tst, d, ar, t' ++ more).
Proof.
  unfold bivariate_k_sample. intros H.
  destruct (pwg_reps _ _ _ reps t) as [[ys t1]|] eqn:E; cbn [bind fst snd] in H; [|discriminate].
  rewrite (frames_pwg_reps _ _ _ reps _ _ _ more E). cbn [bind fst snd]. inversion H; subst. reflexivity.
Qed.

Theorem s2s_callable_frame g c resp ord s a reps plus1 t p tst d ar t' more :
  s2s_callable g c resp ord s a reps plus1 t = Ok (p, tst, d, ar, t') ->
  s2s_callable g c resp ord s a reps plus1 (t ++ more) = Ok (p, tst, d, ar, t' ++ more).
Proof.
  unfold s2s_callable. intros H.
  destruct (pwg_reps _ _ _ reps t) as [[ys t1]|] eqn:E; cbn [bind fst snd] in H; [|discriminate].
  rewrite (frames_pwg_reps _ _ _ reps _ _ _ more E). cbn [bind fst snd]. inversion H; subst. reflexivity.
Qed.

(* ---- two calls in sequence on one generator: the second behaves as it does alone on what the first left ---- *)
Theorem calls_compose {A B} (f : tape -> result (A * tape)) (g : tape -> result (B * tape)) t1 t2 a b t3 :
  frames f -> f t1 = Ok (a, nil) -> g t2 = Ok (b, t3) ->
  bind (f (t1 ++ t2)) (fun at' => bind (g (snd at')) (fun bt => Ok (fst at', fst bt, snd bt))) = Ok (a, b, t3).
Proof.
  intros Ff Hf Hg. rewrite (Ff _ _ _ t2 Hf). cbn [bind fst snd app]. rewrite Hg. reflexivity.
Qed.
