(* C14: the two-sided p-value of the model is valid for every null parameter. *)
From Coq Require Import ZArith QArith Lia Lqa.
From PV Require Import Lib.Base Model.TailsZ Model.Pvalues Proofs.QLemmas.
From mathcomp Require Import all_ssreflect zify.
From PV Require Import Lib.Tails Lib.Binom Lib.TwoSided Proofs.PvaluesProofs Proofs.ConfIntProofs.
Local Open Scope nat_scope.
Set Implicit Arguments. Unset Strict Implicit. Unset Printing Implicit Defensive.

Lemma Qle_nat_div_iff (u v s t : nat) : 0 < s -> 0 < t ->
  (inject_Z (Z.of_nat u) / inject_Z (Z.of_nat s) <= inject_Z (Z.of_nat v) / inject_Z (Z.of_nat t))%Q <-> u * t <= v * s.
Proof.
move=> sp tp; split; last exact: Qle_nat_div.
case: s sp => // s _; case: t tp => // t _.
rewrite /Qle /Qdiv /Qmult /Qinv /inject_Z /= !Zpos_P_of_succ_nat. lia.
Qed.

(* two_sided pl pu <= a  iff  1 <= a or 2 pl <= a or 2 pu <= a *)
Lemma two_sided_le (pl pu a : Q) :
  (two_sided pl pu <= a)%Q <-> ((1 <= a)%Q \/ ((2 # 1) * pl <= a)%Q \/ ((2 # 1) * pu <= a)%Q).
Proof.
rewrite two_sided_def.
case: (Qmin_spec pl pu) => [[H1 ->]|[H1 ->]];
case: (Qmin_spec 1 ((2 # 1) * pl)) => [[H3 E]|[H3 E]]; rewrite ?E;
case: (Qmin_spec 1 ((2 # 1) * pu)) => [[H4 E']|[H4 E']]; rewrite ?E'; split; try (move=> [|[|]]); lra.
Qed.

Lemma one_le_div (c d : nat) : 0 < d -> (1 <= inject_Z (Z.of_nat c) / inject_Z (Z.of_nat d))%Q <-> d <= c.
Proof.
case: d => // d _; rewrite /Qle /Qdiv /Qmult /Qinv /inject_Z /= ?Zpos_P_of_succ_nat. split => H; lia.
Qed.
Lemma twice_le_div (u s c d : nat) : 0 < s -> 0 < d ->
  ((2 # 1) * (inject_Z (Z.of_nat u) / inject_Z (Z.of_nat s)) <= inject_Z (Z.of_nat c) / inject_Z (Z.of_nat d))%Q
  <-> 2 * u * d <= c * s.
Proof.
move=> sp dp.
have E : ((2 # 1) * (inject_Z (Z.of_nat u) / inject_Z (Z.of_nat s)) == inject_Z (Z.of_nat (2 * u)) / inject_Z (Z.of_nat s))%Q.
  by rewrite Nat2Z.inj_mul inject_Z_mult /Qdiv Qmult_assoc.
by rewrite E Qle_nat_div_iff.
Qed.

(* the boolean acceptance region used in the validity theorem IS "model two-sided p-value <= c/d" *)
Lemma two_accept_iff (lo up tot c d : nat) : 0 < tot -> 0 < d ->
  (two_sided (q_of (Z.of_nat lo) (Z.of_nat tot)) (q_of (Z.of_nat up) (Z.of_nat tot))
     <= inject_Z (Z.of_nat c) / inject_Z (Z.of_nat d))%Q <-> two_accept c d tot lo up.
Proof.
move=> tp dp; have tz : (0 < Z.of_nat tot)%Z by lia.
rewrite two_sided_le !q_of_eq // one_le_div // !twice_le_div // /two_accept.
split.
- case=> [->|[H|H]] //; apply/orP; right.
  + apply: leq_trans H; rewrite !leq_mul2r; apply/orP; right; rewrite leq_mul2l geq_minl; exact/orP/or_intror.
  + apply: leq_trans H; rewrite !leq_mul2r; apply/orP; right; rewrite leq_mul2l geq_minr; exact/orP/or_intror.
- case/orP => [->|H]; first by left.
  right; case: (leqP lo up) => lu; [left|right]; move: H.
  + by rewrite (minn_idPl lu).
  + by rewrite (minn_idPr (ltnW lu)).
Qed.

(* validity: total weight of the outcomes whose two-sided p-value is <= c/d is at most c/d of the total *)
Theorem hyper_two_sided_valid N G n c d : G <= N -> mass2 c d (whyper N G n) * d <= c * 'C(N, n).
Proof. by move=> GN; have := mass2_le (whyper N G n) c d; rewrite whyper_total. Qed.
Theorem binom_two_sided_valid n a b c d : mass2 c d (wbinom n a b) * d <= c * (a + b) ^ n.
Proof. by have := mass2_le (wbinom n a b) c d; rewrite wbinom_total. Qed.
