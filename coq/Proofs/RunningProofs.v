(* adjust_p (C11): the running maximum / minimum along ANY sorting permutation of the p-values returns the
   sort-free textbook values -- ties may be ranked in any order without changing the result. *)
From PV Require Import Lib.Base Model.Adjust Proofs.QLemmas Proofs.AdjustProofs.
From Coq Require Import Lqa Lia.
Open Scope Q_scope.

Lemma set_nth_length {A} (l : list A) i v : length (set_nth l i v) = length l.
Proof. revert i; induction l as [|a l IH]; intros [|i]; cbn; try reflexivity. f_equal. apply IH. Qed.
Lemma nth_set_nth_eq {A} (l : list A) i v d : (i < length l)%nat -> nth i (set_nth l i v) d = v.
Proof. revert i; induction l as [|a l IH]; intros [|i] H; cbn in *; try lia; [reflexivity|apply IH; lia]. Qed.
Lemma nth_set_nth_neq {A} (l : list A) i j v d : i <> j -> nth j (set_nth l i v) d = nth j l d.
Proof.
  revert i j; induction l as [|a l IH]; intros [|i] [|j] H; cbn; try reflexivity; try congruence.
  apply IH. congruence.
Qed.

Section Run.
Variable op : Q -> Q -> Q.
Variable base : list Q.

Definition stepf (st : nat * list Q) (i : nat) : nat * list Q :=
  let '(prev, arr) := st in (i, set_nth arr i (op (nth prev arr 0) (nth i arr 0))).

(* the values written along the list, given the value at the previous position *)
Fixpoint pm (pv : Q) (l : list nat) : list Q :=
  match l with [] => [] | i :: t => let v := op pv (nth i base 0) in v :: pm v t end.

Lemma fold_rest : forall t prev arr,
  NoDup (prev :: t) -> (forall i, In i (prev :: t) -> (i < length arr)%nat) ->
  (forall i, In i t -> nth i arr 0 = nth i base 0) ->
  let r := fold_left stepf t (prev, arr) in
  (forall k, (k < length t)%nat -> nth (nth k t 0%nat) (snd r) 0 = nth k (pm (nth prev arr 0) t) 0) /\
  (forall j, ~ In j t -> nth j (snd r) 0 = nth j arr 0) /\ length (snd r) = length arr.
Proof.
  induction t as [|i t IH]; intros prev arr Hnd Hr Hb; cbn [fold_left].
  - cbn. repeat split; intros; try lia; reflexivity.
  - inversion Hnd as [|? ? Hp Hnd']; subst. inversion Hnd' as [|? ? Hi Hnd'']; subst.
    assert (Hpi : prev <> i) by (intros ->; apply Hp; left; reflexivity).
    set (v := op (nth prev arr 0) (nth i arr 0)).
    set (arr1 := set_nth arr i v).
    assert (L1 : length arr1 = length arr) by apply set_nth_length.
    assert (Hi_r : (i < length arr)%nat) by (apply Hr; right; left; reflexivity).
    specialize (IH i arr1).
    assert (Hnd1 : NoDup (i :: t)) by exact Hnd'.
    assert (Hr1 : forall j, In j (i :: t) -> (j < length arr1)%nat) by (intros j Hj; rewrite L1; apply Hr; right; exact Hj).
    assert (Hb1 : forall j, In j t -> nth j arr1 0 = nth j base 0).
    { intros j Hj. unfold arr1. rewrite nth_set_nth_neq; [apply Hb; right; exact Hj|]. intros ->. apply Hi. exact Hj. }
    destruct (IH Hnd1 Hr1 Hb1) as [I1 [I2 I3]]. cbn zeta in *.
    assert (Ev : nth i arr1 0 = v) by (unfold arr1; apply nth_set_nth_eq; exact Hi_r).
    assert (Evb : v = op (nth prev arr 0) (nth i base 0)) by (unfold v; rewrite (Hb i) by (left; reflexivity); reflexivity).
    change (fold_left stepf t (stepf (prev, arr) i)) with (fold_left stepf t (i, arr1)).
    repeat split.
    + intros k Hk. destruct k as [|k]; cbn [nth pm].
      * rewrite I2 by exact Hi. rewrite Ev. exact Evb.
      * rewrite I1 by (cbn in Hk; lia). rewrite Ev, Evb. reflexivity.
    + intros j Hj. rewrite I2 by (intros F; apply Hj; right; exact F).
      unfold arr1. apply nth_set_nth_neq. intros ->. apply Hj. left; reflexivity.
    + rewrite I3. exact L1.
Qed.

(* the whole pass: position ord[k] ends with the k-th running value, started from base[ord[0]] *)
Lemma running_values ord : NoDup ord -> (forall i, In i ord -> (i < length base)%nat) ->
  forall k, (k < length ord)%nat ->
  nth (nth k ord 0%nat) (running op ord base) 0 = nth k (pm (nth (hd 0%nat ord) base 0) ord) 0.
Proof.
  destruct ord as [|i0 t]; intros Hnd Hr k Hk; [cbn in Hk; lia|].
  unfold running. cbn [fold_left hd].
  change (fun (st : nat * list Q) (i : nat) => let '(prev, arr) := st in (i, set_nth arr i (op (nth prev arr 0) (nth i arr 0)))) with stepf.
  set (v := op (nth i0 base 0) (nth i0 base 0)). set (arr1 := set_nth base i0 v).
  change (stepf (i0, base) i0) with (i0, arr1).
  assert (Hi0 : (i0 < length base)%nat) by (apply Hr; left; reflexivity).
  assert (L1 : length arr1 = length base) by apply set_nth_length.
  inversion Hnd as [|? ? Hn0 Hnd']; subst.
  assert (Hb1 : forall j, In j t -> nth j arr1 0 = nth j base 0).
  { intros j Hj. unfold arr1. apply nth_set_nth_neq. intros ->. apply Hn0. exact Hj. }
  assert (Hr1 : forall j, In j (i0 :: t) -> (j < length arr1)%nat) by (intros j Hj; rewrite L1; apply Hr; exact Hj).
  destruct (fold_rest t i0 arr1 Hnd Hr1 Hb1) as [I1 [I2 I3]]. cbn zeta in *.
  assert (Ev : nth i0 arr1 0 = v) by (unfold arr1; apply nth_set_nth_eq; exact Hi0).
  destruct k as [|k]; cbn [nth pm].
  - rewrite I2 by exact Hn0. exact Ev.
  - rewrite I1 by (cbn in Hk; lia). rewrite Ev. reflexivity.
Qed.
End Run.

(* ---- running maximum: value k is an upper bound of, and bounded by any bound of, base[l_0..l_k] and pv ---- *)
Lemma pm_max_upper base : forall l pv k s, (s <= k < length l)%nat ->
  nth (nth s l 0%nat) base 0 <= nth k (pm Qmax base pv l) 0 /\ pv <= nth k (pm Qmax base pv l) 0.
Proof.
  induction l as [|i t IH]; intros pv k s H; cbn in H; [lia|].
  cbn [pm]. set (v := Qmax pv (nth i base 0)).
  assert (Hv : pv <= v /\ nth i base 0 <= v) by (unfold v; destruct (Qmax_spec pv (nth i base 0)) as [[H1 ->]|[H1 ->]]; lra).
  destruct k as [|k]; cbn [nth].
  - assert (s = 0%nat) by lia. subst. cbn. tauto.
  - destruct s as [|s]; cbn [nth].
    + destruct (IH v k 0%nat ltac:(lia)) as [_ I2]. lra.
    + destruct (IH v k s ltac:(lia)) as [I1 I2]. lra.
Qed.
Lemma pm_max_bound base : forall l pv k b, (k < length l)%nat -> pv <= b ->
  (forall s, (s <= k)%nat -> nth (nth s l 0%nat) base 0 <= b) -> nth k (pm Qmax base pv l) 0 <= b.
Proof.
  induction l as [|i t IH]; intros pv k b Hk Hpv Hb; cbn in Hk; [lia|].
  cbn [pm]. set (v := Qmax pv (nth i base 0)).
  assert (Hv : v <= b).
  { unfold v. pose proof (Hb 0%nat ltac:(lia)) as H0. cbn in H0. destruct (Qmax_spec pv (nth i base 0)) as [[H1 ->]|[H1 ->]]; lra. }
  destruct k as [|k]; cbn [nth]; [exact Hv|].
  apply IH; [lia|exact Hv|]. intros s Hs. apply (Hb (S s)). lia.
Qed.
(* running minimum: mirror image *)
Lemma pm_min_lower base : forall l pv k s, (s <= k < length l)%nat ->
  nth k (pm Qmin base pv l) 0 <= nth (nth s l 0%nat) base 0 /\ nth k (pm Qmin base pv l) 0 <= pv.
Proof.
  induction l as [|i t IH]; intros pv k s H; cbn in H; [lia|].
  cbn [pm]. set (v := Qmin pv (nth i base 0)).
  assert (Hv : v <= pv /\ v <= nth i base 0) by (unfold v; destruct (Qmin_spec pv (nth i base 0)) as [[H1 ->]|[H1 ->]]; lra).
  destruct k as [|k]; cbn [nth].
  - assert (s = 0%nat) by lia. subst. cbn. tauto.
  - destruct s as [|s]; cbn [nth].
    + destruct (IH v k 0%nat ltac:(lia)) as [_ I2]. lra.
    + destruct (IH v k s ltac:(lia)) as [I1 I2]. lra.
Qed.
Lemma pm_min_bound base : forall l pv k b, (k < length l)%nat -> b <= pv ->
  (forall s, (s <= k)%nat -> b <= nth (nth s l 0%nat) base 0) -> b <= nth k (pm Qmin base pv l) 0.
Proof.
  induction l as [|i t IH]; intros pv k b Hk Hpv Hb; cbn in Hk; [lia|].
  cbn [pm]. set (v := Qmin pv (nth i base 0)).
  assert (Hv : b <= v).
  { unfold v. pose proof (Hb 0%nat ltac:(lia)) as H0. cbn in H0. destruct (Qmin_spec pv (nth i base 0)) as [[H1 ->]|[H1 ->]]; lra. }
  destruct k as [|k]; cbn [nth]; [exact Hv|].
  apply IH; [lia|exact Hv|]. intros s Hs. apply (Hb (S s)). lia.
Qed.

(* ---- what is_sorting_perm gives ---- *)
Lemma mem_nat_In i l : mem_nat i l = true <-> In i l.
Proof.
  induction l as [|j l IH]; cbn; [split; [discriminate|intros []]|].
  rewrite orb_true_iff, Nat.eqb_eq, IH. split; intros [H|H]; auto.
Qed.
Lemma nodup_nat_NoDup l : nodup_nat l = true -> NoDup l.
Proof.
  induction l as [|i l IH]; cbn; [constructor|]. rewrite andb_true_iff, negb_true_iff. intros [H1 H2].
  constructor; [|apply IH; exact H2]. intros F. apply mem_nat_In in F. congruence.
Qed.
Lemma sorted_along_le p : forall ord s k, sorted_along p ord = true -> (s <= k < length ord)%nat ->
  nth (nth s ord 0%nat) p 0 <= nth (nth k ord 0%nat) p 0.
Proof.
  induction ord as [|i t IH]; intros s k H Hk; cbn in Hk; [lia|].
  destruct t as [|j t'].
  - assert (s = 0%nat /\ k = 0%nat) as [-> ->] by (cbn in Hk; lia). lra.
  - cbn [sorted_along] in H. apply andb_true_iff in H as [H1 H2]. apply Qle_bool_iff in H1.
    destruct k as [|k]; [assert (s = 0%nat) by lia; subst; lra|].
    destruct s as [|s]; cbn [nth].
    + specialize (IH 0%nat k H2 ltac:(cbn [length] in *; lia)). cbn [nth] in IH. lra.
    + apply (IH s k H2). cbn [length] in *. lia.
Qed.

Record sorting (p : list Q) (ord : list nat) : Prop := {
  s_len : length ord = length p;
  s_rng : forall i, In i ord -> (i < length p)%nat;
  s_nd : NoDup ord;
  s_srt : sorted_along p ord = true;
  s_cov : forall j, (j < length p)%nat -> exists s, (s < length ord)%nat /\ nth s ord 0%nat = j }.

Lemma is_sorting_perm_sorting p ord : is_sorting_perm p ord = true -> sorting p ord.
Proof.
  unfold is_sorting_perm. rewrite !andb_true_iff. intros [[[H1 H2] H3] H4].
  apply Nat.eqb_eq in H1. rewrite forallb_forall in H2. pose proof (nodup_nat_NoDup _ H3) as Hnd.
  assert (Hr : forall i, In i ord -> (i < length p)%nat) by (intros i Hi; apply Nat.ltb_lt; apply H2; exact Hi).
  constructor; try assumption.
  intros j Hj.
  assert (Hincl : incl (seq 0 (length p)) ord).
  { apply NoDup_length_incl; [exact Hnd|rewrite seq_length; lia|].
    intros i Hi. apply in_seq. specialize (Hr i Hi). lia. }
  assert (Hin : In j ord) by (apply Hincl; apply in_seq; lia).
  apply In_nth with (d := 0%nat) in Hin. destruct Hin as [s [Hs Es]]. exists s. split; assumption.
Qed.

Lemma Qmin_compat_l a b c : a == b -> Qmin a c == Qmin b c.
Proof. intros E. destruct (Qmin_spec a c) as [[H1 ->]|[H1 ->]]; destruct (Qmin_spec b c) as [[H2 ->]|[H2 ->]]; lra. Qed.

(* ---- the model's base values are the textbook terms ---- *)
Lemma count_compl (f : Q -> bool) (p : list Q) :
  (count f p + count (fun y => negb (f y)) p = length p)%nat.
Proof. unfold count. induction p as [|a p IH]; cbn; [reflexivity|]. destruct (f a); cbn; lia. Qed.

Lemma holm_base_eq p x :
  qcap (x * (qn (length p) - qn (rank_min p x) + 1)) == holm_term p x.
Proof.
  unfold holm_term, rank_min.
  pose proof (count_compl (fun y => Qle_bool x y) p) as E.
  assert (Eq : qn (length p) == qn (count (fun y => Qle_bool x y) p) + qn (count (fun y => negb (Qle_bool x y)) p))
    by (rewrite <- qn_plus, E; reflexivity).
  assert (ES : qn (S (count (fun y => negb (Qle_bool x y)) p)) == qn (count (fun y => negb (Qle_bool x y)) p) + 1).
  { unfold qn. rewrite Nat2Z.inj_succ. unfold Z.succ. rewrite inject_Z_plus. reflexivity. }
  unfold qcap. apply Qmin_compat_l. rewrite ES, Eq. ring.
Qed.

Lemma bh_base_eq p x : In x p ->
  qcap (x * (qn (length p) / qn (rank_max p x))) == bh_term p x.
Proof.
  intros Hin. unfold bh_term, rank_max. unfold qcap. apply Qmin_compat_l.
  assert (Hr : (1 <= count (fun y => Qle_bool y x) p)%nat).
  { apply (count_pos (fun y => Qle_bool y x) p x Hin). apply Qle_bool_iff. apply Qle_refl. }
  pose proof (qn_pos _ Hr). field. lra.
Qed.

(* ---- terms respect equality of rationals ---- *)
Lemma count_Qle_compat_r p x y : x == y -> count (fun z => Qle_bool x z) p = count (fun z => Qle_bool y z) p.
Proof.
  intros E. unfold count. induction p as [|a p IH]; [reflexivity|]. cbn [filter].
  assert (Qle_bool x a = Qle_bool y a).
  { destruct (Qle_bool x a) eqn:E1; destruct (Qle_bool y a) eqn:E2; try reflexivity.
    - apply Qle_bool_iff in E1. rewrite E in E1. apply Qle_bool_iff in E1. congruence.
    - apply Qle_bool_iff in E2. rewrite <- E in E2. apply Qle_bool_iff in E2. congruence. }
  rewrite H. destruct (Qle_bool y a); cbn [length]; rewrite IH; reflexivity.
Qed.
Lemma count_Qle_compat_l p x y : x == y -> count (fun z => Qle_bool z x) p = count (fun z => Qle_bool z y) p.
Proof.
  intros E. unfold count. induction p as [|a p IH]; [reflexivity|]. cbn [filter].
  assert (Qle_bool a x = Qle_bool a y).
  { destruct (Qle_bool a x) eqn:E1; destruct (Qle_bool a y) eqn:E2; try reflexivity.
    - apply Qle_bool_iff in E1. rewrite E in E1. apply Qle_bool_iff in E1. congruence.
    - apply Qle_bool_iff in E2. rewrite <- E in E2. apply Qle_bool_iff in E2. congruence. }
  rewrite H. destruct (Qle_bool a y); cbn [length]; rewrite IH; reflexivity.
Qed.
Lemma holm_term_compat p x y : x == y -> holm_term p x == holm_term p y.
Proof. intros E. unfold holm_term. rewrite (count_Qle_compat_r p x y E). unfold qcap. apply Qmin_compat_l. rewrite E. reflexivity. Qed.
Lemma bh_term_compat p x y : x == y -> bh_term p x == bh_term p y.
Proof. intros E. unfold bh_term. rewrite (count_Qle_compat_l p x y E). unfold qcap. apply Qmin_compat_l. rewrite E. reflexivity. Qed.

Lemma nth_map_in {A B} (f : A -> B) (l : list A) i (da : A) (db : B) : (i < length l)%nat ->
  nth i (map f l) db = f (nth i l da).
Proof. intros H. rewrite (nth_indep _ db (f da)) by (rewrite map_length; exact H). apply map_nth. Qed.

(* ---- Holm: running maximum along any sorting permutation = sort-free textbook value ---- *)
Theorem holm_running_eq_spec p ord : sorting p ord -> (forall y, In y p -> 0 <= y) ->
  forall j, (j < length p)%nat ->
  nth j (running Qmax ord (map (fun x => qcap (x * (qn (length p) - qn (rank_min p x) + 1))) p)) 0
  == holm_val p (nth j p 0).
Proof.
  intros S Hp j Hj. destruct S as [Hlen Hrng Hnd Hsrt Hcov].
  set (base := map (fun x => qcap (x * (qn (length p) - qn (rank_min p x) + 1))) p).
  assert (Lb : length base = length p) by (unfold base; apply map_length).
  assert (Hbase : forall i, (i < length p)%nat -> nth i base 0 == holm_term p (nth i p 0)).
  { intros i Hi. unfold base. rewrite (nth_map_in _ p i 0 0 Hi). apply holm_base_eq. }
  destruct (Hcov j Hj) as [k [Hk Ek]]. rewrite <- Ek.
  assert (Hrng' : forall i, In i ord -> (i < length base)%nat) by (intros i Hi; rewrite Lb; apply Hrng; exact Hi).
  rewrite (running_values Qmax base ord Hnd Hrng' k Hk).
  set (x := nth (nth k ord 0%nat) p 0).
  assert (Hord_in : forall s, (s < length ord)%nat -> (nth s ord 0%nat < length p)%nat) by (intros s Hs; apply Hrng; apply nth_In; exact Hs).
  assert (H0 : (0 < length ord)%nat) by lia.
  assert (Hhd : hd 0%nat ord = nth 0 ord 0%nat) by (destruct ord; reflexivity).
  rewrite Hhd.
  apply Qle_antisym.
  - (* running value <= spec *)
    assert (Hle : forall s, (s <= k)%nat -> nth (nth s ord 0%nat) base 0 <= holm_val p x).
    { intros s Hs. rewrite (Hbase _ (Hord_in s ltac:(lia))). unfold holm_val. apply qmaxl_ge. apply in_map.
      apply filter_In. split; [apply nth_In; apply Hord_in; lia|].
      apply Qle_bool_iff. apply (sorted_along_le p ord s k Hsrt). lia. }
    apply pm_max_bound; [exact Hk|apply (Hle 0%nat); lia|exact Hle].
  - (* spec <= running value *)
    set (P := nth k (pm Qmax base (nth (nth 0 ord 0%nat) base 0) ord) 0).
    assert (HU : forall s, (s <= k)%nat -> nth (nth s ord 0%nat) base 0 <= P).
    { intros s Hs. apply (pm_max_upper base ord _ k s). lia. }
    assert (HP0 : 0 <= P).
    { apply Qle_trans with (nth (nth k ord 0%nat) base 0); [|apply HU; lia].
      rewrite (Hbase _ (Hord_in k Hk)). apply holm_term_nonneg. apply Hp. apply nth_In. apply Hord_in. exact Hk. }
    unfold holm_val. apply qmaxl_le; [exact HP0|].
    intros v Hv. apply in_map_iff in Hv as [y [<- Hy]]. apply filter_In in Hy as [Hyin Hyx]. apply Qle_bool_iff in Hyx.
    apply (In_nth _ _ 0) in Hyin. destruct Hyin as [j' [Hj' Ey]].
    destruct (Hcov j' Hj') as [s [Hs Es]].
    destruct (Nat.le_gt_cases s k) as [Hsk|Hsk].
    + rewrite <- Ey, <- Es. rewrite <- (Hbase _ (Hord_in s Hs)). apply HU. exact Hsk.
    + assert (Hxy : x <= y).
      { rewrite <- Ey, <- Es. unfold x. apply (sorted_along_le p ord k s Hsrt). lia. }
      assert (Exy : y == x) by (apply Qle_antisym; assumption).
      rewrite (holm_term_compat p y x Exy). unfold x. rewrite <- (Hbase _ (Hord_in k Hk)). apply HU. lia.
Qed.

(* ---- Benjamini-Hochberg: running minimum along the reversed sorting permutation ---- *)
Lemma rev_sorting_desc p ord : sorting p ord -> forall s k, (s <= k < length ord)%nat ->
  nth (nth k (rev ord) 0%nat) p 0 <= nth (nth s (rev ord) 0%nat) p 0.
Proof.
  intros Hsrt0 s k H. rewrite !rev_nth by lia.
  apply (sorted_along_le p ord _ _ (s_srt p ord Hsrt0)). lia.
Qed.
Lemma rev_cov p ord : sorting p ord -> forall j, (j < length p)%nat ->
  exists s, (s < length (rev ord))%nat /\ nth s (rev ord) 0%nat = j.
Proof.
  intros Hsrt0 j Hj. destruct (s_cov p ord Hsrt0 j Hj) as [s [Hs Es]].
  exists (length ord - 1 - s)%nat. rewrite rev_length. split; [lia|].
  rewrite rev_nth by lia. replace (length ord - S (length ord - 1 - s))%nat with s by lia. exact Es.
Qed.

Theorem bh_running_eq_spec p ord : sorting p ord -> (forall y, In y p -> 0 <= y) ->
  forall j, (j < length p)%nat ->
  nth j (running Qmin (rev ord) (map (fun x => qcap (x * (qn (length p) / qn (rank_max p x)))) p)) 0
  == bh_val p (nth j p 0).
Proof.
  intros Hsrt0 Hp j Hj. pose proof Hsrt0 as [Hlen Hrng Hnd Hsrt Hcov].
  set (base := map (fun x => qcap (x * (qn (length p) / qn (rank_max p x)))) p).
  set (ro := rev ord).
  assert (Lb : length base = length p) by (unfold base; apply map_length).
  assert (Lro : length ro = length ord) by (unfold ro; apply rev_length).
  assert (Hbase : forall i, (i < length p)%nat -> nth i base 0 == bh_term p (nth i p 0)).
  { intros i Hi. unfold base. rewrite (nth_map_in _ p i 0 0 Hi). apply bh_base_eq. apply nth_In. exact Hi. }
  destruct (rev_cov p ord Hsrt0 j Hj) as [k [Hk Ek]]. fold ro in Hk, Ek. rewrite <- Ek.
  assert (Hnd' : NoDup ro) by (unfold ro; apply NoDup_rev; exact Hnd).
  assert (Hrng' : forall i, In i ro -> (i < length base)%nat).
  { intros i Hi. rewrite Lb. apply Hrng. unfold ro in Hi. apply in_rev. exact Hi. }
  rewrite (running_values Qmin base ro Hnd' Hrng' k Hk).
  set (x := nth (nth k ro 0%nat) p 0).
  assert (Hord_in : forall s, (s < length ro)%nat -> (nth s ro 0%nat < length p)%nat).
  { intros s Hs. rewrite <- Lb. apply Hrng'. apply nth_In. exact Hs. }
  assert (Hhd : hd 0%nat ro = nth 0 ro 0%nat) by (destruct ro; reflexivity).
  rewrite Hhd.
  assert (Hdesc : forall s k', (s <= k' < length ro)%nat -> nth (nth k' ro 0%nat) p 0 <= nth (nth s ro 0%nat) p 0).
  { intros s k' H. unfold ro. apply (rev_sorting_desc p ord Hsrt0). rewrite <- Lro. exact H. }
  apply Qle_antisym.
  - (* running value <= spec *)
    set (P := nth k (pm Qmin base (nth (nth 0 ro 0%nat) base 0) ro) 0).
    assert (HL : forall s, (s <= k)%nat -> P <= nth (nth s ro 0%nat) base 0).
    { intros s Hs. apply (pm_min_lower base ro _ k s). lia. }
    assert (HP1 : P <= 1).
    { apply Qle_trans with (nth (nth k ro 0%nat) base 0); [apply HL; lia|].
      rewrite (Hbase _ (Hord_in k Hk)). unfold bh_term. apply qcap_le1. }
    unfold bh_val. apply qminl_ge; [exact HP1|].
    intros v Hv. apply in_map_iff in Hv as [y [<- Hy]]. apply filter_In in Hy as [Hyin Hxy]. apply Qle_bool_iff in Hxy.
    apply (In_nth _ _ 0) in Hyin. destruct Hyin as [j' [Hj' Ey]].
    destruct (rev_cov p ord Hsrt0 j' Hj') as [s [Hs Es]]. fold ro in Hs, Es.
    destruct (Nat.le_gt_cases s k) as [Hsk|Hsk].
    + rewrite <- Ey, <- Es. rewrite <- (Hbase _ (Hord_in s Hs)). apply HL. exact Hsk.
    + assert (Hyx : y <= x).
      { rewrite <- Ey, <- Es. unfold x. apply (Hdesc k s). lia. }
      assert (Exy : y == x) by (apply Qle_antisym; assumption).
      rewrite (bh_term_compat p y x Exy). unfold x. rewrite <- (Hbase _ (Hord_in k Hk)). apply HL. lia.
  - (* spec <= running value *)
    assert (Hge : forall s, (s <= k)%nat -> bh_val p x <= nth (nth s ro 0%nat) base 0).
    { intros s Hs. rewrite (Hbase _ (Hord_in s ltac:(lia))). unfold bh_val. apply qminl_le. apply in_map.
      apply filter_In. split; [apply nth_In; apply Hord_in; lia|].
      apply Qle_bool_iff. unfold x. apply (Hdesc s k). lia. }
    apply pm_min_bound; [exact Hk|apply (Hge 0%nat); lia|exact Hge].
Qed.

(* ---- the model of adjust_p returns the textbook values, for EVERY sorting permutation ---- *)
Theorem adjust_p_eq_textbook p ord : is_sorting_perm p ord = true -> (forall y, In y p -> 0 <= y) ->
  forall j, (j < length p)%nat ->
  (exists l, adjust_p p ord Holm = Ok l /\ nth j l 0 == holm_val p (nth j p 0)) /\
  (exists l, adjust_p p ord BH = Ok l /\ nth j l 0 == bh_val p (nth j p 0)) /\
  (exists l, adjust_p p ord Bonferroni = Ok l /\ nth j l 0 == bonf_val p (nth j p 0)).
Proof.
  intros H Hp j Hj. pose proof (is_sorting_perm_sorting p ord H) as Hsrt0.
  split; [|split].
  - eexists. split; [reflexivity|]. apply holm_running_eq_spec; assumption.
  - eexists. split; [reflexivity|]. apply bh_running_eq_spec; assumption.
  - eexists. split; [reflexivity|]. rewrite (nth_map_in _ p j 0 0 Hj). unfold bonf_val, qcap. apply Qmin_compat_l. ring.
Qed.
