(* C01 / C04: two-sample ALLOCATIONS are equally likely.  Of the n! orders of the units, exactly k!(n-k)! put a
   given k-subset A in the first k places -- the same number for every A -- so a uniform order induces the uniform
   law on the C(n,k) allocations, and pstar of the binomial law can be read as
   (#extreme allocations) / C(n,k) for statistics that depend on the allocation only. *)
From mathcomp Require Import all_ssreflect.
Set Implicit Arguments. Unset Strict Implicit. Unset Printing Implicit Defensive.

Section Alloc.
Variable T : eqType.

Lemma split_by (l A : seq T) : uniq l -> uniq A -> {subset A <= l} ->
  perm_eq l (A ++ [seq x <- l | x \notin A]).
Proof.
move=> Ul UA sub.
rewrite -(perm_filterC (mem A) l) perm_cat2r.
apply: uniq_perm => //; first exact: filter_uniq.
by move=> x; rewrite mem_filter /= andbC; case xA: (x \in A); rewrite ?andbF // (sub _ xA).
Qed.

Theorem alloc_count (l A : seq T) k : uniq l -> uniq A -> {subset A <= l} -> size A = k ->
  count (fun p => perm_eq (take k p) A) (permutations l) = k`! * (size l - k)`!.
Proof.
move=> Ul UA sub szA.
set B := [seq x <- l | x \notin A].
have lAB : perm_eq l (A ++ B) by exact: split_by.
have UB : uniq B by exact: filter_uniq.
have szB : size B = size l - k by rewrite (perm_size lAB) size_cat szA addKn.
set S' := [seq a ++ b | a <- permutations A, b <- permutations B].
have US' : uniq S'.
  apply: allpairs_uniq; rewrite ?permutations_uniq //.
  move=> [a b] [a' b'] /allpairsP [[a1 b1] /= [ain bin [-> ->]]] /allpairsP [[a2 b2] /= [ain' bin' [-> ->]]] /= e.
  have sz : size a1 = size a2.
    by move: ain ain'; rewrite !mem_permutations => /perm_size -> /perm_size ->.
  have := congr1 (take (size a1)) e; rewrite take_size_cat // sz take_size_cat // => ea.
  by move: e; rewrite ea => /(congr1 (drop (size a2))); rewrite !drop_size_cat // => ->.
have P : perm_eq [seq p <- permutations l | perm_eq (take k p) A] S'.
  apply: uniq_perm => //; first by apply: filter_uniq; rewrite permutations_uniq.
  move=> p; rewrite mem_filter mem_permutations; apply/andP/allpairsP.
  - case=> tA pl; exists (take k p, drop k p); rewrite /= cat_take_drop !mem_permutations; split=> //.
    have : perm_eq (A ++ drop k p) (A ++ B).
      by rewrite -(perm_cat2r (drop k p)) in tA; rewrite -(permPl tA) cat_take_drop (permPl pl).
    by rewrite perm_cat2l.
  - case=> [[a b] /= []]; rewrite !mem_permutations => aA bB ->.
    have sza : size a = k by rewrite (perm_size aA).
    rewrite -sza take_size_cat //; split=> //.
    by rewrite (permPr lAB); apply: perm_cat.
rewrite -size_filter (perm_size P) size_allpairs !size_permutations // szA szB.
by [].
Qed.
End Alloc.
