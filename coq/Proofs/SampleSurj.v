(* C19: every ordered pair of distinct rows can be drawn by random_sample(rows, 2), and every element of a list by
   Random.choice -- the facts behind "an attempt of permute_incidence_fixed_sums succeeds with positive probability
   whenever a checkerboard exists".  Obtained from the uniformity theorem of the last-pick shuffle. *)
From PV Require Import Lib.Base Model.Prng.
From mathcomp Require Import all_ssreflect.
From PV Require Import Lib.Shuffle Lib.ShuffleTape.
Local Open Scope nat_scope.
Set Implicit Arguments. Unset Strict Implicit. Unset Printing Implicit Defensive.

Lemma shuf_two (T : Type) (pick : T -> seq T -> nat -> T * seq T) (l : seq T) a b d x y r :
  shuf pick l [:: a, b & d] = [:: x, y & r] -> shuf pick l [:: a; b] = [:: x; y].
Proof.
case: l => [|z l] //=.
case: (pick z (z :: l) a) => u [|w rest] //= [-> E _].
by move: E; case: (pick w (w :: rest) b) => v rest' /= ->.
Qed.

Lemma sample2_surj n s0 s1 : s0 < n -> s1 < n -> s0 != s1 ->
  exists a b, [/\ a < n, b < n.-1 & shuf (@last_pick nat) (iota 0 n) [:: a; b] = [:: s0; s1]].
Proof.
move=> l0 l1 ne.
set l := iota 0 n.
set rem := [seq i <- l | (i != s0) && (i != s1)].
have pl : perm_eq [:: s0, s1 & rem] l.
  apply: uniq_perm; rewrite ?iota_uniq //=.
    rewrite !inE negb_or ne /= !mem_filter !eqxx /= andbF /= filter_uniq ?iota_uniq //.
  move=> i; rewrite !inE mem_filter.
  case e0: (i == s0); first by rewrite (eqP e0) /= mem_iota add0n l0.
  case e1: (i == s1); first by rewrite (eqP e1) /= mem_iota add0n l1.
  by [].
have : [:: s0, s1 & rem] \in permutations l by rewrite mem_permutations.
rewrite -(perm_mem (last_uniform (iota_uniq 0 n))) => /mapP [d din E].
have szd := draws_size din; rewrite size_iota in szd din.
move: (din); rewrite mem_draws => /andP [_ /allP bd].
case: d din szd bd E => [|a [|b d]] din szd bd E.
- by move: szd l0 => <-.
- by move: E; rewrite /l -szd.
exists a, b; split.
- by have := bd 0; rewrite mem_iota /= subn0 -szd; apply.
- have := bd 1; rewrite mem_iota /= subn1 -szd; apply. by [].
- exact: shuf_two (esym E).
Qed.

Lemma draws_from_two n a b t : a < n -> b < n.-1 -> draws_from n 2 [:: a, b & t] = Ok ([:: a; b], t).
Proof. by move=> la lb; rewrite /= la /= lb. Qed.

(* stdlib-flavoured statements for Proofs/IncidenceProgress.v *)
Lemma sample2_surj_std n s0 s1 : (s0 < n)%coq_nat -> (s1 < n)%coq_nat -> s0 <> s1 ->
  exists a b, forall t, draws_from n 2 (a :: b :: t)%list = Ok ((a :: b :: nil)%list, t) /\
              shuf (@last_pick nat) (List.seq 0 n) (a :: b :: nil)%list = (s0 :: s1 :: nil)%list.
Proof.
move=> /ltP l0 /ltP l1 /eqP ne.
have [a [b [la lb E]]] := sample2_surj l0 l1 ne.
exists a, b => t; split; first exact: draws_from_two.
by rewrite seq_iota'.
Qed.

Lemma choice_surj_std (l : seq nat) p : List.In p l ->
  exists i, forall t, choice 0 l (i :: t)%list = Ok (p, t).
Proof.
elim: l => [|c l IH] //= [->|inl].
  by exists 0 => t.
have [i H] := IH inl; exists i.+1 => t.
move: (H t); rewrite /choice; case: l {IH inl H} => [|c' l'] //=.
by rewrite (ltnS i.+1); case: (i < (size l').+1).
Qed.
