(* Properties of the SPRT model (C15): prefix discipline, Bernoulli likelihood ratio, Wald's error bounds. *)
From PV Require Import Lib.Base Model.Sprt.
From Coq Require Import Lqa Lia Qpower.
Open Scope Q_scope.

Definition inside (A B ts : Q) : bool := negb (Qle_bool ts A) && negb (Qle_bool B ts).

(* ---------- 1. the loop examines x[:1], x[:2], ... in turn and stops at the first exit ---------- *)
(* a cleaner recursion on (examined prefix u, remaining w) *)
Fixpoint loop2 (lr : list Z -> Q) (A B : Q) (u w : list Z) (ts : Q) : Q * list (list Z) :=
  match w with
  | [] => (ts, [])
  | b :: w' => if inside A B ts
               then let '(t, log) := loop2 lr A B (u ++ [b]) w' (lr (u ++ [b])) in (t, (u ++ [b]) :: log)
               else (ts, [])
  end.

Lemma firstn_app_exact {A} (u w : list A) : firstn (length u) (u ++ w) = u.
Proof. induction u; simpl; [destruct w; reflexivity|f_equal; assumption]. Qed.

Lemma sprt_loop_loop2 lr A B : forall w u ts,
  sprt_loop lr A B (u ++ w) (length u) (length w) ts = loop2 lr A B u w ts.
Proof.
  induction w as [|b w IH]; intros u ts; [reflexivity|].
  cbn [length sprt_loop loop2]. fold (inside A B ts). destruct (inside A B ts); [|reflexivity].
  assert (E : firstn (S (length u)) (u ++ b :: w) = u ++ [b]).
  { replace (u ++ b :: w) with ((u ++ [b]) ++ w) by (rewrite <- app_assoc; reflexivity).
    replace (S (length u)) with (length (u ++ [b])) by (rewrite app_length; simpl; lia).
    apply firstn_app_exact. }
  rewrite E.
  replace (u ++ b :: w) with ((u ++ [b]) ++ w) by (rewrite <- app_assoc; reflexivity).
  replace (S (length u)) with (length (u ++ [b])) by (rewrite app_length; simpl; lia).
  rewrite IH. reflexivity.
Qed.

(* what loop2 does, spelled out: the log is the list of successive prefixes, the reported value is the ratio of
   the last prefix examined, every earlier prefix was inside (A,B), and the loop stopped because the last one
   left the interval or the sample was exhausted *)
Lemma loop2_spec lr A B : forall w u ts t log,
  loop2 lr A B u w ts = (t, log) ->
  log = map (fun k => u ++ firstn k w) (seq 1 (length log)) /\
  (length log <= length w)%nat /\
  t = match length log with O => ts | S _ => lr (u ++ firstn (length log) w) end /\
  (forall j, (1 <= j < length log)%nat -> inside A B (lr (u ++ firstn j w)) = true) /\
  (log <> [] -> inside A B ts = true) /\
  ((length log = length w) \/ inside A B t = false).
Proof.
  induction w as [|b w IH]; intros u ts t log H; cbn [loop2] in H.
  - inversion H; subst. cbn. repeat split; try lia; try congruence; try (left; reflexivity).
  - destruct (inside A B ts) eqn:Ein.
    + destruct (loop2 lr A B (u ++ [b]) w (lr (u ++ [b]))) as [t1 log1] eqn:E1.
      inversion H; subst t log. clear H.
      destruct (IH _ _ _ _ E1) as [Hlog [Hlen [Ht [Hin [Hne Hstop]]]]].
      cbn [length]. split; [|split; [|split; [|split; [|split]]]].
      * cbn [seq map firstn]. f_equal. rewrite <- seq_shift, map_map. rewrite Hlog at 1.
        apply map_ext. intros k. cbn [firstn]. rewrite <- app_assoc. reflexivity.
      * lia.
      * rewrite Ht. destruct (length log1) eqn:EL; cbn [firstn]; [reflexivity|]. rewrite <- app_assoc. reflexivity.
      * intros j Hj. destruct j as [|j]; [lia|]. cbn [firstn]. destruct j as [|j].
        -- cbn [firstn]. destruct log1 as [|l0 log1']; [cbn in Hj; lia|]. apply Hne. congruence.
        -- replace (u ++ b :: firstn (S j) w) with ((u ++ [b]) ++ firstn (S j) w) by (rewrite <- app_assoc; reflexivity).
           apply Hin. cbn [length] in Hj. lia.
      * intros _. reflexivity.
      * destruct Hstop as [Hs|Hs]; [left; lia|right; exact Hs].
    + inversion H; subst. cbn. repeat split; try lia; try congruence; try (right; exact Ein).
Qed.

(* ---------- 2. decision rule ---------- *)
Lemma conclude_spec A B ts :
  fst (conclude A B ts) = Qle_bool B ts /\ snd (conclude A B ts) = negb (Qle_bool B ts) && Qle_bool ts A.
Proof. unfold conclude. destruct (Qle_bool B ts); [split; reflexivity|]. destruct (Qle_bool ts A); split; reflexivity. Qed.

(* ---------- 3. Bernoulli likelihood ratio = product of per-observation ratios ---------- *)
Definition bit (b : bool) : Z := if b then 1%Z else 0%Z.
Definition bits (w : list bool) : list Z := map bit w.
Definition P (p : Q) (b : bool) : Q := if b then p else 1 - p.
Fixpoint prodP (p : Q) (w : list bool) : Q := match w with [] => 1 | b :: w' => P p b * prodP p w' end.

Lemma Qpower_succ a (n : Z) : ~ a == 0 -> (0 <= n)%Z -> Qpower a (n + 1) == Qpower a n * a.
Proof. intros Ha Hn. rewrite Qpower_plus by assumption. reflexivity. Qed.

Lemma zsum_bits_range w : (0 <= zsum (bits w) <= Z.of_nat (length w))%Z.
Proof.
  induction w as [|b w IH]; cbn [bits map zsum fold_right length]; [lia|].
  fold (bits w) (zsum (bits w)). rewrite Nat2Z.inj_succ. destruct b; cbn [bit]; lia.
Qed.

Lemma prodP_pow p w : ~ p == 0 -> ~ 1 - p == 0 ->
  prodP p w == Qpower p (zsum (bits w)) * Qpower (1 - p) (Z.of_nat (length w) - zsum (bits w)).
Proof.
  intros Hp Hq. induction w as [|b w IH]; [cbn; reflexivity|].
  cbn [prodP bits map zsum fold_right length]. fold (bits w) (zsum (bits w)).
  pose proof (zsum_bits_range w) as R. rewrite IH, Nat2Z.inj_succ.
  destruct b; cbn [P bit].
  - replace (1 + zsum (bits w))%Z with (zsum (bits w) + 1)%Z by lia.
    replace (Z.succ (Z.of_nat (length w)) - (zsum (bits w) + 1))%Z with (Z.of_nat (length w) - zsum (bits w))%Z by lia.
    rewrite Qpower_succ by (assumption || lia). ring.
  - replace (0 + zsum (bits w))%Z with (zsum (bits w)) by lia.
    replace (Z.succ (Z.of_nat (length w)) - zsum (bits w))%Z with ((Z.of_nat (length w) - zsum (bits w)) + 1)%Z by lia.
    rewrite Qpower_succ by (assumption || lia). ring.
Qed.

Lemma bits_length w : length (bits w) = length w.
Proof. apply map_length. Qed.

Theorem bernoulli_lr_is_product po pa w : 0 < po < 1 -> 0 < pa < 1 ->
  bernoulli_lh_ratio po pa (bits w) == prodP pa w / prodP po w.
Proof.
  intros Ho Ha. unfold bernoulli_lh_ratio. rewrite bits_length.
  rewrite (prodP_pow pa w), (prodP_pow po w); try (intro E; lra). reflexivity.
Qed.

Lemma prodP_pos p w : 0 < p < 1 -> 0 < prodP p w.
Proof.
  intros Hp. induction w as [|b w IH]; cbn [prodP]; [lra|].
  apply Qmult_lt_0_compat; [destruct b; cbn [P]; lra|exact IH].
Qed.
Lemma prodP_app p u w : prodP p (u ++ w) == prodP p u * prodP p w.
Proof. induction u as [|b u IH]; cbn [app prodP]; [ring|]. rewrite IH. ring. Qed.

(* ---------- 4. Wald's bounds ---------- *)
Lemma Qle_bool_compat a a' b b' : a == a' -> b == b' -> Qle_bool a b = Qle_bool a' b'.
Proof.
  intros Ha Hb. destruct (Qle_bool a b) eqn:E1; destruct (Qle_bool a' b') eqn:E2; try reflexivity.
  - apply Qle_bool_iff in E1. rewrite Ha, Hb in E1. apply Qle_bool_iff in E1. congruence.
  - apply Qle_bool_iff in E2. rewrite <- Ha, <- Hb in E2. apply Qle_bool_iff in E2. congruence.
Qed.
Lemma inside_compat A B t t' : t == t' -> inside A B t = inside A B t'.
Proof. intros E. unfold inside. rewrite (Qle_bool_compat t t' A A E (Qeq_refl A)), (Qle_bool_compat B B t t' (Qeq_refl B) E). reflexivity. Qed.

(* the sequential test on Boolean sequences with the exact ratio Pa(prefix)/P0(prefix) *)
Definition ratio (po pa : Q) (u : list bool) : Q := prodP pa u / prodP po u.
Fixpoint loopR (po pa A B : Q) (u w : list bool) (ts : Q) : Q :=
  match w with
  | [] => ts
  | b :: w' => if inside A B ts then loopR po pa A B (u ++ [b]) w' (ratio po pa (u ++ [b])) else ts
  end.

Lemma bits_app u w : bits (u ++ w) = bits u ++ bits w.
Proof. apply map_app. Qed.

Lemma loopR_compat po pa A B : forall w u t t', t == t' -> loopR po pa A B u w t == loopR po pa A B u w t'.
Proof.
  induction w as [|b w IH]; intros u t t' E; cbn [loopR]; [exact E|].
  rewrite (inside_compat A B t t' E). destruct (inside A B t'); [reflexivity|exact E].
Qed.

Lemma loop2_loopR po pa A B : 0 < po < 1 -> 0 < pa < 1 -> forall w u ts ts',
  ts == ts' ->
  fst (loop2 (bernoulli_lh_ratio po pa) A B (bits u) (bits w) ts) == loopR po pa A B u w ts'.
Proof.
  intros Ho Ha. induction w as [|b w IH]; intros u ts ts' E; cbn [bits map loop2 loopR fst]; [exact E|].
  fold (bits w). rewrite (inside_compat A B ts ts' E). destruct (inside A B ts'); [|exact E].
  change [bit b] with (bits [b]). rewrite <- bits_app.
  specialize (IH (u ++ [b]) (bernoulli_lh_ratio po pa (bits (u ++ [b]))) (ratio po pa (u ++ [b]))).
  destruct (loop2 _ A B (bits (u ++ [b])) (bits w) _) as [t lg]. cbn [fst] in *.
  apply IH. apply bernoulli_lr_is_product; assumption.
Qed.

Fixpoint seqs (k : nat) : list (list bool) :=
  match k with O => [[]] | S k' => map (cons true) (seqs k') ++ map (cons false) (seqs k') end.
Definition qsum (l : list Q) : Q := fold_right Qplus 0 l.
Definition ind (b : bool) : Q := if b then 1 else 0.

Lemma qsum_app a b : qsum (a ++ b) == qsum a + qsum b.
Proof. unfold qsum. induction a as [|x a IH]; cbn [app fold_right]; [ring|]. rewrite IH. ring. Qed.
Lemma qsum_scale {T} (c : Q) (f : T -> Q) l : qsum (map (fun w => c * f w) l) == c * qsum (map f l).
Proof. unfold qsum. induction l as [|x l IH]; cbn [map fold_right]; [ring|]. rewrite IH. ring. Qed.
Lemma qsum_ext {T} (f g : T -> Q) l : (forall w, f w == g w) -> qsum (map f l) == qsum (map g l).
Proof. intros H. unfold qsum. induction l as [|x l IH]; cbn [map fold_right]; [reflexivity|]. rewrite IH, H. reflexivity. Qed.
Lemma qsum_le {T} (f g : T -> Q) l : (forall w, f w <= g w) -> qsum (map f l) <= qsum (map g l).
Proof. intros H. unfold qsum. induction l as [|x l IH]; cbn [map fold_right]; [lra|]. specialize (H x). lra. Qed.
Lemma qsum_nonneg {T} (f : T -> Q) l : (forall w, 0 <= f w) -> 0 <= qsum (map f l).
Proof. intros H. unfold qsum. induction l as [|x l IH]; cbn [map fold_right]; [lra|]. specialize (H x). lra. Qed.

Lemma total_one p k : qsum (map (prodP p) (seqs k)) == 1.
Proof.
  induction k as [|k IH]; [unfold qsum; cbn [seqs map prodP fold_right]; ring|]. cbn [seqs]. rewrite map_app, qsum_app, !map_map.
  cbn [prodP]. rewrite !qsum_scale, IH. cbn [P]. ring.
Qed.

Section Wald.
Variables po pa A B : Q.
Hypothesis Ho : 0 < po < 1.
Hypothesis Ha : 0 < pa < 1.
Variable dec : Q -> bool.

Definition mass (p : Q) (u : list bool) (ts : Q) (k : nat) : Q :=
  qsum (map (fun w => prodP p w * ind (dec (loopR po pa A B u w ts))) (seqs k)).

Lemma ind_range b : 0 <= ind b <= 1. Proof. destruct b; cbn; lra. Qed.

Lemma mass_bounds p u ts k : 0 < p < 1 -> 0 <= mass p u ts k <= 1.
Proof.
  intros Hp. unfold mass. split.
  - apply qsum_nonneg. intros w. pose proof (prodP_pos p w Hp). pose proof (ind_range (dec (loopR po pa A B u w ts))). nra.
  - rewrite <- (total_one p k). apply qsum_le. intros w.
    pose proof (prodP_pos p w Hp). pose proof (ind_range (dec (loopR po pa A B u w ts))). nra.
Qed.

Lemma mass_0 p u ts : mass p u ts 0 == ind (dec ts).
Proof. unfold mass, qsum. cbn [seqs map prodP fold_right loopR]. ring. Qed.

Lemma mass_S p u ts k :
  mass p u ts (S k) ==
  if inside A B ts
  then P p true * mass p (u ++ [true]) (ratio po pa (u ++ [true])) k
       + P p false * mass p (u ++ [false]) (ratio po pa (u ++ [false])) k
  else ind (dec ts).
Proof.
  unfold mass. cbn [seqs]. rewrite map_app, qsum_app, !map_map. cbn [prodP loopR].
  destruct (inside A B ts).
  - rewrite <- !qsum_scale. apply Qplus_comp; apply qsum_ext; intros w; ring.
  - rewrite (qsum_ext _ (fun w => ind (dec ts) * (P p true * prodP p w))) by (intros w; ring).
    rewrite (qsum_ext (fun w => P p false * prodP p w * ind (dec ts)) (fun w => ind (dec ts) * (P p false * prodP p w))) by (intros w; ring).
    rewrite !qsum_scale, !total_one. cbn [P]. ring.
Qed.

Lemma ratio_snoc u b : ratio po pa (u ++ [b]) == (prodP pa u * P pa b) / (prodP po u * P po b).
Proof. unfold ratio. rewrite !prodP_app. cbn [prodP]. rewrite !Qmult_1_r. reflexivity. Qed.
Lemma prodP_snoc p u b : prodP p (u ++ [b]) == prodP p u * P p b.
Proof. rewrite prodP_app. cbn [prodP]. ring. Qed.
End Wald.

(* type I: under H0 the probability of "reject H0" is at most 1/B *)
Lemma wald_up po pa A B : 0 < po < 1 -> 0 < pa < 1 -> 0 < B ->
  forall k u ts, ts == ratio po pa u ->
  B * prodP po u * mass po pa A B (fun t => Qle_bool B t) po u ts k
  <= prodP pa u * mass po pa A B (fun t => Qle_bool B t) pa u ts k.
Proof.
  intros Ho Ha HB. set (dec := fun t => Qle_bool B t).
  assert (Hexit : forall u ts, ts == ratio po pa u -> B * prodP po u * ind (dec ts) <= prodP pa u * ind (dec ts)).
  { intros u ts E. unfold dec. destruct (Qle_bool B ts) eqn:EB; cbn [ind]; [|lra].
    apply Qle_bool_iff in EB. rewrite E in EB. unfold ratio in EB.
    pose proof (prodP_pos po u Ho) as HD. pose proof (prodP_pos pa u Ha) as HN.
    assert (B * prodP po u <= prodP pa u).
    { apply (Qmult_le_compat_r _ _ (prodP po u)) in EB; [|lra].
      setoid_replace (prodP pa u / prodP po u * prodP po u) with (prodP pa u) in EB by (field; lra). exact EB. }
    lra. }
  induction k as [|k IH]; intros u ts E.
  - rewrite !mass_0. apply Hexit. exact E.
  - rewrite !mass_S. destruct (inside A B ts); [|apply Hexit; exact E].
    pose proof (IH (u ++ [true]) (ratio po pa (u ++ [true])) (Qeq_refl _)) as It.
    pose proof (IH (u ++ [false]) (ratio po pa (u ++ [false])) (Qeq_refl _)) as If.
    rewrite !prodP_snoc in It, If. cbn [P] in *.
    set (m0t := mass po pa A B dec po (u ++ [true]) _ k) in *.
    set (m0f := mass po pa A B dec po (u ++ [false]) _ k) in *.
    set (mat := mass po pa A B dec pa (u ++ [true]) _ k) in *.
    set (maf := mass po pa A B dec pa (u ++ [false]) _ k) in *.
    set (D := prodP po u) in *. set (N := prodP pa u) in *.
    nra.
Qed.

(* type II: under Ha the probability of "reject Ha" is at most A *)
Lemma wald_down po pa A B : 0 < po < 1 -> 0 < pa < 1 -> 0 < A -> A < B ->
  forall k u ts, ts == ratio po pa u ->
  prodP pa u * mass po pa A B (fun t => negb (Qle_bool B t) && Qle_bool t A) pa u ts k
  <= A * prodP po u * mass po pa A B (fun t => negb (Qle_bool B t) && Qle_bool t A) po u ts k.
Proof.
  intros Ho Ha HA HAB. set (dec := fun t => negb (Qle_bool B t) && Qle_bool t A).
  assert (Hexit : forall u ts, ts == ratio po pa u -> prodP pa u * ind (dec ts) <= A * prodP po u * ind (dec ts)).
  { intros u ts E. unfold dec. destruct (Qle_bool B ts); cbn [negb andb ind]; [lra|].
    destruct (Qle_bool ts A) eqn:EA; cbn [ind]; [|lra].
    apply Qle_bool_iff in EA. rewrite E in EA. unfold ratio in EA.
    pose proof (prodP_pos po u Ho) as HD. pose proof (prodP_pos pa u Ha) as HN.
    assert (prodP pa u <= A * prodP po u).
    { apply (Qmult_le_compat_r _ _ (prodP po u)) in EA; [|lra].
      setoid_replace (prodP pa u / prodP po u * prodP po u) with (prodP pa u) in EA by (field; lra). exact EA. }
    lra. }
  induction k as [|k IH]; intros u ts E.
  - rewrite !mass_0. apply Hexit. exact E.
  - rewrite !mass_S. destruct (inside A B ts); [|apply Hexit; exact E].
    pose proof (IH (u ++ [true]) (ratio po pa (u ++ [true])) (Qeq_refl _)) as It.
    pose proof (IH (u ++ [false]) (ratio po pa (u ++ [false])) (Qeq_refl _)) as If.
    rewrite !prodP_snoc in It, If. cbn [P] in *.
    set (m0t := mass po pa A B dec po (u ++ [true]) _ k) in *.
    set (m0f := mass po pa A B dec po (u ++ [false]) _ k) in *.
    set (mat := mass po pa A B dec pa (u ++ [true]) _ k) in *.
    set (maf := mass po pa A B dec pa (u ++ [false]) _ k) in *.
    set (D := prodP po u) in *. set (N := prodP pa u) in *.
    nra.
Qed.

(* ---------- the bounds for the model function sprt itself ---------- *)
Lemma sprt_reject_H0 po pa alpha beta w : 0 < po < 1 -> 0 < pa < 1 ->
  fst (fst (fst (sprt (bernoulli_lh_ratio po pa) alpha beta (bits w) true)))
  = Qle_bool ((1 - beta) / alpha) (loopR po pa (beta / (1 - alpha)) ((1 - beta) / alpha) [] w 1).
Proof.
  intros Ho Ha. unfold sprt.
  pose proof (sprt_loop_loop2 (bernoulli_lh_ratio po pa) (beta / (1 - alpha)) ((1 - beta) / alpha) (bits w) [] 1) as E.
  cbn [app length] in E. rewrite E.
  pose proof (loop2_loopR po pa (beta / (1 - alpha)) ((1 - beta) / alpha) Ho Ha w [] 1 1 (Qeq_refl 1)) as L.
  change (bits []) with (@nil Z) in L.
  destruct (loop2 _ _ _ [] (bits w) 1) as [t lg]. cbn [fst] in *.
  rewrite (proj1 (conclude_spec _ _ t)). apply Qle_bool_compat; [reflexivity|exact L].
Qed.
Lemma sprt_reject_Ha po pa alpha beta w : 0 < po < 1 -> 0 < pa < 1 ->
  snd (fst (fst (sprt (bernoulli_lh_ratio po pa) alpha beta (bits w) true)))
  = (fun t => negb (Qle_bool ((1 - beta) / alpha) t) && Qle_bool t (beta / (1 - alpha)))
      (loopR po pa (beta / (1 - alpha)) ((1 - beta) / alpha) [] w 1).
Proof.
  intros Ho Ha. unfold sprt.
  pose proof (sprt_loop_loop2 (bernoulli_lh_ratio po pa) (beta / (1 - alpha)) ((1 - beta) / alpha) (bits w) [] 1) as E.
  cbn [app length] in E. rewrite E.
  pose proof (loop2_loopR po pa (beta / (1 - alpha)) ((1 - beta) / alpha) Ho Ha w [] 1 1 (Qeq_refl 1)) as L.
  change (bits []) with (@nil Z) in L.
  destruct (loop2 _ _ _ [] (bits w) 1) as [t lg]. cbn [fst snd] in *.
  rewrite (proj2 (conclude_spec _ _ t)). cbn beta.
  rewrite (Qle_bool_compat _ _ t _ (Qeq_refl _) L), (Qle_bool_compat t _ _ _ L (Qeq_refl _)). reflexivity.
Qed.

(* P_H0(reject H0) <= alpha/(1-beta) for every sample size n *)
Theorem wald_type1 po pa alpha beta n :
  0 < po < 1 -> 0 < pa < 1 -> 0 < alpha -> 0 < beta -> alpha + beta < 1 ->
  qsum (map (fun w => prodP po w *
                      ind (fst (fst (fst (sprt (bernoulli_lh_ratio po pa) alpha beta (bits w) true))))) (seqs n))
  <= alpha / (1 - beta).
Proof.
  intros Ho Ha Hal Hbe Hab.
  set (A := beta / (1 - alpha)). set (B := (1 - beta) / alpha).
  assert (HB : 0 < B) by (unfold B; apply Qlt_shift_div_l; lra).
  rewrite (qsum_ext _ (fun w => prodP po w * ind (Qle_bool B (loopR po pa A B [] w 1)))).
  2:{ intros w. rewrite (sprt_reject_H0 po pa alpha beta w Ho Ha). reflexivity. }
  change (qsum _) with (mass po pa A B (fun t => Qle_bool B t) po [] 1 n).
  pose proof (wald_up po pa A B Ho Ha HB n [] 1) as W.
  assert (E1 : 1 == ratio po pa []) by (unfold ratio; cbn [prodP]; field).
  specialize (W E1). cbn [prodP] in W.
  pose proof (mass_bounds po pa A B (fun t => Qle_bool B t) pa [] 1 n Ha) as [_ U].
  set (m0 := mass po pa A B _ po [] 1 n) in *. set (ma := mass po pa A B _ pa [] 1 n) in *.
  assert (Hm : B * m0 <= 1) by lra.
  assert (EB : alpha / (1 - beta) == 1 / B) by (unfold B; field; lra).
  rewrite EB. apply Qle_shift_div_l; [exact HB|]. lra.
Qed.

(* P_Ha(reject Ha) <= beta/(1-alpha) for every sample size n *)
Theorem wald_type2 po pa alpha beta n :
  0 < po < 1 -> 0 < pa < 1 -> 0 < alpha -> 0 < beta -> alpha + beta < 1 ->
  qsum (map (fun w => prodP pa w *
                      ind (snd (fst (fst (sprt (bernoulli_lh_ratio po pa) alpha beta (bits w) true))))) (seqs n))
  <= beta / (1 - alpha).
Proof.
  intros Ho Ha Hal Hbe Hab.
  set (A := beta / (1 - alpha)). set (B := (1 - beta) / alpha).
  assert (HA : 0 < A) by (unfold A; apply Qlt_shift_div_l; lra).
  assert (HAB : A < B).
  { unfold A, B. apply Qlt_trans with 1.
    - apply Qlt_shift_div_r; lra.
    - apply Qlt_shift_div_l; lra. }
  set (dec := fun t => negb (Qle_bool B t) && Qle_bool t A).
  rewrite (qsum_ext _ (fun w => prodP pa w * ind (dec (loopR po pa A B [] w 1)))).
  2:{ intros w. rewrite (sprt_reject_Ha po pa alpha beta w Ho Ha). reflexivity. }
  change (qsum _) with (mass po pa A B dec pa [] 1 n).
  pose proof (wald_down po pa A B Ho Ha HA HAB n [] 1) as W.
  assert (E1 : 1 == ratio po pa []) by (unfold ratio; cbn [prodP]; field).
  specialize (W E1). cbn [prodP] in W.
  pose proof (mass_bounds po pa A B dec po [] 1 n Ho) as [_ U].
  fold dec in W.
  set (m0 := mass po pa A B dec po [] 1 n) in *. set (ma := mass po pa A B dec pa [] 1 n) in *.
  nra.
Qed.
