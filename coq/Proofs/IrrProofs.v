From PV Require Import Lib.Base Model.Irr.
From Coq Require Import Sorting.Permutation Lia.
Open Scope Z_scope.

(* ---- one item: number of agreeing unordered rater pairs ---- *)
Fixpoint count_eq (b : Z) (l : list Z) : Z :=
  match l with [] => 0 | a :: t => (if a =? b then 1 else 0) + count_eq b t end.
Fixpoint agree_col (c : list Z) : Z :=
  match c with [] => 0 | b :: t => count_eq b t + agree_col t end.
Definition binary (c : list Z) : Prop := Forall (fun v => v = 0 \/ v = 1) c.

Lemma count_eq_binary c : binary c ->
  count_eq 1 c = zsum c /\ count_eq 0 c = Z.of_nat (length c) - zsum c.
Proof.
  induction 1 as [|v c Hv _ IH]; [simpl; lia|].
  destruct IH as [I1 I0]. cbn [count_eq zsum fold_right length]. fold (zsum c).
  rewrite I1, I0, Nat2Z.inj_succ.
  destruct Hv as [->| ->]; cbn [Z.eqb Pos.eqb]; lia.
Qed.

Lemma agree_col_formula c : binary c ->
  2 * agree_col c = item_count (Z.of_nat (length c)) (zsum c).
Proof.
  unfold item_count. induction 1 as [|v c Hv Hc IH]; [simpl; lia|].
  cbn [agree_col zsum fold_right length]. fold (zsum c).
  destruct (count_eq_binary c Hc) as [I1 I0].
  rewrite Nat2Z.inj_succ. destruct Hv as [->| ->]; rewrite ?I1, ?I0; nia.
Qed.

Lemma zsum_bounds c : binary c -> 0 <= zsum c <= Z.of_nat (length c).
Proof.
  induction 1 as [|v c Hv _ IH]; [simpl; lia|].
  cbn [zsum fold_right length]. fold (zsum c). rewrite Nat2Z.inj_succ. destruct Hv; lia.
Qed.

Lemma mul_pred_nonneg z : 0 <= z -> 0 <= z * (z - 1).
Proof. intros H. destruct (Z.eq_dec z 0) as [->|N]; [lia|]. apply Z.mul_nonneg_nonneg; lia. Qed.

(* 0 <= agreeing pairs <= R(R-1)/2, with equality on the right iff the item is unanimous *)
Lemma item_count_range R y : 0 <= y <= R -> 0 <= item_count R y <= R * (R - 1).
Proof.
  unfold item_count. intros H.
  assert (0 <= y * (R - y)) by (apply Z.mul_nonneg_nonneg; lia).
  assert (0 <= y * (y - 1)) by (apply mul_pred_nonneg; lia).
  assert (0 <= (R - y) * (R - y - 1)) by (apply mul_pred_nonneg; lia).
  split; [lia|].
  replace (R * (R - 1)) with (y * (y - 1) + (R - y) * (R - y - 1) + 2 * (y * (R - y))) by ring. lia.
Qed.
Lemma item_count_max_iff R y : 0 <= y <= R ->
  (item_count R y = R * (R - 1) <-> (y = 0 \/ y = R)).
Proof.
  unfold item_count. intros H. split; [|intros [->| ->]; ring].
  intros E. assert (E0 : y * (R - y) = 0).
  { assert (R * (R - 1) = y * (y - 1) + (R - y) * (R - y - 1) + 2 * (y * (R - y))) by ring. lia. }
  apply Z.mul_eq_0 in E0. lia.
Qed.

(* invariances of the per-item count *)
Lemma zsum_perm c c' : Permutation c c' -> zsum c = zsum c'.
Proof.
  induction 1 as [|x l l' _ IH|x y l|l l' l'' _ IH1 _ IH2]; [reflexivity| | |lia].
  - cbn [zsum fold_right]. fold (zsum l). fold (zsum l'). lia.
  - cbn [zsum fold_right]. fold (zsum l). lia.
Qed.
Lemma item_count_flip R y : item_count R (R - y) = item_count R y.
Proof. unfold item_count. ring. Qed.
Lemma zsum_flip c : binary c -> zsum (map (fun v => 1 - v) c) = Z.of_nat (length c) - zsum c.
Proof.
  induction 1 as [|v c Hv _ IH]; [reflexivity|].
  cbn [map zsum fold_right length]. fold (zsum c). fold (zsum (map (fun v => 1 - v) c)).
  rewrite IH, Nat2Z.inj_succ. lia.
Qed.

(* sums over items *)
Definition total_count (R : Z) (ys : list Z) : Z := zsum (map (item_count R) ys).
Lemma total_count_perm R ys ys' : Permutation ys ys' -> total_count R ys = total_count R ys'.
Proof. intros H. unfold total_count. apply zsum_perm. apply Permutation_map. exact H. Qed.
Lemma total_count_range R ys : Forall (fun y => 0 <= y <= R) ys ->
  0 <= total_count R ys <= Z.of_nat (length ys) * (R * (R - 1)).
Proof.
  unfold total_count. induction 1 as [|y ys Hy _ IH]; [simpl; lia|].
  cbn [map zsum fold_right length]. fold (zsum (map (item_count R) ys)).
  pose proof (item_count_range R y Hy). rewrite Nat2Z.inj_succ. nia.
Qed.
Lemma total_count_max_iff R ys : Forall (fun y => 0 <= y <= R) ys ->
  (total_count R ys = Z.of_nat (length ys) * (R * (R - 1)) <-> Forall (fun y => y = 0 \/ y = R) ys).
Proof.
  unfold total_count. induction 1 as [|y ys Hy Hys IH]; [simpl; split; [constructor|reflexivity]|].
  cbn [map zsum fold_right length]. fold (zsum (map (item_count R) ys)).
  pose proof (item_count_range R y Hy) as Hr.
  pose proof (total_count_range R ys Hys) as Ht. unfold total_count in Ht.
  rewrite Nat2Z.inj_succ. split.
  - intros E. assert (E1 : item_count R y = R * (R - 1)) by nia.
    assert (E2 : zsum (map (item_count R) ys) = Z.of_nat (length ys) * (R * (R - 1))) by nia.
    constructor; [apply item_count_max_iff; assumption|apply IH; exact E2].
  - intros HF. inversion HF as [|? ? H1 H2]; subst.
    apply (item_count_max_iff R y Hy) in H1. apply IH in H2. nia.
Qed.

(* ---- the column sums the code computes are the sums of the items (columns) of the ratings matrix ---- *)
Lemma zip_add_nil_l l : zip_add [] l = [].
Proof. reflexivity. Qed.
Lemma fold_zip_nil : forall rs, fold_left zip_add rs [] = [].
Proof. induction rs as [|r rs IH]; cbn; [reflexivity|exact IH]. Qed.

Lemma fold_zip_cons : forall rs h t, Forall (fun r => r <> []) rs ->
  fold_left zip_add rs (h :: t) = (h + zsum (map (hd 0) rs)) :: fold_left zip_add (map (@tl Z) rs) t.
Proof.
  induction rs as [|r rs IH]; intros h t H; cbn [fold_left map zsum fold_right].
  - f_equal. lia.
  - inversion H as [|r' rs' Hr Hrs]; subst. destruct r as [|b s]; [congruence|].
    cbn [zip_add hd tl]. rewrite IH by exact Hrs. f_equal. fold (zsum (map (hd 0) rs)). lia.
Qed.

Definition rect (m : list (list Z)) (ns : nat) : Prop := Forall (fun r => length r = ns) m.

Lemma colsums_transpose_aux : forall ns m, m <> [] -> rect m ns -> colsums m = map zsum (transpose_aux ns m).
Proof.
  induction ns as [|ns IH]; intros m Hm Hr.
  - destruct m as [|r rs]; [congruence|]. inversion Hr as [|r' rs' Hl Hrs]; subst.
    destruct r; [|discriminate]. cbn [colsums transpose_aux map]. apply fold_zip_nil.
  - destruct m as [|r rs]; [congruence|]. inversion Hr as [|r' rs' Hl Hrs]; subst.
    destruct r as [|a r0]; [discriminate|].
    cbn [colsums transpose_aux map hd tl].
    assert (Hne : Forall (fun r => r <> []) rs).
    { eapply Forall_impl; [|exact Hrs]. intros r1 H1 E. subst r1. discriminate. }
    rewrite (fold_zip_cons rs a r0 Hne). cbn [zsum fold_right]. fold (zsum (map (hd 0) rs)). f_equal.
    assert (Hr' : rect (r0 :: map (@tl Z) rs) ns).
    { constructor; [cbn in Hl; lia|]. apply Forall_map. eapply Forall_impl; [|exact Hrs].
      intros r1 H1. destruct r1; cbn in *; lia. }
    specialize (IH (r0 :: map (@tl Z) rs) ltac:(discriminate) Hr'). cbn [colsums] in IH. exact IH.
Qed.

Theorem colsums_are_item_sums m ns : m <> [] -> rect m ns -> colsums m = map zsum (transpose m).
Proof.
  intros Hm Hr. destruct m as [|r rs]; [congruence|]. cbn [transpose].
  inversion Hr as [|r' rs' Hl Hrs]; subst. apply colsums_transpose_aux; [discriminate|exact Hr].
Qed.

(* every item (column) of a binary rectangular matrix is a binary list of R ratings *)
Lemma transpose_aux_items : forall ns m, Forall binary m -> rect m ns ->
  Forall (fun c => binary c /\ length c = length m) (transpose_aux ns m).
Proof.
  induction ns as [|ns IH]; intros m Hb Hr; cbn [transpose_aux]; [constructor|].
  constructor.
  - split; [|apply map_length]. unfold binary. apply Forall_map.
    unfold rect in Hr. rewrite Forall_forall in *. intros r Hin. specialize (Hb r Hin). specialize (Hr r Hin).
    destruct r as [|a r0]; [discriminate|]. cbn [hd]. unfold binary in Hb. inversion Hb; assumption.
  - assert (L : length (map (@tl Z) m) = length m) by apply map_length.
    rewrite <- L. apply IH.
    + apply Forall_map. eapply Forall_impl; [|exact Hb]. intros r H. destruct r; [constructor|]. cbn. unfold binary in H. inversion H; assumption.
    + unfold rect. apply Forall_map. eapply Forall_impl; [|exact Hr]. intros r H. destruct r; cbn in *; lia.
Qed.

(* numerator of compute_ts = twice the number of (item, unordered rater pair) agreements *)
Theorem total_count_is_twice_agreements m ns : m <> [] -> Forall binary m -> rect m ns ->
  total_count (Z.of_nat (length m)) (colsums m) = 2 * zsum (map agree_col (transpose m)).
Proof.
  intros Hm Hb Hr. rewrite (colsums_are_item_sums m ns Hm Hr). unfold total_count.
  destruct m as [|r rs]; [congruence|]. cbn [transpose].
  assert (Hl : length r = ns) by (inversion Hr; assumption). rewrite Hl.
  assert (Hit := transpose_aux_items ns (r :: rs) Hb Hr).
  induction Hit as [|c cs [Hc Lc] _ IH]; cbn [map zsum fold_right]; [reflexivity|].
  fold (zsum (map (item_count (Z.of_nat (length (r :: rs)))) (map zsum cs))) (zsum (map agree_col cs)).
  rewrite IH. rewrite <- Lc. rewrite <- (agree_col_formula c Hc). lia.
Qed.
