From PV Require Import Lib.Base Model.Irr.
From Coq Require Import Sorting.Permutation Lia.
Open Scope Z_scope.

(* ---- one item: number of agreeing unordered rater pairs ---- *)
Fixpoint count_eq (b : Z) (l : list Z) : Z :=
  match l with [] => 0 | a :: t => (if a =? b then 1 else 0) + count_eq b t end.
Fixpoint agree_col (c : list Z) : Z :=
  match c with [] => 0 | b :: t => count_eq b t + agree_col t end.
Definition binary (c : list Z) : Prop := Forall (fun v => v = 0 \/ v = 1) c.

Lemma count_eq_binary c : binary c ->
  count_eq 1 c = zsum c /\ count_eq 0 c = Z.of_nat (length c) - zsum c.
Proof.
  induction 1 as [|v c Hv _ IH]; [simpl; lia|].
  destruct IH as [I1 I0]. cbn [count_eq zsum fold_right length]. fold (zsum c).
  rewrite I1, I0, Nat2Z.inj_succ.
  destruct Hv as [->| ->]; cbn [Z.eqb Pos.eqb]; lia.
Qed.

Lemma agree_col_formula c : binary c ->
  2 * agree_col c = item_count (Z.of_nat (length c)) (zsum c).
Proof.
  unfold item_count. induction 1 as [|v c Hv Hc IH]; [simpl; lia|].
  cbn [agree_col zsum fold_right length]. fold (zsum c).
  destruct (count_eq_binary c Hc) as [I1 I0].
  rewrite Nat2Z.inj_succ. destruct Hv as [->| ->]; rewrite ?I1, ?I0; nia.
Qed.

Lemma zsum_bounds c : binary c -> 0 <= zsum c <= Z.of_nat (length c).
Proof.
  induction 1 as [|v c Hv _ IH]; [simpl; lia|].
  cbn [zsum fold_right length]. fold (zsum c). rewrite Nat2Z.inj_succ. destruct Hv; lia.
Qed.

Lemma mul_pred_nonneg z : 0 <= z -> 0 <= z * (z - 1).
Proof. intros H. destruct (Z.eq_dec z 0) as [->|N]; [lia|]. apply Z.mul_nonneg_nonneg; lia. Qed.

(* 0 <= agreeing pairs <= R(R-1)/2, with equality on the right iff the item is unanimous *)
Lemma item_count_range R y : 0 <= y <= R -> 0 <= item_count R y <= R * (R - 1).
Proof.
  unfold item_count. intros H.
  assert (0 <= y * (R - y)) by (apply Z.mul_nonneg_nonneg; lia).
  assert (0 <= y * (y - 1)) by (apply mul_pred_nonneg; lia).
  assert (0 <= (R - y) * (R - y - 1)) by (apply mul_pred_nonneg; lia).
  split; [lia|].
  replace (R * (R - 1)) with (y * (y - 1) + (R - y) * (R - y - 1) + 2 * (y * (R - y))) by ring. lia.
Qed.
Lemma item_count_max_iff R y : 0 <= y <= R ->
  (item_count R y = R * (R - 1) <-> (y = 0 \/ y = R)).
Proof.
  unfold item_count. intros H. split; [|intros [->| ->]; ring].
  intros E. assert (E0 : y * (R - y) = 0).
  { assert (R * (R - 1) = y * (y - 1) + (R - y) * (R - y - 1) + 2 * (y * (R - y))) by ring. lia. }
  apply Z.mul_eq_0 in E0. lia.
Qed.

(* invariances of the per-item count *)
Lemma zsum_perm c c' : Permutation c c' -> zsum c = zsum c'.
Proof.
  induction 1 as [|x l l' _ IH|x y l|l l' l'' _ IH1 _ IH2]; [reflexivity| | |lia].
  - cbn [zsum fold_right]. fold (zsum l). fold (zsum l'). lia.
  - cbn [zsum fold_right]. fold (zsum l). lia.
Qed.
Lemma item_count_flip R y : item_count R (R - y) = item_count R y.
Proof. unfold item_count. ring. Qed.
Lemma zsum_flip c : binary c -> zsum (map (fun v => 1 - v) c) = Z.of_nat (length c) - zsum c.
Proof.
  induction 1 as [|v c Hv _ IH]; [reflexivity|].
  cbn [map zsum fold_right length]. fold (zsum c). fold (zsum (map (fun v => 1 - v) c)).
  rewrite IH, Nat2Z.inj_succ. lia.
Qed.

(* sums over items *)
Definition total_count (R : Z) (ys : list Z) : Z := zsum (map (item_count R) ys).
Lemma total_count_perm R ys ys' : Permutation ys ys' -> total_count R ys = total_count R ys'.
Proof. intros H. unfold total_count. apply zsum_perm. apply Permutation_map. exact H. Qed.
Lemma total_count_range R ys : Forall (fun y => 0 <= y <= R) ys ->
  0 <= total_count R ys <= Z.of_nat (length ys) * (R * (R - 1)).
Proof.
  unfold total_count. induction 1 as [|y ys Hy _ IH]; [simpl; lia|].
  cbn [map zsum fold_right length]. fold (zsum (map (item_count R) ys)).
  pose proof (item_count_range R y Hy). rewrite Nat2Z.inj_succ. nia.
Qed.
Lemma total_count_max_iff R ys : Forall (fun y => 0 <= y <= R) ys ->
  (total_count R ys = Z.of_nat (length ys) * (R * (R - 1)) <-> Forall (fun y => y = 0 \/ y = R) ys).
Proof.
  unfold total_count. induction 1 as [|y ys Hy Hys IH]; [simpl; split; [constructor|reflexivity]|].
  cbn [map zsum fold_right length]. fold (zsum (map (item_count R) ys)).
  pose proof (item_count_range R y Hy) as Hr.
  pose proof (total_count_range R ys Hys) as Ht. unfold total_count in Ht.
  rewrite Nat2Z.inj_succ. split.
  - intros E. assert (E1 : item_count R y = R * (R - 1)) by nia.
    assert (E2 : zsum (map (item_count R) ys) = Z.of_nat (length ys) * (R * (R - 1))) by nia.
    constructor; [apply item_count_max_iff; assumption|apply IH; exact E2].
  - intros HF. inversion HF as [|? ? H1 H2]; subst.
    apply (item_count_max_iff R y Hy) in H1. apply IH in H2. nia.
Qed.
