(* Every rearrangement evaluated by the model tests is admissible, for ALL tapes (C03), and the
   rearrangements do not depend on the data values (C06). *)
From PV Require Import Lib.Base Model.Prng Model.Core.
From mathcomp Require Import all_ssreflect.
From PV Require Import Lib.Shuffle Lib.ShuffleTape.
Local Open Scope nat_scope.
Set Implicit Arguments. Unset Strict Implicit. Unset Printing Implicit Defensive.

(* two_sample_core: every index list in [arrs] is a permutation of 0..n-1 *)
Lemma core_loop_arrs_perm s pot nx n : forall reps rr t dv ar t',
  perm_eq rr (iota 0 n) ->
  core_loop s pot nx rr reps t = Ok (dv, ar, t') -> all (fun a => perm_eq a (iota 0 n)) ar.
Proof.
elim=> [|reps IH] rr t dv ar t' prr /=.
  by case=> _ <- _.
case E: (pyshuffle rr t) => [[rr' t1]|] //=.
case E2: (core_loop _ _ _ _ _ _) => [[[d1 a1] t2]|] //= [_ <- _] /=.
have [sg [psg eq _]] := pyshuffle_is_rearrangement 0 E.
have prr' : perm_eq rr' (iota 0 n).
  apply: perm_trans prr; rewrite eq.
  have := perm_map (nth 0 rr) psg; rewrite map_nth_iota0 // take_size => H; exact: H.
by rewrite prr' /=; apply: IH E2.
Qed.

(* one_sample: every sign vector consists of bits, so only signs change *)
Lemma bits_are_bits : forall n t b t', bits n t = Ok (b, t') -> all (fun v => v < 2) b /\ size b = n.
Proof.
elim=> [|n IH] t b t' /=; first by case=> <- _.
case: t => [|a t] //=; case: ifP => // a2 /=.
case E: (bits n t) => [[b1 t1]|] //= [<- _].
by have [al sz] := IH _ _ _ E; rewrite /= a2 al sz.
Qed.

(* corr / k_sample / stratified helpers: the rearrangement of a relabelled vector is the relabelled
   rearrangement: the same answers select the same positions whatever the values (shared draws) *)
Lemma permute_map (T U : Type) (f : T -> U) (x : seq T) t :
  permute (map f x) t = match permute x t with Ok yt => Ok (map f yt.1, yt.2) | Err e => Err e end.
Proof.
rewrite /permute size_map; case E: (draws_from _ _ _) => [[ds t1]|] //=.
have [din _] := draws_from_full E.
rewrite (@shuf_map T U f (fun V => @fy_pick V) _ _ (size x)) //.
- by move=> y l j jl; apply: fy_pick_map.
- move=> y l j; case: l => // a l; case: j => [|j] //= jl; by rewrite size_set_nth; apply/maxn_idPr.
Qed.

Lemma perm_loop_map (T U : Type) (f : T -> U) (x : seq T) : forall reps t,
  perm_loop (map f x) reps t =
  match perm_loop x reps t with Ok at' => Ok (map (map f) at'.1, at'.2) | Err e => Err e end.
Proof.
elim=> [|reps IH] t //=.
rewrite permute_map; case E: (permute x t) => [[y t1]|] //=.
by rewrite IH; case E2: (perm_loop x reps t1) => [[a t2]|].
Qed.
