(* The integer bisections of hypergeom_conf_interval return the extreme G of a monotone predicate (C13). *)
From PV Require Import Lib.Base Model.ConfInt.
From Coq Require Import Lia Arith.
Local Open Scope nat_scope.

Lemma div2_between a b : (a <= b -> a <= Nat.div2 (a + b) /\ Nat.div2 (a + b) <= b)%nat.
Proof.
  intros H. pose proof (Nat.div2_odd (a + b)) as E. destruct (Nat.odd (a + b)); cbn [Nat.b2n] in E; lia.
Qed.
Lemma div2_lt a b : (a < b -> Nat.div2 (a + b) < b)%nat.
Proof. intros H. pose proof (Nat.div2_odd (a + b)) as E. destruct (Nat.odd (a + b)); cbn [Nat.b2n] in E; lia. Qed.
Lemma div2_up_gt a b : (a < b -> a < Nat.div2 (a + b + 1))%nat.
Proof. intros H. pose proof (Nat.div2_odd (a + b + 1)) as E. destruct (Nat.odd (a + b + 1)); cbn [Nat.b2n] in E; lia. Qed.
Lemma div2_up_le a b : (a <= b -> Nat.div2 (a + b + 1) <= b)%nat.
Proof. intros H. pose proof (Nat.div2_odd (a + b + 1)) as E. destruct (Nat.odd (a + b + 1)); cbn [Nat.b2n] in E; lia. Qed.

Section Bisect.
Variable ok : nat -> bool.

(* smallest G in [lo, hi] with ok G, for ok upward closed and ok hi *)
Variables Lb Hb : nat.        (* monotonicity is only needed on the search range [Lb, Hb] *)

Lemma bisect_min_spec : forall fuel lo hi,
  (forall g g', (Lb <= g)%nat -> (g <= g')%nat -> (g' <= Hb)%nat -> ok g = true -> ok g' = true) ->
  (Lb <= lo)%nat -> (hi <= Hb)%nat ->
  (lo <= hi)%nat -> (hi - lo <= fuel)%nat -> ok hi = true ->
  let r := bisect_min ok lo hi fuel in
  (lo <= r <= hi)%nat /\ ok r = true /\ forall g, (lo <= g < r)%nat -> ok g = false.
Proof.
  induction fuel as [|fuel IH]; intros lo hi Hup HL HH Hle Hf Hhi; cbn [bisect_min].
  - assert (lo = hi) by lia. subst. split; [lia|split; [exact Hhi|intros g Hg; lia]].
  - destruct (Nat.ltb_spec lo hi) as [Hlt|Hge].
    + pose proof (div2_between lo hi Hle) as [M1 M2]. pose proof (div2_lt lo hi Hlt) as M3.
      set (mid := Nat.div2 (lo + hi)) in *.
      destruct (ok mid) eqn:Em.
      * destruct (IH lo mid Hup HL ltac:(lia) M1 ltac:(lia) Em) as [R1 [R2 R3]]. split; [lia|split; [assumption|]]. intros g Hg. apply R3. lia.
      * destruct (IH (S mid) hi Hup ltac:(lia) HH ltac:(lia) ltac:(lia) Hhi) as [R1 [R2 R3]]. split; [lia|split; [assumption|]].
        intros g Hg. destruct (Nat.le_gt_cases g mid) as [Hgm|Hgm].
        -- destruct (ok g) eqn:Eg; [|reflexivity]. rewrite (Hup g mid ltac:(lia) Hgm ltac:(lia) Eg) in Em. discriminate.
        -- apply R3. lia.
    + assert (lo = hi) by lia. subst. split; [lia|split; [exact Hhi|intros g Hg; lia]].
Qed.

(* largest G in [lo, hi] with ok G, for ok downward closed and ok lo *)
Lemma bisect_max_spec : forall fuel lo hi,
  (forall g g', (Lb <= g)%nat -> (g <= g')%nat -> (g' <= Hb)%nat -> ok g' = true -> ok g = true) ->
  (Lb <= lo)%nat -> (hi <= Hb)%nat ->
  (lo <= hi)%nat -> (hi - lo <= fuel)%nat -> ok lo = true ->
  let r := bisect_max ok lo hi fuel in
  (lo <= r <= hi)%nat /\ ok r = true /\ forall g, (r < g <= hi)%nat -> ok g = false.
Proof.
  induction fuel as [|fuel IH]; intros lo hi Hdn HL HH Hle Hf Hlo; cbn [bisect_max].
  - assert (lo = hi) by lia. subst. split; [lia|split; [exact Hlo|intros g Hg; lia]].
  - destruct (Nat.ltb_spec lo hi) as [Hlt|Hge].
    + pose proof (div2_up_gt lo hi Hlt) as M1. pose proof (div2_up_le lo hi Hle) as M2.
      set (mid := Nat.div2 (lo + hi + 1)) in *.
      destruct (ok mid) eqn:Em.
      * destruct (IH mid hi Hdn ltac:(lia) HH M2 ltac:(lia) Em) as [R1 [R2 R3]]. split; [lia|split; [assumption|]]. intros g Hg. apply R3. lia.
      * destruct (IH lo (mid - 1)%nat Hdn HL ltac:(lia) ltac:(lia) ltac:(lia) Hlo) as [R1 [R2 R3]]. split; [lia|split; [assumption|]].
        intros g Hg. destruct (Nat.le_gt_cases mid g) as [Hgm|Hgm].
        -- destruct (ok g) eqn:Eg; [|reflexivity]. rewrite (Hdn mid g ltac:(lia) Hgm ltac:(lia) Eg) in Em. discriminate.
        -- apply R3. lia.
    + assert (lo = hi) by lia. subst. split; [lia|split; [exact Hlo|intros g Hg; lia]].
Qed.
End Bisect.
