From Coq Require Import ZArith List QArith Lia.
From PV Require Import Lib.Base Model.TailsZ Model.Pvalues.
From mathcomp Require Import all_ssreflect zify.
From PV Require Import Lib.Tails Lib.Binom.
Local Open Scope nat_scope.
Set Implicit Arguments. Unset Strict Implicit. Unset Printing Implicit Defensive.

(* the executable tails are the nat-level tails of the textbook weights *)
Lemma hyper_upper_spec N G n x : upperZ (hyper_w N G n) x = Z.of_nat (upper (whyper N G n) x).
Proof. by rewrite hyper_w_of_nat upperZ_of_nat. Qed.
Lemma hyper_lower_spec N G n x : lowerZ (hyper_w N G n) x = Z.of_nat (lower (whyper N G n) x).
Proof. by rewrite hyper_w_of_nat lowerZ_of_nat. Qed.
Lemma binom_upper_spec n a b x :
  upperZ (binom_w n (Z.of_nat a) (Z.of_nat b)) x = Z.of_nat (upper (wbinom n a b) x).
Proof. by rewrite binom_w_of_nat upperZ_of_nat. Qed.
Lemma binom_lower_spec n a b x :
  lowerZ (binom_w n (Z.of_nat a) (Z.of_nat b)) x = Z.of_nat (lower (wbinom n a b) x).
Proof. by rewrite binom_w_of_nat lowerZ_of_nat. Qed.

Lemma hyper_less_greater N G n x : G <= N ->
  (lowerZ (hyper_w N G n) x + upperZ (hyper_w N G n) x.+1 = zbin N n)%Z.
Proof.
move=> le; rewrite hyper_lower_spec hyper_upper_spec zbin_bin -(whyper_total n le).
rewrite -(lower_upper (whyper N G n) x). lia.
Qed.

Lemma binom_less_greater n a b x :
  (lowerZ (binom_w n (Z.of_nat a) (Z.of_nat b)) x + upperZ (binom_w n (Z.of_nat a) (Z.of_nat b)) x.+1
   = (Z.of_nat a + Z.of_nat b) ^ Z.of_nat n)%Z.
Proof.
have pw : forall x y : nat, Z.of_nat (x ^ y) = (Z.of_nat x ^ Z.of_nat y)%Z.
  move=> u v; elim: v => [|v IHv] //; rewrite expnS Nat2Z.inj_mul IHv Nat2Z.inj_succ Z.pow_succ_r //; lia.
rewrite binom_lower_spec binom_upper_spec -(Nat2Z.inj_add a b) -pw -[(a + b)%coq_nat]/(a + b) -wbinom_total.
rewrite -(lower_upper (wbinom n a b) x). lia.
Qed.

Lemma hyper_greater_antitone N G n x y : x <= y ->
  (upperZ (hyper_w N G n) y <= upperZ (hyper_w N G n) x)%Z.
Proof. move=> xy; rewrite !hyper_upper_spec; have := upper_antitone (whyper N G n) xy; lia. Qed.
Lemma hyper_less_monotone N G n x y : x <= y ->
  (lowerZ (hyper_w N G n) x <= lowerZ (hyper_w N G n) y)%Z.
Proof. move=> xy; rewrite !hyper_lower_spec; have := lower_monotone (whyper N G n) xy; lia. Qed.
Lemma binom_greater_antitone n a b x y : x <= y ->
  (upperZ (binom_w n (Z.of_nat a) (Z.of_nat b)) y <= upperZ (binom_w n (Z.of_nat a) (Z.of_nat b)) x)%Z.
Proof. move=> xy; rewrite !binom_upper_spec; have := upper_antitone (wbinom n a b) xy; lia. Qed.
Lemma binom_less_monotone n a b x y : x <= y ->
  (lowerZ (binom_w n (Z.of_nat a) (Z.of_nat b)) x <= lowerZ (binom_w n (Z.of_nat a) (Z.of_nat b)) y)%Z.
Proof. move=> xy; rewrite !binom_lower_spec; have := lower_monotone (wbinom n a b) xy; lia. Qed.

(* validity: total weight of the outcomes whose one-sided p-value is <= c/d is <= c/d of the total *)
Lemma hyper_greater_valid N G n c d : G <= N ->
  mass_up (accept c d 'C(N, n)) (whyper N G n) * d <= c * 'C(N, n).
Proof. by move=> le; have := mass_up_le (whyper N G n) c d; rewrite whyper_total. Qed.
Lemma hyper_less_valid N G n c d : G <= N ->
  mass_lo (accept c d 'C(N, n)) (whyper N G n) * d <= c * 'C(N, n).
Proof. by move=> le; have := mass_lo_le (whyper N G n) c d; rewrite whyper_total. Qed.
Lemma binom_greater_valid n a b c d :
  mass_up (accept c d ((a + b) ^ n)) (wbinom n a b) * d <= c * (a + b) ^ n.
Proof. by have := mass_up_le (wbinom n a b) c d; rewrite wbinom_total. Qed.
Lemma binom_less_valid n a b c d :
  mass_lo (accept c d ((a + b) ^ n)) (wbinom n a b) * d <= c * (a + b) ^ n.
Proof. by have := mass_lo_le (wbinom n a b) c d; rewrite wbinom_total. Qed.

(* guards *)
Lemma hypergeometric_guards x N n G a :
  (exists q, hypergeometric x N n G a = Ok q) <-> (x <= n /\ n <= N /\ G <= N /\ x <= G).
Proof.
rewrite /hypergeometric.
case: (Nat.ltb_spec n x) => h1; first by split=> [[q]//|]; lia.
case: (Nat.ltb_spec N n) => h2; first by split=> [[q]//|]; lia.
case: (Nat.ltb_spec N G) => h3; first by split=> [[q]//|]; lia.
case: (Nat.ltb_spec G x) => h4; first by split=> [[q]//|]; lia.
split=> [_|_]; [lia|by eexists].
Qed.
Lemma hypergeometric_rejects x N n G a :
  hypergeometric x N n G a = Err ValueError <-> (n < x \/ N < n \/ N < G \/ G < x).
Proof.
rewrite /hypergeometric.
case: (Nat.ltb_spec n x) => h1; first by split=> // _; left; lia.
case: (Nat.ltb_spec N n) => h2; first by split=> // _; right; left; lia.
case: (Nat.ltb_spec N G) => h3; first by split=> // _; right; right; left; lia.
case: (Nat.ltb_spec G x) => h4; first by split=> // _; right; right; right; lia.
split=> //; lia.
Qed.
Lemma binomial_p_rejects x n pa pb a :
  binomial_p x n pa pb a = Err ValueError <-> n < x.
Proof.
rewrite /binomial_p; case: (Nat.ltb_spec n x) => h1; first by split=> // _; lia.
split=> //; lia.
Qed.

