(* C17, stratified randomizer: over any history the multiset of labels found in EACH stratum is conserved
   (not only the multiset of all labels). *)
From Coq Require Import ZArith.
From PV Require Import Lib.Base Model.Prng Model.Core Model.Stratified Model.Experiment.
From mathcomp Require Import all_ssreflect zify.
From PV Require Import Lib.Shuffle Lib.ShuffleTape Proofs.StratProofs Proofs.ExperimentProofs.
Local Open Scope nat_scope.
Set Implicit Arguments. Unset Strict Implicit. Unset Printing Implicit Defensive.

Section GS.
Variable T : Type.
Variable d : T.
Lemma gather_scatter_same (x : seq T) pos v : uniq pos -> size v = size pos ->
  gather d (scatter d x pos v) pos = v.
Proof.
move=> Up sz; apply: (@eq_from_nth _ d); first by rewrite /gather size_map.
move=> k; rewrite /gather size_map => klt.
by rewrite (nth_map 0) // nth_scatter_in.
Qed.
Lemma gather_scatter_disjoint (x : seq T) pos pos' v : (forall i, i \in pos' -> i \notin pos) ->
  gather d (scatter d x pos v) pos' = gather d x pos'.
Proof. by move=> dis; rewrite /gather; apply/eq_in_map => i ip; rewrite nth_scatter_out //; exact: dis. Qed.
End GS.

(* the labels of stratum k under assignment g *)
Definition stratum_labels (s g : seq Z) (k : Z) : seq Z := gather 0%Z g (positions (mask_of s k)).

Lemma positions_disjoint (s : seq Z) (k k' : Z) : k <> k' ->
  forall i, i \in positions (mask_of s k') -> i \notin positions (mask_of s k).
Proof.
move=> ne i; rewrite !mem_positions /mask_of size_map => /andP [ilt].
rewrite !(nth_map 0%Z) // => /Z.eqb_spec e; apply/negP => /andP [_ /Z.eqb_spec e'].
by apply: ne; rewrite -e -e'.
Qed.

Lemma strata_loop_within (s : seq Z) : forall labels (g : seq Z) t g' t',
  strata_loop g s labels t = Ok (g', t') ->
  forall k, perm_eq (stratum_labels s g' k) (stratum_labels s g k).
Proof.
elim=> [|k ks IH] g t g' t' /=; first by case=> <- _ k.
case E: (sample_all _ t) => [[v t1]|] //= H k'.
have [Up _] := StratProofs.positions_ok (mask_of s k).
have pv := sample_all_perm E.
have szv : size v = size (positions (mask_of s k)) by rewrite (perm_size pv) /gather size_map.
apply: perm_trans (IH _ _ _ _ H k') _; rewrite /stratum_labels.
case: (Z.eq_dec k k') => [<-|ne]; first by rewrite gather_scatter_same.
by rewrite (@gather_scatter_disjoint _ 0%Z g _ _ v (@positions_disjoint s k k' ne)).
Qed.

Lemma randomize_once_within (g st : seq Z) t g' t' :
  randomize_once Strat g (Some st) t = Ok (g', t') ->
  forall k, perm_eq (stratum_labels st g' k) (stratum_labels st g k).
Proof. exact: strata_loop_within. Qed.

Lemma rand_chain_within (st : seq Z) resp fs : forall reps (g : seq Z) t rows g' t',
  rand_chain Strat g (Some st) resp fs reps t = Ok (rows, g', t') ->
  forall k, perm_eq (stratum_labels st g' k) (stratum_labels st g k).
Proof.
elim=> [|reps IH] g t rows g' t' /=; first by case=> _ <- _ k.
case E: (strata_loop g st (unique st) t) => [[g1 t1]|] //=.
case E2: (eval_tests fs g1 resp) => [row|] //=.
case E3: (rand_chain _ _ _ _ _ _ _) => [[[rs g2] t2]|] //= [_ <- _] k.
exact: perm_trans (IH _ _ _ _ _ E3 k) (strata_loop_within E k).
Qed.

Lemma step_within e o e' out st : strata e = Some st -> kind e = Strat -> step e o = Ok (e', out) ->
  forall k, perm_eq (stratum_labels st (group e') k) (stratum_labels st (group e) k).
Proof.
move=> es ek.
case: o => [ip rs fork|ip rs fork reps fs c|ip rs fork reps fs m alts]; rewrite /step;
  have [eg er es' ek'] := reseeded_fields e rs; rewrite ?es' ?ek' ?eg ?er es ek.
- move=> H; have [[g1 t1] [E [<- _]]] := bind_ok H.
  move=> k; have := randomize_once_within E k; rewrite ?eg.
  by clear E H; case: ip; rewrite /= ?eg.
- move=> H; have [ts [E0 H1]] := bind_ok H; have [[[rows g1] t1] [E H2]] := bind_ok H1.
  have [pp [_ [<- _]]] := bind_ok H2.
  move=> k; have := rand_chain_within E k; rewrite ?eg.
  by clear E E0 H H1 H2; case: ip; rewrite /= ?eg.
- case: ifP => // _.
  move=> H; have [ts [E0 H1]] := bind_ok H; have [[[rows g1] t1] [E H2]] := bind_ok H1.
  have [pp [_ [<- _]]] := bind_ok H2.
  move=> k; have := rand_chain_within E k; rewrite ?eg.
  by clear E E0 H H1 H2; case: ip; rewrite /= ?eg.
Qed.

(* every reachable state of a stratified experiment holds, in each stratum, the labels it started with *)
Theorem run_within e0 st : wf e0 -> strata e0 = Some st -> kind e0 = Strat ->
  forall ops e e' outs, Inv e0 e -> (forall k, perm_eq (stratum_labels st (group e) k) (stratum_labels st (group e0) k)) ->
  run e ops = Ok (e', outs) ->
  forall k, perm_eq (stratum_labels st (group e') k) (stratum_labels st (group e0) k).
Proof.
move=> w s0 k0; elim=> [|o ops IH] e e' outs I W /=; first by case=> <- _.
case E: (step e o) => [[e1 out]|] //=.
case E2: (run e1 ops) => [[e2 os]|] //= [<- _].
have [_ se ke _ _] := I.
have W1 : forall k, perm_eq (stratum_labels st (group e1) k) (stratum_labels st (group e0) k).
  move=> k; apply: perm_trans (W k); apply: (step_within _ _ E); by rewrite ?se ?ke.
exact: IH (step_Inv w I E) W1 E2.
Qed.
