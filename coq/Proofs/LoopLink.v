(* G9 link: a repetition loop of the source that passes the shape check (Lib/LoopShape.v), run on the statistics that the
   MODEL's loop produces on a tape, returns the model's results: the stored list is the model's dist, the counters are the
   model's keep_dist=False counters (core_hits / one_hits). *)
From PV Require Import Lib.Base Model.Prng Model.Core Model.NoDist Proofs.CoreProofs Proofs.NoDistProofs.
From PV Require Lib.LoopShape.
From Coq Require Import Lia.
Open Scope Q_scope.

(* the statistic of the rearrangement in force after i draws, read off the list of simulated values *)
Definition value_of (d : list Q) : nat -> Q := fun i => nth (i - 1) d 0.

Lemma vals_value_of_gen : forall (d pre : list Q),
  map (fun i => nth (i - 1) (pre ++ d) 0) (seq (length pre + 1) (length d)) = d.
Proof.
  induction d as [|x d IH]; intros pre; [reflexivity|].
  cbn [length seq map]. f_equal.
  - rewrite app_nth2 by lia. replace (length pre + 1 - 1 - length pre)%nat with 0%nat by lia. reflexivity.
  - specialize (IH (pre ++ [x])). rewrite <- app_assoc in IH. cbn [app] in IH.
    rewrite app_length in IH. cbn [length] in IH.
    replace (S (length pre + 1)) with (length pre + 1 + 1)%nat by lia. exact IH.
Qed.

Lemma vals_value_of : forall d, LoopShape.vals (value_of d) 0 (length d) = d.
Proof.
  intros d. unfold LoopShape.vals, value_of. cbn [Nat.add].
  exact (vals_value_of_gen d []).
Qed.

Theorem shaped_loop_on_model_values : forall body, LoopShape.shape_ok body = true ->
  forall (d : list Q) (tst : Q) (st0 : LoopShape.st), LoopShape.draws st0 = 0%nat ->
  exists st', LoopShape.loop (value_of d) tst body (length d) st0 = Some st' /\
    LoopShape.dist st' = LoopShape.dist st0 ++
        (if Nat.eqb (LoopShape.stores (LoopShape.rest_of body)) 1 then d else []) /\
    (forall c o, In (c, o) (LoopShape.counts (LoopShape.rest_of body)) ->
        LoopShape.cnt st' c = (LoopShape.cnt st0 c + LoopShape.count_cmp tst o d)%nat).
Proof.
  intros body Hok d tst st0 H0.
  destruct (LoopShape.loop_spec (value_of d) tst body Hok (length d) st0) as [st' [E [_ [L [C _]]]]].
  rewrite H0, vals_value_of in L, C. exists st'. split; [exact E|]. split; [exact L|exact C].
Qed.

Definition st_init : LoopShape.st := LoopShape.mk 0 None [] (fun _ => 0%nat).

(* two_sample_core, keep_dist=False: any accepted body with counters (0, >=) and (1, <=) computes core_hits *)
Theorem shaped_loop_is_core_hits : forall body, LoopShape.shape_ok body = true ->
  LoopShape.counts (LoopShape.rest_of body) = [(0%nat, LoopShape.CGe); (1%nat, LoopShape.CLe)] ->
  forall s pot nx rr reps t tst d ar t', core_loop s pot nx rr reps t = Ok (d, ar, t') ->
  exists st', LoopShape.loop (value_of d) tst body reps st_init = Some st' /\
    core_hits s pot nx rr reps t tst = Ok (LoopShape.cnt st' 0%nat, LoopShape.cnt st' 1%nat, t').
Proof.
  intros body Hok Hc s pot nx rr reps t tst d ar t' H.
  destruct (core_loop_length _ _ _ _ _ _ _ _ _ H) as [Ld _].
  destruct (shaped_loop_on_model_values body Hok d tst st_init eq_refl) as [st' [E [_ C]]].
  rewrite Ld in E. exists st'. split; [exact E|].
  rewrite core_hits_eq, H. cbn [fst snd].
  rewrite (C 0%nat LoopShape.CGe), (C 1%nat LoopShape.CLe) by (rewrite Hc; cbn; tauto).
  reflexivity.
Qed.

(* two_sample_core, keep_dist=True: an accepted body that stores once per repetition builds the model's dist *)
Theorem shaped_loop_is_core_dist : forall body, LoopShape.shape_ok body = true ->
  LoopShape.stores (LoopShape.rest_of body) = 1%nat ->
  forall s pot nx rr reps t tst d ar t', core_loop s pot nx rr reps t = Ok (d, ar, t') ->
  exists st', LoopShape.loop (value_of d) tst body reps st_init = Some st' /\ LoopShape.dist st' = d.
Proof.
  intros body Hok Hs s pot nx rr reps t tst d ar t' H.
  destruct (core_loop_length _ _ _ _ _ _ _ _ _ H) as [Ld _].
  destruct (shaped_loop_on_model_values body Hok d tst st_init eq_refl) as [st' [E [L _]]].
  rewrite Ld in E. exists st'. split; [exact E|]. rewrite L, Hs. reflexivity.
Qed.

(* one_sample, keep_dist=False *)
Theorem shaped_loop_is_one_hits : forall body, LoopShape.shape_ok body = true ->
  LoopShape.counts (LoopShape.rest_of body) = [(0%nat, LoopShape.CGe); (1%nat, LoopShape.CLe)] ->
  forall s z reps t tst d ar t', one_loop s z reps t = Ok (d, ar, t') ->
  exists st', LoopShape.loop (value_of d) tst body reps st_init = Some st' /\
    one_hits s z reps t tst = Ok (LoopShape.cnt st' 0%nat, LoopShape.cnt st' 1%nat, t').
Proof.
  intros body Hok Hc s z reps t tst d ar t' H.
  destruct (one_loop_length _ _ _ _ _ _ _ H) as [Ld _].
  destruct (shaped_loop_on_model_values body Hok d tst st_init eq_refl) as [st' [E [_ C]]].
  rewrite Ld in E. exists st'. split; [exact E|].
  rewrite one_hits_eq, H. cbn [fst snd].
  rewrite (C 0%nat LoopShape.CGe), (C 1%nat LoopShape.CLe) by (rewrite Hc; cbn; tauto).
  reflexivity.
Qed.
