(* Properties of the npc model (C07, C08). *)
From PV Require Import Lib.Base Model.Npc Lib.RankValid Proofs.QLemmas.
From Coq Require Import Lqa Lia.
Open Scope Q_scope.

Lemma qn_nonneg n : 0 <= qn n.
Proof. unfold qn. change 0 with (inject_Z 0). rewrite <- Zle_Qle. lia. Qed.
Lemma qn_le a b : (a <= b)%nat -> qn a <= qn b.
Proof. intros H. unfold qn. rewrite <- Zle_Qle. lia. Qed.
Lemma qn_pos a : (0 < a)%nat -> 0 < qn a.
Proof. intros H. unfold qn. change 0 with (inject_Z 0). rewrite <- Zlt_Qlt. lia. Qed.
Lemma qn_plus a b : qn (a + b) == qn a + qn b.
Proof. unfold qn. rewrite Nat2Z.inj_add, inject_Z_plus. reflexivity. Qed.
Lemma qn_S a : qn (S a) == qn a + 1.
Proof. unfold qn. rewrite Nat2Z.inj_succ. unfold Z.succ. rewrite inject_Z_plus. reflexivity. Qed.

Lemma filter_length_le {A} (f : A -> bool) (l : list A) : (length (filter f l) <= length l)%nat.
Proof. induction l as [|a l IH]; simpl; [lia|]. destruct (f a); simpl; lia. Qed.
Lemma filter_split {A} (f : A -> bool) (l : list A) :
  (length (filter f l) + length (filter (fun x => negb (f x)) l) = length l)%nat.
Proof. induction l as [|a l IH]; simpl; [reflexivity|]. destruct (f a); simpl; lia. Qed.

Lemma count_lt_ge col x : (count_lt col x + count_ge col x = length col)%nat.
Proof. unfold count_lt, count_ge. rewrite Nat.add_comm. apply filter_split. Qed.

(* ---- the global p-value lies in [c/(B+c), 1] ---- *)
Lemma npc_range p d c plus1 v : (0 < length d)%nat -> npc p d c plus1 = Ok v ->
  qn (if plus1 then 1 else 0)%nat / (qn (if plus1 then 1 else 0)%nat + qn (length d)) <= v <= 1.
Proof.
  unfold npc. intros HB.
  destruct (length p <? 2)%nat; [discriminate|].
  destruct (negb (forallb _ d)); [discriminate|].
  destruct (is_callable c && negb _); [discriminate|].
  intros H. inversion H; subst v. clear H.
  set (cc := (if plus1 then 1 else 0)%nat).
  set (hits := length (filter _ _)).
  assert (Hh : (hits <= length d)%nat).
  { unfold hits. etransitivity; [apply filter_length_le|].
    unfold clip_liptak. destruct c; rewrite ?map_length; unfold row_pvalues; rewrite map_length; lia. }
  pose proof (qn_nonneg hits) as H0. pose proof (qn_le _ _ Hh) as H1.
  pose proof (qn_nonneg cc) as H2. pose proof (qn_pos _ HB) as H3.
  assert (Hd : 0 < qn cc + qn (length d)) by lra.
  split.
  - apply Qle_shift_div_l; [exact Hd|]. unfold Qdiv. rewrite <- Qmult_assoc, (Qmult_comm (/ _)), Qmult_inv_r by lra. lra.
  - apply Qle_shift_div_r; [exact Hd|]. lra.
Qed.

(* ---- with plus1 = False the per-row partial p-value is #{rows at least as large in that column}/B ---- *)
Lemma row_pvalue_is_count (col : list Q) (x : Q) : (0 < length col)%nat ->
  (qn (length col) - qn (S (count_lt col x)) + 1 + 2 * qn 0) / (qn 0 + qn (length col))
  == qn (count_ge col x) / qn (length col).
Proof.
  intros HB. pose proof (count_lt_ge col x) as E.
  assert (E' : qn (length col) == qn (count_lt col x) + qn (count_ge col x)) by (rewrite <- qn_plus, E; reflexivity).
  pose proof (qn_pos _ HB) as Hp.
  rewrite qn_S. change (qn 0) with 0. field_simplify_eq; [|lra]. rewrite E'. ring.
Qed.

(* ---- rank invariance: a strictly increasing transformation of a column leaves every rank unchanged ---- *)
Lemma count_lt_increasing (f : Q -> Q) (col : list Q) (x : Q) :
  (forall a b, Qle_bool a b = Qle_bool (f a) (f b)) ->
  count_lt (map f col) (f x) = count_lt col x.
Proof.
  intros Hf. unfold count_lt. induction col as [|a col IH]; [reflexivity|].
  cbn [map filter]. rewrite <- (Hf x a). destruct (negb (Qle_bool x a)); cbn [length]; rewrite IH; reflexivity.
Qed.
Lemma count_ge_increasing (f : Q -> Q) (col : list Q) (x : Q) :
  (forall a b, Qle_bool a b = Qle_bool (f a) (f b)) ->
  count_ge (map f col) (f x) = count_ge col x.
Proof.
  intros Hf. unfold count_ge. induction col as [|a col IH]; [reflexivity|].
  cbn [map filter]. rewrite <- (Hf x a). destruct (Qle_bool x a); cbn [length]; rewrite IH; reflexivity.
Qed.

(* ---- stat_ge is a total preorder on the statistic values of each combiner ---- *)
Lemma Qle_bool_total a b : Qle_bool a b = true \/ Qle_bool b a = true.
Proof. destruct (Qlt_le_dec b a) as [H|H]; [right|left]; apply Qle_bool_iff; lra. Qed.
Lemma Qle_bool_trans a b c : Qle_bool a b = true -> Qle_bool b c = true -> Qle_bool a c = true.
Proof. rewrite !Qle_bool_iff. intros; lra. Qed.
Lemma stat_ge_total c s t : stat_ge c s t = true \/ stat_ge c t s = true.
Proof. destruct c; cbn [stat_ge]; apply Qle_bool_total. Qed.
Lemma stat_ge_trans c s t u : stat_ge c s t = true -> stat_ge c t u = true -> stat_ge c s u = true.
Proof. destruct c; cbn [stat_ge]; intros H1 H2; eapply Qle_bool_trans; eauto. Qed.
Lemma stat_ge_refl c s : stat_ge c s s = true.
Proof. destruct (stat_ge_total c s s); assumption. Qed.

(* ---- exact validity: for any matrix of combined statistics (one per row), at most k rows have at most k rows
   at least as large; with global p-value = (that count)/B this is  #{rows with p <= k/B} <= k ---- *)
Theorem npc_rows_valid (c : comb) (stats : list Q) (k : nat) :
  (length (filter (fun s => Nat.leb (length (filter (fun r => stat_ge c r s) stats)) k) stats) <= k)%nat.
Proof.
  exact (rank_pvalue_valid Q (stat_ge c) (stat_ge_total c) (stat_ge_trans c) stats k).
Qed.

(* the observed row of sim_npc is one of the rows: whatever its statistic value, it is counted *)
Lemma count_self c (rows : list (list Q)) (obs : Q) :
  (exists r, In r rows /\ psi c r == obs) ->
  (1 <= length (filter (fun r => stat_ge c (psi c r) obs) rows))%nat.
Proof.
  intros [r [Hin Heq]]. induction rows as [|a rows IH]; [destruct Hin|].
  cbn [filter]. destruct Hin as [->|Hin].
  - assert (E : stat_ge c (psi c r) obs = true).
    { destruct c; cbn [stat_ge]; apply Qle_bool_iff; rewrite Heq; apply Qle_refl. }
    rewrite E. cbn [length]. lia.
  - specialize (IH Hin). destruct (stat_ge c (psi c a) obs); cbn [length]; lia.
Qed.

(* monotonicity in the observed statistic: a larger observed statistic can only be exceeded by fewer rows *)
Lemma hits_antitone c (stats : list Q) (o o' : Q) : stat_ge c o' o = true ->
  (length (filter (fun s => stat_ge c s o') stats) <= length (filter (fun s => stat_ge c s o) stats))%nat.
Proof.
  intros H. apply filter_length_le_imp. intros s _ Hs. eapply stat_ge_trans; eauto.
Qed.

(* ---- psi respects pointwise equality of rationals ---- *)
Lemma qsum_compat a b : Forall2 Qeq a b -> qsum a == qsum b.
Proof. induction 1 as [|x y a b H _ IH]; [reflexivity|]. cbn [qsum fold_right]. fold (qsum a) (qsum b). rewrite H, IH. reflexivity. Qed.
Lemma qprod_compat a b : Forall2 Qeq a b -> qprod a == qprod b.
Proof. induction 1 as [|x y a b H _ IH]; [reflexivity|]. cbn [qprod fold_right]. fold (qprod a) (qprod b). rewrite H, IH. reflexivity. Qed.
Lemma Qmax_compat a a' b b' : a == a' -> b == b' -> Qmax a b == Qmax a' b'.
Proof.
  intros Ha Hb.
  destruct (Qmax_spec a b) as [[H1 ->]|[H1 ->]]; destruct (Qmax_spec a' b') as [[H2 ->]|[H2 ->]]; lra.
Qed.
Lemma fold_left_Qmax_compat a b : Forall2 Qeq a b -> forall x y, x == y -> fold_left Qmax a x == fold_left Qmax b y.
Proof. induction 1 as [|u v a b H _ IH]; intros x y E; [exact E|]. cbn [fold_left]. apply IH. apply Qmax_compat; assumption. Qed.
Lemma qmaxl1_compat a b : Forall2 Qeq a b -> qmaxl1 a == qmaxl1 b.
Proof. intros H. destruct H as [|x y a b E H]; [reflexivity|]. cbn [qmaxl1]. apply fold_left_Qmax_compat; assumption. Qed.
Lemma lookup_compat tab x y : x == y -> lookup tab x = lookup tab y.
Proof.
  intros E. induction tab as [|[k v] tab IH]; [reflexivity|]. cbn [lookup].
  assert (Qeq_bool k x = Qeq_bool k y).
  { destruct (Qeq_bool k x) eqn:E1; destruct (Qeq_bool k y) eqn:E2; try reflexivity.
    - apply Qeq_bool_iff in E1. assert (k == y) by (rewrite E1; exact E). apply Qeq_bool_iff in H. congruence.
    - apply Qeq_bool_iff in E2. assert (k == x) by (rewrite E2; symmetry; exact E). apply Qeq_bool_iff in H. congruence. }
  rewrite H. destruct (Qeq_bool k y); [reflexivity|exact IH].
Qed.
Lemma Forall2_map2 {A B} (R : B -> B -> Prop) (f g : A -> B) (a b : list A) (P : A -> A -> Prop) :
  (forall x y, P x y -> R (f x) (g y)) -> Forall2 P a b -> Forall2 R (map f a) (map g b).
Proof. intros H. induction 1; constructor; auto. Qed.

Lemma psi_compat c a b : Forall2 Qeq a b -> psi c a == psi c b.
Proof.
  intros H. destruct c; cbn [psi].
  - apply qprod_compat; exact H.
  - apply qsum_compat. eapply Forall2_map2; [|exact H]. intros x y E. cbn beta.
    rewrite (lookup_compat tab (1 - x) (1 - y)); [reflexivity|]. rewrite E. reflexivity.
  - apply qmaxl1_compat. eapply Forall2_map2; [|exact H]. intros x y E. cbn beta. rewrite E. reflexivity.
  - apply Qopp_comp. apply qsum_compat. revert w. induction H as [|x y a b E _ IH]; intros [|w0 w]; cbn [combine map]; try constructor.
    + cbn [fst snd]. rewrite E. reflexivity.
    + apply IH.
  - apply qsum_compat; exact H.
  - apply Qopp_comp. apply qmaxl1_compat; exact H.
  - apply qprod_compat. eapply Forall2_map2; [|exact H]. intros x y E. cbn beta.
    assert (Em : Qmin x 1 == Qmin y 1).
    { destruct (Qmin_spec x 1) as [[H1 ->]|[H1 ->]]; destruct (Qmin_spec y 1) as [[H2 ->]|[H2 ->]]; lra. }
    rewrite Em, E. reflexivity.
Qed.

(* ---- sim_npc: the observed row counts itself, so the global p-value is at least 1/(reps+1), never 0
   (for every combiner other than Liptak, whose clipping is treated separately) ---- *)
Lemma column_app d1 d2 j : column (d1 ++ d2) j = column d1 j ++ column d2 j.
Proof. unfold column. apply map_app. Qed.
Lemma count_ge_app a b x : count_ge (a ++ b) x = (count_ge a x + count_ge b x)%nat.
Proof. unfold count_ge. rewrite filter_app, app_length. reflexivity. Qed.
Lemma count_lt_app a b x : count_lt (a ++ b) x = (count_lt a x + count_lt b x)%nat.
Proof. unfold count_lt. rewrite filter_app, app_length. reflexivity. Qed.

Lemma obs_row_pvalues (obs : list Q) (sims : list (list Q)) :
  let dist := sims ++ [obs] in
  Forall2 Qeq
    (map (fun j => let x := nth j obs 0 in
            (qn (length dist) - qn (S (count_lt (column dist j) x)) + 1 + 2 * qn 0) / (qn 0 + qn (length dist)))
         (seq 0 (length obs)))
    (map (fun j => (qn (count_ge (column sims j) (nth j obs 0)) + 1) / (qn (length sims) + 1)) (seq 0 (length obs))).
Proof.
  intros dist. eapply Forall2_map2 with (P := eq).
  2:{ induction (seq 0 (length obs)); constructor; auto. }
  intros j j' <-. cbn beta zeta.
  assert (HL : length (column dist j) = length dist) by (unfold column; apply map_length).
  assert (Hpos : (0 < length (column dist j))%nat) by (rewrite HL; unfold dist; rewrite app_length; cbn; lia).
  pose proof (row_pvalue_is_count (column dist j) (nth j obs 0) Hpos) as R. rewrite HL in R. rewrite R.
  unfold dist. rewrite column_app, count_ge_app, app_length. cbn [length column map].
  assert (E1 : count_ge [nth j obs 0] (nth j obs 0) = 1%nat).
  { unfold count_ge. cbn [filter]. assert (Qle_bool (nth j obs 0) (nth j obs 0) = true) by (apply Qle_bool_iff; apply Qle_refl).
    rewrite H. reflexivity. }
  rewrite E1, !qn_plus. change (qn 1) with 1. reflexivity.
Qed.

Theorem sim_npc_counts_itself (obs : list Q) (sims : list (list Q)) (c : comb) p ps :
  (match c with Liptak _ => False | _ => True end) ->
  sim_npc_table (obs :: sims) c = Ok (p, ps) ->
  1 / (qn (length sims) + 1) <= p.
Proof.
  intros Hc. unfold sim_npc_table. set (psv := map _ (seq 0 (length obs))).
  destruct (npc psv (sims ++ [obs]) c false) as [v|] eqn:E; cbn [bind]; [|discriminate].
  intros H. inversion H; subst p ps. clear H.
  unfold npc in E.
  destruct (length psv <? 2)%nat; [discriminate|].
  destruct (negb (forallb _ _)); [discriminate|].
  destruct (is_callable c && negb _); [discriminate|].
  inversion E; subst v. clear E.
  set (rows := clip_liptak c _).
  assert (Hrows : rows = row_pvalues (sims ++ [obs]) (length psv) 0) by (unfold rows; destruct c; try reflexivity; contradiction).
  assert (Hself : (1 <= length (filter (fun r => stat_ge c (psi c r) (psi c psv)) rows))%nat).
  { apply count_self. rewrite Hrows. unfold row_pvalues. rewrite map_app. cbn [map].
    eexists. split; [apply in_or_app; right; left; reflexivity|].
    apply psi_compat. unfold psv at 1. rewrite map_length, seq_length.
    apply (obs_row_pvalues obs sims). }
  change (qn 0) with 0. rewrite app_length. cbn [length]. rewrite qn_plus. change (qn 1) with 1.
  pose proof (qn_le _ _ Hself) as H1. change (qn 1) with 1 in H1.
  pose proof (qn_nonneg (length sims)) as H2.
  set (hq := qn (length (filter _ rows))) in *.
  set (D := qn (length sims) + 1).
  assert (HD : 0 < D) by (unfold D; lra).
  setoid_replace (0 + hq) with hq by ring. setoid_replace (0 + D) with D by ring.
  unfold Qdiv. apply Qmult_le_compat_r; [exact H1|apply Qinv_le_0_compat; lra].
Qed.

Lemma filter_map_length {A B} (f : A -> B) (g : B -> bool) (l : list A) :
  length (filter g (map f l)) = length (filter (fun x => g (f x)) l).
Proof. induction l as [|a l IH]; [reflexivity|]. cbn [map filter]. destruct (g (f a)); cbn [length]; rewrite IH; reflexivity. Qed.

(* the built-in combiners are non-increasing in every argument (on p-values in [0,1]) *)
Lemma Qmult_le_l_weak a x y : 0 <= a -> x <= y -> a * x <= a * y.
Proof. intros Ha H. rewrite !(Qmult_comm a). apply Qmult_le_compat_r; assumption. Qed.
Lemma qprod_mono p p' : Forall2 (fun a b => 0 <= a /\ a <= b) p p' -> 0 <= qprod p /\ qprod p <= qprod p'.
Proof.
  induction 1 as [|a b p p' [Ha Hab] _ [I0 I1]]; cbn [qprod fold_right]; [split; lra|].
  fold (qprod p) (qprod p'). split; [apply Qmult_le_0_compat; assumption|].
  apply Qle_trans with (a * qprod p'); [apply Qmult_le_l_weak; assumption|].
  apply Qmult_le_compat_r; [assumption|lra].
Qed.
Lemma fold_left_Qmax_mono a b : Forall2 Qle a b -> forall x y, x <= y -> fold_left Qmax a x <= fold_left Qmax b y.
Proof.
  induction 1 as [|u v a b H _ IH]; intros x y E; [exact E|]. cbn [fold_left]. apply IH.
  destruct (Qmax_spec x u) as [[H1 ->]|[H1 ->]]; destruct (Qmax_spec y v) as [[H2 ->]|[H2 ->]]; lra.
Qed.
Lemma tippett_antitone p p' : Forall2 Qle p p' -> psi Tippett p' <= psi Tippett p.
Proof.
  intros H. cbn [psi]. destruct H as [|a b p p' E H]; [cbn; lra|]. cbn [map qmaxl1].
  apply fold_left_Qmax_mono; [|lra].
  induction H as [|x y p p' Hxy _ IH]; constructor; [lra|exact IH].
Qed.

(* ---- monotonicity in the observed partial p-values ---- *)
Theorem npc_monotone c p p' d plus1 v v' :
  length p = length p' -> is_callable c = false ->
  stat_ge c (psi c p) (psi c p') = true ->
  npc p d c plus1 = Ok v -> npc p' d c plus1 = Ok v' -> v <= v'.
Proof.
  intros HL Hc Hge. unfold npc. rewrite <- HL, Hc. cbn [andb].
  destruct (length p <? 2)%nat; [discriminate|].
  destruct (negb (forallb _ d)); [discriminate|].
  intros H H'. inversion H; inversion H'; subst. clear H H'.
  set (cc := (if plus1 then 1 else 0)%nat).
  set (rows := clip_liptak c _).
  pose proof (hits_antitone c (map (psi c) rows) _ _ Hge) as Hh.
  rewrite !filter_map_length in Hh.
  pose proof (qn_le _ _ Hh) as H1. pose proof (qn_nonneg cc). pose proof (qn_nonneg (length d)).
  unfold Qdiv. destruct (Qeq_dec (qn cc + qn (length d)) 0) as [E|NE].
  - rewrite E. cbn. lra.
  - apply Qmult_le_compat_r; [lra|]. apply Qinv_le_0_compat. lra.
Qed.
