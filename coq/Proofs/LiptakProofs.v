(* C07: sim_npc never returns 0 for the Liptak combiner either, provided the quantile table is increasing
   (norm.ppf is): the observed row is a row of distr, its clipped partial p-values are <= the observed ones,
   so its combined statistic is >= the observed statistic and the row counts itself. *)
From PV Require Import Lib.Base Model.Npc Proofs.QLemmas Proofs.NpcProofs.
From Coq Require Import Lqa Lia.
Open Scope Q_scope.

Lemma count_self_ge c (rows : list (list Q)) (obs : Q) :
  (exists r, In r rows /\ stat_ge c (psi c r) obs = true) ->
  (1 <= length (filter (fun r => stat_ge c (psi c r) obs) rows))%nat.
Proof.
  intros [r [Hin E]]. induction rows as [|a rows IH]; [destruct Hin|].
  cbn [filter]. destruct Hin as [->|Hin].
  - rewrite E. cbn [length]. lia.
  - specialize (IH Hin). destruct (stat_ge c (psi c a) obs); cbn [length]; lia.
Qed.

Lemma qsum_le : forall a b, Forall2 Qle a b -> qsum a <= qsum b.
Proof. induction 1 as [|x y a b H F IH]; cbn [qsum fold_right]; [apply Qle_refl|]. fold (qsum a) (qsum b). lra. Qed.

Definition clip (p : Q) : Q := if Qle_bool 1 p then 1 - eps else p.
Lemma eps_pos : 0 < eps.
Proof. unfold eps, Qlt. cbn. lia. Qed.
Lemma clip_le p : clip p <= p.
Proof.
  unfold clip. destruct (Qle_bool 1 p) eqn:E; [|apply Qle_refl].
  apply Qle_bool_iff in E. assert (H := eps_pos). lra.
Qed.

Theorem sim_npc_counts_itself_liptak (obs : list Q) (sims : list (list Q)) tab p ps :
  (forall x y, x <= y -> lookup tab x <= lookup tab y) ->
  sim_npc_table (obs :: sims) (Liptak tab) = Ok (p, ps) ->
  1 / (qn (length sims) + 1) <= p.
Proof.
  intros Hmono. unfold sim_npc_table. set (psv := map _ (seq 0 (length obs))).
  destruct (npc psv (sims ++ [obs]) (Liptak tab) false) as [v|] eqn:E; cbn [bind]; [|discriminate].
  intros H. inversion H; subst p ps. clear H.
  unfold npc in E.
  destruct (length psv <? 2)%nat; [discriminate|].
  destruct (negb (forallb _ _)); [discriminate|].
  cbn [is_callable andb] in E.
  inversion E; subst v. clear E.
  set (rows := map (map (fun p : Q => if Qle_bool 1 p then 1 - eps else p)) (row_pvalues (sims ++ [obs]) (length psv) 0)).
  set (f := fun r : list Q => Qle_bool (qsum (map (fun x : Q => lookup tab (1 - x)) psv)) (qsum (map (fun x : Q => lookup tab (1 - x)) r))).
  assert (Hself : (1 <= length (filter f rows))%nat).
  { assert (G : exists r, In r rows /\ f r = true).
    { unfold rows, row_pvalues. cbv zeta. rewrite !map_app. cbn [map].
      eexists. split; [apply in_or_app; right; left; reflexivity|].
      unfold f. apply Qle_bool_iff. apply qsum_le.
      assert (F := obs_row_pvalues obs sims). cbn zeta in F.
      assert (Lp : length psv = length obs) by (unfold psv; rewrite map_length, seq_length; reflexivity).
      rewrite Lp. unfold psv.
      revert F. generalize (seq 0 (length obs)). intros l F.
      rewrite !map_map.
      induction l as [|j l IH]; cbn [map]; [constructor|].
      inversion F as [|a b la lb Eab Fl]; subst. constructor; [|apply IH; exact Fl].
      apply Hmono.
      set (q := (qn (length (sims ++ [obs])) - qn (S (count_lt (column (sims ++ [obs]) j) (nth j obs 0))) + 1 + 2 * qn 0) / (qn 0 + qn (length (sims ++ [obs])))) in *.
      assert (Hc := clip_le q). unfold clip in Hc. rewrite Eab in Hc at 3. lra. }
    destruct G as [r [Hin E]]. clear -Hin E. induction rows as [|a rows IH]; [destruct Hin|].
    cbn [filter]. destruct Hin as [->|Hin].
    - rewrite E. cbn [length]. lia.
    - specialize (IH Hin). destruct (f a); cbn [length]; lia. }
  change (qn 0) with 0. rewrite app_length. cbn [length]. rewrite qn_plus. change (qn 1) with 1.
  pose proof (qn_le _ _ Hself) as H1. change (qn 1) with 1 in H1.
  pose proof (qn_nonneg (length sims)) as H2.
  set (hq := qn (length (filter _ rows))) in *.
  set (D := qn (length sims) + 1).
  assert (HD : 0 < D) by (unfold D; lra).
  setoid_replace (0 + hq) with hq by ring. setoid_replace (0 + D) with D by ring.
  unfold Qdiv. apply Qmult_le_compat_r; [exact H1|apply Qinv_le_0_compat; lra].
Qed.
