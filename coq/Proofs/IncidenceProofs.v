(* permute_incidence_fixed_sums (C19): a checkerboard swap preserves every row sum and every column sum and
   keeps the matrix binary; hence so do k successive swaps. *)
From PV Require Import Lib.Base Model.Prng Model.Incidence.
From Coq Require Import Lia.
Open Scope Z_scope.

Definition zsum (l : list Z) : Z := fold_right Z.add 0 l.
Definition row_sum (m : matrix) (r : nat) : Z := zsum (nth r m []).
Definition col_sum (m : matrix) (c : nat) : Z := zsum (map (fun row => nth c row 0) m).

Lemma set_nth_length {A} (l : list A) i v : length (set_nth l i v) = length l.
Proof. revert i; induction l as [|a l IH]; intros [|i]; cbn; try reflexivity. f_equal. apply IH. Qed.
Lemma nth_set_nth_eq {A} (l : list A) i v d : (i < length l)%nat -> nth i (set_nth l i v) d = v.
Proof. revert i; induction l as [|a l IH]; intros [|i] H; cbn in *; try lia; [reflexivity|apply IH; lia]. Qed.
Lemma nth_set_nth_neq {A} (l : list A) i j v d : i <> j -> nth j (set_nth l i v) d = nth j l d.
Proof.
  revert i j; induction l as [|a l IH]; intros [|i] [|j] H; cbn; try reflexivity; try congruence.
  apply IH. congruence.
Qed.
Lemma zsum_set_nth (l : list Z) i v : (i < length l)%nat -> zsum (set_nth l i v) = zsum l - nth i l 0 + v.
Proof.
  revert i; induction l as [|a l IH]; intros [|i] H; cbn in *; try lia.
  unfold zsum in *. cbn [fold_right]. rewrite IH by lia. lia.
Qed.

(* reading a cell after writing one *)
Lemma get_put_same m r c v : (r < length m)%nat -> (c < length (nth r m []))%nat -> get (put m r c v) r c = v.
Proof. intros Hr Hc. unfold get, put. rewrite nth_set_nth_eq by exact Hr. apply nth_set_nth_eq. exact Hc. Qed.
Lemma get_put_other m r c v r' c' : (r, c) <> (r', c') -> get (put m r c v) r' c' = get m r' c'.
Proof.
  intros H. unfold get, put. destruct (Nat.eq_dec r r') as [->|Hr].
  - destruct (Nat.lt_ge_cases r' (length m)) as [Hl|Hl].
    + rewrite nth_set_nth_eq by exact Hl. apply nth_set_nth_neq. intros ->. apply H. reflexivity.
    + assert (E : set_nth m r' (set_nth (nth r' m []) c v) = m).
      { clear -Hl. revert r' Hl. induction m as [|a m IH]; intros [|r'] Hl; cbn in *; try reflexivity; try lia. f_equal. apply IH. lia. }
      rewrite E. reflexivity.
  - rewrite nth_set_nth_neq by exact Hr. reflexivity.
Qed.
Lemma put_length m r c v : length (put m r c v) = length m.
Proof. unfold put. apply set_nth_length. Qed.
Lemma put_row_length m r c v r' : length (nth r' (put m r c v) []) = length (nth r' m []).
Proof.
  unfold put. destruct (Nat.eq_dec r r') as [->|Hr].
  - destruct (Nat.lt_ge_cases r' (length m)) as [Hl|Hl].
    + rewrite nth_set_nth_eq by exact Hl. apply set_nth_length.
    + rewrite !nth_overflow; try reflexivity; try lia. rewrite set_nth_length. lia.
  - rewrite nth_set_nth_neq by exact Hr. reflexivity.
Qed.

(* sums after writing one cell *)
Lemma row_sum_put m r c v r' : (r < length m)%nat -> (c < length (nth r m []))%nat ->
  row_sum (put m r c v) r' = if Nat.eqb r r' then row_sum m r' - get m r c + v else row_sum m r'.
Proof.
  intros Hr Hc. unfold row_sum, put, get. destruct (Nat.eqb_spec r r') as [->|Hn].
  - rewrite nth_set_nth_eq by exact Hr. apply zsum_set_nth. exact Hc.
  - rewrite nth_set_nth_neq by exact Hn. reflexivity.
Qed.
Lemma col_sum_set_nth_row (m : matrix) r row c : (r < length m)%nat ->
  col_sum (set_nth m r row) c = col_sum m c - nth c (nth r m []) 0 + nth c row 0.
Proof.
  revert r; induction m as [|a m IH]; intros [|r] H; cbn [length] in H; try lia.
  - unfold col_sum, zsum. cbn [set_nth map fold_right nth]. lia.
  - unfold col_sum, zsum in *. cbn [set_nth map fold_right nth]. rewrite IH by lia. lia.
Qed.
Lemma col_sum_put m r c v c' : (r < length m)%nat -> (c < length (nth r m []))%nat ->
  col_sum (put m r c v) c' = if Nat.eqb c c' then col_sum m c' - get m r c + v else col_sum m c'.
Proof.
  intros Hr Hc. unfold put. rewrite col_sum_set_nth_row by exact Hr. unfold get.
  destruct (Nat.eqb_spec c c') as [->|Hn].
  - rewrite nth_set_nth_eq by exact Hc. lia.
  - rewrite nth_set_nth_neq by exact Hn. lia.
Qed.

(* ---- the four-cell swap ---- *)
Theorem swap4_preserves_margins m s0 s1 p0 p1 :
  (s0 < length m)%nat -> (s1 < length m)%nat ->
  (p0 < length (nth s0 m []))%nat -> (p1 < length (nth s0 m []))%nat ->
  (p0 < length (nth s1 m []))%nat -> (p1 < length (nth s1 m []))%nat ->
  is_checkerboard m s0 s1 p0 p1 = true ->
  (forall r, row_sum (swap4 m s0 s1 p0 p1) r = row_sum m r) /\
  (forall c, col_sum (swap4 m s0 s1 p0 p1) c = col_sum m c) /\
  get (swap4 m s0 s1 p0 p1) s0 p0 = 0 /\ get (swap4 m s0 s1 p0 p1) s0 p1 = 1 /\
  get (swap4 m s0 s1 p0 p1) s1 p0 = 1 /\ get (swap4 m s0 s1 p0 p1) s1 p1 = 0 /\
  (forall r c, (r, c) <> (s0, p0) -> (r, c) <> (s0, p1) -> (r, c) <> (s1, p0) -> (r, c) <> (s1, p1) ->
     get (swap4 m s0 s1 p0 p1) r c = get m r c).
Proof.
  intros Hs0 Hs1 H00 H01 H10 H11 Hcb. unfold is_checkerboard in Hcb.
  repeat (apply andb_true_iff in Hcb as [Hcb ?]).
  apply Z.eqb_eq in Hcb. repeat match goal with H : (_ =? _) = true |- _ => apply Z.eqb_eq in H end.
  repeat match goal with H : negb (Nat.eqb _ _) = true |- _ => apply negb_true_iff in H; apply Nat.eqb_neq in H end.
  unfold swap4.
  set (m1 := put m s0 p0 0). set (m2 := put m1 s0 p1 1). set (m3 := put m2 s1 p0 1).
  assert (L1 : length m1 = length m) by apply put_length.
  assert (L2 : length m2 = length m) by (unfold m2; rewrite put_length; exact L1).
  assert (L3 : length m3 = length m) by (unfold m3; rewrite put_length; exact L2).
  assert (R1 : forall r, length (nth r m1 []) = length (nth r m [])) by (intros; apply put_row_length).
  assert (R2 : forall r, length (nth r m2 []) = length (nth r m [])) by (intros; unfold m2; rewrite put_row_length; apply R1).
  assert (R3 : forall r, length (nth r m3 []) = length (nth r m [])) by (intros; unfold m3; rewrite put_row_length; apply R2).
  assert (G1 : get m1 s0 p1 = 0) by (unfold m1; rewrite get_put_other by congruence; assumption).
  assert (G2 : get m2 s1 p0 = 0).
  { unfold m2, m1. rewrite !get_put_other by congruence. assumption. }
  assert (G3 : get m3 s1 p1 = 1).
  { unfold m3, m2, m1. rewrite !get_put_other by congruence. assumption. }
  split; [|split].
  - intros r. rewrite row_sum_put by (rewrite ?L3, ?R3; assumption). rewrite G3.
    unfold m3. rewrite row_sum_put by (rewrite ?L2, ?R2; assumption). rewrite G2.
    unfold m2. rewrite row_sum_put by (rewrite ?L1, ?R1; assumption). rewrite G1.
    unfold m1. rewrite row_sum_put by assumption. rewrite Hcb.
    destruct (Nat.eqb s1 r); destruct (Nat.eqb s0 r); lia.
  - intros c. rewrite col_sum_put by (rewrite ?L3, ?R3; assumption). rewrite G3.
    unfold m3. rewrite col_sum_put by (rewrite ?L2, ?R2; assumption). rewrite G2.
    unfold m2. rewrite col_sum_put by (rewrite ?L1, ?R1; assumption). rewrite G1.
    unfold m1. rewrite col_sum_put by assumption. rewrite Hcb.
    destruct (Nat.eqb p1 c); destruct (Nat.eqb p0 c); lia.
  - split; [|split; [|split; [|split]]].
    + unfold m3, m2. rewrite !get_put_other by congruence. unfold m1. apply get_put_same; assumption.
    + unfold m3. rewrite !get_put_other by congruence. unfold m2. apply get_put_same; rewrite ?L1, ?R1; assumption.
    + rewrite get_put_other by congruence. unfold m3. apply get_put_same; rewrite ?L2, ?R2; assumption.
    + apply get_put_same; rewrite ?L3, ?R3; assumption.
    + intros r c N1 N2 N3 N4. unfold m3, m2, m1. rewrite !get_put_other by congruence. reflexivity.
Qed.

(* ---- k successive swaps ---- *)
From PV Require Import Lib.ShuffleTape.

Definition rect (m : matrix) (C : nat) : Prop := forall r, (r < length m)%nat -> length (nth r m []) = C.

Lemma swap4_rect m C s0 s1 p0 p1 : rect m C -> rect (swap4 m s0 s1 p0 p1) C /\ length (swap4 m s0 s1 p0 p1) = length m.
Proof.
  intros R. unfold swap4. split.
  - intros r Hr. rewrite !put_length in Hr. rewrite !put_row_length. apply R. exact Hr.
  - rewrite !put_length. reflexivity.
Qed.

Lemma cols_where_spec m s0 s1 a b c : In c (cols_where m s0 s1 a b) ->
  (c < length (nth s0 m []))%nat /\ get m s0 c = a /\ get m s1 c = b.
Proof.
  unfold cols_where. intros H. apply filter_In in H as [H1 H2]. apply in_seq in H1.
  apply andb_true_iff in H2 as [E1 E2]. apply Z.eqb_eq in E1. apply Z.eqb_eq in E2. repeat split; try assumption; lia.
Qed.

Definition same_margins (m m' : matrix) : Prop :=
  (forall r, row_sum m' r = row_sum m r) /\ (forall c, col_sum m' c = col_sum m c).

(* every cell (cells outside the shape read as 0) is 0 or 1 *)
Definition binary_cells (m : matrix) : Prop := forall r c, get m r c = 0 \/ get m r c = 1.

Lemma is_binary_cells m : is_binary m = true <-> binary_cells m.
Proof.
  unfold is_binary, binary_cells, get. split.
  - intros H r c. rewrite forallb_forall in H.
    destruct (Nat.lt_ge_cases r (length m)) as [Hr|Hr]; [|rewrite (nth_overflow m) by exact Hr; destruct c; left; reflexivity].
    specialize (H _ (nth_In m [] Hr)). rewrite forallb_forall in H.
    destruct (Nat.lt_ge_cases c (length (nth r m []))) as [Hc|Hc]; [|rewrite nth_overflow by exact Hc; left; reflexivity].
    specialize (H _ (nth_In _ 0 Hc)). apply orb_true_iff in H as [H|H]; apply Z.eqb_eq in H; [left|right]; exact H.
  - intros H. apply forallb_forall. intros row Hrow. apply forallb_forall. intros v Hv.
    destruct (In_nth _ _ [] Hrow) as [r [Hr Er]]. destruct (In_nth _ _ 0 Hv) as [c [Hc Ec]].
    specialize (H r c). rewrite Er, Ec in H. destruct H as [->| ->]; reflexivity.
Qed.

(* one checkerboard swap on rows s0 <> s1 and columns p0 <> p1 of a matrix with C columns *)
Definition cb_step (C : nat) (m m' : matrix) : Prop :=
  exists s0 s1 p0 p1, (s0 < length m)%nat /\ (s1 < length m)%nat /\ (p0 < C)%nat /\ (p1 < C)%nat /\
    is_checkerboard m s0 s1 p0 p1 = true /\ m' = swap4 m s0 s1 p0 p1.

Inductive reach (C : nat) : nat -> matrix -> matrix -> Prop :=
| reach0 m : reach C 0 m m
| reachS k m m1 m2 : cb_step C m m1 -> reach C k m1 m2 -> reach C (S k) m m2.

(* number of cells (over an R x C grid of positions) where two matrices differ *)
Definition differs (a b : matrix) (rc : nat * nat) : bool := negb (Z.eqb (get a (fst rc) (snd rc)) (get b (fst rc) (snd rc))).
Definition diff_cells (R C : nat) (a b : matrix) : nat :=
  length (filter (differs a b) (list_prod (seq 0 R) (seq 0 C))).

Lemma cb_step_props C m m' : rect m C -> cb_step C m m' ->
  rect m' C /\ length m' = length m /\ same_margins m m' /\ (binary_cells m -> binary_cells m') /\
  exists s0 s1 p0 p1, forall r c, (r, c) <> (s0, p0) -> (r, c) <> (s0, p1) -> (r, c) <> (s1, p0) -> (r, c) <> (s1, p1) ->
     get m' r c = get m r c.
Proof.
  intros R (s0 & s1 & p0 & p1 & H0 & H1 & B0 & B1 & Hcb & ->).
  assert (R0 := R s0 H0). assert (R1 := R s1 H1).
  destruct (swap4_rect m C s0 s1 p0 p1 R) as [R' L'].
  assert (B0' := B0). assert (B1' := B1). rewrite <- R0 in B0, B1. rewrite <- R1 in B0', B1'.
  destruct (swap4_preserves_margins m s0 s1 p0 p1 H0 H1 B0 B1 B0' B1' Hcb) as (M1 & M2 & G00 & G01 & G10 & G11 & Go).
  split; [exact R'|]. split; [exact L'|]. split; [split; assumption|]. split.
  - intros Hb r c.
    destruct (Nat.eq_dec r s0) as [Er0|Nr0]; destruct (Nat.eq_dec r s1) as [Er1|Nr1];
    destruct (Nat.eq_dec c p0) as [Ec0|Nc0]; destruct (Nat.eq_dec c p1) as [Ec1|Nc1];
    try (rewrite ?Er0, ?Ec0, G00; left; reflexivity); try (rewrite ?Er0, ?Ec1, G01; right; reflexivity);
    try (rewrite ?Er1, ?Ec0, G10; right; reflexivity); try (rewrite ?Er1, ?Ec1, G11; left; reflexivity);
    (rewrite Go by congruence; apply Hb).
  - exists s0, s1, p0, p1. exact Go.
Qed.

Lemma attempts_cb_step C : forall fuel m t m' t', rect m C ->
  attempts m fuel t = Ok (m', t') -> cb_step C m m'.
Proof.
  induction fuel as [|fuel IH]; intros m t m' t' R H; cbn [attempts] in H; [discriminate|].
  destruct (draws_from (length m) 2 t) as [[ds t1]|] eqn:Ed; cbn [bind fst snd] in H; [|discriminate].
  destruct (shuf (@last_pick nat) (seq 0 (length m)) ds) as [|s0 [|s1 [|? ?]]] eqn:Es; try discriminate.
  destruct (two_rows_distinct_std Ed Es) as [Hne [H0 H1]].
  destruct (cols_where m s0 s1 1 0) as [|a0 c0] eqn:E0; [apply (IH _ _ _ _ R H)|].
  destruct (cols_where m s0 s1 0 1) as [|a1 c1] eqn:E1; [apply (IH _ _ _ _ R H)|].
  destruct (choice 0%nat (a0 :: c0) t1) as [[p0 t2]|] eqn:Ec0; cbn [bind fst snd] in H; [|discriminate].
  destruct (choice 0%nat (a1 :: c1) t2) as [[p1 t3]|] eqn:Ec1; cbn [bind fst snd] in H; [|discriminate].
  inversion H; subst m' t'. clear H.
  apply choice_in in Ec0. apply choice_in in Ec1. rewrite <- E0 in Ec0. rewrite <- E1 in Ec1.
  destruct (cols_where_spec _ _ _ _ _ _ Ec0) as [B0 [V00 V10]].
  destruct (cols_where_spec _ _ _ _ _ _ Ec1) as [B1 [V01 V11]].
  assert (R0 := R s0 H0).
  assert (Hp : p0 <> p1) by (intros ->; rewrite V00 in V01; discriminate).
  assert (Hcb : is_checkerboard m s0 s1 p0 p1 = true).
  { unfold is_checkerboard. rewrite V00, V01, V10, V11. cbn.
    destruct (Nat.eqb_spec s0 s1); [contradiction|]. destruct (Nat.eqb_spec p0 p1); [contradiction|]. reflexivity. }
  rewrite R0 in B0, B1.
  exists s0, s1, p0, p1. repeat (split; [assumption|]). reflexivity.
Qed.

(* the result of k successful swaps is reachable by exactly k checkerboard swaps *)
Theorem swaps_reach C : forall k m t m' t', rect m C -> swaps m k t = Ok (m', t') -> reach C k m m'.
Proof.
  induction k as [|k IH]; intros m t m' t' R H; cbn [swaps] in H.
  - inversion H; subst. constructor.
  - destruct (attempts m (length t) t) as [[m1 t1]|] eqn:Ea; cbn [bind fst snd] in H; [|discriminate].
    assert (S1 := attempts_cb_step C _ _ _ _ _ R Ea).
    destruct (cb_step_props C _ _ R S1) as [R1 _].
    econstructor; [exact S1|]. apply (IH _ _ _ _ R1 H).
Qed.

Lemma diff_cells_le4 a b s0 s1 p0 p1 :
  (forall r c, (r, c) <> (s0, p0) -> (r, c) <> (s0, p1) -> (r, c) <> (s1, p0) -> (r, c) <> (s1, p1) -> get b r c = get a r c) ->
  forall l, NoDup l -> (length (filter (differs a b) l) <= 4)%nat.
Proof.
  intros Go l ND.
  set (f := differs a b).
  assert (Hincl : incl (filter f l) [(s0, p0); (s0, p1); (s1, p0); (s1, p1)]).
  { intros [r c] Hin. apply filter_In in Hin as [_ Hf]. unfold f, differs in Hf. cbn [fst snd] in Hf.
    destruct (Nat.eq_dec r s0) as [Er0|Nr0]; destruct (Nat.eq_dec r s1) as [Er1|Nr1];
    destruct (Nat.eq_dec c p0) as [Ec0|Nc0]; destruct (Nat.eq_dec c p1) as [Ec1|Nc1];
    try (left; congruence); try (right; left; congruence); try (right; right; left; congruence);
    try (right; right; right; left; congruence);
    (rewrite Go in Hf by congruence; rewrite Z.eqb_refl in Hf; discriminate). }
  apply (NoDup_incl_length (NoDup_filter f ND)) in Hincl. exact Hincl.
Qed.

Lemma NoDup_app' {A} (l1 l2 : list A) : NoDup l1 -> NoDup l2 -> (forall x, In x l1 -> ~ In x l2) -> NoDup (l1 ++ l2).
Proof.
  intros H1 H2 D. induction H1 as [|a l1 Hn H1 IH]; cbn; [exact H2|].
  constructor.
  - intros Hin. apply in_app_or in Hin as [Hin|Hin]; [contradiction|]. apply (D a); [left; reflexivity|exact Hin].
  - apply IH. intros x Hx. apply D. right. exact Hx.
Qed.

Lemma NoDup_map_inj {A B} (f : A -> B) (l : list A) : (forall x y, f x = f y -> x = y) -> NoDup l -> NoDup (map f l).
Proof.
  intros Hf H. induction H as [|a l Hn H IH]; cbn; constructor; [|exact IH].
  intros Hin. apply in_map_iff in Hin as [z [E Hz]]. apply Hf in E. subst. contradiction.
Qed.
Lemma filter_none {A} (f : A -> bool) (l : list A) : (forall x, f x = false) -> filter f l = [].
Proof. intros H. induction l as [|a l IH]; cbn; [reflexivity|]. rewrite H. exact IH. Qed.

Lemma NoDup_list_prod {A B} (la : list A) (lb : list B) : NoDup la -> NoDup lb -> NoDup (list_prod la lb).
Proof.
  intros Ha Hb. induction Ha as [|a la Hn Ha IH]; cbn; [constructor|].
  apply NoDup_app'.
  - apply NoDup_map_inj; [intros x y E; congruence|exact Hb].
  - exact IH.
  - intros [x y] H1 H2. apply in_map_iff in H1 as [z [E _]]. inversion E; subst. apply in_prod_iff in H2 as [H2 _]. contradiction.
Qed.

Lemma filter_or_length {A} (f g h : A -> bool) (l : list A) :
  (forall x, f x = true -> g x = true \/ h x = true) ->
  (length (filter f l) <= length (filter g l) + length (filter h l))%nat.
Proof.
  intros H. induction l as [|x l IH]; cbn; [lia|].
  destruct (f x) eqn:Ef; [|destruct (g x), (h x); cbn; lia].
  destruct (H x Ef) as [E|E]; rewrite E; destruct (g x), (h x); cbn; lia.
Qed.

(* k swaps change at most 4k cells *)
Theorem reach_diff_cells R C : forall k m m', rect m C -> reach C k m m' -> (diff_cells R C m m' <= 4 * k)%nat.
Proof.
  intros k m m' Hr H. induction H as [m|k m m1 m2 S1 H IH].
  - unfold diff_cells. rewrite filter_none; [cbn; lia|].
    intros x. unfold differs. rewrite Z.eqb_refl. reflexivity.
  - destruct (cb_step_props C _ _ Hr S1) as (R1 & _ & _ & _ & (s0 & s1 & p0 & p1 & Go)).
    specialize (IH R1). unfold diff_cells in *.
    assert (ND : NoDup (list_prod (seq 0 R) (seq 0 C))) by (apply NoDup_list_prod; apply seq_NoDup).
    assert (H4 := diff_cells_le4 m m1 s0 s1 p0 p1 Go _ ND).
    assert (Ht := filter_or_length (differs m m2) (differs m m1) (differs m1 m2) (list_prod (seq 0 R) (seq 0 C))).
    assert (Htri : forall x, differs m m2 x = true -> differs m m1 x = true \/ differs m1 m2 x = true).
    { intros x. unfold differs.
      destruct (Z.eqb_spec (get m (fst x) (snd x)) (get m1 (fst x) (snd x))) as [E1|N1]; [|auto].
      rewrite E1. auto. }
    specialize (Ht Htri). lia.
Qed.

(* all consequences for matrices reachable by k swaps *)
Theorem reach_props C : forall k m m', rect m C -> reach C k m m' ->
  rect m' C /\ length m' = length m /\ same_margins m m' /\ (binary_cells m -> binary_cells m').
Proof.
  intros k m m' R H. induction H as [m|k m m1 m2 S1 H IH].
  - split; [exact R|]. split; [reflexivity|]. split; [split; intros; reflexivity|]. auto.
  - destruct (cb_step_props C _ _ R S1) as (R1 & L1 & [Mr Mc] & Hb & _).
    destruct (IH R1) as (R2 & L2 & [Mr2 Mc2] & Hb2).
    split; [exact R2|]. split; [congruence|]. split; [split|].
    + intros r. rewrite Mr2. apply Mr.
    + intros c. rewrite Mc2. apply Mc.
    + auto.
Qed.

Theorem swaps_preserve_margins C k m t m' t' : rect m C ->
  swaps m k t = Ok (m', t') -> rect m' C /\ length m' = length m /\ same_margins m m' /\ (binary_cells m -> binary_cells m').
Proof. intros R H. apply (reach_props C k); [exact R|]. apply (swaps_reach C k m t m' t' R H). Qed.

(* the public function *)
Theorem pifs_spec C m two_d k t m' t' : rect m C ->
  permute_incidence_fixed_sums m two_d k t = Ok (m', t') ->
  reach C k m m' /\ rect m' C /\ length m' = length m /\ same_margins m m' /\ is_binary m' = true /\
  (diff_cells (length m) C m m' <= 4 * k)%nat.
Proof.
  intros R H. unfold permute_incidence_fixed_sums in H.
  destruct two_d; cbn [negb] in H; [|discriminate].
  destruct ((mmin m =? 0) && (mmax m =? 1) && is_binary m) eqn:Hv; cbn [negb] in H; [|discriminate].
  apply andb_true_iff in Hv as [_ Hb].
  assert (Hreach := swaps_reach C k m t m' t' R H).
  destruct (reach_props C k m m' R Hreach) as (R' & L' & M & B).
  split; [exact Hreach|]. split; [exact R'|]. split; [exact L'|]. split; [exact M|]. split.
  - apply is_binary_cells. apply B. apply is_binary_cells. exact Hb.
  - apply reach_diff_cells; assumption.
Qed.
