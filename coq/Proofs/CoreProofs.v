(* Facts about the p-value assembly and the repetition loops of Model/Core.v (stdlib style). *)
From PV Require Import Lib.Base Model.Prng Model.Core Proofs.QLemmas.
From Coq Require Import Lqa Lia.
Open Scope Q_scope.

Lemma qn_nonneg n : 0 <= qn n.
Proof. unfold qn. change 0 with (inject_Z 0). rewrite <- Zle_Qle. lia. Qed.
Lemma qn_le a b : (a <= b)%nat -> qn a <= qn b.
Proof. intros H. unfold qn. rewrite <- Zle_Qle. lia. Qed.
Lemma qn_S n : qn (S n) == qn n + 1.
Proof. unfold qn. rewrite Nat2Z.inj_succ. unfold Z.succ. rewrite inject_Z_plus. reflexivity. Qed.
Lemma qn_cc plus1 : qn (cc plus1) == (if plus1 then 1 else 0).
Proof. destruct plus1; reflexivity. Qed.

(* ---- the core.py tail table is the textbook Monte-Carlo p-value ---- *)
Lemma the_pvalue_greater hU hD reps plus1 :
  the_pvalue Greater hU hD reps plus1 == perm_pvalue (cc plus1) hU reps.
Proof. unfold the_pvalue, perm_pvalue, Qdiv. ring. Qed.
Lemma the_pvalue_less hU hD reps plus1 :
  the_pvalue Less hU hD reps plus1 == perm_pvalue (cc plus1) hD reps.
Proof. unfold the_pvalue, perm_pvalue, Qdiv. ring. Qed.

Lemma two_min_half a b : (2 # 1) * Qmin (1 # 2) (Qmin a b) == Qmin 1 ((2 # 1) * Qmin a b).
Proof.
  destruct (Qmin_spec a b) as [[H1 ->]|[H1 ->]];
  [destruct (Qmin_spec (1#2) a) as [[H2 ->]|[H2 ->]]; destruct (Qmin_spec 1 ((2#1)*a)) as [[H3 ->]|[H3 ->]]
  |destruct (Qmin_spec (1#2) b) as [[H2 ->]|[H2 ->]]; destruct (Qmin_spec 1 ((2#1)*b)) as [[H3 ->]|[H3 ->]]];
  lra.
Qed.

Lemma Qmin_compat a a' b b' : a == a' -> b == b' -> Qmin a b == Qmin a' b'.
Proof.
  intros Ha Hb.
  destruct (Qmin_spec a b) as [[H1 ->]|[H1 ->]]; destruct (Qmin_spec a' b') as [[H2 ->]|[H2 ->]]; lra.
Qed.

Lemma the_pvalue_two_sided hU hD reps plus1 :
  the_pvalue TwoSided hU hD reps plus1 ==
  Qmin 1 ((2 # 1) * Qmin (perm_pvalue (cc plus1) hU reps) (perm_pvalue (cc plus1) hD reps)).
Proof.
  unfold the_pvalue. rewrite two_min_half.
  apply Qmin_compat; [reflexivity|].
  apply Qmult_comp; [reflexivity|].
  apply Qmin_compat; unfold perm_pvalue, Qdiv; ring.
Qed.

(* ---- bounds ---- *)
Lemma perm_pvalue_bounds c H reps : (H <= reps)%nat -> (0 < reps + c)%nat ->
  qn c / (qn reps + qn c) <= perm_pvalue c H reps <= 1.
Proof.
  intros HH Hpos. unfold perm_pvalue.
  assert (Hd : 0 < qn reps + qn c).
  { unfold qn. rewrite <- inject_Z_plus. change 0 with (inject_Z 0). rewrite <- Zlt_Qlt. lia. }
  pose proof (qn_nonneg H) as H0. pose proof (qn_le _ _ HH) as H1.
  split.
  - apply Qle_shift_div_l; [exact Hd|]. unfold Qdiv. rewrite <- Qmult_assoc.
    rewrite (Qmult_comm (/ _)). rewrite Qmult_inv_r by lra. lra.
  - apply Qle_shift_div_r; [exact Hd|]. lra.
Qed.

Lemma filter_length_le {A} (f : A -> bool) (l : list A) : (length (filter f l) <= length l)%nat.
Proof. induction l as [|a l IH]; simpl; [lia|]. destruct (f a); simpl; lia. Qed.
Lemma count_ge_le tst d : (count_ge tst d <= length d)%nat.
Proof. unfold count_ge. apply filter_length_le. Qed.
Lemma count_le_le tst d : (count_le tst d <= length d)%nat.
Proof. unfold count_le. apply filter_length_le. Qed.

(* ---- the loops produce exactly reps values ---- *)
Lemma core_loop_length s pot nx : forall reps rr t d a t',
  core_loop s pot nx rr reps t = Ok (d, a, t') -> length d = reps /\ length a = reps.
Proof.
  induction reps as [|reps IH]; intros rr t d a t' H; cbn [core_loop] in H.
  - inversion H; subst. split; reflexivity.
  - destruct (pyshuffle rr t) as [[rr' t1]|]; cbn [bind] in H; [|discriminate].
    cbn [fst snd] in H.
    destruct (core_loop s pot nx rr' reps t1) as [[[d1 a1] t2]|] eqn:E; cbn [bind] in H; [|discriminate].
    inversion H; subst. cbn [fst snd length]. destruct (IH _ _ _ _ _ E) as [-> ->]. split; reflexivity.
Qed.
Lemma one_loop_length s z : forall reps t d a t',
  one_loop s z reps t = Ok (d, a, t') -> length d = reps /\ length a = reps.
Proof.
  induction reps as [|reps IH]; intros t d a t' H; cbn [one_loop] in H.
  - inversion H; subst. split; reflexivity.
  - destruct (bits (length z) t) as [[b t1]|]; cbn [bind] in H; [|discriminate]. cbn [fst snd] in H.
    destruct (one_loop s z reps t1) as [[[d1 a1] t2]|] eqn:E; cbn [bind] in H; [|discriminate].
    inversion H; subst. cbn [fst snd length]. destruct (IH _ _ _ _ E) as [-> ->]. split; reflexivity.
Qed.
Lemma perm_loop_length {A} (x : list A) : forall reps t a t',
  perm_loop x reps t = Ok (a, t') -> length a = reps.
Proof.
  induction reps as [|reps IH]; intros t a t' H; cbn [perm_loop] in H.
  - inversion H; reflexivity.
  - destruct (permute x t) as [[x1 t1]|]; cbn [bind] in H; [|discriminate]. cbn [fst snd] in H.
    destruct (perm_loop x reps t1) as [[a1 t2]|] eqn:E; cbn [bind] in H; [|discriminate].
    inversion H; subst. cbn [length]. rewrite (IH _ _ _ E). reflexivity.
Qed.

(* ---- the draws and rearrangements do not depend on the data or on the statistic ---- *)
Lemma core_loop_data_independent s s' pot pot' nx nx' : forall reps rr t,
  match core_loop s pot nx rr reps t, core_loop s' pot' nx' rr reps t with
  | Ok (_, a, t1), Ok (_, a', t2) => a = a' /\ t1 = t2
  | Err e, Err e' => e = e'
  | _, _ => False
  end.
Proof.
  induction reps as [|reps IH]; intros rr t; cbn [core_loop]; [split; reflexivity|].
  destruct (pyshuffle rr t) as [[rr' t1]|e]; cbn [bind fst snd]; [|reflexivity].
  specialize (IH rr' t1).
  destruct (core_loop s pot nx rr' reps t1) as [[[d1 a1] t2]|e1];
  destruct (core_loop s' pot' nx' rr' reps t1) as [[[d2 a2] t3]|e2]; cbn [bind fst snd]; try contradiction.
  - destruct IH as [-> ->]. split; reflexivity.
  - exact IH.
Qed.

Lemma one_loop_data_independent s s' z z' : length z = length z' -> forall reps t,
  match one_loop s z reps t, one_loop s' z' reps t with
  | Ok (_, a, t1), Ok (_, a', t2) => a = a' /\ t1 = t2
  | Err e, Err e' => e = e'
  | _, _ => False
  end.
Proof.
  intros Hl. induction reps as [|reps IH]; intros t; cbn [one_loop]; [split; reflexivity|].
  rewrite <- Hl.
  destruct (bits (length z) t) as [[b t1]|e]; cbn [bind fst snd]; [|reflexivity].
  specialize (IH t1).
  destruct (one_loop s z reps t1) as [[[d1 a1] t2]|e1];
  destruct (one_loop s' z' reps t1) as [[[d2 a2] t3]|e2]; cbn [bind fst snd]; try contradiction.
  - destruct IH as [-> ->]. split; reflexivity.
  - exact IH.
Qed.

(* ---- two_sample_shift with shift 0 is two_sample; scalar d = pair (u+d, u-d) ---- *)
Lemma map_add0 (l : list Q) : Forall2 Qeq (map (fun v => v + 0) l) l.
Proof. induction l; constructor; [ring|assumption]. Qed.

(* ---- the observed statistic is the statistic of the data as given ---- *)
Lemma firstn_combine_app {A} (x y : list A) :
  map fst (firstn (length x) (combine (x ++ y) (x ++ y))) = x /\
  map snd (skipn (length x) (combine (x ++ y) (x ++ y))) = y.
Proof.
  induction x as [|a x IH]; cbn [length app combine firstn skipn map].
  - split; [reflexivity|]. induction y as [|b y IHy]; [reflexivity|]. cbn [combine map snd]. f_equal. exact IHy.
  - destruct IH as [I1 I2]. split; [cbn [fst]; f_equal; exact I1|exact I2].
Qed.

Lemma two_sample_observed x y s a reps plus1 t r :
  two_sample x y s a reps plus1 t = Ok r -> tstat r = eval2 s x y.
Proof.
  unfold two_sample, two_sample_core. intros H.
  destruct (core_loop _ _ _ _ _ _) as [[[d ar] t']|]; cbn [bind] in H; [|discriminate].
  inversion H; subst; cbn [tstat].
  destruct (firstn_combine_app x y) as [-> ->]. reflexivity.
Qed.

Lemma one_sample_observed x s a reps plus1 t r :
  one_sample x None s a reps plus1 t = Ok r -> tstat r = eval1 s x.
Proof.
  unfold one_sample. cbn [bind]. intros H.
  destruct (one_loop _ _ _ _) as [[[d ar] t']|]; cbn [bind] in H; [|discriminate].
  inversion H; subst; reflexivity.
Qed.

(* ---- p-value of every Ok result: formula, length of dist ---- *)
Definition pv_textbook (a : alt) (c : nat) (tst : Q) (d : list Q) : Q :=
  let up := perm_pvalue c (count_ge tst d) (length d) in
  let dn := perm_pvalue c (count_le tst d) (length d) in
  match a with Greater => up | Less => dn | TwoSided => Qmin 1 ((2 # 1) * Qmin up dn) end.

Lemma the_pvalue_textbook a tst d plus1 :
  the_pvalue a (count_ge tst d) (count_le tst d) (length d) plus1 == pv_textbook a (cc plus1) tst d.
Proof.
  destruct a; unfold pv_textbook;
  [apply the_pvalue_greater|apply the_pvalue_less|apply the_pvalue_two_sided].
Qed.

Lemma two_sample_core_pvalue s pot nx a reps plus1 t r :
  two_sample_core s pot nx a reps plus1 t = Ok r ->
  length (dist r) = reps /\ pval r == pv_textbook a (cc plus1) (tstat r) (dist r).
Proof.
  unfold two_sample_core. intros H.
  destruct (core_loop _ _ _ _ _ _) as [[[d ar] t']|] eqn:E; cbn [bind] in H; [|discriminate].
  inversion H; subst; cbn [pval tstat dist fst snd].
  destruct (core_loop_length _ _ _ _ _ _ _ _ _ E) as [L1 L2].
  split; [exact L1|]. rewrite <- L1 at 1. apply the_pvalue_textbook.
Qed.

Lemma one_sample_pvalue x y s a reps plus1 t r :
  one_sample x y s a reps plus1 t = Ok r ->
  length (dist r) = reps /\ pval r == pv_textbook a (cc plus1) (tstat r) (dist r).
Proof.
  unfold one_sample. intros H.
  destruct (match y with None => Ok x | Some yy => _ end) as [z|]; cbn [bind] in H; [|discriminate].
  destruct (one_loop _ _ _ _) as [[[d ar] t']|] eqn:E; cbn [bind] in H; [|discriminate].
  inversion H; subst; cbn [pval tstat dist fst snd].
  destruct (one_loop_length _ _ _ _ _ _ _ E) as [L1 L2].
  split; [exact L1|]. rewrite <- L1 at 1. apply the_pvalue_textbook.
Qed.

(* bounds: 1/(reps+1) <= p <= 1 with plus1, 0 <= p <= 1 without *)
Lemma pv_textbook_bounds a c tst d : (0 < length d + c)%nat ->
  qn c / (qn (length d) + qn c) <= pv_textbook a c tst d <= 1.
Proof.
  intros Hpos.
  pose proof (perm_pvalue_bounds c _ _ (count_ge_le tst d) Hpos) as [U1 U2].
  pose proof (perm_pvalue_bounds c _ _ (count_le_le tst d) Hpos) as [D1 D2].
  assert (Hlow : 0 <= qn c / (qn (length d) + qn c)).
  { apply Qle_shift_div_l.
    - unfold qn. rewrite <- inject_Z_plus. change 0 with (inject_Z 0). rewrite <- Zlt_Qlt. lia.
    - pose proof (qn_nonneg c). lra. }
  unfold pv_textbook. destruct a; [split; assumption|split; assumption|].
  set (up := perm_pvalue c (count_ge tst d) (length d)) in *.
  set (dn := perm_pvalue c (count_le tst d) (length d)) in *.
  destruct (Qmin_spec up dn) as [[H1 ->]|[H1 ->]];
  [destruct (Qmin_spec 1 ((2#1)*up)) as [[H2 ->]|[H2 ->]]|destruct (Qmin_spec 1 ((2#1)*dn)) as [[H2 ->]|[H2 ->]]];
  split; lra.
Qed.

Lemma Qmin_comm a b : Qmin a b == Qmin b a.
Proof. destruct (Qmin_spec a b) as [[H1 ->]|[H1 ->]]; destruct (Qmin_spec b a) as [[H2 ->]|[H2 ->]]; lra. Qed.

Lemma corr_pvalue_textbook a tst sims plus1 :
  corr_pvalue a tst sims plus1 == pv_textbook a (cc plus1) tst sims.
Proof.
  destruct a; unfold corr_pvalue, pv_textbook; try reflexivity.
  apply Qmin_compat; [reflexivity|]. apply Qmult_comp; [reflexivity|]. apply Qmin_comm.
Qed.

(* ---- shift tests ---- *)
Definition test_out_eq (a b : test_out) : Prop :=
  pval a == pval b /\ tstat a == tstat b /\ Forall2 Qeq (dist a) (dist b) /\ arrs a = arrs b /\ rest a = rest b.

(* a scalar shift d and the pair (u -> u+d, u -> u-d) build the same potential-outcome table *)
Lemma shift_scalar_eq_pair x y s a reps plus1 d t :
  two_sample_shift x y s a reps plus1 (Scalar d) t =
  two_sample_shift x y s a reps plus1 (Pair (AddC d) (AddC (- d))) t.
Proof.
  unfold two_sample_shift, potential_outcomes.
  assert (E : inverse_ok (AddC d) (AddC (- d)) = true).
  { unfold inverse_ok, tester. cbn [forallb apply_fn]. rewrite !andb_true_iff.
    repeat split; apply Qeq_bool_iff; ring. }
  rewrite E. cbn [bind]. reflexivity.
Qed.

Lemma shift_bad_input x y s a reps plus1 t :
  two_sample_shift x y s a reps plus1 NoShift t = Err ValueError /\
  two_sample_shift x y s a reps plus1 SingleCallable t = Err ValueError.
Proof. split; reflexivity. Qed.

Lemma potential_outcomes_columns x y f finv pot :
  potential_outcomes x y f finv = Ok pot ->
  map fst pot = firstn (length pot) (x ++ map (apply_fn f) y) /\
  pot = combine (x ++ map (apply_fn f) y) (map (apply_fn finv) x ++ y).
Proof.
  unfold potential_outcomes. destruct (inverse_ok f finv); [|discriminate].
  intros H. inversion H; subst. split; [|reflexivity].
  set (A := x ++ map (apply_fn f) y). set (B := map (apply_fn finv) x ++ y).
  assert (L : length A = length B) by (unfold A, B; rewrite !app_length, !map_length; reflexivity).
  clearbody A B. revert B L. induction A as [|a A IH]; intros [|b B] L; cbn in *; try discriminate; try reflexivity.
  f_equal. apply IH. lia.
Qed.

Lemma potential_outcomes_rejects x y f finv :
  inverse_ok f finv = false -> potential_outcomes x y f finv = Err AssertionError.
Proof. intros H. unfold potential_outcomes. rewrite H. reflexivity. Qed.
