(* C13: hypergeom_conf_interval (integer bisection) returns the exact test-inversion limits. *)
From Coq Require Import ZArith QArith Lia Lqa List.
From PV Require Import Lib.Base Model.TailsZ Model.ConfInt Proofs.BisectProofs.
From mathcomp Require Import all_ssreflect zify.
From PV Require Import Lib.Tails Lib.Binom Lib.HyperMono Proofs.PvaluesProofs Proofs.ConfIntProofs.
Local Open Scope nat_scope.
Set Implicit Arguments. Unset Strict Implicit. Unset Printing Implicit Defensive.

Lemma bin_pos_Z N n : n <= N -> (0 < zbin N n)%Z.
Proof. move=> le; rewrite zbin_bin; have := bin_gt0 N n; rewrite le. lia. Qed.

(* the model's hypergeometric tails as quotients of natural numbers *)
Lemma hyper_upper_q_nat N G n x : n <= N ->
  (hyper_upper_q N G n x == inject_Z (Z.of_nat (upper (whyper N G n) x)) / inject_Z (Z.of_nat 'C(N, n)))%Q.
Proof. by move=> le; rewrite /hyper_upper_q hyper_upper_spec q_of_eq ?zbin_bin //; rewrite -zbin_bin; exact: bin_pos_Z. Qed.
Lemma hyper_lower_q_nat N G n x : n <= N ->
  (hyper_lower_q N G n x == inject_Z (Z.of_nat (lower (whyper N G n) x)) / inject_Z (Z.of_nat 'C(N, n)))%Q.
Proof. by move=> le; rewrite /hyper_lower_q hyper_lower_spec q_of_eq ?zbin_bin //; rewrite -zbin_bin; exact: bin_pos_Z. Qed.

Lemma Qle_nat_same (u v s : nat) : 0 < s -> u <= v ->
  (inject_Z (Z.of_nat u) / inject_Z (Z.of_nat s) <= inject_Z (Z.of_nat v) / inject_Z (Z.of_nat s))%Q.
Proof. move=> sp uv; apply: Qle_nat_div => //; by rewrite leq_mul2r uv orbT. Qed.

(* monotonicity in G over the whole range 0..N *)
Lemma upper_whyper_mono N n x G G' : G <= G' -> G' <= N -> upper (whyper N G n) x <= upper (whyper N G' n) x.
Proof.
move=> /subnK <-; elim: (G' - G) => [|d IH] //; rewrite addSn => lt.
apply: leq_trans (IH (ltnW lt)) _; exact: hyper_upper_mono_G.
Qed.
Lemma lower_whyper_anti N n x G G' : G <= G' -> G' <= N -> lower (whyper N G' n) x <= lower (whyper N G n) x.
Proof.
move=> /subnK <-; elim: (G' - G) => [|d IH] //; rewrite addSn => lt.
apply: leq_trans (IH (ltnW lt)); exact: hyper_lower_anti_G.
Qed.

Theorem hyper_upper_q_mono_G N n x G G' : n <= N -> G <= G' -> G' <= N ->
  (hyper_upper_q N G n x <= hyper_upper_q N G' n x)%Q.
Proof.
move=> nN GG G'N; rewrite !hyper_upper_q_nat //; apply: Qle_nat_same; first by rewrite bin_gt0.
exact: upper_whyper_mono.
Qed.
Theorem hyper_lower_q_anti_G N n x G G' : n <= N -> G <= G' -> G' <= N ->
  (hyper_lower_q N G' n x <= hyper_lower_q N G n x)%Q.
Proof.
move=> nN GG G'N; rewrite !hyper_lower_q_nat //; apply: Qle_nat_same; first by rewrite bin_gt0.
exact: lower_whyper_anti.
Qed.

(* the lower limit returned by the bisection is the smallest G in the compatible range whose upper tail
   reaches the level; every smaller compatible G fails *)
Theorem hgci_lower_is_smallest n x N (cl : Q) alt : n <= N -> x <= n ->
  wants_lower alt x = true ->
  (tail_level cl alt <= hyper_upper_q N (N - (n - x)) n x)%Q ->
  let lo := (hypergeom_conf_interval n x N cl alt).1 in
  [/\ x <= lo, lo <= N - (n - x), (tail_level cl alt <= hyper_upper_q N lo n x)%Q &
      forall G, x <= G -> G < lo -> ~ (tail_level cl alt <= hyper_upper_q N G n x)%Q].
Proof.
move=> nN xn wl top; rewrite /hypergeom_conf_interval wl /=.
set a := tail_level cl alt; set ok := fun G => Qle_bool a (hyper_upper_q N G n x).
have hiN : N - (n - x) <= N by rewrite leq_subr.
have xhi : x <= N - (n - x) by lia.
have Hup : forall g g', (x <= g)%coq_nat -> (g <= g')%coq_nat -> (g' <= N - (n - x))%coq_nat -> ok g = true -> ok g' = true.
  move=> g g' /leP xg /leP gg /leP g'h; rewrite /ok => /Qle_bool_iff H; apply/Qle_bool_iff.
  apply: Qle_trans H _; apply: hyper_upper_q_mono_G => //; exact: leq_trans g'h hiN.
have okhi : ok (N - (n - x)) = true by apply/Qle_bool_iff.
have := @bisect_min_spec ok x (N - (n - x)) N.+1 x (N - (n - x)) Hup (le_n _) (le_n _).
move=> /(_ (elimT leP xhi)) H.
have fuel : (N - (n - x) - x <= N.+1)%coq_nat by lia.
case: (H fuel okhi) => [[/leP r1 /leP r2] [r3 r4]].
split=> //; first by apply/Qle_bool_iff.
move=> G xG Glo Hle; have := r4 G (conj (elimT leP xG) (elimT ltP Glo)).
by rewrite /ok; move/Qle_bool_iff: Hle => ->.
Qed.

Theorem hgci_upper_is_largest n x N (cl : Q) alt : n <= N -> x <= n ->
  wants_upper alt n x = true ->
  (tail_level cl alt <= hyper_lower_q N x n x)%Q ->
  let hi := (hypergeom_conf_interval n x N cl alt).2 in
  [/\ x <= hi, hi <= N - (n - x), (tail_level cl alt <= hyper_lower_q N hi n x)%Q &
      forall G, hi < G -> G <= N - (n - x) -> ~ (tail_level cl alt <= hyper_lower_q N G n x)%Q].
Proof.
move=> nN xn wu bot; rewrite /hypergeom_conf_interval wu /=.
set a := tail_level cl alt; set ok := fun G => Qle_bool a (hyper_lower_q N G n x).
have hiN : N - (n - x) <= N by rewrite leq_subr.
have xhi : x <= N - (n - x) by lia.
have Hdn : forall g g', (x <= g)%coq_nat -> (g <= g')%coq_nat -> (g' <= N - (n - x))%coq_nat -> ok g' = true -> ok g = true.
  move=> g g' /leP xg /leP gg /leP g'h; rewrite /ok => /Qle_bool_iff H; apply/Qle_bool_iff.
  apply: Qle_trans H _; apply: hyper_lower_q_anti_G => //; exact: leq_trans g'h hiN.
have oklo : ok x = true by apply/Qle_bool_iff.
have := @bisect_max_spec ok x (N - (n - x)) N.+1 x (N - (n - x)) Hdn (le_n _) (le_n _).
move=> /(_ (elimT leP xhi)) H.
have fuel : (N - (n - x) - x <= N.+1)%coq_nat by lia.
case: (H fuel oklo) => [[/leP r1 /leP r2] [r3 r4]].
split=> //; first by apply/Qle_bool_iff.
move=> G hG Gh Hle; have := r4 G (conj (elimT ltP hG) (elimT leP Gh)).
by rewrite /ok; move/Qle_bool_iff: Hle => ->.
Qed.

(* ---- the tails at the ends of the compatible range ---- *)
Lemma sumn_map0 (f : nat -> nat) (s : seq nat) : (forall k, k \in s -> f k = 0) -> sumn [seq f k | k <- s] = 0.
Proof.
elim: s => [|a s IH] //= H; rewrite H ?mem_head // IH // => k ks; apply: H; by rewrite inE ks orbT.
Qed.

(* fewer good items than observed: the upper tail vanishes *)
Lemma upper_zero_small N G n x : G < x -> upper (whyper N G n) x = 0.
Proof.
move=> Gx; rewrite /upper /whyper -map_drop drop_iota add0n; apply: sumn_map0 => k.
rewrite mem_iota => /andP [xk _]; by rewrite bin_small ?mul0n //; exact: leq_trans Gx xk.
Qed.

(* G = x: every sample has at most x good items *)
Lemma lower_full_at_x N n x : x <= N -> lower (whyper N x n) x = 'C(N, n).
Proof.
move=> xN; have := lower_upper (whyper N x n) x; rewrite whyper_total // upper_zero_small //. lia.
Qed.

(* G = N - (n - x): only n - x bad items exist, every sample has at least x good ones *)
Lemma upper_full_at_top N n x : x <= n -> n <= N -> upper (whyper N (N - (n - x)) n) x = 'C(N, n).
Proof.
move=> xn nN; case: x xn => [|x] xn; first by rewrite upper0 whyper_total // leq_subr.
have := lower_upper (whyper N (N - (n - x.+1)) n) x; rewrite whyper_total ?leq_subr // => <-.
have -> : lower (whyper N (N - (n - x.+1)) n) x = 0; last by rewrite add0n.
rewrite /lower /whyper -map_take take_iota; apply: sumn_map0 => k.
rewrite mem_iota add0n => /andP [_ kx].
have kx' : k <= x by move: kx; rewrite leq_min ltnS => /andP [].
have -> : N - (N - (n - x.+1)) = n - x.+1 by rewrite subKn //; apply: leq_trans (leq_subr _ _) nN.
have small : n - x.+1 < n - k by lia.
by rewrite (bin_small small) muln0.
Qed.

Lemma tail_top_is_one N n x : x <= n -> n <= N -> (hyper_upper_q N (N - (n - x)) n x == 1)%Q.
Proof.
move=> xn nN; rewrite hyper_upper_q_nat // upper_full_at_top //.
have : 0 < 'C(N, n) by rewrite bin_gt0.
move: ('C(N, n)) => c cp. rewrite /Qeq /Qdiv /Qmult /Qinv /inject_Z /=.
case: c cp => // c _ /=. lia.
Qed.
Lemma tail_bottom_is_one N n x : x <= n -> n <= N -> (hyper_lower_q N x n x == 1)%Q.
Proof.
move=> xn nN; rewrite hyper_lower_q_nat // lower_full_at_x; last exact: leq_trans xn nN.
have : 0 < 'C(N, n) by rewrite bin_gt0.
move: ('C(N, n)) => c cp. rewrite /Qeq /Qdiv /Qmult /Qinv /inject_Z /=.
case: c cp => // c _ /=. lia.
Qed.
Lemma tail_below_x_is_zero N G n x : n <= N -> G < x -> (hyper_upper_q N G n x == 0)%Q.
Proof.
by move=> nN Gx; rewrite hyper_upper_q_nat // upper_zero_small.
Qed.
