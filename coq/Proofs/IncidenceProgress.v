(* C19, the retry loop: (1) a swappable matrix stays swappable after every checkerboard swap (the swap just made can be
   undone), so the precondition "admits at least one swap" holds before each of the k steps; (2) whenever a checkerboard
   exists there are answers on which ONE attempt succeeds and performs exactly that swap -- so each attempt succeeds
   with probability at least 1/(n (n-1) C^2) under an ideal generator and the loop ends almost surely; conversely
   (3) without any checkerboard no attempt ever succeeds (the real code would not return). *)
From PV Require Import Lib.Base Model.Prng Model.Incidence Proofs.IncidenceProofs Proofs.SampleSurj.
From Coq Require Import Lia.
Open Scope Z_scope.

Definition swappable (C : nat) (m : matrix) : Prop :=
  exists s0 s1 p0 p1, (s0 < length m)%nat /\ (s1 < length m)%nat /\ (p0 < C)%nat /\ (p1 < C)%nat /\
    is_checkerboard m s0 s1 p0 p1 = true.

Lemma checkerboard_fields m s0 s1 p0 p1 : is_checkerboard m s0 s1 p0 p1 = true ->
  get m s0 p0 = 1 /\ get m s0 p1 = 0 /\ get m s1 p0 = 0 /\ get m s1 p1 = 1 /\ s0 <> s1 /\ p0 <> p1.
Proof.
  unfold is_checkerboard. intros H.
  repeat (apply andb_true_iff in H as [H ?]).
  apply Z.eqb_eq in H. repeat match goal with H : (_ =? _) = true |- _ => apply Z.eqb_eq in H end.
  repeat match goal with H : negb (Nat.eqb _ _) = true |- _ => apply negb_true_iff in H; apply Nat.eqb_neq in H end.
  repeat split; assumption.
Qed.

Lemma checkerboard_intro m s0 s1 p0 p1 :
  get m s0 p0 = 1 -> get m s0 p1 = 0 -> get m s1 p0 = 0 -> get m s1 p1 = 1 -> s0 <> s1 -> p0 <> p1 ->
  is_checkerboard m s0 s1 p0 p1 = true.
Proof.
  intros A B C0 D E F. unfold is_checkerboard. rewrite A, B, C0, D. cbn.
  destruct (Nat.eqb_spec s0 s1); [contradiction|]. destruct (Nat.eqb_spec p0 p1); [contradiction|]. reflexivity.
Qed.

(* (1) the swap just made can be undone: the mirrored checkerboard sits on the same rows and columns *)
Theorem cb_step_swappable C m m' : rect m C -> cb_step C m m' -> swappable C m'.
Proof.
  intros R (s0 & s1 & p0 & p1 & H0 & H1 & B0 & B1 & Hcb & ->).
  assert (R0 := R s0 H0). assert (R1 := R s1 H1).
  destruct (swap4_rect m C s0 s1 p0 p1 R) as [R' L'].
  assert (B0' := B0). assert (B1' := B1). rewrite <- R0 in B0, B1. rewrite <- R1 in B0', B1'.
  destruct (swap4_preserves_margins m s0 s1 p0 p1 H0 H1 B0 B1 B0' B1' Hcb) as (_ & _ & G00 & G01 & G10 & G11 & _).
  destruct (checkerboard_fields _ _ _ _ _ Hcb) as (_ & _ & _ & _ & Ns & Np).
  exists s1, s0, p0, p1. rewrite L'. rewrite R0 in B0, B1.
  repeat (split; [assumption|]).
  apply checkerboard_intro; auto.
Qed.

Theorem reach_swappable C : forall k m m', rect m C -> swappable C m -> reach C k m m' -> swappable C m'.
Proof.
  intros k m m' R S H. induction H as [m|k m m1 m2 S1 H IH]; [exact S|].
  destruct (cb_step_props C _ _ R S1) as (R1 & _).
  apply IH; [exact R1|]. apply (cb_step_swappable C m); assumption.
Qed.

Lemma in_cols_where m s0 s1 a b c : (c < length (nth s0 m []))%nat -> get m s0 c = a -> get m s1 c = b ->
  In c (cols_where m s0 s1 a b).
Proof.
  intros L A B. unfold cols_where. apply filter_In. split; [apply in_seq; lia|].
  rewrite A, B, !Z.eqb_refl. reflexivity.
Qed.

(* (2) an attempt can succeed, and perform any prescribed checkerboard swap *)
Theorem attempt_can_succeed C m s0 s1 p0 p1 : rect m C ->
  (s0 < length m)%nat -> (s1 < length m)%nat -> (p0 < C)%nat -> (p1 < C)%nat ->
  is_checkerboard m s0 s1 p0 p1 = true ->
  exists a b i0 i1, forall fuel rest,
    attempts m (S fuel) (a :: b :: i0 :: i1 :: rest) = Ok (swap4 m s0 s1 p0 p1, rest).
Proof.
  intros R H0 H1 B0 B1 Hcb.
  destruct (checkerboard_fields _ _ _ _ _ Hcb) as (V00 & V01 & V10 & V11 & Ns & Np).
  destruct (sample2_surj_std H0 H1 Ns) as (a & b & Hs).
  assert (R0 := R s0 H0).
  assert (I0 : In p0 (cols_where m s0 s1 1 0)) by (apply in_cols_where; [rewrite R0; exact B0|exact V00|exact V10]).
  assert (I1 : In p1 (cols_where m s0 s1 0 1)) by (apply in_cols_where; [rewrite R0; exact B1|exact V01|exact V11]).
  destruct (choice_surj_std I0) as (i0 & Hc0).
  destruct (choice_surj_std I1) as (i1 & Hc1).
  exists a, b, i0, i1. intros fuel rest.
  destruct (Hs (i0 :: i1 :: rest)) as [Ed Es].
  cbn [attempts]. rewrite Ed. cbn [bind fst snd]. rewrite Es.
  destruct (cols_where m s0 s1 1 0) as [|a0 c0] eqn:E0; [destruct I0|].
  destruct (cols_where m s0 s1 0 1) as [|a1 c1] eqn:E1; [destruct I1|].
  rewrite Hc0. cbn [bind fst snd]. rewrite Hc1. cbn [bind fst snd]. reflexivity.
Qed.

(* (3) without a checkerboard no attempt succeeds, whatever the answers and however many retries *)
Theorem no_checkerboard_no_result C m : rect m C -> ~ swappable C m ->
  forall fuel t m' t', attempts m fuel t <> Ok (m', t').
Proof.
  intros R NS fuel t m' t' H. apply NS.
  destruct (attempts_cb_step C _ _ _ _ _ R H) as (s0 & s1 & p0 & p1 & A & B & D & E & F & _).
  exists s0, s1, p0, p1. repeat (split; [assumption|]). exact F.
Qed.
