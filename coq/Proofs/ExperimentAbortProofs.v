(* Invariants of Experiment histories with aborted and rejected operations (Model/ExperimentAbort.v). *)
From Coq Require Import ZArith.
From PV Require Import Lib.Base Model.Prng Model.Core Model.Stratified Model.Experiment Model.ExperimentAbort.
From mathcomp Require Import all_ssreflect zify.
From PV Require Import Lib.Shuffle Lib.ShuffleTape Proofs.ExperimentProofs Proofs.ExperimentStrataProofs.
Local Open Scope nat_scope.
Set Implicit Arguments. Unset Strict Implicit. Unset Printing Implicit Defensive.

Lemma abort_fields e ip rs fork j e' : wfs (strata e) (group e) -> abort_step e ip rs fork j = Ok e' ->
  [/\ response e' = response e, strata e' = strata e, kind e' = kind e,
      perm_eq (group e') (group e) & size (group e') = size (group e)].
Proof.
move=> w; rewrite /abort_step.
have [eg er es ek] := reseeded_fields e rs.
have wr : wfs (strata (reseeded e rs)) (group (reseeded e rs)) by rewrite es eg.
move=> H; have [[[rows g1] t1] [E [<-]]] := bind_ok H.
have [p1 s1] := rand_chain_perm wr E; rewrite eg in p1 s1.
by clear E H; case: ip; rewrite /= ?er ?es ?ek ?eg.
Qed.

Lemma abort_not_in_place e rs fork j e' : abort_step e false rs fork j = Ok e' -> e' = reseeded e rs.
Proof. by rewrite /abort_step => H; have [[[rows g1] t1] [_ [<-]]] := bind_ok H. Qed.

Lemma hstep_fields e h e' : wfs (strata e) (group e) -> hstep e h = Ok e' ->
  [/\ response e' = response e, strata e' = strata e, kind e' = kind e,
      perm_eq (group e') (group e) & size (group e') = size (group e)].
Proof.
move=> w; case: h => [o|ip rs fork j|] /=.
- move=> H; have [[e1 out] [E [<-]]] := bind_ok H. exact: step_fields w E.
- exact: abort_fields.
- by case=> <-.
Qed.

Lemma hstep_Inv e0 e h e' : wf e0 -> Inv e0 e -> hstep e h = Ok e' -> Inv e0 e'.
Proof.
move=> w [r s k p sz] H.
have we : wfs (strata e) (group e) by move: w; rewrite /wf /wfs s sz.
have [r1 s1 k1 p1 z1] := hstep_fields we H.
split; [by rewrite r1 | by rewrite s1 | by rewrite k1 | exact: perm_trans p1 p | by rewrite z1].
Qed.

(* every state reachable through completed, aborted and rejected operations has the original responses, strata and
   randomizer kind, and an assignment that is a rearrangement of the original labels *)
Theorem hrun_Inv e0 : wf e0 -> forall hs e e', Inv e0 e -> hrun e hs = Ok e' -> Inv e0 e'.
Proof.
move=> w; elim=> [|h hs IH] e e' I /=; first by case=> <-.
case E: (hstep e h) => [e1|] //= H.
exact: IH (hstep_Inv w I E) H.
Qed.

(* ... and, for the stratified randomizer, in EACH stratum exactly the labels that stratum started with *)
Lemma abort_within e ip rs fork j e' st : strata e = Some st -> kind e = Strat -> abort_step e ip rs fork j = Ok e' ->
  forall k, perm_eq (stratum_labels st (group e') k) (stratum_labels st (group e) k).
Proof.
move=> es ek; rewrite /abort_step.
have [eg er es' ek'] := reseeded_fields e rs; rewrite ?es' ?ek' ?eg ?er es ek.
move=> H; have [[[rows g1] t1] [E [<-]]] := bind_ok H.
move=> k; have := rand_chain_within E k; rewrite ?eg.
by clear E H; case: ip; rewrite /= ?eg.
Qed.

Lemma hstep_within e h e' st : strata e = Some st -> kind e = Strat -> hstep e h = Ok e' ->
  forall k, perm_eq (stratum_labels st (group e') k) (stratum_labels st (group e) k).
Proof.
move=> es ek; case: h => [o|ip rs fork j|] /=.
- move=> H; have [[e1 out] [E [<-]]] := bind_ok H. exact: step_within es ek E.
- exact: abort_within.
- by case=> <- k.
Qed.

Theorem hrun_within e0 st : wf e0 -> strata e0 = Some st -> kind e0 = Strat ->
  forall hs e e', Inv e0 e -> (forall k, perm_eq (stratum_labels st (group e) k) (stratum_labels st (group e0) k)) ->
  hrun e hs = Ok e' ->
  forall k, perm_eq (stratum_labels st (group e') k) (stratum_labels st (group e0) k).
Proof.
move=> w s0 k0; elim=> [|h hs IH] e e' I W /=; first by case=> <-.
case E: (hstep e h) => [e1|] //= H.
have [_ se ke _ _] := I.
have W1 : forall k, perm_eq (stratum_labels st (group e1) k) (stratum_labels st (group e0) k).
  move=> k; apply: perm_trans (W k).
  by apply: (hstep_within _ _ E); rewrite ?se ?ke.
exact: IH (hstep_Inv w I E) W1 H.
Qed.

(* a call that is aborted or rejected with in_place=False (or rejected at all) leaves the caller's Experiment untouched *)
Theorem failed_not_in_place e h e' : hstep e h = Ok e' ->
  match h with
  | Aborted false rs _ _ => e' = reseeded e rs
  | Rejected => e' = e
  | _ => True
  end.
Proof.
case: h => [o|[] rs fork j|] //=.
- exact: abort_not_in_place.
- by case.
Qed.
