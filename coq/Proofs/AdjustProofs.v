(* Properties of the textbook (sort-free) adjustments of Model/Adjust.v (C11). *)
From PV Require Import Lib.Base Model.Adjust Proofs.QLemmas.
From Coq Require Import Lqa Lia Sorting.Permutation.
Open Scope Q_scope.

Lemma qn_nonneg n : 0 <= qn n.
Proof. unfold qn. change 0 with (inject_Z 0). rewrite <- Zle_Qle. lia. Qed.
Lemma qn_le a b : (a <= b)%nat -> qn a <= qn b.
Proof. intros H. unfold qn. rewrite <- Zle_Qle. lia. Qed.
Lemma qn_pos a : (0 < a)%nat -> 1 <= qn a.
Proof. intros H. unfold qn. change 1 with (inject_Z 1). rewrite <- Zle_Qle. lia. Qed.
Lemma qn_plus a b : qn (a + b) == qn a + qn b.
Proof. unfold qn. rewrite Nat2Z.inj_add, inject_Z_plus. reflexivity. Qed.

Lemma qcap_le1 x : qcap x <= 1.
Proof. unfold qcap. destruct (Qmin_spec x 1) as [[H ->]|[H ->]]; lra. Qed.
Lemma qcap_mono x y : x <= y -> qcap x <= qcap y.
Proof. intros H. unfold qcap. destruct (Qmin_spec x 1) as [[H1 ->]|[H1 ->]]; destruct (Qmin_spec y 1) as [[H2 ->]|[H2 ->]]; lra. Qed.
Lemma qcap_ge x b : b <= x -> b <= 1 -> b <= qcap x.
Proof. intros H1 H2. unfold qcap. destruct (Qmin_spec x 1) as [[H ->]|[H ->]]; lra. Qed.
Lemma qcap_nonneg x : 0 <= x -> 0 <= qcap x.
Proof. intros H. apply qcap_ge; lra. Qed.

Lemma qmaxl_ge l v : In v l -> v <= qmaxl l.
Proof.
  induction l as [|a l IH]; [intros []|]. unfold qmaxl. cbn [fold_right]. fold (qmaxl l).
  destruct (Qmax_spec a (qmaxl l)) as [[H ->]|[H ->]]; intros [E|Hin]; try (rewrite <- E); try lra; specialize (IH Hin); lra.
Qed.
Lemma qmaxl_le l b : 0 <= b -> (forall v, In v l -> v <= b) -> qmaxl l <= b.
Proof.
  intros Hb. induction l as [|a l IH]; intros H; [cbn; exact Hb|]. unfold qmaxl. cbn [fold_right]. fold (qmaxl l).
  destruct (Qmax_spec a (qmaxl l)) as [[H1 ->]|[H1 ->]]; [apply IH; intros v Hv; apply H; right; exact Hv|apply H; left; reflexivity].
Qed.
Lemma qminl_le l v : In v l -> qminl l <= v.
Proof.
  induction l as [|a l IH]; [intros []|]. unfold qminl. cbn [fold_right]. fold (qminl l).
  destruct (Qmin_spec a (qminl l)) as [[H ->]|[H ->]]; intros [E|Hin]; try (rewrite <- E); try lra; specialize (IH Hin); lra.
Qed.
Lemma qminl_ge l b : b <= 1 -> (forall v, In v l -> b <= v) -> b <= qminl l.
Proof.
  intros Hb. induction l as [|a l IH]; intros H; [cbn; exact Hb|]. unfold qminl. cbn [fold_right]. fold (qminl l).
  destruct (Qmin_spec a (qminl l)) as [[H1 ->]|[H1 ->]]; [apply H; left; reflexivity|apply IH; intros v Hv; apply H; right; exact Hv].
Qed.

Lemma count_le_length f p : (count f p <= length p)%nat.
Proof. unfold count. induction p as [|a p IH]; simpl; [lia|]. destruct (f a); simpl; lia. Qed.
Lemma count_pos f p x : In x p -> f x = true -> (1 <= count f p)%nat.
Proof.
  unfold count. induction p as [|a p IH]; [intros []|]. intros [->|Hin] Hf; cbn [filter].
  - rewrite Hf. cbn. lia.
  - specialize (IH Hin Hf). destruct (f a); cbn [length]; lia.
Qed.
(* #{y <= x} + #{x <= y} >= n + 1 when x occurs in p *)
Lemma count_le_ge_sum p x : In x p ->
  (length p + 1 <= count (fun y => Qle_bool y x) p + count (fun y => Qle_bool x y) p)%nat.
Proof.
  unfold count. induction p as [|a p IH]; [intros []|]. intros Hin. cbn [filter length].
  assert (Ht : Qle_bool a x = true \/ Qle_bool x a = true).
  { destruct (Qlt_le_dec x a) as [H|H]; [right|left]; apply Qle_bool_iff; lra. }
  destruct Hin as [->|Hin].
  - assert (E : Qle_bool x x = true) by (apply Qle_bool_iff; lra). rewrite E. cbn [length].
    clear IH. assert (length p <= length (filter (fun y => Qle_bool y x) p) + length (filter (fun y => Qle_bool x y) p))%nat.
    { induction p as [|b p IHp]; [cbn; lia|]. cbn [filter length].
      assert (Hb : Qle_bool b x = true \/ Qle_bool x b = true).
      { destruct (Qlt_le_dec x b) as [H|H]; [right|left]; apply Qle_bool_iff; lra. }
      destruct (Qle_bool b x); destruct (Qle_bool x b); cbn [length]; try lia; destruct Hb; discriminate. }
    lia.
  - specialize (IH Hin). destruct (Qle_bool a x); destruct (Qle_bool x a); cbn [length]; try lia; destruct Ht; discriminate.
Qed.

Lemma prod_ge_sum (a b c : nat) : (1 <= a -> 1 <= b -> c + 1 <= a + b -> c <= a * b)%nat.
Proof. intros Ha Hb H. destruct a as [|a]; [lia|]. destruct b as [|b]; [lia|]. nia. Qed.

Section Chain.
Variable p : list Q.
Hypothesis p01 : forall y, In y p -> 0 <= y <= 1.
Variable x : Q.
Hypothesis xin : In x p.

Let n := length p.
Definition holm_val := qmaxl (map (holm_term p) (filter (fun y => Qle_bool y x) p)).
Definition bh_val := qminl (map (bh_term p) (filter (fun y => Qle_bool x y) p)).
Definition bonf_val := qcap (qn n * x).

Lemma npos : (1 <= n)%nat.
Proof. unfold n. destruct p; [destruct xin|cbn; lia]. Qed.

Lemma bonf_le_one : bonf_val <= 1.
Proof. apply qcap_le1. Qed.

Lemma holm_le_bonf : holm_val <= bonf_val.
Proof.
  unfold holm_val, bonf_val. pose proof (p01 x xin) as Hx.
  apply qmaxl_le.
  - apply qcap_nonneg. pose proof (qn_nonneg n). nra.
  - intros v Hv. apply in_map_iff in Hv as [y [<- Hy]]. apply filter_In in Hy as [Hyin Hyx].
    apply Qle_bool_iff in Hyx. pose proof (p01 y Hyin) as Hy01.
    unfold holm_term. apply qcap_mono.
    pose proof (qn_le _ _ (count_le_length (fun z => Qle_bool y z) p)) as Hc. fold n in Hc.
    pose proof (qn_nonneg (count (fun z => Qle_bool y z) p)). nra.
Qed.

Lemma x_le_bh : x <= bh_val.
Proof.
  unfold bh_val. pose proof (p01 x xin) as Hx. apply qminl_ge; [lra|].
  intros v Hv. apply in_map_iff in Hv as [y [<- Hy]]. apply filter_In in Hy as [Hyin Hxy].
  apply Qle_bool_iff in Hxy. pose proof (p01 y Hyin) as Hy01.
  unfold bh_term. apply qcap_ge; [|lra].
  assert (Hr : (1 <= count (fun z => Qle_bool z y) p)%nat).
  { apply (count_pos _ p y Hyin). apply Qle_bool_iff. lra. }
  pose proof (qn_pos _ Hr) as Hr1.
  pose proof (qn_le _ _ (count_le_length (fun z => Qle_bool z y) p)) as Hrn. fold n in Hrn.
  apply Qle_trans with y; [exact Hxy|].
  apply Qle_shift_div_l; [lra|].
  assert (0 <= y * (qn n - qn (count (fun z => Qle_bool z y) p))) by (apply Qmult_le_0_compat; lra).
  unfold n in *. nra.
Qed.

Lemma bh_le_holm : bh_val <= holm_val.
Proof.
  pose proof (p01 x xin) as Hx.
  assert (Hxx : Qle_bool x x = true) by (apply Qle_bool_iff; lra).
  apply Qle_trans with (bh_term p x).
  - apply qminl_le. apply in_map. apply filter_In. split; assumption.
  - apply Qle_trans with (holm_term p x).
    + unfold bh_term, holm_term. apply qcap_mono.
      set (r := count (fun z => Qle_bool z x) p). set (m := count (fun z => Qle_bool x z) p).
      assert (Hr : (1 <= r)%nat) by (apply (count_pos (fun z => Qle_bool z x) p x xin Hxx)).
      assert (Hm : (1 <= m)%nat) by (apply (count_pos (fun z => Qle_bool x z) p x xin Hxx)).
      pose proof (count_le_ge_sum p x xin) as Hs. fold r m in Hs. unfold n in *.
      assert (Hn : (length p <= r * m)%nat) by (apply prod_ge_sum; assumption).
      pose proof (qn_pos _ Hr) as Hr1. pose proof (qn_pos _ Hm) as Hm1.
      assert (Hq : qn (length p) <= qn r * qn m).
      { unfold qn. rewrite <- inject_Z_mult, <- Zle_Qle. lia. }
      apply Qle_shift_div_r; [lra|].
      assert (0 <= x * (qn r * qn m - qn (length p))) by (apply Qmult_le_0_compat; lra).
      nra.
    + unfold holm_val. apply qmaxl_ge. apply in_map. apply filter_In. split; assumption.
Qed.

Theorem chain : x <= bh_val /\ bh_val <= holm_val /\ holm_val <= bonf_val /\ bonf_val <= 1.
Proof. split; [apply x_le_bh|split; [apply bh_le_holm|split; [apply holm_le_bonf|apply bonf_le_one]]]. Qed.
End Chain.

(* the spec lists are these values, entry by entry *)
Lemma holm_spec_nth p : holm_spec p = map (holm_val p) p.
Proof. reflexivity. Qed.
Lemma bh_spec_nth p : bh_spec p = map (bh_val p) p.
Proof. reflexivity. Qed.
Lemma bonf_spec_nth p : bonf_spec p = map (fun x => qcap (qn (length p) * x)) p.
Proof. reflexivity. Qed.

(* the order of the p-values is preserved *)
Lemma incl_filter_le p x y : x <= y -> incl (filter (fun z => Qle_bool z x) p) (filter (fun z => Qle_bool z y) p).
Proof.
  intros H z Hz. apply filter_In in Hz as [Hin Hzx]. apply filter_In. split; [exact Hin|].
  apply Qle_bool_iff in Hzx. apply Qle_bool_iff. lra.
Qed.
Lemma incl_filter_ge p x y : x <= y -> incl (filter (fun z => Qle_bool y z) p) (filter (fun z => Qle_bool x z) p).
Proof.
  intros H z Hz. apply filter_In in Hz as [Hin Hzx]. apply filter_In. split; [exact Hin|].
  apply Qle_bool_iff in Hzx. apply Qle_bool_iff. lra.
Qed.
Lemma holm_term_nonneg p y : 0 <= y -> 0 <= holm_term p y.
Proof. intros H. unfold holm_term. apply qcap_nonneg. pose proof (qn_nonneg (count (fun z => Qle_bool y z) p)). nra. Qed.

Theorem holm_monotone p x y : (forall z, In z p -> 0 <= z) -> x <= y -> holm_val p x <= holm_val p y.
Proof.
  intros Hp H. unfold holm_val. apply qmaxl_le.
  - clear. induction (map (holm_term p) (filter (fun y0 => Qle_bool y0 y) p)) as [|a l IH]; [cbn; lra|].
    unfold qmaxl. cbn [fold_right]. fold (qmaxl l). destruct (Qmax_spec a (qmaxl l)) as [[H1 ->]|[H1 ->]]; lra.
  - intros v Hv. apply in_map_iff in Hv as [z [<- Hz]]. apply qmaxl_ge. apply in_map. apply (incl_filter_le p x y H). exact Hz.
Qed.
Theorem bh_monotone p x y : x <= y -> bh_val p x <= bh_val p y.
Proof.
  intros H. unfold bh_val. apply qminl_ge.
  - clear. induction (map (bh_term p) (filter (fun y0 => Qle_bool x y0) p)) as [|a l IH]; [cbn; lra|].
    unfold qminl. cbn [fold_right]. fold (qminl l). destruct (Qmin_spec a (qminl l)) as [[H1 ->]|[H1 ->]]; [|lra].
    unfold bh_term in *. pose proof (qcap_le1 (qn (length p) * x / qn (count (fun y => Qle_bool y x) p))). 
    assert (a <= 1). { clear -H1 IH. lra. } lra.
  - intros v Hv. apply in_map_iff in Hv as [z [<- Hz]]. apply qminl_le. apply in_map. apply (incl_filter_ge p x y H). exact Hz.
Qed.
