(* fwer_minp (C09): the k-th step-down value goes to the hypothesis with the k-th smallest raw p-value, the
   first is the global NPC p-value, the sequence is a running maximum. *)
From PV Require Import Lib.Base Model.Npc Proofs.QLemmas Proofs.NpcProofs.
From Coq Require Import Lqa Lia.
Open Scope Q_scope.

Lemma set_nth_length {A} (l : list A) i v : length (set_nth l i v) = length l.
Proof. revert i; induction l as [|a l IH]; intros [|i]; cbn; try reflexivity. f_equal. apply IH. Qed.
Lemma nth_set_nth_eq {A} (l : list A) i v d : (i < length l)%nat -> nth i (set_nth l i v) d = v.
Proof. revert i; induction l as [|a l IH]; intros [|i] H; cbn in *; try lia; [reflexivity|apply IH; lia]. Qed.
Lemma nth_set_nth_neq {A} (l : list A) i j v d : i <> j -> nth j (set_nth l i v) d = nth j l d.
Proof.
  revert i j; induction l as [|a l IH]; intros [|i] [|j] H; cbn; try reflexivity; try congruence.
  apply IH. congruence.
Qed.

(* out[order] = adjusted : position ord[k] receives the k-th value *)
Lemma scatter_nth : forall (ord : list nat) (vals out : list Q) k,
  NoDup ord -> (forall i, In i ord -> (i < length out)%nat) -> length vals = length ord ->
  (k < length ord)%nat -> nth (nth k ord 0%nat) (scatter ord vals out) 0 = nth k vals 0.
Proof.
  induction ord as [|i ord IH]; intros vals out k Hnd Hin Hlen Hk; cbn in Hk; [lia|].
  destruct vals as [|v vals]; [discriminate|]. cbn [scatter]. inversion Hnd as [|? ? Hni Hnd']; subst.
  destruct k as [|k]; cbn [nth].
  - (* later writes never touch position i *)
    assert (G : forall (o : list nat) (vs w : list Q), ~ In i o -> nth i (scatter o vs w) 0 = nth i w 0).
    { induction o as [|j o IHo]; intros vs w Hn; [destruct vs; reflexivity|].
      destruct vs as [|u vs]; [reflexivity|]. cbn [scatter]. rewrite IHo by (intros F; apply Hn; right; exact F).
      apply nth_set_nth_neq. intros ->. apply Hn. left; reflexivity. }
    rewrite G by exact Hni. apply nth_set_nth_eq. apply Hin. left; reflexivity.
  - apply IH; try assumption.
    + intros j Hj. rewrite set_nth_length. apply Hin. right; exact Hj.
    + cbn in Hlen. lia.
    + lia.
Qed.

(* the step-down values form a running maximum starting above [prev] *)
Lemma stepdown_running : forall k p_ord d_ord c plus1 prev vals,
  stepdown p_ord d_ord c plus1 prev k = Ok vals ->
  (forall v, In v vals -> prev <= v) /\
  (forall i j, (i <= j < length vals)%nat -> nth i vals 0 <= nth j vals 0).
Proof.
  induction k as [|k IH]; intros p_ord d_ord c plus1 prev vals H; cbn [stepdown] in H.
  - destruct p_ord as [|pl [|? ?]]; inversion H; subst; cbn.
    + split; [intros v []|intros i j Hij; lia].
    + split.
      * intros v [<-|[]]. destruct (Qmax_spec pl prev) as [[H1 ->]|[H1 ->]]; lra.
      * intros i j Hij. assert (i = 0%nat /\ j = 0%nat) as [-> ->] by lia. lra.
    + split; [intros v []|intros i j Hij; lia].
  - destruct (npc p_ord d_ord c plus1) as [nxt|]; cbn [bind] in H; [|discriminate].
    destruct (stepdown (tl p_ord) (map (@tl Q) d_ord) c plus1 (Qmax nxt prev) k) as [rest|] eqn:E; cbn [bind] in H; [|discriminate].
    inversion H; subst vals. clear H.
    destruct (IH _ _ _ _ _ _ E) as [I1 I2].
    assert (Hp : prev <= Qmax nxt prev) by (destruct (Qmax_spec nxt prev) as [[H1 ->]|[H1 ->]]; lra).
    split.
    + intros v [<-|Hv]; [exact Hp|]. specialize (I1 v Hv). lra.
    + intros i j Hij. destruct i as [|i]; destruct j as [|j]; cbn [nth]; cbn [length] in Hij; try lia; try lra.
      * apply I1. apply nth_In. lia.
      * apply I2. lia.
Qed.
