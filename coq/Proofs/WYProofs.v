(* Westfall-Young (C10): properties of the textbook step-down procedures of Model/WY.v. *)
From PV Require Import Lib.Base Model.WY Lib.RankValid Proofs.QLemmas.
From Coq Require Import Lqa Lia.
Open Scope Q_scope.

Lemma Qle_bool_total a b : Qle_bool a b = true \/ Qle_bool b a = true.
Proof. destruct (Qlt_le_dec b a) as [H|H]; [right|left]; apply Qle_bool_iff; lra. Qed.
Lemma Qle_bool_trans a b c : Qle_bool a b = true -> Qle_bool b c = true -> Qle_bool a c = true.
Proof. rewrite !Qle_bool_iff. intros; lra. Qed.

(* min-P: m(r) = min over the hypotheses of the row's permutation p-values; the smallest adjusted p-value of a
   table whose observed row is r is  #{rows r' : m(r') <= m(r)} / #rows  (first step-down value).  Whatever the
   table, at most k rows have at most k rows with m(r') <= m(r): among exchangeable rows the probability that
   the smallest adjusted p-value is <= k/#rows is at most k/#rows -- exact FWER control under the complete null *)
Theorem wy_minp_fwer (alt_of : nat -> walt) (rows : list (list Q)) (L : list nat) (k : nat) :
  let m := fun r => qminl (map (fun l => row_p (alt_of l) rows l r) L) in
  (length (filter (fun r => Nat.leb (length (filter (fun r' => Qle_bool (m r') (m r)) rows)) k) rows) <= k)%nat.
Proof.
  intros m.
  exact (rank_pvalue_valid (list Q) (fun a b => Qle_bool (m a) (m b))
           (fun x y => Qle_bool_total (m x) (m y)) (fun x y z => Qle_bool_trans (m x) (m y) (m z)) rows k).
Qed.

(* max-T: M(r) = max over the hypotheses of the row's (signed or absolute) statistics *)
Theorem wy_maxt_fwer (alt_of : nat -> walt) (rows : list (list Q)) (L : list nat) (k : nat) :
  let M := fun r => qmaxl (map (fun l => tr (alt_of l) (nth l r 0)) L) in
  (length (filter (fun r => Nat.leb (length (filter (fun r' => Qle_bool (M r) (M r')) rows)) k) rows) <= k)%nat.
Proof.
  intros M.
  exact (rank_pvalue_valid (list Q) (fun a b => Qle_bool (M b) (M a))
           (fun x y => match Qle_bool_total (M y) (M x) with or_introl h => or_introl h | or_intror h => or_intror h end)
           (fun x y z h1 h2 => Qle_bool_trans (M z) (M y) (M x) h2 h1) rows k).
Qed.

(* the first step-down value of the spec is that rank count *)
Lemma stepdown_minp_head alt_of rows obs c rest prev :
  stepdown_minp alt_of rows obs (c :: rest) prev =
  let rawc := row_p (alt_of c) rows c obs in
  let cnt := count_if (fun x => Qle_bool x rawc)
               (map (fun r => qminl (map (fun l => row_p (alt_of l) rows l r) (c :: rest))) rows) in
  let a := Qmax (qn cnt / qn (length rows)) prev in
  (c, a) :: stepdown_minp alt_of rows obs rest a.
Proof. reflexivity. Qed.
Lemma stepdown_maxt_head alt_of rows obs c rest prev :
  stepdown_maxt alt_of rows obs (c :: rest) prev =
  let sc := tr (alt_of c) (nth c obs 0) in
  let cnt := count_if (fun x => Qle_bool sc x)
               (map (fun r => qmaxl (map (fun l => tr (alt_of l) (nth l r 0)) (c :: rest))) rows) in
  let a := Qmax (qn cnt / qn (length rows)) prev in
  (c, a) :: stepdown_maxt alt_of rows obs rest a.
Proof. reflexivity. Qed.

(* the step-down values are a running maximum *)
Lemma stepdown_minp_running alt_of rows obs : forall L prev c a,
  In (c, a) (stepdown_minp alt_of rows obs L prev) -> prev <= a.
Proof.
  induction L as [|c0 L IH]; intros prev c a H; [destruct H|].
  cbn [stepdown_minp] in H.
  match type of H with In _ ((_, ?v) :: _) => set (a0 := v) in H end.
  assert (Hp : prev <= a0).
  { unfold a0. match goal with |- _ <= Qmax ?u ?w => destruct (Qmax_spec u w) as [[H1 ->]|[H1 ->]] end; lra. }
  destruct H as [H|H]; [inversion H; subst; exact Hp|].
  specialize (IH _ _ _ H). lra.
Qed.

(* raw p-values: (count+1)/(reps+1) in the implementation is count-over-all-rows / #rows in the spec *)
Lemma qn_S n : qn (S n) == qn n + 1.
Proof. unfold qn. rewrite Nat2Z.inj_succ. unfold Z.succ. rewrite inject_Z_plus. reflexivity. Qed.

Theorem raw_p_is_rank_over_all_rows a tsc tvc :
  raw_p a tsc tvc == qn (count_if (fun v => Qle_bool (tr a tsc) (tr a v)) (tsc :: tvc)) / qn (length (tsc :: tvc)).
Proof.
  unfold raw_p, count_if. cbn [filter length].
  assert (E : Qle_bool (tr a tsc) (tr a tsc) = true) by (apply Qle_bool_iff; apply Qle_refl).
  rewrite E. cbn [length]. rewrite !qn_S. reflexivity.
Qed.
