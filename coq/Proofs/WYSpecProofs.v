(* Westfall-Young (C10): the model of the code (in-place loops over a table, Model/WY.westfall_young_table)
   computes the textbook step-down min-P / max-T adjusted p-values (Model/WY.wy_spec), for every table. *)
From PV Require Import Lib.Base Model.WY Proofs.QLemmas Proofs.WYProofs Proofs.WYChain.
From Coq Require Import Lqa Lia Permutation Sorted.
Open Scope Q_scope.

(* ---- successive minima / maxima ---- *)
Lemma Qmin_compat a a' b b' : a == a' -> b == b' -> Qmin a b == Qmin a' b'.
Proof.
  intros E1 E2. destruct (Qmin_spec a b) as [[H ->]|[H ->]]; destruct (Qmin_spec a' b') as [[H' ->]|[H' ->]]; lra.
Qed.
Lemma Qmax_compat' a a' b b' : a == a' -> b == b' -> Qmax a b == Qmax a' b'.
Proof.
  intros E1 E2. destruct (Qmax_spec a b) as [[H ->]|[H ->]]; destruct (Qmax_spec a' b') as [[H' ->]|[H' ->]]; lra.
Qed.
Lemma Qmin_assoc' a b c : Qmin (Qmin a b) c == Qmin a (Qmin b c).
Proof.
  destruct (Qmin_spec a b) as [[H1 E1]|[H1 E1]]; rewrite E1;
  destruct (Qmin_spec b c) as [[H2 E2]|[H2 E2]]; rewrite E2;
  repeat match goal with |- context [Qmin ?x ?y] => destruct (Qmin_spec x y) as [[? ->]|[? ->]] end; lra.
Qed.
Lemma Qmax_assoc' a b c : Qmax (Qmax a b) c == Qmax a (Qmax b c).
Proof.
  destruct (Qmax_spec a b) as [[H1 E1]|[H1 E1]]; rewrite E1;
  destruct (Qmax_spec b c) as [[H2 E2]|[H2 E2]]; rewrite E2;
  repeat match goal with |- context [Qmax ?x ?y] => destruct (Qmax_spec x y) as [[? ->]|[? ->]] end; lra.
Qed.

Lemma fl_min_compat : forall t a b, a == b -> fold_left Qmin t a == fold_left Qmin t b.
Proof. induction t as [|c t IH]; intros a b E; cbn [fold_left]; [exact E|]. apply IH. apply Qmin_compat; [exact E|reflexivity]. Qed.
Lemma fl_max_compat : forall t a b, a == b -> fold_left Qmax t a == fold_left Qmax t b.
Proof. induction t as [|c t IH]; intros a b E; cbn [fold_left]; [exact E|]. apply IH. apply Qmax_compat'; [exact E|reflexivity]. Qed.
Lemma fl_min_assoc : forall t a b, fold_left Qmin t (Qmin a b) == Qmin a (fold_left Qmin t b).
Proof.
  induction t as [|c t IH]; intros a b; cbn [fold_left]; [reflexivity|].
  rewrite (fl_min_compat t _ _ (Qmin_assoc' a b c)). apply IH.
Qed.
Lemma fl_max_assoc : forall t a b, fold_left Qmax t (Qmax a b) == Qmax a (fold_left Qmax t b).
Proof.
  induction t as [|c t IH]; intros a b; cbn [fold_left]; [reflexivity|].
  rewrite (fl_max_compat t _ _ (Qmax_assoc' a b c)). apply IH.
Qed.
Lemma qminl_cons a b t : qminl (a :: b :: t) == Qmin a (qminl (b :: t)).
Proof. cbn [qminl fold_left]. apply fl_min_assoc. Qed.
Lemma qmaxl_cons a b t : qmaxl (a :: b :: t) == Qmax a (qmaxl (b :: t)).
Proof. cbn [qmaxl fold_left]. apply fl_max_assoc. Qed.
Lemma qminl_le_head a t : qminl (a :: t) <= a.
Proof.
  destruct t as [|b t]; [cbn; lra|]. rewrite qminl_cons. destruct (Qmin_spec a (qminl (b :: t))) as [[H ->]|[H ->]]; lra.
Qed.
Lemma qmaxl_ge_head a t : a <= qmaxl (a :: t).
Proof.
  destruct t as [|b t]; [cbn; lra|]. rewrite qmaxl_cons. destruct (Qmax_spec a (qmaxl (b :: t))) as [[H ->]|[H ->]]; lra.
Qed.
Lemma qminl_compat : forall l l', Forall2 Qeq l l' -> qminl l == qminl l'.
Proof.
  intros l l' H. destruct H as [|a a' t t' Ea Ht]; [reflexivity|]. cbn [qminl].
  revert a a' Ea. induction Ht as [|b b' t t' Eb Ht IH]; intros a a' Ea; cbn [fold_left]; [exact Ea|].
  apply IH. apply Qmin_compat; assumption.
Qed.
Lemma qmaxl_compat : forall l l', Forall2 Qeq l l' -> qmaxl l == qmaxl l'.
Proof.
  intros l l' H. destruct H as [|a a' t t' Ea Ht]; [reflexivity|]. cbn [qmaxl].
  revert a a' Ea. induction Ht as [|b b' t t' Eb Ht IH]; intros a a' Ea; cbn [fold_left]; [exact Ea|].
  apply IH. apply Qmax_compat'; assumption.
Qed.

(* ---- the stable insertion sort returns a permutation ---- *)
Lemma ins_by_perm le key i : forall l, Permutation (ins_by le key i l) (i :: l).
Proof.
  induction l as [|j t IH]; cbn [ins_by]; [apply Permutation_refl|].
  destruct (le (key j) (key i)); [|apply Permutation_refl].
  apply perm_trans with (j :: i :: t); [apply perm_skip; exact IH|apply perm_swap].
Qed.
Lemma sort_by_perm le key idx : Permutation (sort_by le key idx) idx.
Proof.
  unfold sort_by. assert (G : forall acc, Permutation (fold_left (fun acc i => ins_by le key i acc) idx acc) (acc ++ idx)).
  { induction idx as [|i t IH]; intros acc; cbn [fold_left]; [rewrite app_nil_r; apply Permutation_refl|].
    apply perm_trans with (ins_by le key i acc ++ t); [apply IH|].
    apply perm_trans with ((i :: acc) ++ t); [apply Permutation_app_tail; apply ins_by_perm|].
    cbn. apply Permutation_middle. }
  apply (G []).
Qed.

(* ... and it is sorted, for a total and transitive comparison *)
Section Sorted.
Variable le : Q -> Q -> bool.
Variable key : nat -> Q.
Hypothesis le_total : forall a b, le a b = true \/ le b a = true.
Hypothesis le_trans : forall a b c, le a b = true -> le b c = true -> le a c = true.
Definition kle (i j : nat) : Prop := le (key i) (key j) = true.
Lemma ins_by_sorted i : forall l, StronglySorted kle l -> StronglySorted kle (ins_by le key i l).
Proof.
  induction l as [|j t IH]; intros H; cbn [ins_by]; [constructor; [constructor|constructor]|].
  inversion H as [|j' t' Ht Hall]; subst.
  destruct (le (key j) (key i)) eqn:E.
  - constructor; [apply IH; exact Ht|].
    apply Forall_forall. intros x Hx. apply (Permutation_in _ (ins_by_perm le key i t)) in Hx.
    destruct Hx as [<-|Hx]; [exact E|]. rewrite Forall_forall in Hall. apply Hall. exact Hx.
  - assert (E' : le (key i) (key j) = true) by (destruct (le_total (key i) (key j)) as [X|X]; [exact X|congruence]).
    constructor; [exact H|]. constructor; [exact E'|].
    rewrite Forall_forall in Hall. apply Forall_forall. intros x Hx. apply (le_trans _ _ _ E'). apply Hall. exact Hx.
Qed.
Lemma sort_by_sorted idx : StronglySorted kle (sort_by le key idx).
Proof.
  unfold sort_by. assert (G : forall acc, StronglySorted kle acc ->
    StronglySorted kle (fold_left (fun acc i => ins_by le key i acc) idx acc)).
  { induction idx as [|i t IH]; intros acc H; cbn [fold_left]; [exact H|]. apply IH. apply ins_by_sorted. exact H. }
  apply G. constructor.
Qed.
End Sorted.

(* ---- generic step-down recursion: adj_c = max(A c (hypotheses after c), previous adj) ---- *)
Section StepDown.
Variable A : nat -> list nat -> Q.
Fixpoint sdg (L : list nat) (prev : Q) : list (nat * Q) :=
  match L with
  | [] => []
  | c :: rest => let a := Qmax (A c rest) prev in (c, a) :: sdg rest a
  end.
(* value attached to c when [done] (most recent first) precede it and [rest] follow *)
Fixpoint sval (p0 : Q) (done : list nat) (c : nat) (rest : list nat) : Q :=
  match done with
  | [] => Qmax (A c rest) p0
  | d :: done' => Qmax (A c rest) (sval p0 done' d (c :: rest))
  end.
Lemma sval_snoc p0 d : forall done c rest,
  sval p0 (done ++ [d]) c rest = sval (Qmax (A d (rev done ++ c :: rest)) p0) done c rest.
Proof.
  induction done as [|d1 done IH]; intros c rest; cbn [app sval rev]; [reflexivity|].
  rewrite IH. rewrite <- app_assoc. reflexivity.
Qed.
Lemma sdg_at : forall pre c rest p0, ~ In c pre ->
  assoc_get (sdg (pre ++ c :: rest) p0) c = sval p0 (rev pre) c rest.
Proof.
  induction pre as [|d pre IH]; intros c rest p0 Hn.
  - cbn [app sdg assoc_get rev sval]. rewrite Nat.eqb_refl. reflexivity.
  - cbn [app sdg assoc_get rev]. destruct (Nat.eqb_spec d c) as [->|Hne]; [exfalso; apply Hn; left; reflexivity|].
    rewrite IH by (intros Hc; apply Hn; right; exact Hc). rewrite sval_snoc, rev_involutive. reflexivity.
Qed.

(* the model's running maximum over the adjusted values adj0 computes the same numbers *)
Lemma sval_mval adj0 p0 v0 : forall done c rest,
  (forall pre' x rest', rev done ++ c :: rest = pre' ++ x :: rest' -> nth x adj0 0 == A x rest') ->
  (forall x rest', rev done ++ c :: rest = x :: rest' -> Qmax (A x rest') p0 == Qmax (A x rest') v0) ->
  sval p0 done c rest == mval adj0 v0 done c.
Proof.
  induction done as [|d done IH]; intros c rest H H0; cbn [sval mval].
  - rewrite (H0 c rest eq_refl). apply Qmax_compat'; [|reflexivity]. symmetry. apply (H [] c rest). reflexivity.
  - apply Qmax_compat'.
    + symmetry. apply (H (rev (d :: done)) c rest). reflexivity.
    + apply IH.
      * intros pre' x rest' E. apply (H pre' x rest'). cbn [rev]. rewrite <- app_assoc. exact E.
      * intros x rest' E. apply (H0 x rest'). cbn [rev]. rewrite <- app_assoc. exact E.
Qed.
End StepDown.

(* ---- small list facts ---- *)
Lemma Forall2_nth_Q (l l' : list Q) : length l = length l' ->
  (forall i, (i < length l)%nat -> nth i l 0 == nth i l' 0) -> Forall2 Qeq l l'.
Proof.
  revert l'. induction l as [|a l IH]; intros [|a' l'] Hl H; cbn in Hl; try discriminate; constructor.
  - apply (H 0%nat). cbn. lia.
  - apply IH; [lia|]. intros i Hi. apply (H (S i)). cbn. lia.
Qed.
Lemma count_if_map_compat {A} (f g : Q -> bool) (u v : A -> Q) (l : list A) :
  (forall r, f (u r) = g (v r)) -> count_if f (map u l) = count_if g (map v l).
Proof.
  intros H. unfold count_if. induction l as [|a l IH]; cbn [map filter]; [reflexivity|].
  rewrite H. destruct (g (v a)); cbn [length]; rewrite IH; reflexivity.
Qed.
Lemma Qle_bool_compat a b a' b' : a == a' -> b == b' -> Qle_bool a b = Qle_bool a' b'.
Proof.
  intros Ea Eb. destruct (Qle_bool a b) eqn:H1; destruct (Qle_bool a' b') eqn:H2; try reflexivity.
  - apply Qle_bool_iff in H1. rewrite Ea, Eb in H1. apply Qle_bool_iff in H1. congruence.
  - apply Qle_bool_iff in H2. rewrite <- Ea, <- Eb in H2. apply Qle_bool_iff in H2. congruence.
Qed.
Lemma qn_pos_S n : 0 < qn (S n).
Proof. unfold qn, Qlt. cbn. lia. Qed.
Lemma qn_nonneg n : 0 <= qn n.
Proof. unfold qn, Qle. cbn. lia. Qed.
Lemma div_S n m : (qn n + 1) / (qn m + 1) == qn (S n) / qn (S m).
Proof. rewrite !qn_S. reflexivity. Qed.
Lemma prefix_last (i0 : nat) t (u : list nat) w : u <> [] -> i0 :: t = rev u ++ w -> exists m, u = m ++ [i0].
Proof.
  intros Hu E. destruct (rev u) as [|h m'] eqn:Er.
  - exfalso. apply Hu. rewrite <- (rev_involutive u), Er. reflexivity.
  - cbn in E. inversion E; subst h. exists (rev m'). rewrite <- (rev_involutive u), Er. reflexivity.
Qed.

(* ================= min-P ================= *)
Section MinP.
Variable ts : list Q.
Variable sims : list (list Q).
Variable alts : list walt.
Let k := length ts.
Let reps := length sims.
Let idx := seq 0 k.
Let alt_of := fun c => nth c alts WBad.
Let rows := all_rows ts sims.

(* permutation p-value of row r for hypothesis c, as the code computes it from the simulated rows plus the observed one *)
Definition FP (c : nat) (r : list Q) : Q :=
  (qn (count_if (fun v => Qle_bool (tr (alt_of c) (nth c r 0)) (tr (alt_of c) v)) (col sims c))
   + (if Qle_bool (tr (alt_of c) (nth c r 0)) (tr (alt_of c) (nth c ts 0)) then 1 else 0)) / (qn (length (col sims c)) + 1).
Definition P (r : list Q) (l : nat) : Q := row_p (alt_of l) rows l r.

Lemma perm_ps_map c : perm_ps (alt_of c) (nth c ts 0) (col sims c) = map (FP c) sims.
Proof. unfold perm_ps, FP. unfold col at 3. rewrite map_map. reflexivity. Qed.

Lemma col_rows c : col rows c = nth c ts 0 :: col sims c.
Proof. reflexivity. Qed.
Lemma col_length c : length (col sims c) = reps.
Proof. unfold col. apply map_length. Qed.

Lemma FP_row_p c r : FP c r == P r c.
Proof.
  unfold FP, P, row_p. rewrite col_rows, col_length. unfold rows, all_rows. cbn [length]. fold reps.
  unfold count_if. cbn [filter].
  destruct (Qle_bool (tr (alt_of c) (nth c r 0)) (tr (alt_of c) (nth c ts 0))); cbn [length].
  - apply div_S.
  - rewrite qn_S. rewrite Qplus_0_r. reflexivity.
Qed.

Definition rawl : list Q := map (fun c => raw_p (alt_of c) (nth c ts 0) (col sims c)) idx.
Lemma raw_nth c : (c < k)%nat -> nth c rawl 0 == P ts c.
Proof.
  intros Hc. unfold rawl, idx. rewrite (nth_map_seq _ k c 0 Hc).
  rewrite raw_p_is_rank_over_all_rows. unfold P, row_p. rewrite col_rows. unfold rows, all_rows. cbn [length].
  rewrite col_length. reflexivity.
Qed.

Definition Aminp (c : nat) (rest : list nat) : Q :=
  qn (count_if (fun x => Qle_bool x (P ts c)) (map (fun r => qminl (map (P r) (c :: rest))) rows)) / qn (length rows).

Lemma stepdown_minp_sdg : forall L prev, stepdown_minp alt_of rows ts L prev = sdg Aminp L prev.
Proof. induction L as [|c rest IH]; intros prev; cbn [stepdown_minp sdg]; [reflexivity|]. rewrite IH. reflexivity. Qed.

Lemma Aminp_nonneg c rest : 0 <= Aminp c rest.
Proof.
  unfold Aminp, rows, all_rows. cbn [length]. apply Qle_shift_div_l; [apply qn_pos_S|]. rewrite Qmult_0_l. apply qn_nonneg.
Qed.

(* successive minima computed by the loop = minimum over the hypotheses tested so far *)
Lemma gval_min i0 r : forall rest c, (exists m, c :: rest = m ++ [i0]) ->
  gval (fun _ => Qmin) FP (FP i0) rest c r == qminl (map (fun l => FP l r) (c :: rest)).
Proof.
  induction rest as [|d rest IH]; intros c [m E]; cbn [gval].
  - assert (Ec : c = i0).
    { destruct m as [|a [|b m]]; cbn in E; inversion E; reflexivity. }
    subst c. cbn. destruct (Qmin_spec (FP i0 r) (FP i0 r)) as [[_ ->]|[_ ->]]; reflexivity.
  - destruct m as [|a m]; [cbn in E; inversion E; destruct rest; discriminate|].
    cbn in E. inversion E; subst a.
    cbn [map]. rewrite qminl_cons. apply Qmin_compat; [reflexivity|]. apply (IH d (ex_intro _ m H1)).
Qed.
End MinP.

Lemma count_rows_head (R : Q) (g : list Q -> Q) (ts : list Q) (sims : list (list Q)) : Qle_bool (g ts) R = true ->
  count_if (fun x => Qle_bool x R) (map g (ts :: sims)) = S (count_if (fun x => Qle_bool x R) (map g sims)).
Proof. intros H. unfold count_if. cbn [map filter]. rewrite H. reflexivity. Qed.

Lemma Forall2_map_seq (f g : nat -> Q) k : (forall c, (c < k)%nat -> f c == g c) -> Forall2 Qeq (map f (seq 0 k)) (map g (seq 0 k)).
Proof.
  intros H. apply Forall2_nth_Q; [rewrite !map_length; reflexivity|].
  intros i Hi. rewrite map_length, seq_length in Hi. rewrite !(nth_map_seq _ k i 0 Hi). apply H. exact Hi.
Qed.

(* the testing order the code uses for min-P: hypotheses by decreasing raw p-value (stable) *)
Definition minp_order (ts : list Q) (sims : list (list Q)) (alts : list walt) : list nat :=
  sort_by (fun a b => Qle_bool b a) (fun c => nth c (rawl ts sims alts) 0) (seq 0 (length ts)).

Theorem wy_minp_model_eq_spec ts sims alts adj raw :
  westfall_young_table ts sims MinP alts = Ok (adj, raw) ->
  let Lasc := rev (minp_order ts sims alts) in
  Permutation Lasc (seq 0 (length ts)) /\
  Forall2 Qeq adj (fst (wy_spec ts sims MinP alts Lasc)) /\
  Forall2 Qeq raw (snd (wy_spec ts sims MinP alts Lasc)).
Proof.
  intros H Lasc. unfold westfall_young_table in H. cbv zeta in H.
  destruct (negb (Nat.eqb (length alts) (length ts))); [discriminate|].
  destruct (existsb is_bad alts); [discriminate|].
  set (k := length ts) in *.
  change (map (fun c => raw_p (nth c alts WBad) (nth c ts 0) (col sims c)) (seq 0 k)) with (rawl ts sims alts) in H.
  change (sort_by (fun a b => Qle_bool b a) (fun c => nth c (rawl ts sims alts) 0) (seq 0 k)) with (minp_order ts sims alts) in H.
  set (L := minp_order ts sims alts) in *.
  assert (HpL : Permutation L (seq 0 k)) by apply sort_by_perm.
  assert (Hp : Permutation Lasc (seq 0 k)) by (apply perm_trans with L; [apply Permutation_sym, Permutation_rev|exact HpL]).
  assert (NdL : NoDup L) by (apply (Permutation_NoDup (Permutation_sym HpL)), seq_NoDup).
  assert (Nd : NoDup Lasc) by (apply (Permutation_NoDup (Permutation_sym Hp)), seq_NoDup).
  assert (HltL : forall i, In i L -> (i < k)%nat) by (intros i Hi; apply (Permutation_in _ HpL) in Hi; apply in_seq in Hi; lia).
  assert (Hlt : forall i, In i Lasc -> (i < k)%nat) by (intros i Hi; apply (Permutation_in _ Hp) in Hi; apply in_seq in Hi; lia).
  (* the table of permutation p-values is [cols] *)
  assert (Eps : map (fun c => perm_ps (nth c alts WBad) (nth c ts 0) (col sims c)) (seq 0 k) = cols sims (FP ts sims alts) k).
  { unfold cols. apply map_ext. intros c. apply (perm_ps_map ts sims alts c). }
  rewrite Eps in H.
  set (ps' := chain (fun _ : nat => Qmin) L (cols sims (FP ts sims alts) k)) in *.
  set (adj0 := map (fun c => (qn (count_if (fun v => Qle_bool v (nth c (rawl ts sims alts) 0)) (nth c ps' [])) + 1) / (qn (length sims) + 1)) (seq 0 k)) in *.
  inversion H; subst adj raw. clear H.
  split; [exact Hp|]. unfold wy_spec. cbv zeta. cbn [fst snd]. fold k.
  split.
  2:{ apply Forall2_map_seq. intros c Hc. assert (X := raw_nth ts sims alts c Hc). unfold rawl in X. cbv zeta in X. fold k in X.
      rewrite (nth_map_seq _ k c 0 Hc) in X. exact X. }
  rewrite (stepdown_minp_sdg ts sims alts).
  change (rev L) with Lasc.
  destruct Lasc as [|c0 t0] eqn:ELasc.
  { (* no hypotheses *)
    assert (k = 0%nat) by (apply Permutation_length in Hp; rewrite seq_length in Hp; cbn in Hp; lia).
    cbn [monotone_pass]. unfold adj0. rewrite H. cbn. constructor. }
  assert (Ladj0 : length adj0 = k) by (unfold adj0; rewrite map_length, seq_length; reflexivity).
  destruct (monotone_pass_closed_form adj0 c0 t0 Nd) as [Hlen Hmv].
  { intros i Hi. rewrite Ladj0. apply Hlt. exact Hi. }
  (* L is not empty either *)
  destruct L as [|i0 tL] eqn:EL.
  { exfalso. subst Lasc. cbn in ELasc. discriminate. }
  (* (i): every adjusted value before the monotone pass is the textbook count *)
  assert (Hadj0 : forall pre x rest, c0 :: t0 = pre ++ x :: rest -> nth x adj0 0 == Aminp ts sims alts x rest).
  { intros pre x rest E.
    assert (Hx : (x < k)%nat) by (apply Hlt; rewrite E; apply in_or_app; right; left; reflexivity).
    unfold adj0. rewrite (nth_map_seq _ k x 0 Hx).
    assert (EL' : i0 :: tL = rev rest ++ x :: rev pre).
    { rewrite <- (rev_involutive (i0 :: tL)). fold Lasc. rewrite ELasc, E, rev_app_distr. cbn [rev]. rewrite <- app_assoc. reflexivity. }
    unfold ps'. rewrite (chain_closed_form (fun _ => Qmin) sims (FP ts sims alts) k i0 tL NdL HltL (rev rest) x (rev pre) EL').
    rewrite rev_involutive.
    assert (Hm : exists m, x :: rest = m ++ [i0]).
    { apply (prefix_last i0 tL (x :: rest) (rev pre)); [discriminate|]. cbn [rev]. rewrite <- app_assoc. exact EL'. }
    unfold Aminp. change (all_rows ts sims) with (ts :: sims). cbn [length].
    set (R := P ts sims alts ts x).
    set (g := fun r : list Q => qminl (map (P ts sims alts r) (x :: rest))).
    assert (Hhead : Qle_bool (g ts) R = true).
    { apply Qle_bool_iff. unfold g. cbn [map]. apply qminl_le_head. }
    rewrite (count_rows_head R g ts sims Hhead).
    rewrite (count_if_map_compat (fun v => Qle_bool v (nth x (rawl ts sims alts) 0)) (fun v => Qle_bool v R)
               (gval (fun _ => Qmin) (FP ts sims alts) (FP ts sims alts i0) rest x) g sims).
    - apply div_S.
    - intros r. apply Qle_bool_compat; [|apply (raw_nth ts sims alts x Hx)].
      unfold g. rewrite (gval_min ts sims alts i0 r rest x Hm). apply qminl_compat.
      clear. induction (x :: rest) as [|l ls IH]; cbn [map]; constructor; [apply FP_row_p|exact IH]. }
  apply Forall2_nth_Q; [rewrite Hlen, Ladj0, map_length, seq_length; reflexivity|].
  intros c Hc. rewrite Hlen, Ladj0 in Hc.
  rewrite (nth_map_seq _ k c 0 Hc).
  assert (Hin : In c (c0 :: t0)) by (apply (Permutation_in _ (Permutation_sym Hp)); apply in_seq; lia).
  destruct (in_split _ _ Hin) as [pre [rest E]].
  rewrite (Hmv pre c rest E). rewrite E.
  assert (Hnp : ~ In c pre).
  { rewrite E in Nd. apply NoDup_remove_2 in Nd. intros Hc'. apply Nd. apply in_or_app. left. exact Hc'. }
  rewrite (sdg_at (Aminp ts sims alts) pre c rest 0 Hnp).
  symmetry. apply sval_mval.
  - rewrite rev_involutive. rewrite <- E. exact Hadj0.
  - rewrite rev_involutive. rewrite <- E. intros x rest' Ex. inversion Ex; subst x rest'.
    assert (E0 := Hadj0 [] c0 t0 eq_refl).
    assert (Hn := Aminp_nonneg ts sims alts c0 t0).
    destruct (Qmax_spec (Aminp ts sims alts c0 t0) 0) as [[H1 ->]|[H1 ->]];
    destruct (Qmax_spec (Aminp ts sims alts c0 t0) (nth c0 adj0 0)) as [[H2 ->]|[H2 ->]]; lra.
Qed.

(* the order is sorted: raw p-values are non-increasing along minp_order, i.e. non-decreasing along Lasc *)
Theorem minp_order_sorted ts sims alts :
  StronglySorted (fun i j => nth j (rawl ts sims alts) 0 <= nth i (rawl ts sims alts) 0) (minp_order ts sims alts).
Proof.
  unfold minp_order.
  assert (S := sort_by_sorted (fun a b => Qle_bool b a) (fun c => nth c (rawl ts sims alts) 0)
    (fun a b => match Qle_bool_total b a with or_introl h => or_introl h | or_intror h => or_intror h end)
    (fun a b c h1 h2 => Qle_bool_trans c b a h2 h1) (seq 0 (length ts))).
  eapply StronglySorted_ind with (P := fun l => StronglySorted _ l); [constructor| |exact S].
  intros a l Hs IH Hall. constructor; [exact IH|].
  apply Forall_forall. intros x Hx. rewrite Forall_forall in Hall. specialize (Hall x Hx). unfold kle in Hall.
  apply Qle_bool_iff. exact Hall.
Qed.

(* ================= max-T ================= *)
Section MaxT.
Variable ts : list Q.
Variable sims : list (list Q).
Variable alts : list walt.
Let k := length ts.
Let alt_of := fun c => nth c alts WBad.
Let rows := all_rows ts sims.

Definition FT (c : nat) (r : list Q) : Q := nth c r 0.
Definition opT (i : nat) (x p : Q) : Q := Qmax (tr (alt_of i) x) p.
Definition T (r : list Q) (l : nat) : Q := tr (alt_of l) (nth l r 0).

Definition Amaxt (c : nat) (rest : list nat) : Q :=
  qn (count_if (fun x => Qle_bool (T ts c) x) (map (fun r => qmaxl (map (T r) (c :: rest))) rows)) / qn (length rows).

Lemma stepdown_maxt_sdg : forall L prev, stepdown_maxt alt_of rows ts L prev = sdg Amaxt L prev.
Proof. induction L as [|c rest IH]; intros prev; cbn [stepdown_maxt sdg]; [reflexivity|]. rewrite IH. reflexivity. Qed.

Lemma Amaxt_nonneg c rest : 0 <= Amaxt c rest.
Proof.
  unfold Amaxt, rows, all_rows. cbn [length]. apply Qle_shift_div_l; [apply qn_pos_S|]. rewrite Qmult_0_l. apply qn_nonneg.
Qed.

Lemma tr_ge a x : x <= tr a x.
Proof. destruct a; cbn [tr]; try apply Qle_refl. apply Qle_Qabs. Qed.

Lemma gval_max i0 r : forall rest c, (exists m, c :: rest = m ++ [i0]) ->
  gval opT FT (FT i0) rest c r == qmaxl (map (T r) (c :: rest)).
Proof.
  induction rest as [|d rest IH]; intros c [m E]; cbn [gval].
  - assert (Ec : c = i0).
    { destruct m as [|a [|b m]]; cbn in E; inversion E; reflexivity. }
    subst c. cbn. unfold opT, T, FT. assert (H := tr_ge (alt_of i0) (nth i0 r 0)).
    destruct (Qmax_spec (tr (alt_of i0) (nth i0 r 0)) (nth i0 r 0)) as [[H1 ->]|[H1 ->]]; lra.
  - destruct m as [|a m]; [cbn in E; inversion E; destruct rest; discriminate|].
    cbn in E. inversion E; subst a.
    cbn [map]. rewrite qmaxl_cons. unfold opT at 1. apply Qmax_compat'; [reflexivity|]. apply (IH d (ex_intro _ m H1)).
Qed.
End MaxT.

Definition maxt_order (ts : list Q) (alts : list walt) : list nat :=
  sort_by Qle_bool (fun c => tr (last alts WBad) (nth c ts 0)) (seq 0 (length ts)).

Lemma count_rows_head_ge (S : Q) (g : list Q -> Q) (ts : list Q) (sims : list (list Q)) : Qle_bool S (g ts) = true ->
  count_if (fun x => Qle_bool S x) (map g (ts :: sims)) = Datatypes.S (count_if (fun x => Qle_bool S x) (map g sims)).
Proof. intros H. unfold count_if. cbn [map filter]. rewrite H. reflexivity. Qed.

Theorem wy_maxt_model_eq_spec ts sims alts adj raw :
  westfall_young_table ts sims MaxT alts = Ok (adj, raw) ->
  let Ldesc := rev (maxt_order ts alts) in
  Permutation Ldesc (seq 0 (length ts)) /\
  Forall2 Qeq adj (fst (wy_spec ts sims MaxT alts Ldesc)) /\
  Forall2 Qeq raw (snd (wy_spec ts sims MaxT alts Ldesc)).
Proof.
  intros H Lasc. unfold westfall_young_table in H. cbv zeta in H.
  destruct (negb (Nat.eqb (length alts) (length ts))); [discriminate|].
  destruct (existsb is_bad alts); [discriminate|].
  set (k := length ts) in *.
  change (sort_by Qle_bool (fun c => tr (last alts WBad) (nth c ts 0)) (seq 0 k)) with (maxt_order ts alts) in H.
  set (L := maxt_order ts alts) in *.
  assert (HpL : Permutation L (seq 0 k)) by apply sort_by_perm.
  assert (Hp : Permutation Lasc (seq 0 k)) by (apply perm_trans with L; [apply Permutation_sym, Permutation_rev|exact HpL]).
  assert (NdL : NoDup L) by (apply (Permutation_NoDup (Permutation_sym HpL)), seq_NoDup).
  assert (Nd : NoDup Lasc) by (apply (Permutation_NoDup (Permutation_sym Hp)), seq_NoDup).
  assert (HltL : forall i, In i L -> (i < k)%nat) by (intros i Hi; apply (Permutation_in _ HpL) in Hi; apply in_seq in Hi; lia).
  assert (Hlt : forall i, In i Lasc -> (i < k)%nat) by (intros i Hi; apply (Permutation_in _ Hp) in Hi; apply in_seq in Hi; lia).
  change (map (fun c => col sims c) (seq 0 k)) with (cols sims FT k) in H.
  change (fun (i : nat) (x p : Q) => Qmax (tr (nth i alts WBad) x) p) with (opT alts) in H.
  set (tv' := chain (opT alts) L (cols sims FT k)) in *.
  set (adj0 := map (fun c => (qn (count_if (fun v => Qle_bool (tr (nth c alts WBad) (nth c ts 0)) v) (nth c tv' [])) + 1) / (qn (length sims) + 1)) (seq 0 k)) in *.
  inversion H; subst adj raw. clear H.
  split; [exact Hp|]. unfold wy_spec. cbv zeta. cbn [fst snd]. fold k.
  split.
  2:{ apply Forall2_map_seq. intros c Hc. assert (X := raw_nth ts sims alts c Hc). unfold rawl in X. cbv zeta in X. fold k in X.
      rewrite (nth_map_seq _ k c 0 Hc) in X. exact X. }
  rewrite (stepdown_maxt_sdg ts sims alts).
  change (rev L) with Lasc.
  destruct Lasc as [|c0 t0] eqn:ELasc.
  { assert (k = 0%nat) by (apply Permutation_length in Hp; rewrite seq_length in Hp; cbn in Hp; lia).
    cbn [monotone_pass]. unfold adj0. rewrite H. cbn. constructor. }
  assert (Ladj0 : length adj0 = k) by (unfold adj0; rewrite map_length, seq_length; reflexivity).
  destruct (monotone_pass_closed_form adj0 c0 t0 Nd) as [Hlen Hmv].
  { intros i Hi. rewrite Ladj0. apply Hlt. exact Hi. }
  destruct L as [|i0 tL] eqn:EL.
  { exfalso. subst Lasc. cbn in ELasc. discriminate. }
  assert (Hadj0 : forall pre x rest, c0 :: t0 = pre ++ x :: rest -> nth x adj0 0 == Amaxt ts sims alts x rest).
  { intros pre x rest E.
    assert (Hx : (x < k)%nat) by (apply Hlt; rewrite E; apply in_or_app; right; left; reflexivity).
    unfold adj0. rewrite (nth_map_seq _ k x 0 Hx).
    assert (EL' : i0 :: tL = rev rest ++ x :: rev pre).
    { rewrite <- (rev_involutive (i0 :: tL)). fold Lasc. rewrite ELasc, E, rev_app_distr. cbn [rev]. rewrite <- app_assoc. reflexivity. }
    unfold tv'. rewrite (chain_closed_form (opT alts) sims FT k i0 tL NdL HltL (rev rest) x (rev pre) EL').
    rewrite rev_involutive.
    assert (Hm : exists m, x :: rest = m ++ [i0]).
    { apply (prefix_last i0 tL (x :: rest) (rev pre)); [discriminate|]. cbn [rev]. rewrite <- app_assoc. exact EL'. }
    unfold Amaxt. change (all_rows ts sims) with (ts :: sims). cbn [length].
    set (S := T alts ts x).
    set (g := fun r : list Q => qmaxl (map (T alts r) (x :: rest))).
    assert (Hhead : Qle_bool S (g ts) = true).
    { apply Qle_bool_iff. unfold g. cbn [map]. apply qmaxl_ge_head. }
    rewrite (count_rows_head_ge S g ts sims Hhead).
    rewrite (count_if_map_compat (fun v => Qle_bool (tr (nth x alts WBad) (nth x ts 0)) v) (fun v => Qle_bool S v)
               (gval (opT alts) FT (FT i0) rest x) g sims).
    - apply div_S.
    - intros r. apply Qle_bool_compat; [reflexivity|].
      unfold g. apply (gval_max alts i0 r rest x Hm). }
  apply Forall2_nth_Q; [rewrite Hlen, Ladj0, map_length, seq_length; reflexivity|].
  intros c Hc. rewrite Hlen, Ladj0 in Hc.
  rewrite (nth_map_seq _ k c 0 Hc).
  assert (Hin : In c (c0 :: t0)) by (apply (Permutation_in _ (Permutation_sym Hp)); apply in_seq; lia).
  destruct (in_split _ _ Hin) as [pre [rest E]].
  rewrite (Hmv pre c rest E). rewrite E.
  assert (Hnp : ~ In c pre).
  { rewrite E in Nd. apply NoDup_remove_2 in Nd. intros Hc'. apply Nd. apply in_or_app. left. exact Hc'. }
  rewrite (sdg_at (Amaxt ts sims alts) pre c rest 0 Hnp).
  symmetry. apply sval_mval.
  - rewrite rev_involutive. rewrite <- E. exact Hadj0.
  - rewrite rev_involutive. rewrite <- E. intros x rest' Ex. inversion Ex; subst x rest'.
    assert (E0 := Hadj0 [] c0 t0 eq_refl).
    assert (Hn := Amaxt_nonneg ts sims alts c0 t0).
    destruct (Qmax_spec (Amaxt ts sims alts c0 t0) 0) as [[H1 ->]|[H1 ->]];
    destruct (Qmax_spec (Amaxt ts sims alts c0 t0) (nth c0 adj0 0)) as [[H2 ->]|[H2 ->]]; lra.
Qed.

(* ================= family-wise error control for the MODEL's output (min-P) =================
   The smallest adjusted p-value returned by the model is the one attached to the head c0 of Lasc; it equals
   #{rows r : m(r) <= m(observed)} / #rows with m(r) = min over all hypotheses of the row's permutation p-values,
   which is the quantity wy_minp_fwer bounds. *)
Lemma sdg_running A : forall L prev c a, In (c, a) (sdg A L prev) -> prev <= a.
Proof.
  induction L as [|c0 L IH]; intros prev c a H; [destruct H|].
  cbn [sdg] in H.
  assert (Hp : prev <= Qmax (A c0 L) prev) by (destruct (Qmax_spec (A c0 L) prev) as [[H1 ->]|[H1 ->]]; lra).
  destruct H as [H|H]; [inversion H; subst; exact Hp|].
  specialize (IH _ _ _ H). lra.
Qed.
Lemma assoc_get_in (l : list (nat * Q)) c : In c (map fst l) -> In (c, assoc_get l c) l.
Proof.
  induction l as [|[k v] l IH]; intros H; [destruct H|]. cbn [assoc_get].
  destruct (Nat.eqb_spec k c) as [->|Hne]; [left; reflexivity|].
  right. apply IH. destruct H as [H|H]; [cbn in H; congruence|exact H].
Qed.
Lemma sdg_keys A : forall L prev, map fst (sdg A L prev) = L.
Proof. induction L as [|c L IH]; intros prev; cbn [sdg map fst]; [reflexivity|]. rewrite IH. reflexivity. Qed.

Lemma qminl_head_min (a : Q) (l : list Q) : (forall v, In v l -> a <= v) -> qminl (a :: l) == a.
Proof.
  revert a. induction l as [|b l IH]; intros a H; [reflexivity|].
  rewrite qminl_cons. assert (Hb : a <= b) by (apply H; left; reflexivity).
  assert (Hq : a <= qminl (b :: l)).
  { clear IH. revert b H Hb. induction l as [|c l IH2]; intros b H Hb; [exact Hb|].
    rewrite qminl_cons. destruct (Qmin_spec b (qminl (c :: l))) as [[H1 ->]|[H1 ->]]; [exact Hb|].
    apply IH2; [|apply H; right; left; reflexivity].
    intros v Hv. apply H. destruct Hv as [->|Hv]; [right; left; reflexivity|right; right; exact Hv]. }
  destruct (Qmin_spec a (qminl (b :: l))) as [[H1 ->]|[H1 ->]]; lra.
Qed.

Lemma sorted_last_min (R : nat -> nat -> Prop) : forall l a, StronglySorted R (l ++ [a]) -> Forall (fun i => R i a) l.
Proof.
  induction l as [|b l IH]; intros a H; [constructor|].
  cbn in H. inversion H as [|b' l' Hs Hall]; subst. constructor.
  - rewrite Forall_forall in Hall. apply Hall. apply in_or_app. right. left. reflexivity.
  - apply IH. exact Hs.
Qed.

Theorem wy_minp_smallest_adjusted ts sims alts adj raw :
  westfall_young_table ts sims MinP alts = Ok (adj, raw) -> (0 < length ts)%nat ->
  let Lasc := rev (minp_order ts sims alts) in
  let rows := all_rows ts sims in
  let m := fun r => qminl (map (P ts sims alts r) Lasc) in
  exists c0, hd_error Lasc = Some c0 /\
    nth c0 adj 0 == qn (count_if (fun x => Qle_bool x (m ts)) (map m rows)) / qn (length rows) /\
    forall c, (c < length ts)%nat -> nth c0 adj 0 <= nth c adj 0.
Proof.
  intros H Hk Lasc rows m.
  destruct (wy_minp_model_eq_spec ts sims alts adj raw H) as [Hp [Hadj _]]. fold Lasc in Hp, Hadj.
  set (k := length ts) in *.
  assert (Nd : NoDup Lasc) by (apply (Permutation_NoDup (Permutation_sym Hp)), seq_NoDup).
  destruct Lasc as [|c0 t0] eqn:EL.
  { apply Permutation_length in Hp. rewrite seq_length in Hp. cbn in Hp. lia. }
  exists c0. split; [reflexivity|].
  unfold wy_spec in Hadj. cbv zeta in Hadj. cbn [fst] in Hadj. fold k in Hadj.
  rewrite (stepdown_minp_sdg ts sims alts) in Hadj.
  assert (Hlt : forall i, In i (c0 :: t0) -> (i < k)%nat) by (intros i Hi; apply (Permutation_in _ Hp) in Hi; apply in_seq in Hi; lia).
  assert (Hnth : forall c, (c < k)%nat -> nth c adj 0 == assoc_get (sdg (Aminp ts sims alts) (c0 :: t0) 0) c).
  { intros c Hc. revert Hadj. generalize (sdg (Aminp ts sims alts) (c0 :: t0) 0). intros sd Hadj.
    assert (G : forall l l', Forall2 Qeq l l' -> forall i, nth i l 0 == nth i l' 0).
    { induction 1 as [|a b l l' E F IH]; intros [|i]; cbn; try reflexivity; [exact E|apply IH]. }
    rewrite (G _ _ Hadj c). rewrite (nth_map_seq _ k c 0 Hc). reflexivity. }
  (* the head value *)
  assert (Hc0 : (c0 < k)%nat) by (apply Hlt; left; reflexivity).
  assert (Hhead : assoc_get (sdg (Aminp ts sims alts) (c0 :: t0) 0) c0 == Aminp ts sims alts c0 t0).
  { cbn [sdg assoc_get]. rewrite Nat.eqb_refl. assert (Hn := Aminp_nonneg ts sims alts c0 t0).
    destruct (Qmax_spec (Aminp ts sims alts c0 t0) 0) as [[H1 ->]|[H1 ->]]; lra. }
  (* the observed row's minimum is its raw p-value at c0: raw p-values are non-decreasing along Lasc *)
  assert (Hmin : m ts == P ts sims alts ts c0).
  { unfold m. cbn [map]. apply qminl_head_min. intros v Hv. apply in_map_iff in Hv as [l [<- Hl]].
    assert (Hs := minp_order_sorted ts sims alts).
    assert (EL' : minp_order ts sims alts = rev t0 ++ [c0]).
    { rewrite <- (rev_involutive (minp_order ts sims alts)). fold Lasc. rewrite EL. reflexivity. }
    rewrite EL' in Hs. apply sorted_last_min in Hs. rewrite Forall_forall in Hs.
    specialize (Hs l (proj1 (in_rev t0 l) Hl)). cbn beta in Hs.
    rewrite (raw_nth ts sims alts c0 Hc0), (raw_nth ts sims alts l) in Hs by (apply Hlt; right; exact Hl). exact Hs. }
  split.
  - rewrite (Hnth c0 Hc0), Hhead. unfold Aminp. fold rows. fold m.
    assert (E : count_if (fun x => Qle_bool x (P ts sims alts ts c0)) (map m rows) = count_if (fun x => Qle_bool x (m ts)) (map m rows)).
    { apply count_if_map_compat. intros r. apply Qle_bool_compat; [reflexivity|symmetry; exact Hmin]. }
    change (map (fun r => qminl (map (P ts sims alts r) (c0 :: t0))) rows) with (map m rows). rewrite E. reflexivity.
  - intros c Hc. rewrite (Hnth c0 Hc0), (Hnth c Hc).
    assert (Hin : In c (c0 :: t0)) by (apply (Permutation_in _ (Permutation_sym Hp)); apply in_seq; lia).
    destruct Hin as [<-|Hin]; [apply Qle_refl|].
    cbn [sdg assoc_get]. rewrite Nat.eqb_refl.
    destruct (Nat.eqb_spec c0 c) as [E0|Hne]; [apply Qle_refl|].
    set (a0 := Qmax (Aminp ts sims alts c0 t0) 0).
    assert (Hk2 : In c (map fst (sdg (Aminp ts sims alts) t0 a0))) by (rewrite sdg_keys; exact Hin).
    apply assoc_get_in in Hk2. apply sdg_running in Hk2. exact Hk2.
Qed.
