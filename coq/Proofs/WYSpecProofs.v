(* Westfall-Young (C10): the model of the code (in-place loops over a table, Model/WY.westfall_young_table)
   computes the textbook step-down min-P / max-T adjusted p-values (Model/WY.wy_spec), for every table. *)
From PV Require Import Lib.Base Model.WY Proofs.QLemmas Proofs.WYProofs Proofs.WYChain.
From Coq Require Import Lqa Lia Permutation Sorted.
Open Scope Q_scope.

(* ---- successive minima / maxima ---- *)
Lemma Qmin_compat a a' b b' : a == a' -> b == b' -> Qmin a b == Qmin a' b'.
Proof.
  intros E1 E2. destruct (Qmin_spec a b) as [[H ->]|[H ->]]; destruct (Qmin_spec a' b') as [[H' ->]|[H' ->]]; lra.
Qed.
Lemma Qmax_compat' a a' b b' : a == a' -> b == b' -> Qmax a b == Qmax a' b'.
Proof.
  intros E1 E2. destruct (Qmax_spec a b) as [[H ->]|[H ->]]; destruct (Qmax_spec a' b') as [[H' ->]|[H' ->]]; lra.
Qed.
Lemma Qmin_assoc' a b c : Qmin (Qmin a b) c == Qmin a (Qmin b c).
Proof.
  destruct (Qmin_spec a b) as [[H1 E1]|[H1 E1]]; rewrite E1;
  destruct (Qmin_spec b c) as [[H2 E2]|[H2 E2]]; rewrite E2;
  repeat match goal with |- context [Qmin ?x ?y] => destruct (Qmin_spec x y) as [[? ->]|[? ->]] end; lra.
Qed.
Lemma Qmax_assoc' a b c : Qmax (Qmax a b) c == Qmax a (Qmax b c).
Proof.
  destruct (Qmax_spec a b) as [[H1 E1]|[H1 E1]]; rewrite E1;
  destruct (Qmax_spec b c) as [[H2 E2]|[H2 E2]]; rewrite E2;
  repeat match goal with |- context [Qmax ?x ?y] => destruct (Qmax_spec x y) as [[? ->]|[? ->]] end; lra.
Qed.

Lemma fl_min_compat : forall t a b, a == b -> fold_left Qmin t a == fold_left Qmin t b.
Proof. induction t as [|c t IH]; intros a b E; cbn [fold_left]; [exact E|]. apply IH. apply Qmin_compat; [exact E|reflexivity]. Qed.
Lemma fl_max_compat : forall t a b, a == b -> fold_left Qmax t a == fold_left Qmax t b.
Proof. induction t as [|c t IH]; intros a b E; cbn [fold_left]; [exact E|]. apply IH. apply Qmax_compat'; [exact E|reflexivity]. Qed.
Lemma fl_min_assoc : forall t a b, fold_left Qmin t (Qmin a b) == Qmin a (fold_left Qmin t b).
Proof.
  induction t as [|c t IH]; intros a b; cbn [fold_left]; [reflexivity|].
  rewrite (fl_min_compat t _ _ (Qmin_assoc' a b c)). apply IH.
Qed.
Lemma fl_max_assoc : forall t a b, fold_left Qmax t (Qmax a b) == Qmax a (fold_left Qmax t b).
Proof.
  induction t as [|c t IH]; intros a b; cbn [fold_left]; [reflexivity|].
  rewrite (fl_max_compat t _ _ (Qmax_assoc' a b c)). apply IH.
Qed.
Lemma qminl_cons a b t : qminl (a :: b :: t) == Qmin a (qminl (b :: t)).
Proof. cbn [qminl fold_left]. apply fl_min_assoc. Qed.
Lemma qmaxl_cons a b t : qmaxl (a :: b :: t) == Qmax a (qmaxl (b :: t)).
Proof. cbn [qmaxl fold_left]. apply fl_max_assoc. Qed.
Lemma qminl_le_head a t : qminl (a :: t) <= a.
Proof.
  destruct t as [|b t]; [cbn; lra|]. rewrite qminl_cons. destruct (Qmin_spec a (qminl (b :: t))) as [[H ->]|[H ->]]; lra.
Qed.
Lemma qmaxl_ge_head a t : a <= qmaxl (a :: t).
Proof.
  destruct t as [|b t]; [cbn; lra|]. rewrite qmaxl_cons. destruct (Qmax_spec a (qmaxl (b :: t))) as [[H ->]|[H ->]]; lra.
Qed.
Lemma qminl_compat : forall l l', Forall2 Qeq l l' -> qminl l == qminl l'.
Proof.
  intros l l' H. destruct H as [|a a' t t' Ea Ht]; [reflexivity|]. cbn [qminl].
  revert a a' Ea. induction Ht as [|b b' t t' Eb Ht IH]; intros a a' Ea; cbn [fold_left]; [exact Ea|].
  apply IH. apply Qmin_compat; assumption.
Qed.
Lemma qmaxl_compat : forall l l', Forall2 Qeq l l' -> qmaxl l == qmaxl l'.
Proof.
  intros l l' H. destruct H as [|a a' t t' Ea Ht]; [reflexivity|]. cbn [qmaxl].
  revert a a' Ea. induction Ht as [|b b' t t' Eb Ht IH]; intros a a' Ea; cbn [fold_left]; [exact Ea|].
  apply IH. apply Qmax_compat'; assumption.
Qed.

(* ---- the stable insertion sort returns a permutation ---- *)
Lemma ins_by_perm le key i : forall l, Permutation (ins_by le key i l) (i :: l).
Proof.
  induction l as [|j t IH]; cbn [ins_by]; [apply Permutation_refl|].
  destruct (le (key j) (key i)); [|apply Permutation_refl].
  apply perm_trans with (j :: i :: t); [apply perm_skip; exact IH|apply perm_swap].
Qed.
Lemma sort_by_perm le key idx : Permutation (sort_by le key idx) idx.
Proof.
  unfold sort_by. assert (G : forall acc, Permutation (fold_left (fun acc i => ins_by le key i acc) idx acc) (acc ++ idx)).
  { induction idx as [|i t IH]; intros acc; cbn [fold_left]; [rewrite app_nil_r; apply Permutation_refl|].
    apply perm_trans with (ins_by le key i acc ++ t); [apply IH|].
    apply perm_trans with ((i :: acc) ++ t); [apply Permutation_app_tail; apply ins_by_perm|].
    cbn. apply Permutation_middle. }
  apply (G []).
Qed.

(* ... and it is sorted, for a total and transitive comparison *)
Section Sorted.
Variable le : Q -> Q -> bool.
Variable key : nat -> Q.
Hypothesis le_total : forall a b, le a b = true \/ le b a = true.
Hypothesis le_trans : forall a b c, le a b = true -> le b c = true -> le a c = true.
Definition kle (i j : nat) : Prop := le (key i) (key j) = true.
Lemma ins_by_sorted i : forall l, StronglySorted kle l -> StronglySorted kle (ins_by le key i l).
Proof.
  induction l as [|j t IH]; intros H; cbn [ins_by]; [constructor; [constructor|constructor]|].
  inversion H as [|j' t' Ht Hall]; subst.
  destruct (le (key j) (key i)) eqn:E.
  - constructor; [apply IH; exact Ht|].
    apply Forall_forall. intros x Hx. apply (Permutation_in _ (ins_by_perm le key i t)) in Hx.
    destruct Hx as [<-|Hx]; [exact E|]. rewrite Forall_forall in Hall. apply Hall. exact Hx.
  - assert (E' : le (key i) (key j) = true) by (destruct (le_total (key i) (key j)) as [X|X]; [exact X|congruence]).
    constructor; [exact H|]. constructor; [exact E'|].
    rewrite Forall_forall in Hall. apply Forall_forall. intros x Hx. apply (le_trans _ _ _ E'). apply Hall. exact Hx.
Qed.
Lemma sort_by_sorted idx : StronglySorted kle (sort_by le key idx).
Proof.
  unfold sort_by. assert (G : forall acc, StronglySorted kle acc ->
    StronglySorted kle (fold_left (fun acc i => ins_by le key i acc) idx acc)).
  { induction idx as [|i t IH]; intros acc H; cbn [fold_left]; [exact H|]. apply IH. apply ins_by_sorted. exact H. }
  apply G. constructor.
Qed.
End Sorted.

(* ---- generic step-down recursion: adj_c = max(A c (hypotheses after c), previous adj) ---- *)
Section StepDown.
Variable A : nat -> list nat -> Q.
Fixpoint sdg (L : list nat) (prev : Q) : list (nat * Q) :=
  match L with
  | [] => []
  | c :: rest => let a := Qmax (A c rest) prev in (c, a) :: sdg rest a
  end.
(* value attached to c when [done] (most recent first) precede it and [rest] follow *)
Fixpoint sval (p0 : Q) (done : list nat) (c : nat) (rest : list nat) : Q :=
  match done with
  | [] => Qmax (A c rest) p0
  | d :: done' => Qmax (A c rest) (sval p0 done' d (c :: rest))
  end.
Lemma sval_snoc p0 d : forall done c rest,
  sval p0 (done ++ [d]) c rest = sval (Qmax (A d (rev done ++ c :: rest)) p0) done c rest.
Proof.
  induction done as [|d1 done IH]; intros c rest; cbn [app sval rev]; [reflexivity|].
  rewrite IH. rewrite <- app_assoc. reflexivity.
Qed.
Lemma sdg_at : forall pre c rest p0, ~ In c pre ->
  assoc_get (sdg (pre ++ c :: rest) p0) c = sval p0 (rev pre) c rest.
Proof.
  induction pre as [|d pre IH]; intros c rest p0 Hn.
  - cbn [app sdg assoc_get rev sval]. rewrite Nat.eqb_refl. reflexivity.
  - cbn [app sdg assoc_get rev]. destruct (Nat.eqb_spec d c) as [->|Hne]; [exfalso; apply Hn; left; reflexivity|].
    rewrite IH by (intros Hc; apply Hn; right; exact Hc). rewrite sval_snoc, rev_involutive. reflexivity.
Qed.

(* the model's running maximum over the adjusted values adj0 computes the same numbers *)
Lemma sval_mval adj0 p0 v0 : forall done c rest,
  (forall pre' x rest', rev done ++ c :: rest = pre' ++ x :: rest' -> nth x adj0 0 == A x rest') ->
  (forall x rest', rev done ++ c :: rest = x :: rest' -> Qmax (A x rest') p0 == Qmax (A x rest') v0) ->
  sval p0 done c rest == mval adj0 v0 done c.
Proof.
  induction done as [|d done IH]; intros c rest H H0; cbn [sval mval].
  - rewrite (H0 c rest eq_refl). apply Qmax_compat'; [|reflexivity]. symmetry. apply (H [] c rest). reflexivity.
  - apply Qmax_compat'.
    + symmetry. apply (H (rev (d :: done)) c rest). reflexivity.
    + apply IH.
      * intros pre' x rest' E. apply (H pre' x rest'). cbn [rev]. rewrite <- app_assoc. exact E.
      * intros x rest' E. apply (H0 x rest'). cbn [rev]. rewrite <- app_assoc. exact E.
Qed.
End StepDown.
