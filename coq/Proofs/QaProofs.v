From PV Require Import Lib.Base Lib.Sort Model.Qa.
From Coq Require Import Sorting.Permutation Sorting.Sorted.
Open Scope Z_scope.

Lemma lexle_total a b : lexle a b = true \/ lexle b a = true.
Proof.
  revert b; induction a as [|x a IH]; intros [|y b]; simpl; auto.
  destruct (x <? y) eqn:E1; auto. destruct (y <? x) eqn:E2; auto.
Qed.
Lemma lexle_trans a b c : lexle a b = true -> lexle b c = true -> lexle a c = true.
Proof.
  revert b c; induction a as [|x a IH]; intros [|y b] [|z c]; simpl; try congruence; auto.
  destruct (x <? y) eqn:E1; destruct (y <? z) eqn:E2; destruct (x <? z) eqn:E3; try lia; auto;
  destruct (y <? x) eqn:E4; destruct (z <? y) eqn:E5; destruct (z <? x) eqn:E6; try lia; try congruence.
  apply IH.
Qed.
Lemma lexle_antisym a b : lexle a b = true -> lexle b a = true -> a = b.
Proof.
  revert b; induction a as [|x a IH]; intros [|y b]; simpl; try congruence.
  destruct (x <? y) eqn:E1; destruct (y <? x) eqn:E2; try lia; try congruence.
  intros H1 H2. assert (x = y) by lia. subst. f_equal. apply IH; assumption.
Qed.

Lemma row_le_total a b : row_le a b = true \/ row_le b a = true.
Proof. apply lexle_total. Qed.
Lemma row_le_trans a b c : row_le a b = true -> row_le b c = true -> row_le a c = true.
Proof. apply lexle_trans. Qed.
Lemma row_le_antisym a b : row_le a b = true -> row_le b a = true -> a = b.
Proof.
  intros H1 H2. pose proof (lexle_antisym _ _ H1 H2) as E.
  rewrite <- (rev_involutive a), <- (rev_involutive b). f_equal. exact E.
Qed.

Lemma row_eqb_eq a b : row_eqb a b = true <-> a = b.
Proof. apply list_eqb_eq. intros x y. apply Z.eqb_eq. Qed.

Definition row_eq_dec : forall a b : row, {a = b} + {a <> b} := list_eq_dec Z.eq_dec.

Lemma adjdups_count (l : list row) :
  StronglySorted (fun x y => row_le x y = true) l ->
  forall r, count_occ row_eq_dec (adjdups l) r = pred (count_occ row_eq_dec l r).
Proof.
  induction 1 as [|a t Hs IH Ha]; intros r; [reflexivity|].
  destruct t as [|b t']; [simpl; destruct (row_eq_dec a r); reflexivity|].
  specialize (IH r).
  change (adjdups (a :: b :: t')) with
    (if row_eqb a b then b :: adjdups (b :: t') else adjdups (b :: t')).
  destruct (row_eqb a b) eqn:E.
  - apply row_eqb_eq in E. subst b.
    cbn [count_occ] in *; destruct (row_eq_dec a r); lia.
  - assert (Hab : a <> b) by (intros ->; assert (row_eqb b b = true) by (apply row_eqb_eq; reflexivity); congruence).
    rewrite IH. cbn [count_occ]. destruct (row_eq_dec a r) as [->|Hne]; [|reflexivity].
    assert (Hnot : ~ In r (b :: t')).
    { intros Hin. apply Hab. rewrite Forall_forall in Ha.
      apply row_le_antisym; [apply Ha; left; reflexivity|].
      destruct Hin as [->|Hin]; [exfalso; apply Hab; reflexivity|].
      inversion Hs as [|? ? _ Hb]; subst. rewrite Forall_forall in Hb. apply Hb; exact Hin. }
    apply (count_occ_not_In row_eq_dec) in Hnot.
    change (count_occ row_eq_dec (b :: t') r) with
      (if row_eq_dec b r then S (count_occ row_eq_dec t' r) else count_occ row_eq_dec t' r) in *.
    rewrite Hnot. reflexivity.
Qed.

Lemma dups_count (x : list row) (r : row) :
  count_occ row_eq_dec (find_duplicate_rows x) r = pred (count_occ row_eq_dec x r).
Proof.
  unfold find_duplicate_rows.
  rewrite adjdups_count by (apply isort_sorted; [apply row_le_total|apply row_le_trans]).
  f_equal. symmetry.
  apply (proj1 (Permutation_count_occ row_eq_dec _ _) (isort_perm _ row_le x)).
Qed.

(* the consecutive finder: one row for every adjacent equal pair, in order *)
Fixpoint adjacent_pairs (l : list row) : list (row * row) :=
  match l with
  | a :: (b :: _) as t => (a, b) :: adjacent_pairs t
  | _ => []
  end.
Lemma consec_spec a t :
  consec_from a t =
  map snd (filter (fun p => row_eqb (snd p) (fst p)) (adjacent_pairs (a :: t))).
Proof.
  revert a; induction t as [|b t IH]; intros a; [reflexivity|].
  cbn [consec_from adjacent_pairs filter fst snd].
  destruct (row_eqb b a) eqn:E; cbn [map snd]; rewrite IH; [|reflexivity].
  apply row_eqb_eq in E. subst. reflexivity.
Qed.

Lemma diff_wrap_zero_iff (a b : Z) :
  - 2^63 <= a < 2^63 -> - 2^63 <= b < 2^63 -> ((a - b) mod 2^64 = 0 <-> a = b).
Proof.
  intros Ha Hb. split; [|intros ->; rewrite Z.sub_diag; reflexivity].
  intros H. apply Z.mod_divide in H; [|lia]. destruct H as [k Hk]. lia.
Qed.
