(* C11: relabelling the hypotheses permutes the adjusted p-values.  The textbook values holm_val / bh_val /
   bonf_val of a p-value x depend on the vector p only through its multiset, so by adjust_p_eq_textbook the
   model's output follows the p-values under any permutation of the input. *)
From PV Require Import Lib.Base Model.Adjust Proofs.QLemmas Proofs.AdjustProofs Proofs.RunningProofs.
From Coq Require Import Lqa Lia Permutation.
Open Scope Q_scope.

Lemma count_perm (f : Q -> bool) p p' : Permutation p p' -> count f p = count f p'.
Proof.
  unfold count. induction 1 as [|a l l' H IH|a b l|l l' l'' H1 IH1 H2 IH2]; cbn; try reflexivity.
  - destruct (f a); cbn; congruence.
  - destruct (f a), (f b); reflexivity.
  - congruence.
Qed.

Lemma holm_term_perm p p' x : Permutation p p' -> holm_term p x = holm_term p' x.
Proof. intros H. unfold holm_term. rewrite (count_perm _ p p' H). reflexivity. Qed.
Lemma bh_term_perm p p' x : Permutation p p' -> bh_term p x = bh_term p' x.
Proof. intros H. unfold bh_term. rewrite (count_perm _ p p' H), (Permutation_length H). reflexivity. Qed.

Lemma in_terms_perm (term : list Q -> Q -> Q) (g : Q -> bool) p p' v :
  (forall x, term p x = term p' x) -> Permutation p p' ->
  In v (map (term p) (filter g p)) -> In v (map (term p') (filter g p')).
Proof.
  intros Ht H Hin. apply in_map_iff in Hin as [y [E Hy]]. apply filter_In in Hy as [Hy Hg].
  apply in_map_iff. exists y. split; [rewrite <- Ht; exact E|]. apply filter_In. split; [|exact Hg].
  apply (Permutation_in _ H Hy).
Qed.

Lemma qmaxl_nonneg l : (forall v, In v l -> 0 <= v) -> 0 <= qmaxl l.
Proof.
  destruct l as [|a l]; intros H; [cbn; lra|].
  apply Qle_trans with a; [apply H; left; reflexivity|apply qmaxl_ge; left; reflexivity].
Qed.
Lemma qminl_le1 l : (forall v, In v l -> v <= 1) -> qminl l <= 1.
Proof.
  destruct l as [|a l]; intros H; [cbn; lra|].
  apply Qle_trans with a; [apply qminl_le; left; reflexivity|apply H; left; reflexivity].
Qed.

Lemma holm_val_le_perm p p' x : (forall y, In y p -> 0 <= y) -> Permutation p p' -> holm_val p x <= holm_val p' x.
Proof.
  intros Hp H. assert (Hp' : forall y, In y p' -> 0 <= y) by (intros y Hy; apply Hp; apply (Permutation_in _ (Permutation_sym H) Hy)).
  unfold holm_val. apply qmaxl_le.
  - apply qmaxl_nonneg. intros v Hv. apply in_map_iff in Hv as [y [<- Hy]]. apply filter_In in Hy as [Hy _].
    apply holm_term_nonneg. apply Hp'. exact Hy.
  - intros v Hv. apply qmaxl_ge. apply (in_terms_perm holm_term _ p p'); [intros; apply holm_term_perm; exact H|exact H|exact Hv].
Qed.
Lemma bh_term_le1 p y : bh_term p y <= 1.
Proof. unfold bh_term. apply qcap_le1. Qed.
Lemma bh_val_le_perm p p' x : Permutation p p' -> bh_val p x <= bh_val p' x.
Proof.
  intros H. unfold bh_val. apply qminl_ge.
  - apply qminl_le1. intros v Hv. apply in_map_iff in Hv as [y [<- _]]. apply bh_term_le1.
  - intros v Hv. apply qminl_le.
    apply (in_terms_perm bh_term _ p' p); [intros; apply bh_term_perm; apply Permutation_sym; exact H|apply Permutation_sym; exact H|exact Hv].
Qed.

(* the textbook values depend on the vector only through its multiset *)
Theorem textbook_vals_perm p p' x : (forall y, In y p -> 0 <= y) -> Permutation p p' ->
  holm_val p x == holm_val p' x /\ bh_val p x == bh_val p' x /\ bonf_val p x == bonf_val p' x.
Proof.
  intros Hp H. assert (Hp' : forall y, In y p' -> 0 <= y) by (intros y Hy; apply Hp; apply (Permutation_in _ (Permutation_sym H) Hy)).
  split; [|split].
  - apply Qle_antisym; apply holm_val_le_perm; auto using Permutation_sym.
  - apply Qle_antisym; apply bh_val_le_perm; auto using Permutation_sym.
  - unfold bonf_val. rewrite (Permutation_length H). reflexivity.
Qed.

Lemma holm_val_compat p x y : (forall z, In z p -> 0 <= z) -> x == y -> holm_val p x == holm_val p y.
Proof. intros Hp E. apply Qle_antisym; apply holm_monotone; try exact Hp; rewrite E; apply Qle_refl. Qed.
Lemma bh_val_compat p x y : x == y -> bh_val p x == bh_val p y.
Proof. intros E. apply Qle_antisym; apply bh_monotone; rewrite E; apply Qle_refl. Qed.
Lemma bonf_val_compat p x y : x == y -> bonf_val p x == bonf_val p y.
Proof. intros E. unfold bonf_val, qcap. apply Qmin_compat_l. rewrite E. reflexivity. Qed.

(* relabelling: p' is a rearrangement of p (each with any sorting order, ties ranked anyhow); wherever the
   same p-value sits, it receives the same adjusted value *)
Theorem adjust_p_relabel p p' ord ord' : Permutation p p' ->
  is_sorting_perm p ord = true -> is_sorting_perm p' ord' = true -> (forall y, In y p -> 0 <= y) ->
  forall j j', (j < length p)%nat -> (j' < length p')%nat -> nth j p 0 == nth j' p' 0 ->
  forall m, m <> Unknown ->
  exists l l', adjust_p p ord m = Ok l /\ adjust_p p' ord' m = Ok l' /\ nth j l 0 == nth j' l' 0.
Proof.
  intros H Hs Hs' Hp j j' Hj Hj' E m Hm.
  assert (Hp' : forall y, In y p' -> 0 <= y) by (intros y Hy; apply Hp; apply (Permutation_in _ (Permutation_sym H) Hy)).
  destruct (adjust_p_eq_textbook p ord Hs Hp j Hj) as [[l1 [A1 B1]] [[l2 [A2 B2]] [l3 [A3 B3]]]].
  destruct (adjust_p_eq_textbook p' ord' Hs' Hp' j' Hj') as [[l1' [A1' B1']] [[l2' [A2' B2']] [l3' [A3' B3']]]].
  destruct (textbook_vals_perm p p' (nth j p 0) Hp H) as [T1 [T2 T3]].
  destruct m; try congruence.
  - exists l1, l1'. split; [assumption|]. split; [assumption|]. rewrite B1, B1', T1. apply holm_val_compat; assumption.
  - exists l3, l3'. split; [assumption|]. split; [assumption|]. rewrite B3, B3', T3. apply bonf_val_compat. exact E.
  - exists l2, l2'. split; [assumption|]. split; [assumption|]. rewrite B2, B2', T2. apply bh_val_compat. exact E.
Qed.
