(* Westfall-Young (C10): what the in-place column loops of the implementation compute.
   [chain] (successive minima / maxima along the testing order) and [monotone_pass] (running maximum of the
   adjusted values) are folds that overwrite entries of a table; here they are unfolded into closed forms. *)
From PV Require Import Lib.Base Model.WY Proofs.QLemmas.
From Coq Require Import Lqa Lia Permutation.
Open Scope Q_scope.

Lemma set_nth_length {A} (l : list A) i v : length (set_nth l i v) = length l.
Proof. revert i; induction l as [|a l IH]; intros [|i]; cbn; try reflexivity. f_equal. apply IH. Qed.
Lemma nth_set_nth_eq {A} (l : list A) i v d : (i < length l)%nat -> nth i (set_nth l i v) d = v.
Proof. revert i; induction l as [|a l IH]; intros [|i] H; cbn in *; try lia; [reflexivity|apply IH; lia]. Qed.
Lemma nth_set_nth_neq {A} (l : list A) i j v d : i <> j -> nth j (set_nth l i v) d = nth j l d.
Proof.
  revert i j; induction l as [|a l IH]; intros [|i] [|j] H; cbn; try reflexivity; try congruence.
  apply IH. congruence.
Qed.

Lemma map2_map {A} (op : Q -> Q -> Q) (f g : A -> Q) (l : list A) :
  map (fun ab => op (fst ab) (snd ab)) (combine (map f l) (map g l)) = map (fun r => op (f r) (g r)) l.
Proof. induction l as [|a l IH]; cbn; [reflexivity|]. rewrite IH. reflexivity. Qed.

Lemma nth_map_seq {B} (f : nat -> B) k i d : (i < k)%nat -> nth i (map f (seq 0 k)) d = f i.
Proof.
  intros H. rewrite (nth_indep _ d (f 0%nat)) by (rewrite map_length, seq_length; exact H).
  rewrite (map_nth f (seq 0 k) 0%nat i), seq_nth by exact H. reflexivity.
Qed.

Section Chain.
Variable op : nat -> Q -> Q -> Q.
Variable sims : list (list Q).
Variable F : nat -> list Q -> Q.
Variable k : nat.

Definition cstep (st : nat * list (list Q)) (i : nat) : nat * list (list Q) :=
  let '(prev, cs) := st in
  (i, set_nth cs i (map (fun ab => op i (fst ab) (snd ab)) (combine (nth i cs []) (nth prev cs [])))).

(* the value written for hypothesis i when the hypotheses [done] (most recent first) were processed before it
   and the loop started from a column holding F0 *)
Fixpoint gval (F0 : list Q -> Q) (done : list nat) (i : nat) (r : list Q) : Q :=
  match done with
  | [] => op i (F i r) (F0 r)
  | d :: done' => op i (F i r) (gval F0 done' d r)
  end.

Lemma gval_snoc F0 a : forall done i r, gval F0 (done ++ [a]) i r = gval (gval F0 [] a) done i r.
Proof. induction done as [|d done IH]; intros i r; cbn [app gval]; [reflexivity|]. rewrite IH. reflexivity. Qed.

Lemma fold_chain : forall post prev cs F0,
  NoDup post -> (forall i, In i post -> (i < k)%nat) -> length cs = k ->
  (forall i, In i post -> nth i cs [] = map (F i) sims) ->
  nth prev cs [] = map F0 sims ->
  let final := snd (fold_left cstep post (prev, cs)) in
  length final = k /\
  (forall pre i post', post = pre ++ i :: post' -> nth i final [] = map (gval F0 (rev pre) i) sims) /\
  (forall x, ~ In x post -> nth x final [] = nth x cs []).
Proof.
  induction post as [|a t IH]; intros prev cs F0 Hnd Hlt Hlen Hcols Hprev.
  - cbn. split; [exact Hlen|]. split; [|reflexivity].
    intros pre i post' E. destruct pre; discriminate.
  - cbn [fold_left cstep].
    set (v := map (fun ab => op a (fst ab) (snd ab)) (combine (nth a cs []) (nth prev cs []))).
    assert (Ev : v = map (gval F0 [] a) sims).
    { unfold v. rewrite (Hcols a (or_introl eq_refl)), Hprev. apply map2_map. }
    apply NoDup_cons_iff in Hnd as [Hna Hnt].
    assert (Ha : (a < length cs)%nat) by (rewrite Hlen; apply Hlt; left; reflexivity).
    specialize (IH a (set_nth cs a v) (gval F0 [] a) Hnt).
    destruct IH as [L1 [L2 L3]].
    + intros i Hi. apply Hlt. right. exact Hi.
    + rewrite set_nth_length. exact Hlen.
    + intros i Hi. rewrite nth_set_nth_neq by (intros ->; contradiction). apply Hcols. right. exact Hi.
    + rewrite nth_set_nth_eq by exact Ha. exact Ev.
    + split; [exact L1|]. split.
      * intros pre i post' E. destruct pre as [|a0 pre].
        -- cbn in E. inversion E; subst. cbn [rev]. rewrite L3 by exact Hna.
           rewrite nth_set_nth_eq by exact Ha. exact Ev.
        -- cbn in E. inversion E; subst. rewrite (L2 pre i post' eq_refl). cbn [rev].
           apply map_ext. intros r. rewrite gval_snoc. reflexivity.
      * intros x Hx. rewrite L3 by (intros Hc; apply Hx; right; exact Hc).
        apply nth_set_nth_neq. intros ->. apply Hx. left. reflexivity.
Qed.

Definition cols : list (list Q) := map (fun c => map (F c) sims) (seq 0 k).

Theorem chain_closed_form i0 t : NoDup (i0 :: t) -> (forall i, In i (i0 :: t) -> (i < k)%nat) ->
  forall pre i post', i0 :: t = pre ++ i :: post' ->
  nth i (chain op (i0 :: t) cols) [] = map (gval (F i0) (rev pre) i) sims.
Proof.
  intros Hnd Hlt pre i post' E.
  change (chain op (i0 :: t) cols) with (snd (fold_left cstep (i0 :: t) (i0, cols))).
  assert (Hc : forall j, (j < k)%nat -> nth j cols [] = map (F j) sims) by (intros j Hj; unfold cols; exact (nth_map_seq (fun c => map (F c) sims) k j [] Hj)).
  destruct (fold_chain (i0 :: t) i0 cols (F i0) Hnd Hlt) as [_ [H2 _]].
  - unfold cols. rewrite map_length, seq_length. reflexivity.
  - intros j Hj. apply Hc. apply Hlt. exact Hj.
  - apply Hc. apply Hlt. left. reflexivity.
  - apply (H2 pre i post' E).
Qed.
End Chain.

(* ---- monotone_pass ---- *)
Definition mstep (st : nat * list Q) (c : nat) : nat * list Q :=
  let '(prev, a) := st in (c, set_nth a c (Qmax (nth c a 0) (nth prev a 0))).

Fixpoint mval (adj0 : list Q) (v0 : Q) (done : list nat) (c : nat) : Q :=
  match done with
  | [] => Qmax (nth c adj0 0) v0
  | d :: done' => Qmax (nth c adj0 0) (mval adj0 v0 done' d)
  end.
Lemma mval_snoc adj0 v0 a : forall done c, mval adj0 v0 (done ++ [a]) c = mval adj0 (mval adj0 v0 [] a) done c.
Proof. induction done as [|d done IH]; intros c; cbn [app mval]; [reflexivity|]. rewrite IH. reflexivity. Qed.

Lemma fold_mono adj0 : forall post prev a v0,
  NoDup post -> (forall i, In i post -> (i < length a)%nat) ->
  (forall i, In i post -> nth i a 0 = nth i adj0 0) ->
  nth prev a 0 = v0 ->
  let final := snd (fold_left mstep post (prev, a)) in
  length final = length a /\
  (forall pre c post', post = pre ++ c :: post' -> nth c final 0 = mval adj0 v0 (rev pre) c) /\
  (forall x, ~ In x post -> nth x final 0 = nth x a 0).
Proof.
  induction post as [|c0 t IH]; intros prev a v0 Hnd Hlt Hsame Hprev.
  - cbn. split; [reflexivity|]. split; [|reflexivity]. intros pre c post' E. destruct pre; discriminate.
  - cbn [fold_left mstep].
    set (v := Qmax (nth c0 a 0) (nth prev a 0)).
    assert (Ev : v = mval adj0 v0 [] c0) by (unfold v; cbn [mval]; rewrite (Hsame c0 (or_introl eq_refl)), Hprev; reflexivity).
    apply NoDup_cons_iff in Hnd as [Hna Hnt].
    assert (Hc : (c0 < length a)%nat) by (apply Hlt; left; reflexivity).
    specialize (IH c0 (set_nth a c0 v) (mval adj0 v0 [] c0) Hnt).
    destruct IH as [L1 [L2 L3]].
    + intros i Hi. rewrite set_nth_length. apply Hlt. right. exact Hi.
    + intros i Hi. rewrite nth_set_nth_neq by (intros ->; contradiction). apply Hsame. right. exact Hi.
    + rewrite nth_set_nth_eq by exact Hc. exact Ev.
    + split; [rewrite L1; apply set_nth_length|]. split.
      * intros pre c post' E. destruct pre as [|a0 pre].
        -- cbn in E. inversion E; subst. cbn [rev]. rewrite L3 by exact Hna.
           rewrite nth_set_nth_eq by exact Hc. exact Ev.
        -- cbn in E. inversion E; subst. rewrite (L2 pre c post' eq_refl). cbn [rev]. rewrite mval_snoc. reflexivity.
      * intros x Hx. rewrite L3 by (intros Hc'; apply Hx; right; exact Hc').
        apply nth_set_nth_neq. intros ->. apply Hx. left. reflexivity.
Qed.

Theorem monotone_pass_closed_form adj0 c0 t : NoDup (c0 :: t) -> (forall i, In i (c0 :: t) -> (i < length adj0)%nat) ->
  length (monotone_pass (c0 :: t) adj0) = length adj0 /\
  forall pre c post', c0 :: t = pre ++ c :: post' ->
    nth c (monotone_pass (c0 :: t) adj0) 0 = mval adj0 (nth c0 adj0 0) (rev pre) c.
Proof.
  intros Hnd Hlt.
  change (monotone_pass (c0 :: t) adj0) with (snd (fold_left mstep (c0 :: t) (c0, adj0))).
  destruct (fold_mono adj0 (c0 :: t) c0 adj0 (nth c0 adj0 0) Hnd Hlt (fun i _ => eq_refl) eq_refl) as [H1 [H2 _]].
  split; [exact H1|exact H2].
Qed.
