(* C02 / C04 / C18: permute_rows (one Fisher-Yates permutation per row, rows in order) maps the product answer space
   bijectively onto the row-wise rearrangements: total, injective, onto.  Stated for duplicate-free rows (positions);
   permute_rows acts on positions, so matrices with ties are read through the position result. *)
From PV Require Import Lib.Base Model.Prng Model.Core Model.Stratified.
From mathcomp Require Import all_ssreflect.
From PV Require Import Lib.Shuffle Lib.ShuffleTape Proofs.StratUniform.
Local Open Scope nat_scope.
Set Implicit Arguments. Unset Strict Implicit. Unset Printing Implicit Defensive.

Section Rows.
Variable T : eqType.

Definition row_sizes (m : seq (seq T)) : seq nat := [seq size r | r <- m].
(* admissible outputs: same number of rows, every row a rearrangement of the corresponding input row *)
Fixpoint rowwise_perm (m m' : seq (seq T)) : bool :=
  match m, m' with
  | r :: rs, r' :: rs' => perm_eq r' r && rowwise_perm rs rs'
  | [::], [::] => true
  | _, _ => false
  end.

Lemma permute_T (x : seq T) d r : d \in draws (size x) -> permute x (d ++ r) = Ok (shuf (@fy_pick T) x d, r).
Proof. by move=> din; rewrite /permute (draws_from_ok _ din). Qed.

Theorem rows_total : forall (m : seq (seq T)) t rest, t \in prod_draws (row_sizes m) ->
  exists2 m', permute_rows m (t ++ rest) = Ok (m', rest) & rowwise_perm m m'.
Proof.
elim=> [|r rs IH] t rest /=.
  by rewrite inE => /eqP ->; exists [::].
case/allpairsP => [[d t'] /= [din tin ->]].
rewrite -catA permute_T //=.
have [m' -> pm] := IH t' rest tin.
exists (shuf (@fy_pick T) r d :: m') => //=.
by rewrite pm andbT; apply: (shuf_perm (@fy_pick_perm _) (erefl _) din).
Qed.

Theorem rows_inj : forall (m : seq (seq T)) t t' m', all uniq m ->
  t \in prod_draws (row_sizes m) -> t' \in prod_draws (row_sizes m) ->
  permute_rows m t = Ok (m', [::]) -> permute_rows m t' = Ok (m', [::]) -> t = t'.
Proof.
elim=> [|r rs IH] t t' m' /=.
  by move=> _; rewrite !inE => /eqP -> /eqP ->.
case/andP=> Ur Urs.
case/allpairsP => [[d1 t1] /= [d1in t1in ->]]; case/allpairsP => [[d2 t2] /= [d2in t2in ->]].
rewrite !permute_T //=.
have [m1 E1 _] := rows_total [::] t1in; have [m2 E2 _] := rows_total [::] t2in.
rewrite !cats0 in E1 E2; rewrite E1 E2 /= => [[<-]] [e1 e2].
have d12 : d1 = d2 by apply: (shuf_inj (@fy_pick_fst _) (@fy_pick_perm _) Ur (erefl _) d1in d2in).
rewrite d12; congr (_ ++ _).
by apply: (IH t1 t2 m1 Urs t1in t2in E1); rewrite E2 e2.
Qed.

Theorem rows_surj : forall (m m' : seq (seq T)), all uniq m -> rowwise_perm m m' ->
  exists2 t, t \in prod_draws (row_sizes m) & permute_rows m t = Ok (m', [::]).
Proof.
elim=> [|r rs IH] [|r' rs'] //=.
  by move=> _ _; exists [::].
case/andP=> Ur Urs /andP [pr prs].
have [t tin E] := IH rs' Urs prs.
have : r' \in permutations r by rewrite mem_permutations.
rewrite -(perm_mem (fy_uniform Ur)) => /mapP [d din ->].
exists (d ++ t); first by apply/allpairsP; exists (d, t).
by rewrite permute_T //= E.
Qed.

Lemma size_rows_space (m : seq (seq T)) : size (prod_draws (row_sizes m)) = \prod_(r <- m) (size r)`!.
Proof. by rewrite size_prod_draws /row_sizes big_map. Qed.
End Rows.
