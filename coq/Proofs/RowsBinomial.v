(* C02 / C18: the chain of simulate_ts_dist -- every repetition permutes the rows of the matrix left by the previous
   one -- gives a Binomial(reps, pstar) hit count over the product answer space, pstar = (row-wise rearrangements at
   least as extreme) / prod_r (size r)!, whatever matrix the chain starts from. *)
From PV Require Import Lib.Base Model.Prng Model.Core Model.Stratified.
From mathcomp Require Import all_ssreflect.
From PV Require Import Lib.Shuffle Lib.ShuffleTape Lib.Counting Proofs.StratUniform Proofs.StratBinomial Proofs.RowsUniform.
Local Open Scope nat_scope.
Set Implicit Arguments. Unset Strict Implicit. Unset Printing Implicit Defensive.

Section Chain.
Variable T : eqType.
Implicit Types m : seq (seq T).

Lemma rowwise_refl m : rowwise_perm m m.
Proof. by elim: m => //= r rs ->; rewrite perm_refl. Qed.
Lemma rowwise_trans m1 m2 m3 : rowwise_perm m1 m2 -> rowwise_perm m2 m3 -> rowwise_perm m1 m3.
Proof.
elim: m1 m2 m3 => [|r1 rs1 IH] [|r2 rs2] [|r3 rs3] //= /andP [p12 q12] /andP [p23 q23].
by rewrite (perm_trans p23 p12) (IH _ _ q12 q23).
Qed.
Lemma rowwise_sym m1 m2 : rowwise_perm m1 m2 -> rowwise_perm m2 m1.
Proof. by elim: m1 m2 => [|r1 rs1 IH] [|r2 rs2] //= /andP [p q]; rewrite perm_sym p (IH _ q). Qed.
Lemma rowwise_sizes m1 m2 : rowwise_perm m1 m2 -> row_sizes m2 = row_sizes m1.
Proof. by elim: m1 m2 => [|r1 rs1 IH] [|r2 rs2] //= /andP [p q]; rewrite (perm_size p) (IH _ q). Qed.
Lemma rowwise_uniq m1 m2 : rowwise_perm m1 m2 -> all uniq m1 -> all uniq m2.
Proof. by elim: m1 m2 => [|r1 rs1 IH] [|r2 rs2] //= /andP [p q] /andP [u us]; rewrite (perm_uniq p) u (IH _ q us). Qed.

Variable m0 : seq (seq T).
Hypothesis U0 : all uniq m0.
Variable extreme : seq (seq T) -> bool.
Let space := prod_draws (row_sizes m0).

Definition rows_out m (t : seq nat) : seq (seq T) := if permute_rows m t is Ok mt then mt.1 else [::].
Let a := count (fun t => extreme (rows_out m0 t)) space.

Lemma rows_rest : forall m t rest m', t \in prod_draws (row_sizes m) ->
  permute_rows m t = Ok (m', [::]) -> permute_rows m (t ++ rest) = Ok (m', rest).
Proof.
elim=> [|r rs IH] t rest m' /=.
  by rewrite inE => /eqP -> [<-].
case/allpairsP => [[d t'] /= [din tin ->]]; rewrite -catA !permute_T //=.
have [x Ex _] := rows_total [::] tin; rewrite cats0 in Ex.
by rewrite Ex (IH _ rest _ tin Ex) /= => [[<-]].
Qed.

Lemma rows_out_ok m t rest : rowwise_perm m0 m -> t \in space ->
  permute_rows m (t ++ rest) = Ok (rows_out m t, rest) /\ rowwise_perm m0 (rows_out m t).
Proof.
move=> pm tin; have tin' : t \in prod_draws (row_sizes m) by rewrite (rowwise_sizes pm).
have [m2 E2 p2] := rows_total [::] tin'; rewrite cats0 in E2.
by rewrite /rows_out E2 /= (rows_rest rest tin' E2); split=> //; apply: rowwise_trans pm p2.
Qed.

(* from every matrix of the chain, the extreme outcomes are hit by the same number of answers *)
Lemma rows_hits_const m : rowwise_perm m0 m -> count (fun t => extreme (rows_out m t)) space = a.
Proof.
move=> pm; rewrite /a -(count_map (rows_out m) extreme space) -(count_map (rows_out m0) extreme space); apply/permP.
have Um : all uniq m := rowwise_uniq pm U0.
have szm : prod_draws (row_sizes m) = space by rewrite /space (rowwise_sizes pm).
have out_ok m' (pm' : rowwise_perm m0 m') t : t \in space -> permute_rows m' t = Ok (rows_out m' t, [::]).
  by move=> tin; have [] := rows_out_ok [::] pm' tin; rewrite cats0.
apply: uniq_perm.
- rewrite map_inj_in_uniq; first exact: prod_draws_uniq.
  move=> t t' tin tin' e; apply: (@rows_inj _ m t t' (rows_out m t) Um); rewrite ?szm //; first exact: out_ok.
  by rewrite e; exact: out_ok.
- rewrite map_inj_in_uniq; first exact: prod_draws_uniq.
  move=> t t' tin tin' e; apply: (@rows_inj _ m0 t t' (rows_out m0 t) U0) => //; first exact: (out_ok _ (rowwise_refl m0)).
  by rewrite e; exact: (out_ok _ (rowwise_refl m0)).
- move=> x; apply/mapP/mapP => [[t tin ->]|[t tin ->]].
  + have [_ px] := rows_out_ok [::] pm tin.
    have [t' tin' E] := rows_surj U0 px; exists t' => //.
    by rewrite /rows_out E.
  + have [_ px] := rows_out_ok [::] (rowwise_refl m0) tin.
    have pmx : rowwise_perm m (rows_out m0 t) := rowwise_trans (rowwise_sym pm) px.
    have [t' tin' E] := rows_surj Um pmx; exists t'; first by rewrite -szm.
    by rewrite /rows_out E.
Qed.

Lemma rows_chain_flatten r : forall m ds, rowwise_perm m0 m -> ds \in tuples space r ->
  exists2 rows, rows_chain m r (flatten ds) = Ok (rows, [::]) &
    count extreme rows = nhits rows_out (fun s t => extreme (rows_out s t)) m ds.
Proof.
elim: r => [|r IH] m ds pm.
  by rewrite inE => /eqP ->; exists [::].
rewrite tuplesS => /allpairsP [[d ds'] /= [din dsin ->]] /=.
have [E pm'] := rows_out_ok (flatten ds') pm din.
have [rows Er Ec] := IH _ _ pm' dsin.
by exists (rows_out m d :: rows); rewrite ?E /= ?Er //= Ec.
Qed.

Theorem rows_chain_binomial r h m : rowwise_perm m0 m ->
  count (fun ds => count extreme (if rows_chain m r (flatten ds) is Ok rt then rt.1 else [::]) == h) (tuples space r)
  = 'C(r, h) * a ^ h * (size space - a) ^ (r - h).
Proof.
move=> pm.
have okall : all (fun t => t \in space) space by apply/allP.
have inv_step : forall s d, d \in space -> rowwise_perm m0 s -> rowwise_perm m0 (rows_out s d).
  by move=> s d din ps; have [] := rows_out_ok [::] ps din.
have := @hits_binomial_chain (seq (seq T)) (seq nat) rows_out (fun s t => extreme (rows_out s t))
          space (fun s => rowwise_perm m0 s) (fun t => t \in space) okall inv_step a (fun s ps => rows_hits_const ps) r m h pm.
move=> <-; rewrite /N.
apply: eq_in_count => ds dsin.
by have [rows -> <-] := rows_chain_flatten pm dsin.
Qed.
End Chain.
