(* permute_within_groups never moves anything between strata (C02, C03): for every tape on which it returns,
   the output is the input read through a permutation sigma of the positions with group[sigma i] = group[i]. *)
From Coq Require Import ZArith.
From PV Require Import Lib.Base Model.Prng Model.Core Model.Stratified.
From mathcomp Require Import all_ssreflect zify.
From PV Require Import Lib.Shuffle Lib.ShuffleTape.
Local Open Scope nat_scope.
Set Implicit Arguments. Unset Strict Implicit. Unset Printing Implicit Defensive.

Lemma positions_ok (m : seq bool) : uniq (positions m) /\ all (fun i => i < size m) (positions m).
Proof.
rewrite /positions; split; first by rewrite filter_uniq // iota_uniq.
by apply/allP => i; rewrite mem_filter mem_iota add0n => /andP [_ /andP [_ ]].
Qed.
Lemma mem_positions (m : seq bool) i : (i \in positions m) = (i < size m) && nth false m i.
Proof. by rewrite /positions mem_filter mem_iota add0n /= andbC. Qed.

Section Scatter.
Variable T : Type.
Variable d : T.

Lemma size_scatter (x : seq T) pos v : all (fun i => i < size x) pos -> size (scatter d x pos v) = size x.
Proof.
elim: pos x v => [|i pos IH] x [|b v] //= /andP [ix al].
have szs : size (set_nth d x i b) = size x by rewrite size_set_nth; apply/maxn_idPr.
by rewrite IH ?szs //; apply: sub_all al => j jx; rewrite szs.
Qed.

(* positions not written keep their value *)
Lemma nth_scatter_out (x : seq T) pos v i : i \notin pos -> nth d (scatter d x pos v) i = nth d x i.
Proof.
elim: pos x v => [|j pos IH] x [|b v] //=; rewrite inE negb_or => /andP [ij ip].
by rewrite IH // nth_set_nth /= (negbTE ij).
Qed.

(* the k-th written position receives the k-th value *)
Lemma nth_scatter_in (x : seq T) pos v k : uniq pos -> size v = size pos -> k < size pos ->
  nth d (scatter d x pos v) (nth 0 pos k) = nth d v k.
Proof.
elim: pos x v k => [|j pos IH] x [|b v] //= k /andP [jp Up] [sz].
case: k => [|k] /= klt; last exact: IH.
by rewrite nth_scatter_out // nth_set_nth /= eqxx.
Qed.
End Scatter.

(* the same transformation on any relabelling of the values: pwg acts on positions *)
Lemma gather_map (T U : Type) (f : T -> U) d (x : seq T) pos : all (fun i => i < size x) pos ->
  gather (f d) (map f x) pos = map f (gather d x pos).
Proof. move=> al; rewrite /gather -map_comp; apply/eq_in_map => i ip /=; by rewrite (nth_map d) //; move/allP: al; apply. Qed.
Lemma scatter_map (T U : Type) (f : T -> U) d (x : seq T) pos v : all (fun i => i < size x) pos ->
  scatter (f d) (map f x) pos (map f v) = map f (scatter d x pos v).
Proof.
elim: pos x v => [|i pos IH] x [|b v] //= /andP [ix al].
have szs : size (set_nth d x i b) = size x by rewrite size_set_nth; apply/maxn_idPr.
rewrite -IH; last by apply: sub_all al => j jx; rewrite szs.
by rewrite (map_set_nth f) //.
Qed.

Section Count.
Variable T : eqType.
Variable d : T.
Lemma count_set_nth (x : seq T) i b a : i < size x ->
  count_mem a (set_nth d x i b) + (nth d x i == a) = count_mem a x + (b == a).
Proof.
elim: x i => // c x IH [|i] /= ilt.
  by move: (b == a) (c == a) (count_mem a x) => [] [] k /=; lia.
have := IH i ilt.
by move: (c == a) (nth d x i == a) (b == a) (count_mem a _) (count_mem a x) => [] [] [] k1 k2 /=; lia.
Qed.
Lemma scatter_count (pos : seq nat) : forall (v x : seq T), uniq pos -> all (fun i => i < size x) pos ->
  size v = size pos -> forall a,
  count_mem a (scatter d x pos v) + count_mem a (gather d x pos) = count_mem a x + count_mem a v.
Proof.
elim: pos => [|i pos IH] v x.
  by move=> _ _ /size0nil -> a /=; rewrite !addn0.
case: v => // b v /= /andP [ni Up] /andP [ix al] [sz] a.
have al' : all (fun j => j < size (set_nth d x i b)) pos.
  by apply: sub_all al => j jx; rewrite size_set_nth; apply: leq_trans jx (leq_maxr _ _).
have := IH v (set_nth d x i b) Up al' sz a.
have gsame : gather d (set_nth d x i b) pos = gather d x pos.
  rewrite /gather; apply/eq_in_map => j jin; rewrite nth_set_nth /=; case: eqP => // e; by rewrite -e jin in ni.
rewrite gsame; have := count_set_nth b a ix.
move: (count_mem a (scatter _ _ _ _)) (count_mem a (gather _ _ _)) (count_mem a (set_nth _ _ _ _)) (count_mem a x) (count_mem a v) => c1 c2 c3 c4 c6.
move: (nth d x i == a) (b == a) => [] [] /=; lia.
Qed.
Lemma scatter_perm (pos : seq nat) (x v : seq T) : uniq pos -> all (fun i => i < size x) pos ->
  size v = size pos -> perm_eq v (gather d x pos) -> perm_eq (scatter d x pos v) x.
Proof.
move=> Up al sz pv; apply/allP => a _ /=.
have := scatter_count Up al sz a; move/permP: pv => /(_ (pred1 a)) /= ->.
by move=> /eqP; rewrite eqn_add2r.
Qed.
End Count.

(* ---- the index form: run permute_within_groups on the positions 0..n-1 ---- *)
Definition stratum_ok (g : seq Z) (sigma : seq nat) : Prop :=
  forall i, i < size sigma -> nth 0%Z g (nth 0 sigma i) = nth 0%Z g i.

Lemma mask_nth (g : seq Z) k i : i < size g -> nth false (mask_of g k) i = (nth 0%Z g i =? k)%Z.
Proof. by move=> ig; rewrite /mask_of (nth_map 0%Z). Qed.

Lemma pwg_loop_index (g : seq Z) : forall labels (sg : seq nat) t sg' t',
  size sg = size g -> perm_eq sg (iota 0 (size g)) -> stratum_ok g sg ->
  pwg_loop 0 sg g labels t = Ok (sg', t') ->
  [/\ size sg' = size g, perm_eq sg' (iota 0 (size g)) & stratum_ok g sg'].
Proof.
elim=> [|k ks IH] sg t sg' t' sz psg sok /=; first by case=> <- _.
case E: (permute _ t) => [[v t1]|] //= H.
have [Up al] := positions_ok (mask_of g k).
set pos := positions (mask_of g k) in E H Up al.
have al' : all (fun i => i < size sg) pos by apply: sub_all al => i; rewrite /mask_of size_map sz.
have [sgm [psgm ev _]] := permute_is_rearrangement 0 E.
have szv : size v = size pos by rewrite ev size_map (perm_size psgm) size_iota /gather size_map.
have pv : perm_eq v (gather 0 sg pos).
  rewrite ev; have := perm_map (nth 0 (gather 0 sg pos)) psgm; by rewrite map_nth_iota0 // take_size.
apply: (IH _ _ _ _ _ _ _ H).
- by rewrite size_scatter.
- (* multiset of indices conserved *)
  apply: perm_trans psg; exact: scatter_perm.
- (* strata respected *)
  move=> i; rewrite size_scatter // => isz.
  case ip: (i \in pos); last by rewrite nth_scatter_out ?ip //; exact: sok.
  have ig : i < size g by rewrite -sz.
  have gk : nth 0%Z g i = k.
    by move: ip; rewrite mem_positions => /andP [_]; rewrite mask_nth // => /Z.eqb_spec.
  have [kk kklt ek] : exists2 kk, kk < size pos & nth 0 pos kk = i.
    by exists (index i pos); rewrite ?index_mem // nth_index.
  rewrite -ek nth_scatter_in // ek gk.
  (* the value written is one of the gathered ones: an index whose stratum is k *)
  have vin : nth 0 v kk \in gather 0 sg pos by rewrite -(perm_mem pv) mem_nth // szv.
  case/mapP: vin => j jpos ->.
  have jsz : j < size sg by move/allP: al'; apply.
  rewrite sok //; move: jpos; rewrite mem_positions => /andP [jg]; rewrite mask_nth //; last by rewrite -sz.
  by move/Z.eqb_spec.
Qed.

Theorem pwg_index (g : seq Z) t sg t' :
  permute_within_groups 0 (iota 0 (size g)) g t = Ok (sg, t') ->
  [/\ size sg = size g, perm_eq sg (iota 0 (size g)) & stratum_ok g sg].
Proof.
apply: pwg_loop_index; rewrite ?size_iota //.
by move=> i; rewrite size_iota => ig; rewrite nth_iota.
Qed.

(* ---- naturality: permute_within_groups acts on positions, whatever the values ---- *)
From PV Require Import Proofs.RearrangeProofs.

Lemma pwg_loop_map (T U : Type) (f : T -> U) (d : T) (g : seq Z) : forall labels (x : seq T) t,
  size x = size g ->
  pwg_loop (f d) (map f x) g labels t =
  match pwg_loop d x g labels t with Ok yt => Ok (map f yt.1, yt.2) | Err e => Err e end.
Proof.
elim=> [|k ks IH] x t sz //=.
have [Up al] := positions_ok (mask_of g k).
have al' : all (fun i => i < size x) (positions (mask_of g k)) by apply: sub_all al => i; rewrite /mask_of size_map sz.
rewrite gather_map // permute_map.
case E: (permute _ t) => [[v t1]|] //=.
rewrite scatter_map // IH // size_scatter //.
Qed.

(* the default element is never used when the positions are in range *)
Lemma nth_dflt (T : Type) (d d' : T) (s : seq T) i : i < size s -> nth d s i = nth d' s i.
Proof. by elim: s i => // a s IH [|i] //= /IH. Qed.
Lemma set_nth_dflt (T : Type) (d d' : T) (s : seq T) i b : i < size s -> set_nth d s i b = set_nth d' s i b.
Proof. by elim: s i => // a s IH [|i] //= ilt; rewrite (IH i). Qed.
Lemma gather_dflt (T : Type) (d d' : T) (x : seq T) pos : all (fun i => i < size x) pos -> gather d x pos = gather d' x pos.
Proof. move=> al; apply/eq_in_map => i ip; apply: nth_dflt; by move/allP: al; apply. Qed.
Lemma scatter_dflt (T : Type) (d d' : T) (x : seq T) pos v : all (fun i => i < size x) pos ->
  scatter d x pos v = scatter d' x pos v.
Proof.
elim: pos x v => [|i pos IH] x [|b v] //= /andP [ix al].
rewrite (set_nth_dflt d d') // IH //.
by apply: sub_all al => j jx; rewrite size_set_nth; apply: leq_trans jx (leq_maxr _ _).
Qed.
Lemma pwg_loop_dflt (T : Type) (d d' : T) (g : seq Z) : forall labels (x : seq T) t, size x = size g ->
  pwg_loop d x g labels t = pwg_loop d' x g labels t.
Proof.
elim=> [|k ks IH] x t sz //=.
have [Up al] := positions_ok (mask_of g k).
have al' : all (fun i => i < size x) (positions (mask_of g k)) by apply: sub_all al => i; rewrite /mask_of size_map sz.
rewrite (gather_dflt d d') //; case: (permute _ t) => [[v t1]|] //=.
by rewrite (scatter_dflt d d') // IH // size_scatter.
Qed.

Theorem pwg_acts_on_positions (T : Type) (x0 : T) (x : seq T) (g : seq Z) t : size x = size g ->
  permute_within_groups x0 x g t =
  match permute_within_groups 0 (iota 0 (size g)) g t with
  | Ok st => Ok ([seq nth x0 x i | i <- st.1], st.2)
  | Err e => Err e
  end.
Proof.
move=> sz; rewrite /permute_within_groups.
have := @pwg_loop_map nat T (nth x0 x) 0 g (unique g) (iota 0 (size g)) t.
rewrite size_iota -sz map_nth_iota0 // take_size => <- //.
exact: pwg_loop_dflt.
Qed.

(* every Ok result of permute_within_groups: same length, read through a permutation of positions that keeps
   every position inside its own stratum *)
Theorem pwg_within_strata (T : Type) (x0 : T) (x : seq T) (g : seq Z) t y t' : size x = size g ->
  permute_within_groups x0 x g t = Ok (y, t') ->
  exists sigma, [/\ perm_eq sigma (iota 0 (size g)), stratum_ok g sigma & y = [seq nth x0 x i | i <- sigma]].
Proof.
move=> sz; rewrite pwg_acts_on_positions //.
case E: (permute_within_groups 0 _ g t) => [[sg t1]|] //= [<- _].
have [_ p s] := pwg_index E; by exists sg.
Qed.
