(* C08: npc is symmetric under relabelling of the partial tests (a permutation of the columns of distr applied
   to the observed p-values as well), for the symmetric combining functions Fisher, Liptak and Tippett. *)
From PV Require Import Lib.Base Model.Npc Proofs.QLemmas Proofs.NpcProofs.
From Coq Require Import Lqa Lia Permutation.
Open Scope Q_scope.

(* ---- combiners are invariant (up to ==) under permutations of their argument ---- *)
Lemma qsum_perm l l' : Permutation l l' -> qsum l == qsum l'.
Proof.
  unfold qsum. induction 1 as [|a l l' H IH|a b l|l l' l'' H1 IH1 H2 IH2]; cbn [fold_right].
  - reflexivity.
  - rewrite IH. reflexivity.
  - ring.
  - rewrite IH1. exact IH2.
Qed.
Lemma qprod_perm l l' : Permutation l l' -> qprod l == qprod l'.
Proof.
  unfold qprod. induction 1 as [|a l l' H IH|a b l|l l' l'' H1 IH1 H2 IH2]; cbn [fold_right].
  - reflexivity.
  - rewrite IH. reflexivity.
  - ring.
  - rewrite IH1. exact IH2.
Qed.

Lemma fl_max_ge : forall t a v, (v = a \/ In v t) -> v <= fold_left Qmax t a.
Proof.
  induction t as [|b t IH]; intros a v H; cbn [fold_left].
  - destruct H as [->|[]]. apply Qle_refl.
  - destruct (Qmax_spec a b) as [[Hab E]|[Hab E]]; rewrite E.
    + destruct H as [->|[->|H]]; [apply Qle_trans with b; [exact Hab|apply IH; left; reflexivity]|apply IH; left; reflexivity|apply IH; right; exact H].
    + destruct H as [->|[->|H]]; [apply IH; left; reflexivity|apply Qle_trans with a; [lra|apply IH; left; reflexivity]|apply IH; right; exact H].
Qed.
Lemma fl_max_in : forall t a, fold_left Qmax t a = a \/ In (fold_left Qmax t a) t.
Proof.
  induction t as [|b t IH]; intros a; cbn [fold_left]; [left; reflexivity|].
  destruct (Qmax_spec a b) as [[Hab E]|[Hab E]]; rewrite E.
  - destruct (IH b) as [-> | H]; [right; left; reflexivity|right; right; exact H].
  - destruct (IH a) as [-> | H]; [left; reflexivity|right; right; exact H].
Qed.
Lemma qmaxl1_ge l v : In v l -> v <= qmaxl1 l.
Proof. destruct l as [|a t]; [intros []|]. intros [<-|H]; apply fl_max_ge; [left; reflexivity|right; exact H]. Qed.
Lemma qmaxl1_in l : l <> [] -> In (qmaxl1 l) l.
Proof. destruct l as [|a t]; [congruence|]. intros _. cbn [qmaxl1]. destruct (fl_max_in t a) as [-> | H]; [left; reflexivity|right; exact H]. Qed.
Lemma qmaxl1_perm l l' : Permutation l l' -> qmaxl1 l == qmaxl1 l'.
Proof.
  intros H. destruct l as [|a t].
  - apply Permutation_nil in H. subst. reflexivity.
  - assert (N : a :: t <> []) by congruence.
    assert (N' : l' <> []) by (intros ->; apply Permutation_sym in H; apply Permutation_nil in H; congruence).
    apply Qle_antisym; apply qmaxl1_ge.
    + apply (Permutation_in _ H). apply qmaxl1_in. exact N.
    + apply (Permutation_in _ (Permutation_sym H)). apply qmaxl1_in. exact N'.
Qed.

Definition symmetric (c : comb) : bool := match c with Fisher | Liptak _ | Tippett => true | _ => false end.

Lemma psi_perm c l l' : symmetric c = true -> Permutation l l' -> psi c l == psi c l'.
Proof.
  intros Hs H. destruct c; try discriminate; cbn [psi].
  - apply qprod_perm. exact H.
  - apply qsum_perm. apply Permutation_map. exact H.
  - apply qmaxl1_perm. apply Permutation_map. exact H.
Qed.

(* ---- reading a row through a permutation of its positions ---- *)
Lemma take_cols_seq (r : list Q) : take_cols (seq 0 (length r)) r = r.
Proof.
  unfold take_cols. apply nth_ext with (d := 0) (d' := 0); [rewrite map_length, seq_length; reflexivity|].
  intros k Hk. rewrite map_length, seq_length in Hk.
  rewrite (nth_indep _ 0 (nth 0 r 0)) by (rewrite map_length, seq_length; exact Hk).
  rewrite (map_nth (fun j => nth j r 0) (seq 0 (length r)) 0%nat k). rewrite seq_nth by exact Hk. reflexivity.
Qed.
Lemma take_cols_perm ord (r : list Q) : Permutation ord (seq 0 (length r)) -> Permutation (take_cols ord r) r.
Proof.
  intros H. rewrite <- (take_cols_seq r) at 2. unfold take_cols. apply Permutation_map. exact H.
Qed.
Lemma take_cols_length ord (r : list Q) : length (take_cols ord r) = length ord.
Proof. unfold take_cols. apply map_length. Qed.
Lemma nth_take_cols ord (r : list Q) k : (k < length ord)%nat -> nth k (take_cols ord r) 0 = nth (nth k ord 0%nat) r 0.
Proof.
  intros Hk. unfold take_cols.
  rewrite (nth_indep _ 0 (nth 0%nat r 0)) by (rewrite map_length; exact Hk).
  apply (map_nth (fun j => nth j r 0) ord 0%nat k).
Qed.

Lemma column_take_cols ord distr k : (k < length ord)%nat ->
  column (map (take_cols ord) distr) k = column distr (nth k ord 0%nat).
Proof.
  intros Hk. unfold column. rewrite map_map. apply map_ext. intros r. apply nth_take_cols. exact Hk.
Qed.

(* the table of row p-values of the relabelled matrix is the relabelled table *)
Lemma row_pvalues_take_cols ord distr n cc : length ord = n -> (forall j, In j ord -> (j < n)%nat) ->
  row_pvalues (map (take_cols ord) distr) n cc = map (take_cols ord) (row_pvalues distr n cc).
Proof.
  intros Hl Hr. unfold row_pvalues. cbv zeta. rewrite map_length, !map_map. apply map_ext. intros r.
  apply nth_ext with (d := 0) (d' := 0); [rewrite take_cols_length, map_length, seq_length; congruence|].
  intros k Hk. rewrite map_length, seq_length in Hk.
  rewrite nth_take_cols by lia.
  set (f := fun (row : list Q) (dd : list (list Q)) j => (qn (length distr) - qn (S (count_lt (column dd j) (nth j row 0))) + 1 + 2 * qn cc) / (qn cc + qn (length distr))).
  change (nth k (map (f (take_cols ord r) (map (take_cols ord) distr)) (seq 0 n)) 0 = nth (nth k ord 0%nat) (map (f r distr) (seq 0 n)) 0).
  assert (Ho : (nth k ord 0%nat < n)%nat) by (apply Hr; apply nth_In; lia).
  rewrite (nth_indep _ 0 (f (take_cols ord r) (map (take_cols ord) distr) 0%nat)) by (rewrite map_length, seq_length; exact Hk).
  rewrite (map_nth (f (take_cols ord r) (map (take_cols ord) distr)) (seq 0 n) 0%nat k), seq_nth by exact Hk.
  rewrite (nth_indep _ 0 (f r distr 0%nat)) by (rewrite map_length, seq_length; exact Ho).
  rewrite (map_nth (f r distr) (seq 0 n) 0%nat), seq_nth by exact Ho.
  cbn [plus]. unfold f. rewrite column_take_cols, nth_take_cols by lia. reflexivity.
Qed.

Lemma clip_take_cols c ord rows : (forall r, In r rows -> forall j, In j ord -> (j < length r)%nat) ->
  clip_liptak c (map (take_cols ord) rows) = map (take_cols ord) (clip_liptak c rows).
Proof.
  intros Hr. destruct c; cbn [clip_liptak]; try reflexivity.
  rewrite !map_map. apply map_ext_in. intros r Hin. unfold take_cols. rewrite map_map. apply map_ext_in. intros j Hj.
  set (g := fun p : Q => if Qle_bool 1 p then 1 - eps else p).
  rewrite (nth_indep (map g r) 0 (g 0)) by (rewrite map_length; apply (Hr r Hin j Hj)).
  symmetry. apply (map_nth g r 0 j).
Qed.

Lemma stat_ge_compat c s s' t t' : s == s' -> t == t' -> stat_ge c s t = stat_ge c s' t'.
Proof.
  intros E1 E2. assert (X : forall a b a' b', a == a' -> b == b' -> Qle_bool a b = Qle_bool a' b').
  { intros a b a' b' Ea Eb. destruct (Qle_bool a b) eqn:H1; destruct (Qle_bool a' b') eqn:H2; try reflexivity.
    - apply Qle_bool_iff in H1. rewrite Ea, Eb in H1. apply Qle_bool_iff in H1. congruence.
    - apply Qle_bool_iff in H2. rewrite <- Ea, <- Eb in H2. apply Qle_bool_iff in H2. congruence. }
  destruct c; cbn [stat_ge]; auto.
Qed.

Lemma row_pvalues_lengths distr n cc r : In r (row_pvalues distr n cc) -> length r = n.
Proof.
  unfold row_pvalues. intros H. apply in_map_iff in H as [r0 [<- _]]. rewrite map_length, seq_length. reflexivity.
Qed.
Lemma clip_lengths c rows n : (forall r, In r rows -> length r = n) -> forall r, In r (clip_liptak c rows) -> length r = n.
Proof.
  intros H r Hin. destruct c; cbn [clip_liptak] in Hin; try (apply H; exact Hin).
  apply in_map_iff in Hin as [r0 [<- Hr0]]. rewrite map_length. apply H. exact Hr0.
Qed.

(* ---- the theorem ---- *)
Theorem npc_relabel c p distr plus1 ord :
  symmetric c = true -> Permutation ord (seq 0 (length p)) ->
  forallb (fun r => Nat.eqb (length r) (length p)) distr = true ->
  npc (take_cols ord p) (map (take_cols ord) distr) c plus1 = npc p distr c plus1.
Proof.
  intros Hs Hperm Hrows. unfold npc.
  assert (Hlo : length ord = length p) by (rewrite (Permutation_length Hperm), seq_length; reflexivity).
  assert (Hin : forall j, In j ord -> (j < length p)%nat).
  { intros j Hj. apply (Permutation_in _ Hperm) in Hj. apply in_seq in Hj. lia. }
  rewrite take_cols_length, Hlo, map_length.
  destruct (length p <? 2)%nat; [reflexivity|].
  assert (E1 : forallb (fun r => Nat.eqb (length r) (length p)) (map (take_cols ord) distr) = true).
  { apply forallb_forall. intros r Hr. apply in_map_iff in Hr as [r0 [<- _]]. rewrite take_cols_length, Hlo. apply Nat.eqb_refl. }
  rewrite E1, Hrows. cbn [negb].
  assert (Ec : is_callable c = false) by (destruct c; try discriminate; reflexivity).
  rewrite Ec. cbn [andb].
  set (cc := if plus1 then 1%nat else 0%nat).
  rewrite (row_pvalues_take_cols ord distr (length p) cc Hlo Hin).
  assert (Hlen : forall r, In r (row_pvalues distr (length p) cc) -> length r = length p) by (intros r; apply row_pvalues_lengths).
  rewrite clip_take_cols by (intros r Hr j Hj; rewrite (Hlen r Hr); apply Hin; exact Hj).
  assert (Hlen' := clip_lengths c _ _ Hlen).
  set (rows := clip_liptak c (row_pvalues distr (length p) cc)) in *.
  assert (Eh : length (filter (fun r => stat_ge c (psi c r) (psi c (take_cols ord p))) (map (take_cols ord) rows))
             = length (filter (fun r => stat_ge c (psi c r) (psi c p)) rows)).
  { rewrite filter_map_length. f_equal. apply filter_ext_in. intros r Hr.
    apply stat_ge_compat; apply psi_perm; try exact Hs; apply take_cols_perm.
    - rewrite (Hlen' r Hr). exact Hperm.
    - exact Hperm. }
  rewrite Eh. reflexivity.
Qed.
